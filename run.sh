#!/bin/sh
# usage: ./run.sh <property-id> quick|thorough     (or: ./run.sh <property-id> --replay <violation.json>)
# Rebuilds the checker when its sources are newer than the binary, then analyses /repo's
# current working tree. Nothing in /repo is executed.
set -e
cd "$(dirname "$0")"
export GOFLAGS=-mod=mod GOPROXY=off GOSUMDB=off GOTOOLCHAIN=local GOWORK=off
BIN=checker/bin/mambacheck
if [ ! -x "$BIN" ] || [ -n "$(find checker -name '*.go' -newer "$BIN" -not -path 'checker/testdata/*' 2>/dev/null | head -1)" ]; then
	(cd checker && go build -o bin/mambacheck .)
fi
exec "$BIN" "$@"
