package main

// SWAP (C15, C17): every write into a designated state slice is part of an in-place
// permutation of its cells, so the multiset of elements is invariant.

import (
	"fmt"
	"go/ast"
	"go/token"
	"go/types"
	"strings"

	"golang.org/x/tools/go/packages"
	"golang.org/x/tools/go/ssa"
)

type swapSpec struct {
	pkgRel      string
	fn          string // "Sort", "PermutationIterator.Next"
	param       string // slot = this parameter ...
	field       string // ... or this field of the receiver's struct type
	mayReassign bool
}

type swapChecker struct {
	c       *Ctx
	r       *RuleResult
	pkg     *packages.Package
	fd      *ast.FuncDecl
	name    string
	slots   map[types.Object]bool // param object, field object, local aliases
	peers   map[*types.Func]int   // functions in the rule's scope -> index of their slot parameter
	par     map[ast.Node]ast.Node
	sfn     *ssa.Function
	pr      *Prover
	visited map[*types.Func]bool
}

// exprEq: structural equality of call-free typed expressions.
func (s *swapChecker) exprEq(a, b ast.Expr) bool {
	a, b = ast.Unparen(a), ast.Unparen(b)
	switch x := a.(type) {
	case *ast.Ident:
		y, ok := b.(*ast.Ident)
		if !ok {
			return false
		}
		ox, oy := s.pkg.TypesInfo.ObjectOf(x), s.pkg.TypesInfo.ObjectOf(y)
		return ox != nil && ox == oy
	case *ast.BasicLit:
		y, ok := b.(*ast.BasicLit)
		return ok && x.Kind == y.Kind && x.Value == y.Value
	case *ast.BinaryExpr:
		y, ok := b.(*ast.BinaryExpr)
		return ok && x.Op == y.Op && s.exprEq(x.X, y.X) && s.exprEq(x.Y, y.Y)
	case *ast.UnaryExpr:
		y, ok := b.(*ast.UnaryExpr)
		return ok && x.Op == y.Op && x.Op != token.ARROW && s.exprEq(x.X, y.X)
	case *ast.SelectorExpr:
		y, ok := b.(*ast.SelectorExpr)
		return ok && s.pkg.TypesInfo.ObjectOf(x.Sel) == s.pkg.TypesInfo.ObjectOf(y.Sel) && s.exprEq(x.X, y.X)
	case *ast.IndexExpr:
		y, ok := b.(*ast.IndexExpr)
		return ok && s.exprEq(x.X, y.X) && s.exprEq(x.Index, y.Index)
	case *ast.StarExpr:
		y, ok := b.(*ast.StarExpr)
		return ok && s.exprEq(x.X, y.X)
	}
	return false
}

func callFree(e ast.Expr) bool {
	ok := true
	ast.Inspect(e, func(n ast.Node) bool {
		switch x := n.(type) {
		case *ast.CallExpr, *ast.FuncLit:
			ok = false
		case *ast.UnaryExpr:
			if x.Op == token.ARROW {
				ok = false
			}
		}
		return ok
	})
	return ok
}

// isSlot: does e denote the state slice (or an alias / reslice of it)?
func (s *swapChecker) isSlot(e ast.Expr) bool {
	e = ast.Unparen(e)
	switch x := e.(type) {
	case *ast.Ident:
		return s.slots[s.pkg.TypesInfo.ObjectOf(x)]
	case *ast.SelectorExpr:
		return s.slots[s.pkg.TypesInfo.ObjectOf(x.Sel)]
	case *ast.SliceExpr:
		return s.isSlot(x.X)
	}
	return false
}

func (s *swapChecker) slotCell(e ast.Expr) (*ast.IndexExpr, bool) {
	ix, ok := ast.Unparen(e).(*ast.IndexExpr)
	if !ok || !s.isSlot(ix.X) {
		return nil, false
	}
	return ix, true
}

func (s *swapChecker) bad(n ast.Node, what, format string, a ...interface{}) {
	s.r.find(s.name+":"+what, s.c.pos(n.Pos()), format, a...)
}

func (s *swapChecker) render(e ast.Expr) string { return types.ExprString(e) }

// distinct proves that two cell indices differ at run time, or are syntactically equal.
func (s *swapChecker) distinctOrEqual(a, b *ast.IndexExpr) bool {
	if s.exprEq(a.Index, b.Index) && s.exprEq(a.X, b.X) {
		return true
	}
	// constant offset of the same base
	if ba, ca, ok := linForm(s, a.Index); ok {
		if bb, cb, ok := linForm(s, b.Index); ok && ca != cb && ((ba == nil && bb == nil) || (ba != nil && bb != nil && s.exprEq(ba, bb))) {
			return true
		}
	}
	// E-PROVE on the SSA index values
	va, vb := s.ssaIndex(a), s.ssaIndex(b)
	if va == nil || vb == nil {
		return false
	}
	pa, pb := s.pr.poly(va.Index), s.pr.poly(vb.Index)
	blk := va.Block()
	if !blk.Dominates(vb.Block()) {
		blk = vb.Block()
	}
	blk = vb.Block()
	if s.pr.Prove(pa.add(pb, -1).add(constP(1), 1), blk) || s.pr.Prove(pb.add(pa, -1).add(constP(1), 1), blk) {
		return true
	}
	return false
}

// linForm splits e into base ± constant.
func linForm(s *swapChecker, e ast.Expr) (ast.Expr, int64, bool) {
	e = ast.Unparen(e)
	if tv, ok := s.pkg.TypesInfo.Types[e]; ok && tv.Value != nil {
		var c int64
		if _, err := fmt.Sscan(tv.Value.ExactString(), &c); err == nil {
			return nil, c, true
		}
	}
	if be, ok := e.(*ast.BinaryExpr); ok && (be.Op == token.ADD || be.Op == token.SUB) {
		if tv, ok := s.pkg.TypesInfo.Types[be.Y]; ok && tv.Value != nil {
			var c int64
			if _, err := fmt.Sscan(tv.Value.ExactString(), &c); err == nil {
				b, c0, ok := linForm(s, be.X)
				if !ok {
					return nil, 0, false
				}
				if be.Op == token.SUB {
					c = -c
				}
				return b, c0 + c, true
			}
		}
	}
	if callFree(e) {
		return e, 0, true
	}
	return nil, 0, false
}

func (s *swapChecker) ssaIndex(ix *ast.IndexExpr) *ssa.IndexAddr {
	if s.sfn == nil {
		return nil
	}
	var fns []*ssa.Function
	fns = append(fns, s.sfn)
	for _, fn := range fns {
		for _, b := range fn.Blocks {
			for _, in := range b.Instrs {
				if ia, ok := in.(*ssa.IndexAddr); ok && ia.Pos() == ix.Lbrack {
					return ia
				}
			}
		}
	}
	return nil
}

// checkPermutation: lhs cells and rhs cells are the same multiset; indices call-free; pairwise distinct-or-equal when k >= 3.
func (s *swapChecker) checkPermutation(as *ast.AssignStmt) {
	k := len(as.Lhs)
	desc := s.render(as.Lhs[0])
	if as.Tok != token.ASSIGN || k != len(as.Rhs) || k < 2 {
		s.r.oblig(false)
		s.bad(as, "store "+desc, "%s: %s is written by a plain assignment, not by a permutation of cells of the state slice", s.name, desc)
		return
	}
	var lc, rc []*ast.IndexExpr
	for i := range as.Lhs {
		l, ok1 := s.slotCell(as.Lhs[i])
		r, ok2 := s.slotCell(as.Rhs[i])
		if !ok1 || !ok2 || !callFree(as.Lhs[i]) || !callFree(as.Rhs[i]) {
			s.r.oblig(false)
			s.bad(as, "store "+desc, "%s: tuple assignment mixes cells of the state slice with other values (%s = %s)", s.name, s.render(as.Lhs[i]), s.render(as.Rhs[i]))
			return
		}
		lc, rc = append(lc, l), append(rc, r)
	}
	used := make([]bool, k)
	for _, l := range lc {
		found := false
		for j, r := range rc {
			if !used[j] && s.exprEq(l, r) {
				used[j] = true
				found = true
				break
			}
		}
		if !found {
			s.r.oblig(false)
			s.bad(as, "store "+desc, "%s: right-hand side of the tuple assignment is not a rearrangement of its left-hand cells (%s has no counterpart)", s.name, s.render(l))
			return
		}
	}
	// a cell assigned twice loses a value
	for i := 0; i < k; i++ {
		for j := i + 1; j < k; j++ {
			if s.exprEq(lc[i], lc[j]) {
				s.r.oblig(false)
				s.bad(as, "store "+desc, "%s: cell %s is assigned twice in one tuple assignment", s.name, s.render(lc[i]))
				return
			}
			if k >= 3 && !s.distinctOrEqual(lc[i], lc[j]) {
				s.r.oblig(false)
				s.bad(as, "store "+desc, "%s: cannot prove %s and %s are different cells; a %d-cycle over coinciding cells loses an element", s.name, s.render(lc[i]), s.render(lc[j]), k)
				return
			}
		}
	}
	s.r.oblig(true)
}

// tempSwap recognises  t := a[i]; a[i] = a[j]; a[j] = t  as three consecutive statements.
func (s *swapChecker) tempSwap(list []ast.Stmt, i int) bool {
	if i+2 >= len(list) {
		return false
	}
	a0, ok0 := list[i].(*ast.AssignStmt)
	a1, ok1 := list[i+1].(*ast.AssignStmt)
	a2, ok2 := list[i+2].(*ast.AssignStmt)
	if !ok0 || !ok1 || !ok2 || len(a0.Lhs) != 1 || len(a1.Lhs) != 1 || len(a2.Lhs) != 1 || len(a0.Rhs) != 1 || len(a1.Rhs) != 1 || len(a2.Rhs) != 1 {
		return false
	}
	t, okT := a0.Lhs[0].(*ast.Ident)
	ci, okI := s.slotCell(a0.Rhs[0])
	l1, okL1 := s.slotCell(a1.Lhs[0])
	cj, okJ := s.slotCell(a1.Rhs[0])
	l2, okL2 := s.slotCell(a2.Lhs[0])
	t2, okT2 := ast.Unparen(a2.Rhs[0]).(*ast.Ident)
	if !okT || !okI || !okL1 || !okJ || !okL2 || !okT2 {
		return false
	}
	if a1.Tok != token.ASSIGN || a2.Tok != token.ASSIGN {
		return false
	}
	if s.pkg.TypesInfo.ObjectOf(t) != s.pkg.TypesInfo.ObjectOf(t2) || s.slots[s.pkg.TypesInfo.ObjectOf(t)] {
		return false
	}
	return s.exprEq(ci, l1) && s.exprEq(cj, l2) && callFree(ci) && callFree(cj)
}

func (s *swapChecker) run() {
	info := s.pkg.TypesInfo
	// parents
	s.par = map[ast.Node]ast.Node{}
	var stack []ast.Node
	ast.Inspect(s.fd.Body, func(n ast.Node) bool {
		if n == nil {
			stack = stack[:len(stack)-1]
			return true
		}
		if len(stack) > 0 {
			s.par[n] = stack[len(stack)-1]
		}
		stack = append(stack, n)
		return true
	})
	// local aliases of the slot (x := slot, x = slot[a:b]) to a fixpoint
	for changed := true; changed; {
		changed = false
		ast.Inspect(s.fd.Body, func(n ast.Node) bool {
			as, ok := n.(*ast.AssignStmt)
			if !ok || len(as.Lhs) != len(as.Rhs) {
				return true
			}
			for i := range as.Lhs {
				id, ok := as.Lhs[i].(*ast.Ident)
				if !ok || !s.isSlot(as.Rhs[i]) {
					continue
				}
				if o := info.ObjectOf(id); o != nil && !s.slots[o] {
					s.slots[o] = true
					changed = true
				}
			}
			return true
		})
	}
	handled := map[ast.Stmt]bool{}
	nStores := 0
	// block-level scan for temp swaps
	ast.Inspect(s.fd.Body, func(n ast.Node) bool {
		var list []ast.Stmt
		switch x := n.(type) {
		case *ast.BlockStmt:
			list = x.List
		case *ast.CaseClause:
			list = x.Body
		}
		for i := range list {
			if s.tempSwap(list, i) {
				handled[list[i]], handled[list[i+1]], handled[list[i+2]] = true, true, true
				nStores++
				s.r.inst("%s: temp-variable swap at %s", s.name, s.render(list[i+1].(*ast.AssignStmt).Lhs[0]))
				s.r.oblig(true)
			}
		}
		return true
	})
	// every occurrence of the slot expression, judged by its context
	ast.Inspect(s.fd.Body, func(n ast.Node) bool {
		e, ok := n.(ast.Expr)
		if !ok || !s.isSlot(e) {
			return true
		}
		// judge only the outermost slot expression (a reslice of the slot is itself a slot)
		p := s.par[n]
		for {
			if pe, ok := p.(*ast.ParenExpr); ok {
				n, p = pe, s.par[pe]
				continue
			}
			break
		}
		if se, ok := p.(*ast.SliceExpr); ok && se.X == n {
			return true // judged at the SliceExpr
		}
		if sel, ok := p.(*ast.SelectorExpr); ok && sel.X == n {
			return true
		}
		switch x := p.(type) {
		case *ast.IndexExpr:
			if x.X != n {
				return false // slot used as an index?? cannot happen for slices
			}
			s.judgeCell(x, handled, &nStores)
		case *ast.CallExpr:
			if id, ok := ast.Unparen(x.Fun).(*ast.Ident); ok {
				if b, ok := info.ObjectOf(id).(*types.Builtin); ok && (b.Name() == "len" || b.Name() == "cap") {
					return false
				}
			}
			// a peer of the rule's scope receiving the slot in its own slot parameter
			var callee *types.Func
			switch f := ast.Unparen(x.Fun).(type) {
			case *ast.Ident:
				callee, _ = info.ObjectOf(f).(*types.Func)
			case *ast.SelectorExpr:
				callee, _ = info.ObjectOf(f.Sel).(*types.Func)
			}
			if callee != nil {
				if pi, ok := s.peers[callee]; ok {
					for ai, a := range x.Args {
						if a == n && ai == pi {
							s.r.inst("%s: passes the state slice to %s (same rule applies there)", s.name, callee.Name())
							return false
						}
					}
				}
			}
			// a helper of the same package: the rule follows the slice into it
			if callee != nil && callee.Pkg() != nil && s.c.ByPath[callee.Pkg().Path()] != nil && (callee.Pkg().Path() == s.c.Mod || strings.HasPrefix(callee.Pkg().Path(), s.c.Mod+"/")) {
				for ai, a := range x.Args {
					if a == n && s.follow(callee, ai) {
						s.r.inst("%s: passes the state slice to helper %s (rule applied there)", s.name, callee.Name())
						return false
					}
				}
			}
			s.r.undecided("%s passes the state slice to %s at %s; that callee is outside the rule's scope", s.name, s.render(x.Fun), s.c.pos(x.Pos()))
		case *ast.AssignStmt:
			for i, l := range x.Lhs {
				if l == n {
					// whole-slice re-assignment
					if i < len(x.Rhs) && s.isSlot(x.Rhs[i]) {
						return false // reslice of itself
					}
					if !s.mayReassign() {
						s.r.oblig(false)
						s.bad(x, "reassigns state slice", "%s re-assigns the state slice %s; its contents are no longer a rearrangement of the initial multiset", s.name, s.render(l))
					}
					return false
				}
			}
			// slot on the right: alias creation (handled above) or stored elsewhere
			for i, rr := range x.Rhs {
				if rr == n {
					if i < len(x.Lhs) {
						if id, ok := x.Lhs[i].(*ast.Ident); ok && s.slots[info.ObjectOf(id)] {
							return false
						}
					}
					s.r.undecided("%s stores the state slice into %s at %s", s.name, s.render(x.Lhs[0]), s.c.pos(x.Pos()))
				}
			}
		case *ast.ReturnStmt:
			s.r.inst("%s: returns the state slice (documented read-only view)", s.name)
		case *ast.RangeStmt:
			if x.X == n {
				return false
			}
		case *ast.BinaryExpr:
			if x.Op == token.EQL || x.Op == token.NEQ {
				return false
			}
			s.r.undecided("%s uses the state slice in %s", s.name, s.render(x))
		default:
			s.r.undecided("%s uses the state slice in an unrecognised context at %s", s.name, s.c.pos(n.Pos()))
		}
		return false
	})
	if nStores == 0 {
		s.r.note("%s: no store into the state slice", s.name)
	}
}

func (s *swapChecker) mayReassign() bool { return false }

// follow applies the rule to a same-package helper that receives the state slice as argument ai.
func (s *swapChecker) follow(callee *types.Func, ai int) bool {
	if s.visited == nil {
		s.visited = map[*types.Func]bool{}
	}
	if s.visited[callee] {
		return true
	}
	var fd *ast.FuncDecl
	cpkg := s.c.ByPath[callee.Pkg().Path()] // the helper may live in another package of the module (ints.Reverse)
	if cpkg == nil {
		return false
	}
	for _, f := range cpkg.Syntax {
		for _, d := range f.Decls {
			if x, ok := d.(*ast.FuncDecl); ok && cpkg.TypesInfo.Defs[x.Name] == types.Object(callee) && x.Body != nil {
				fd = x
			}
		}
	}
	sig := callee.Type().(*types.Signature)
	if fd == nil || ai >= sig.Params().Len() || sig.Variadic() {
		return false
	}
	s.visited[callee] = true
	h := &swapChecker{c: s.c, r: s.r, pkg: cpkg, fd: fd, slots: map[types.Object]bool{sig.Params().At(ai): true}, peers: s.peers, visited: s.visited}
	h.name = cpkg.Name + "." + callee.Name()
	h.sfn = s.c.Prog.FuncValue(callee)
	if h.sfn != nil {
		h.pr = NewProver(s.c, h.sfn)
	}
	h.run()
	return true
}

func (s *swapChecker) judgeCell(ix *ast.IndexExpr, handled map[ast.Stmt]bool, nStores *int) {
	var n ast.Node = ix
	p := s.par[n]
	for {
		if pe, ok := p.(*ast.ParenExpr); ok {
			n, p = pe, s.par[pe]
			continue
		}
		break
	}
	switch x := p.(type) {
	case *ast.AssignStmt:
		onLeft := false
		first := false
		for i, l := range x.Lhs {
			if l == n {
				onLeft = true
				first = i == 0
			}
		}
		if !onLeft || handled[x] {
			return
		}
		// judge each assignment once, at its first state-slice cell on the left
		if !first {
			for _, l := range x.Lhs {
				if _, ok := s.slotCell(l); ok {
					if l == n {
						break
					}
					return
				}
			}
		}
		*nStores++
		s.r.inst("%s: store %s", s.name, s.render(x.Lhs[0]))
		s.checkPermutation(x)
	case *ast.IncDecStmt:
		*nStores++
		s.r.inst("%s: store %s%s", s.name, s.render(ix), x.Tok)
		s.r.oblig(false)
		s.bad(x, "store "+s.render(ix), "%s: %s%s changes an element of the state slice in place", s.name, s.render(ix), x.Tok)
	case *ast.UnaryExpr:
		if x.Op == token.AND {
			s.r.undecided("%s takes the address of %s", s.name, s.render(ix))
		}
	case *ast.RangeStmt:
		if x.Key == n || x.Value == n {
			*nStores++
			s.r.oblig(false)
			s.bad(x, "store "+s.render(ix), "%s: range assigns into %s", s.name, s.render(ix))
		}
	}
}

// ruleSwap applies the rule to the listed functions.
func ruleSwap(c *Ctx, rule, doc string, specs []swapSpec, minInst int) *RuleResult {
	r := &RuleResult{Rule: rule, Doc: doc, MinInst: minInst}
	// peers: slot parameter index of each function in scope
	peers := map[*types.Func]int{}
	type item struct {
		sp  swapSpec
		fd  *ast.FuncDecl
		pkg *packages.Package
	}
	var items []item
	for _, sp := range specs {
		fd, pkg := c.FuncDecl(sp.pkgRel, sp.fn)
		items = append(items, item{sp, fd, pkg})
		if sp.param != "" {
			obj := pkg.TypesInfo.Defs[fd.Name].(*types.Func)
			sig := obj.Type().(*types.Signature)
			found := false
			for i := 0; i < sig.Params().Len(); i++ {
				if sig.Params().At(i).Name() == sp.param {
					peers[obj] = i
					found = true
				}
			}
			if !found {
				failf("%s.%s has no parameter %s", sp.pkgRel, sp.fn, sp.param)
			}
		}
	}
	for _, it := range items {
		s := &swapChecker{c: c, r: r, pkg: it.pkg, fd: it.fd, slots: map[types.Object]bool{}, peers: peers}
		s.name = it.sp.pkgRel[strings.LastIndex(it.sp.pkgRel, "/")+1:] + "." + it.sp.fn
		obj := it.pkg.TypesInfo.Defs[it.fd.Name].(*types.Func)
		s.sfn = c.Prog.FuncValue(obj)
		if s.sfn != nil {
			s.pr = NewProver(c, s.sfn)
		}
		sig := obj.Type().(*types.Signature)
		if it.sp.param != "" {
			for i := 0; i < sig.Params().Len(); i++ {
				if sig.Params().At(i).Name() == it.sp.param {
					s.slots[sig.Params().At(i)] = true
				}
			}
		} else {
			rt := sig.Recv().Type()
			if p, ok := rt.(*types.Pointer); ok {
				rt = p.Elem()
			}
			st, ok := rt.Underlying().(*types.Struct)
			if !ok {
				failf("%s: receiver is not a struct", s.name)
			}
			for i := 0; i < st.NumFields(); i++ {
				if st.Field(i).Name() == it.sp.field {
					s.slots[st.Field(i)] = true
				}
			}
		}
		if len(s.slots) == 0 {
			failf("%s: state slice %s%s not found", s.name, it.sp.param, it.sp.field)
		}
		s.run()
	}
	return r
}
