package main

import (
	"fmt"
	"go/constant"
	"go/token"
	"go/types"
	"sort"

	"golang.org/x/tools/go/ssa"
)

// rootedAt reports whether any of the access paths is rooted at parameter idx.
func rootedAt(aps []AP, idx int) (AP, bool) {
	for _, a := range aps {
		if a.Root == idx {
			return a, true
		}
	}
	return AP{}, false
}

// isCallTo: in is a call to the named function, or to a module function whose every write to its
// receiver (parameter 0) is made by such a call (a wrapper such as a shared "ready()" preamble
// around the lazy initialiser). The receiver must be passed on unchanged.
func isCallTo(in ssa.Instruction, c *Ctx, name string) bool {
	return isCallToD(in, c, name, 0)
}

func isCallToD(in ssa.Instruction, c *Ctx, name string, depth int) bool {
	call, ok := in.(*ssa.Call)
	if !ok {
		return false
	}
	f := call.Call.StaticCallee()
	if f == nil {
		return false
	}
	if c.short(f) == name {
		return true
	}
	if depth > 2 || !c.inModule(f) || f.Blocks == nil || len(f.Params) == 0 || len(call.Call.Args) == 0 {
		return false
	}
	E := c.Eff()
	wrote := false
	for _, b := range f.Blocks {
		for _, in2 := range b.Instrs {
			if _, w := rootedAt(E.InstrWrites(f, in2), 0); !w {
				continue
			}
			wrote = true
			if !isCallToD(in2, c, name, depth+1) {
				return false
			}
			if c2 := in2.(*ssa.Call); len(c2.Call.Args) == 0 || c2.Call.Args[0] != ssa.Value(f.Params[0]) {
				return false
			}
		}
	}
	return wrote
}

// errorReturns lists the return instructions of fn whose last result (type error) is not the nil constant.
func errorReturns(fn *ssa.Function) []*ssa.Return {
	var out []*ssa.Return
	res := fn.Signature.Results()
	if res.Len() == 0 {
		return nil
	}
	ei := res.Len() - 1
	if !types.Identical(res.At(ei).Type(), types.Universe.Lookup("error").Type()) {
		return nil
	}
	for _, b := range fn.Blocks {
		if len(b.Instrs) == 0 {
			continue
		}
		if r, ok := b.Instrs[len(b.Instrs)-1].(*ssa.Return); ok {
			if k, isConst := r.Results[ei].(*ssa.Const); isConst && k.Value == nil {
				continue
			}
			out = append(out, r)
		}
	}
	return out
}

// ruleRejectPure: on every path from entry to a return of a non-nil error, no instruction writes
// memory rooted at the receiver, except calls to the named lazy-initialiser.
func ruleRejectPure(c *Ctx, r *RuleResult, fnName, initName string) {
	fn := c.Fn(fnName)
	E := c.Eff()
	checkUnknown(c, r, fn)
	rets := errorReturns(fn)
	if len(rets) == 0 {
		r.undecided("%s has no error return; REJECT-PURE has nothing to check", fnName)
		return
	}
	for _, ret := range rets {
		r.inst("%s: error return (%s)", fnName, retDesc(ret))
		// blocks that can reach the return
		canReach := map[*ssa.BasicBlock]bool{ret.Block(): true}
		stack := []*ssa.BasicBlock{ret.Block()}
		for len(stack) > 0 {
			b := stack[len(stack)-1]
			stack = stack[:len(stack)-1]
			for _, p := range b.Preds {
				if !canReach[p] {
					canReach[p] = true
					stack = append(stack, p)
				}
			}
		}
		ok := true
		for _, b := range fn.Blocks {
			if !canReach[b] {
				continue
			}
			for _, in := range b.Instrs {
				if initName != "" && isCallTo(in, c, initName) {
					continue
				}
				if ap, bad := rootedAt(E.InstrWrites(fn, in), 0); bad {
					ok = false
					r.find(fnName+":writes "+E.apString(fn, ap)+" before rejecting", c.instrPos(in), "%s may write %s on a path that ends in the error return %s: a rejected call must leave the builder untouched", fnName, E.apString(fn, ap), retDesc(ret))
				}
			}
		}
		r.oblig(ok)
	}
}

func retDesc(ret *ssa.Return) string {
	v := ret.Results[len(ret.Results)-1]
	if call, ok := v.(*ssa.Call); ok && len(call.Call.Args) > 0 {
		if k, ok := call.Call.Args[0].(*ssa.Const); ok && k.Value != nil && k.Value.Kind() == constant.String {
			s := constant.StringVal(k.Value)
			if len(s) > 40 {
				s = s[:40]
			}
			return fmt.Sprintf("%q", s)
		}
	}
	return valName(v)
}

// cmpEdgeImplies evaluates, for an If on `t op c` where t ranges over {-1,0,1}, the set of t values
// on the given edge.
func cmpValuesOnEdge(op token.Token, c int64, constOnLeft bool, truth bool) []int64 {
	var out []int64
	for _, v := range []int64{-1, 0, 1} {
		a, b := v, c
		if constOnLeft {
			a, b = c, v
		}
		var res bool
		switch op {
		case token.EQL:
			res = a == b
		case token.NEQ:
			res = a != b
		case token.LSS:
			res = a < b
		case token.LEQ:
			res = a <= b
		case token.GTR:
			res = a > b
		case token.GEQ:
			res = a >= b
		default:
			return nil
		}
		if res == truth {
			out = append(out, v)
		}
	}
	return out
}

// isLoadOfField: v is a load of <recv>.<field>.
func isLoadOfField(v ssa.Value, recv ssa.Value, field string) bool {
	u, ok := v.(*ssa.UnOp)
	if !ok || u.Op != token.MUL {
		return false
	}
	fa, ok := u.X.(*ssa.FieldAddr)
	if !ok || fa.X != recv {
		return false
	}
	st := fa.X.Type().Underlying().(*types.Pointer).Elem().Underlying().(*types.Struct)
	return st.Field(fa.Field).Name() == field
}

type cfgEdge struct{ from, to *ssa.BasicBlock }

// ruleMustGuard (cut-set form): with the gate edges removed from the CFG of Add, no instruction
// that writes the receiver (other than the lazy initialiser) is reachable from entry.
func ruleMustGuard(c *Ctx, r *RuleResult, fnName, initName, lastField, wordParam string) {
	fn := c.Fn(fnName)
	E := c.Eff()
	recv := fn.Params[0]
	var word ssa.Value
	for _, p := range fn.Params {
		if p.Name() == wordParam {
			word = p
		}
	}
	if word == nil {
		failf("%s has no parameter %s", fnName, wordParam)
	}
	gates := map[cfgEdge]string{}
	// gateOf: does the condition having the given truth value establish "no previous word" or
	// "previous word strictly smaller than the new one"?
	var gateOfIn func(recv, word ssa.Value, depth int) func(cond ssa.Value, truth bool) string
	gateOfIn = func(recv, word ssa.Value, depth int) func(cond ssa.Value, truth bool) string {
		var gateOf func(cond ssa.Value, truth bool) string
		gateOf = func(cond ssa.Value, truth bool) string {
			// a predicate method of the builder that is handed the word: it yields this truth value only
			// through one of its own gate edges (or as the value of a gate condition)
			if call, ok := cond.(*ssa.Call); ok && depth < 2 {
				h := call.Call.StaticCallee()
				if h != nil && c.inModule(h) && h.Blocks != nil && len(call.Call.Args) == len(h.Params) && len(h.Params) >= 2 && call.Call.Args[0] == recv {
					wi := -1
					for k, a := range call.Call.Args {
						if a == word {
							wi = k
						}
					}
					if wi > 0 {
						hg := gateOfIn(h.Params[0], h.Params[wi], depth+1)
						cut := map[cfgEdge]bool{}
						for _, b := range h.Blocks {
							if iff, ok := b.Instrs[len(b.Instrs)-1].(*ssa.If); ok {
								for ei, tv := range []bool{true, false} {
									if hg(iff.Cond, tv) != "" {
										cut[cfgEdge{b, b.Succs[ei]}] = true
									}
								}
							}
						}
						seen := map[*ssa.BasicBlock]bool{h.Blocks[0]: true}
						via := map[cfgEdge]bool{}
						stack := []*ssa.BasicBlock{h.Blocks[0]}
						for len(stack) > 0 {
							b := stack[len(stack)-1]
							stack = stack[:len(stack)-1]
							for _, s2 := range b.Succs {
								if cut[cfgEdge{b, s2}] {
									continue
								}
								via[cfgEdge{b, s2}] = true
								if !seen[s2] {
									seen[s2] = true
									stack = append(stack, s2)
								}
							}
						}
						ungated := false
						var yields func(v ssa.Value, at *ssa.BasicBlock, d int) bool // may v be `truth` without a gate?
						yields = func(v ssa.Value, at *ssa.BasicBlock, d int) bool {
							if k, isK := v.(*ssa.Const); isK && k.Value != nil {
								return (k.Value.ExactString() == "true") == truth
							}
							if ph, isPhi := v.(*ssa.Phi); isPhi && d < 4 {
								for i, e := range ph.Edges {
									pred := ph.Block().Preds[i]
									if !seen[pred] || !via[cfgEdge{pred, ph.Block()}] {
										continue
									}
									if yields(e, pred, d+1) {
										return true
									}
								}
								return false
							}
							return hg(v, truth) == "" // a condition value: gated when it is itself a gate condition
						}
						for _, b := range h.Blocks {
							if ret, ok := b.Instrs[len(b.Instrs)-1].(*ssa.Return); ok && seen[b] && len(ret.Results) == 1 {
								if yields(ret.Results[0], b, 0) {
									ungated = true
								}
							}
						}
						if !ungated {
							for _, b := range h.Blocks {
								if iff, ok := b.Instrs[len(b.Instrs)-1].(*ssa.If); ok {
									for _, tv := range []bool{true, false} {
										if hg(iff.Cond, tv) == "no previous word" {
											return "no previous word" // the helper relies on nil meaning 'nothing added yet'
										}
									}
								}
							}
							return "previous word strictly smaller"
						}
					}
				}
				return ""
			}
			for {
				if u, ok := cond.(*ssa.UnOp); ok && u.Op == token.NOT {
					cond, truth = u.X, !truth
					continue
				}
				break
			}
			bo, ok := cond.(*ssa.BinOp)
			if !ok {
				return ""
			}
			// gate 2: <recv>.lastWord compared with nil; the edge on which it is nil
			if (isLoadOfField(bo.X, recv, lastField) && isNilConst(bo.Y)) || (isLoadOfField(bo.Y, recv, lastField) && isNilConst(bo.X)) {
				if (bo.Op == token.EQL && truth) || (bo.Op == token.NEQ && !truth) {
					return "no previous word"
				}
				return ""
			}
			// gate 1: bytes.Compare(<recv>.lastWord, word) op const
			var call *ssa.Call
			var k int64
			constLeft := false
			if cv, ok := constInt(bo.Y); ok {
				call, _ = bo.X.(*ssa.Call)
				k = cv
			} else if cv, ok := constInt(bo.X); ok {
				call, _ = bo.Y.(*ssa.Call)
				k = cv
				constLeft = true
			}
			if call == nil {
				return ""
			}
			cal := call.Call.StaticCallee()
			if cal == nil || cal.String() != "bytes.Compare" || len(call.Call.Args) != 2 {
				return ""
			}
			want := int64(0)
			switch {
			case isLoadOfField(call.Call.Args[0], recv, lastField) && call.Call.Args[1] == word:
				want = -1 // previous < new
			case isLoadOfField(call.Call.Args[1], recv, lastField) && call.Call.Args[0] == word:
				want = 1 // new > previous
			default:
				return ""
			}
			vals := cmpValuesOnEdge(bo.Op, k, constLeft, truth)
			if len(vals) == 1 && vals[0] == want {
				return "previous word strictly smaller"
			}
			return ""
		}
		return gateOf
	}
	gateOf := gateOfIn(recv, word, 0)
	for _, b := range fn.Blocks {
		if len(b.Instrs) == 0 {
			continue
		}
		iff, ok := b.Instrs[len(b.Instrs)-1].(*ssa.If)
		if !ok {
			continue
		}
		if _, isPhi := iff.Cond.(*ssa.Phi); isPhi {
			continue // second pass
		}
		for ei, truth := range []bool{true, false} {
			if why := gateOf(iff.Cond, truth); why != "" {
				gates[cfgEdge{b, b.Succs[ei]}] = why
			}
		}
	}
	// a short-circuit condition that was materialised (A && B as the value of a switch case): the
	// If tests a phi of the block; an outgoing edge is a gate when, for every way into the block,
	// either that way is itself gated, or the value carried on it rules this edge out, or the
	// condition carried on it is a gate condition for this edge
	for _, b := range fn.Blocks {
		if len(b.Instrs) == 0 {
			continue
		}
		iff, ok := b.Instrs[len(b.Instrs)-1].(*ssa.If)
		if !ok {
			continue
		}
		ph, isPhi := iff.Cond.(*ssa.Phi)
		if !isPhi || ph.Block() != b {
			continue
		}
		for ei, truth := range []bool{true, false} {
			all := true
			why := ""
			for pi, pred := range b.Preds {
				if g, gated := gates[cfgEdge{pred, b}]; gated {
					why = g
					continue
				}
				e := ph.Edges[pi]
				if k, isK := e.(*ssa.Const); isK && k.Value != nil {
					if (k.Value.ExactString() == "true") != truth {
						continue // this way in never leaves on this edge
					}
					all = false
					break
				}
				if g := gateOf(e, truth); g != "" {
					why = g
					continue
				}
				all = false
				break
			}
			if all && why != "" {
				gates[cfgEdge{b, b.Succs[ei]}] = why
			}
		}
	}
	// the "no previous word" gate reads nil-ness of the field as "nothing added yet": that is only
	// sound if every word recorded into the field is provably non-nil
	usesNilGate := false
	for _, why := range gates {
		if why == "no previous word" {
			usesNilGate = true
		}
	}
	if usesNilGate {
		// the stores are looked for in Add and in the builder's own methods it calls (rememberWord)
		type scope struct {
			fn   *ssa.Function
			recv ssa.Value
		}
		scopes := []scope{{fn, recv}}
		for _, b := range fn.Blocks {
			for _, in := range b.Instrs {
				if call, ok := in.(*ssa.Call); ok {
					if h := call.Call.StaticCallee(); h != nil && c.inModule(h) && h.Blocks != nil && len(call.Call.Args) > 0 && call.Call.Args[0] == ssa.Value(recv) && len(h.Params) > 0 && (initName == "" || c.short(h) != initName) {
						scopes = append(scopes, scope{h, h.Params[0]})
					}
				}
			}
		}
		for _, sc := range scopes {
			fn, recv := sc.fn, sc.recv
			P := NewProver(c, fn)
			for _, b := range fn.Blocks {
				for _, in := range b.Instrs {
					st, ok := in.(*ssa.Store)
					if !ok {
						continue
					}
					fa, ok := st.Addr.(*ssa.FieldAddr)
					if !ok || fa.X != recv {
						continue
					}
					stt := fa.X.Type().Underlying().(*types.Pointer).Elem().Underlying().(*types.Struct)
					if stt.Field(fa.Field).Name() != lastField {
						continue
					}
					r.inst("%s: value recorded in %s is non-nil (nil means 'no previous word')", fnName, lastField)
					nonNil := P.Prove(P.nilP(st.Val), b) || overwrittenWhenNil(P, fn, st, recv, lastField)
					r.oblig(nonNil)
					if !nonNil {
						r.find(fnName+":"+lastField+" may be recorded as nil", c.instrPos(st), "%s records %s into %s, which can be nil (the empty word), while the order check treats a nil %s as 'nothing added yet': the empty word can then be added again without an error", fnName, valName(st.Val), lastField, lastField)
					}
				}
			}
		}
	}
	r.inst("%s: %d gate edges (order check / no previous word)", fnName, len(gates))
	for e, why := range gates {
		r.inst("%s: gate edge %s -> %s (%s)", fnName, e.from.Comment, e.to.Comment, why)
	}
	// reachability without gate edges
	entry := fn.Blocks[0]
	seen := map[*ssa.BasicBlock]bool{entry: true}
	stack := []*ssa.BasicBlock{entry}
	for len(stack) > 0 {
		b := stack[len(stack)-1]
		stack = stack[:len(stack)-1]
		for _, s := range b.Succs {
			if _, gated := gates[cfgEdge{b, s}]; gated || seen[s] {
				continue
			}
			seen[s] = true
			stack = append(stack, s)
		}
	}
	nsites := 0
	ok := true
	for _, b := range fn.Blocks {
		for _, in := range b.Instrs {
			if initName != "" && isCallTo(in, c, initName) {
				continue
			}
			ap, w := rootedAt(E.InstrWrites(fn, in), 0)
			if !w {
				continue
			}
			nsites++
			r.inst("%s: mutation site %s", fnName, instrDesc(c, in))
			if seen[b] {
				ok = false
				r.find(fnName+":"+instrDesc(c, in)+" not behind the order check", c.instrPos(in), "%s: %s (writes %s) is reachable without passing an edge on which the previous word is strictly smaller than the new one (or absent): out-of-order or duplicate words can reach the builder state", fnName, instrDesc(c, in), E.apString(fn, ap))
			}
		}
	}
	if nsites == 0 {
		r.undecided("%s has no mutation site", fnName)
	}
	if len(gates) == 0 {
		r.note("%s: no gate edge recognised", fnName)
	}
	r.oblig(ok)
}

func instrDesc(c *Ctx, in ssa.Instruction) string {
	switch x := in.(type) {
	case *ssa.Call:
		if f := x.Call.StaticCallee(); f != nil {
			return "call " + c.short(f)
		}
		if x.Call.IsInvoke() {
			return "invoke " + x.Call.Method.Name()
		}
		return "call " + valName(x.Call.Value)
	case *ssa.Store:
		return "store " + valName(x.Addr)
	}
	return in.String()
}

// ruleNonEmpty: unproven index obligations of callee that only mention len(<param>.<field>) become
// preconditions and must be provable at every module call site.
func ruleNonEmpty(c *Ctx, r *RuleResult, calleeName string) {
	callee := c.Fn(calleeName)
	P := NewProver(c, callee)
	type pre struct {
		param int
		field string
		desc  string
		need  int64 // len(param.field) >= need
	}
	var pres []pre
	for _, ob := range boundsObligations(P, callee) {
		for k, g := range ob.goals {
			if P.Prove(g, ob.in.Block()) {
				continue
			}
			// goal must be  c0 - len(load(param.field)) <= 0
			lifted := false
			if len(g.monos()) == 1 {
				m := g.monos()[0]
				var at *Atom
				P.atomsOf(Poly{m: 1}, func(a *Atom) { at = a })
				if at != nil && at.kind == aLen && g[m] == -1 {
					if ld, ok := at.val.(*ssa.UnOp); ok && ld.Op == token.MUL {
						if fa, ok := ld.X.(*ssa.FieldAddr); ok {
							if prm, ok := fa.X.(*ssa.Parameter); ok {
								st := fa.X.Type().Underlying().(*types.Pointer).Elem().Underlying().(*types.Struct)
								for i, q := range callee.Params {
									if q == prm {
										np := pre{i, st.Field(fa.Field).Name(), ob.desc + " (" + ob.names[k] + ")", g[""]}
										dup := false
										for _, q := range pres {
											if q.param == np.param && q.field == np.field && q.need == np.need {
												dup = true
											}
										}
										if !dup {
											pres = append(pres, np)
										}
										lifted = true
									}
								}
							}
						}
					}
				}
			}
			if !lifted && len(g.monos()) == 1 {
				// the collection indexed belongs to a node that was itself read from memory (a queue of
				// nodes, a child of a child): its non-emptiness is a shape invariant of the data, which
				// this rule records and does not judge
				var at *Atom
				P.atomsOf(Poly{g.monos()[0]: 1}, func(a *Atom) { at = a })
				if at != nil && at.kind == aLen && g[g.monos()[0]] == -1 {
					if ld, ok := at.val.(*ssa.UnOp); ok && ld.Op == token.MUL {
						if fa, ok := ld.X.(*ssa.FieldAddr); ok {
							if _, isParam := strip(fa.X).(*ssa.Parameter); !isParam {
								r.inst("%s: %s (%s): node read from memory, shape invariant not judged", calleeName, ob.desc, ob.names[k])
								r.note("%s: %s needs %s of a node that is read from memory (%s): recorded, not judged", calleeName, ob.desc, ob.names[k], valName(fa.X))
								continue
							}
						}
					}
				}
			}
			if !lifted {
				r.inst("%s: %s", calleeName, ob.desc)
				r.oblig(false)
				r.find(calleeName+":"+ob.desc, c.instrPos(ob.in), "%s: cannot prove %s for %s and cannot lift it to a precondition on the parameters", calleeName, ob.names[k], ob.desc)
			}
		}
	}
	if len(pres) == 0 {
		r.note("%s has no lifted precondition (all index obligations proved locally)", calleeName)
	}
	for _, pr := range pres {
		r.inst("%s requires len(%s.%s) >= %d for %s", calleeName, callee.Params[pr.param].Name(), pr.field, pr.need, pr.desc)
	}
	// call sites
	ncalls := 0
	for _, fn := range c.Funcs {
		var PF *Prover
		for _, b := range fn.Blocks {
			for _, in := range b.Instrs {
				call, ok := in.(*ssa.Call)
				if !ok || call.Call.StaticCallee() != callee {
					continue
				}
				ncalls++
				if PF == nil {
					PF = NewProver(c, fn)
				}
				if len(pres) == 0 {
					r.inst("%s: call %s: no lifted precondition to establish", c.short(fn), calleeName)
				}
				for _, pr := range pres {
					arg := PF.canon(strip(call.Call.Args[pr.param]))
					site := fmt.Sprintf("%s: call %s", c.short(fn), calleeName)
					r.inst("%s needs len(%s.%s) >= %d", site, valName(arg), pr.field, pr.need)
					proved := false
					// a load of arg.field that is still valid at the call
					for _, b2 := range fn.Blocks {
						for _, in2 := range b2.Instrs {
							ld, isLd := isLoad(in2)
							if !isLd || PF.canon(ld) != ssa.Value(ld) {
								continue
							}
							fa, ok := ld.X.(*ssa.FieldAddr)
							if !ok || PF.canon(strip(fa.X)) != arg {
								continue
							}
							st := fa.X.Type().Underlying().(*types.Pointer).Elem().Underlying().(*types.Struct)
							if st.Field(fa.Field).Name() != pr.field {
								continue
							}
							if !(b2 == b || b2.Dominates(b)) || !PF.validAt(ld, in) {
								continue
							}
							goal := constP(pr.need).add(PF.lenOf(ld), -1)
							if PF.Prove(goal, b) {
								proved = true
							}
						}
					}
					r.oblig(proved)
					if !proved {
						r.find(c.short(fn)+":call "+calleeName+" needs len("+pr.field+")>="+fmt.Sprint(pr.need), c.instrPos(in), "%s calls %s without establishing len(%s.%s) >= %d, which %s needs for %s: panics when the node has no children", c.short(fn), calleeName, valName(arg), pr.field, pr.need, calleeName, pr.desc)
					}
				}
			}
		}
	}
	if ncalls == 0 {
		r.undecided("%s has no call site in the module", calleeName)
	}
}

// overwrittenWhenNil: the possibly-nil value v stored by st does not survive to a return: on every
// path from st, either an edge is crossed on which v is known to be non-nil, or the same field is
// stored again with a provably non-nil value (db.lastWord = b; if b == nil { db.lastWord = []byte{} }).
func overwrittenWhenNil(P *Prover, fn *ssa.Function, st *ssa.Store, recv ssa.Value, field string) bool {
	v := st.Val
	isField := func(a ssa.Value) bool {
		fa, ok := a.(*ssa.FieldAddr)
		if !ok || fa.X != recv {
			return false
		}
		stt := fa.X.Type().Underlying().(*types.Pointer).Elem().Underlying().(*types.Struct)
		return stt.Field(fa.Field).Name() == field
	}
	// edge b -> s implies v != nil ?
	nonNilEdge := func(b, s *ssa.BasicBlock) bool {
		iff, ok := b.Instrs[len(b.Instrs)-1].(*ssa.If)
		if !ok {
			return false
		}
		bo, ok := iff.Cond.(*ssa.BinOp)
		if !ok || !((bo.X == v && isNilConst(bo.Y)) || (bo.Y == v && isNilConst(bo.X))) {
			return false
		}
		onTrue := b.Succs[0] == s
		return (bo.Op == token.NEQ && onTrue) || (bo.Op == token.EQL && !onTrue)
	}
	type pos struct {
		b *ssa.BasicBlock
		i int
	}
	start := -1
	for i, in := range st.Block().Instrs {
		if in == ssa.Instruction(st) {
			start = i
		}
	}
	seen := map[*ssa.BasicBlock]bool{}
	stack := []pos{{st.Block(), start + 1}}
	for len(stack) > 0 {
		p := stack[len(stack)-1]
		stack = stack[:len(stack)-1]
		stopped := false
		for i := p.i; i < len(p.b.Instrs) && !stopped; i++ {
			switch x := p.b.Instrs[i].(type) {
			case *ssa.Store:
				if isField(x.Addr) {
					if !P.Prove(P.nilP(x.Val), p.b) {
						return false // replaced by another possibly-nil value: that store is judged on its own, this path is not safe
					}
					stopped = true
				}
			case *ssa.Return:
				return false
			case *ssa.Call:
				// a callee that is given the receiver could read the field
				for _, a := range x.Call.Args {
					if a == recv {
						return false
					}
				}
			}
		}
		if stopped {
			continue
		}
		for _, s := range p.b.Succs {
			if nonNilEdge(p.b, s) || seen[s] {
				continue
			}
			seen[s] = true
			stack = append(stack, pos{s, 0})
		}
	}
	return true
}

// ruleBytewise: the labels of the automaton are bytes and words are byte strings. Iterating a word
// with `range` over a string, or converting it to or from runes, decodes UTF-8: a byte >= 0x80 then
// becomes U+FFFD or part of a multi-byte rune and the word looked up is not the word that was added.
func isByteSlice(t types.Type) bool {
	sl, ok := t.Underlying().(*types.Slice)
	return ok && isByte(sl.Elem())
}

func ruleBytewise(c *Ctx, r *RuleResult, pkgRel string) {
	pkg := c.Pkg(pkgRel)
	n := 0
	for _, fn := range c.Funcs {
		if fn.Synthetic != "" || fn.Blocks == nil || fnPkg(fn) == nil || fnPkg(fn).Pkg != pkg.Types {
			continue
		}
		n++
		bad := 0
		// only functions that walk the automaton's labels are concerned (a printer that ranges over
		// some text of its own is not)
		walksLabels := false
		for _, b := range fn.Blocks {
			for _, in := range b.Instrs {
				if fa, ok := in.(*ssa.FieldAddr); ok {
					if st, ok := fa.X.Type().Underlying().(*types.Pointer).Elem().Underlying().(*types.Struct); ok && isByteSlice(st.Field(fa.Field).Type()) {
						walksLabels = true
					}
				}
			}
		}
		if !walksLabels {
			r.inst("%s: does not read the label slices", c.short(fn))
			r.oblig(true)
			continue
		}
		for _, b := range fn.Blocks {
			for _, in := range b.Instrs {
				switch x := in.(type) {
				case *ssa.Range:
					if bt, ok := x.X.Type().Underlying().(*types.Basic); ok && bt.Info()&types.IsString != 0 {
						bad++
						r.find(c.short(fn)+":range over string", c.instrPos(in), "%s iterates a string with range, which yields runes decoded from UTF-8, in a package whose words are byte strings: a word containing a byte >= 0x80 is walked as different labels", c.short(fn))
					}
				case *ssa.Convert:
					from, to := x.X.Type().Underlying(), x.Type().Underlying()
					isRunes := func(t types.Type) bool {
						sl, ok := t.(*types.Slice)
						if !ok {
							return false
						}
						b, ok := sl.Elem().Underlying().(*types.Basic)
						return ok && b.Kind() == types.Int32
					}
					isStr := func(t types.Type) bool {
						b, ok := t.(*types.Basic)
						return ok && b.Info()&types.IsString != 0
					}
					isRune := func(t types.Type) bool {
						b, ok := t.(*types.Basic)
						return ok && b.Kind() == types.Int32
					}
					if (isStr(from) && isRunes(to)) || (isRunes(from) && isStr(to)) || (isRune(from) && isStr(to)) {
						bad++
						r.find(c.short(fn)+":rune conversion", c.instrPos(in), "%s converts between a string and runes in a package whose words are byte strings", c.short(fn))
					}
					// string(b) for any other integer type (a byte above all) is the same code-point
					// conversion: a byte >= 0x80 becomes two bytes. Judged only where the bytes of the
					// result are read back (a string that is only compared or used as a key is injective
					// in the byte and stays unreported).
					if ib, ok := from.(*types.Basic); ok && ib.Info()&types.IsInteger != 0 && !isRune(from) && isStr(to) {
						if sink := stringBytesReadBack(x); sink != nil {
							bad++
							r.find(c.short(fn)+":code-point conversion of a byte", c.instrPos(in), "%s builds a string with string(x) from an integer (a label byte), which encodes x as a code point - a byte >= 0x80 becomes two bytes - and reads the bytes of the result back at %s: words over a non-ASCII alphabet come back with different labels", c.short(fn), c.instrPos(sink))
						} else {
							r.note("%s: string(x) of an integer at %s is only compared or used as a key (injective in x): not reported", c.short(fn), c.instrPos(in))
						}
					}
				}
			}
		}
		r.inst("%s: no rune-wise iteration or conversion of words", c.short(fn))
		r.oblig(bad == 0)
	}
	if n == 0 {
		r.undecided("no functions found in package %s", pkgRel)
	}
}

// stringBytesReadBack: does the string v, or a string built from it by concatenation, a phi or a
// round trip through a local variable, reach an instruction that reads its bytes (conversion to
// []byte, indexing, slicing, range, append(bytes, s...))? Returns that instruction.
func stringBytesReadBack(v ssa.Value) ssa.Instruction {
	seen := map[ssa.Value]bool{}
	work := []ssa.Value{v}
	for len(work) > 0 {
		x := work[len(work)-1]
		work = work[:len(work)-1]
		if seen[x] || x.Referrers() == nil {
			continue
		}
		seen[x] = true
		for _, ref := range *x.Referrers() {
			switch u := ref.(type) {
			case *ssa.Convert:
				if sl, ok := u.Type().Underlying().(*types.Slice); ok {
					if b, ok := sl.Elem().Underlying().(*types.Basic); ok && (b.Kind() == types.Uint8 || b.Kind() == types.Int32) {
						return u
					}
				}
			case *ssa.Lookup:
				if u.X == x {
					return u
				}
			case *ssa.Slice:
				if u.X == x {
					return u
				}
			case *ssa.Range:
				return u
			case *ssa.BinOp:
				if u.Op == token.ADD {
					work = append(work, u)
				}
			case *ssa.Phi:
				work = append(work, u)
			case *ssa.Call:
				if b, ok := u.Call.Value.(*ssa.Builtin); ok && (b.Name() == "append" || b.Name() == "copy") {
					return u
				}
			case *ssa.Store:
				if al, ok := u.Addr.(*ssa.Alloc); ok && u.Val == x && al.Referrers() != nil {
					for _, r2 := range *al.Referrers() {
						if ld, ok := r2.(*ssa.UnOp); ok && ld.Op == token.MUL {
							work = append(work, ld)
						}
					}
				}
			}
		}
	}
	return nil
}

func init() {
	dawgPure := []string{"(*dawg.Dawg).Lookup", "(*dawg.Dawg).NumberOfWords", "(*dawg.Dawg).GobEncode", "(*dawg.Dawg).numberOfNodes", "(*dawg.Dawg).listNodesCountEdges", "(*dawg.Dawg).Search"}
	dawgWriters := []string{"(*dawg.Dawg).commonPrefix", "(*dawg.Dawg).addSuffix", "dawg.replaceOrRegister", "(*dawg.Dawg).GobDecode", "(*dawg.Builder).Add", "(*dawg.Builder).Finish"}
	register(&propDef{
		id:          "C12",
		explanation: "Decides structural clauses of the builder/query split: REJECT-PURE (on every CFG path of Builder.Add that ends in a non-nil error return nothing rooted at the receiver is written, lazy Initialise excepted), MUSTGUARD (removing the edges on which 'previous word < new word' or 'no previous word' holds disconnects every builder mutation from the entry of Add, so neither equal nor smaller words can be added), NONEMPTY (replaceOrRegister's t.links[len-1] needs len(t.links) >= 1, lifted to a precondition and proved at each call site by E-PROVE), PURE + WHO-WRITES (queries write no Dawg node; the only functions that can are the construction-time ones), EQUIV (areEquivalent, on whose answer two states are merged, is explored under the hypotheses 'the nodes differ in finality / in the number of children / in one label / in one target': with the control-flow edges that the hypothesis rules out removed - the equal edge of the field's comparisons, the normal exit of a comparison loop whose recognised index range, together with explicitly compared indices, covers the whole slice - no return that may be true is reachable), OWNWORD (Add stores no memory of its argument into the builder, so the word the order check compares against is the builder's own copy and not a buffer the caller goes on to reuse), SEAL (Finish stores a constant into a builder field - the finished mark, found in the code - on every path to a successful return, and in Add and Finish no write to the builder is reachable from the entry once the edges on which that mark is known to be absent are removed, the lazy initialiser excepted: the automaton handed out is not edited afterwards; and the root Initialise installs is a fresh allocation none of whose fields refers to memory of the builder's previous state, so re-using a builder cannot recycle the slices of a Dawg that was handed out). Does not decide the accepted language, minimality or ranks.",
		notDecided:  []string{"that the automaton accepts exactly the words added", "minimality (node count)", "rank arithmetic of Lookup"},
		assumptions: []string{"bytes.Compare returns a value in {-1,0,1}"},
		run: func(c *Ctx, tier string) []*RuleResult {
			rp := &RuleResult{Rule: "REJECT-PURE", Doc: "no write rooted at the builder on any path to an error return of Add (lazy Initialise excepted)", MinInst: 2}
			ruleRejectPure(c, rp, "(*dawg.Builder).Add", "(*dawg.Builder).Initialise")
			mg := &RuleResult{Rule: "MUSTGUARD", Doc: "cut-set: without the edges implying previous<new (bytes.Compare result restricted to -1) or lastWord==nil, no builder mutation is reachable in Add", MinInst: 2}
			ruleMustGuard(c, mg, "(*dawg.Builder).Add", "(*dawg.Builder).Initialise", "lastWord", "b")
			ne := &RuleResult{Rule: "NONEMPTY", Doc: "index obligations of replaceOrRegister lifted to len(t.links) >= 1 and proved at every call site", MinInst: 3}
			ruleNonEmpty(c, ne, "dawg.replaceOrRegister")
			pure := &RuleResult{Rule: "PURE", Doc: "Dawg queries write nothing reachable from the Dawg", MinInst: len(dawgPure)}
			for _, n := range dawgPure {
				if c.helperGone(n) {
					pure.note("%s no longer exists: judged through its callers", n)
					pure.MinInst--
					continue
				}
				noWrites(c, pure, c.Fn(n), []int{0}, "the Dawg")
			}
			ww := ruleWhoWrites(c, "WHO-WRITES", "dawg", "Dawg", dawgWriters, "only construction-time functions may write Dawg nodes")
			ww.MinInst = 4
			bw := &RuleResult{Rule: "BYTEWISE", Doc: "words are byte strings: no function of package dawg iterates a string with range or converts between strings and runes", MinInst: 10}
			ruleBytewise(c, bw, "dawg")
			eq := &RuleResult{Rule: "EQUIV", Doc: "areEquivalent answers true only after comparing finality, the number of children, every label and every target", MinInst: 4}
			if c.FnOpt("dawg.areEquivalent") != nil {
				ruleEquiv(c, eq, equivSpec{fn: "dawg.areEquivalent", typ: "Dawg", scalars: []string{"final"}, slices: []string{"linkLabels", "links"}})
			} else {
				eq.MinInst = 0
				eq.note("dawg.areEquivalent no longer exists: the state comparison is not judged")
			}
			ow := &RuleResult{Rule: "OWNWORD", Doc: "Add keeps no memory of its argument in the builder: the word the order check compares against is the builder's own copy, which a caller reusing its buffer cannot rewrite", MinInst: 1}
			ruleOwnWord(c, ow, "(*dawg.Builder).Add")
			sl := &RuleResult{Rule: "SEAL", Doc: "Finish marks the builder finished on every successful return (a constant stored into a builder field), and in Add and Finish no write to the builder is reachable once that mark is set: the automaton handed out is not edited afterwards", MinInst: 4}
			ruleSeal(c, sl, "(*dawg.Builder).Finish", "(*dawg.Builder).Initialise", []string{"(*dawg.Builder).Add", "(*dawg.Builder).Finish"})
			ruleFreshRoot(c, sl, "(*dawg.Builder).Initialise", "Dawg")
			return []*RuleResult{rp, mg, ne, pure, ww, bw, eq, ow, sl}
		},
		controls: func(ctl *Ctx) []*RuleResult {
			var out []*RuleResult
			for _, n := range []string{"BadNoFinal", "BadSkipsFirst", "BadNoLength", "BadEarlyOut", "BadHelperSkipsFirst"} {
				e := &RuleResult{Rule: "EQUIV"}
				ruleEquiv(ctl, e, equivSpec{fn: "equivctl." + n, typ: "N", scalars: []string{"final"}, slices: []string{"labels", "links"}})
				out = append(out, e)
			}
			eg := &RuleResult{Rule: "EQUIV"}
			for _, n := range []string{"GoodRange", "GoodBackwards", "GoodOneLoop", "GoodHelpers"} {
				ruleEquiv(ctl, eg, equivSpec{fn: "equivctl." + n, typ: "N", scalars: []string{"final"}, slices: []string{"labels", "links"}})
			}
			out[0].Findings = append(out[0].Findings, eg.Findings...)
			out[0].Undecided = append(out[0].Undecided, eg.Undecided...)
			rp := &RuleResult{Rule: "REJECT-PURE"}
			ruleRejectPure(ctl, rp, "(*guardctl.B).BadAddWritesFirst", "(*guardctl.B).init")
			ruleRejectPure(ctl, rp, "(*guardctl.B).GoodAdd", "(*guardctl.B).init")
			ruleRejectPure(ctl, rp, "(*guardctl.B).GoodAddViaReady", "(*guardctl.B).init")
			out = append(out, rp)
			for _, bad := range []string{"(*guardctl.B).BadAddAllowsDuplicates", "(*guardctl.B).BadAddNoCheck"} {
				mg := &RuleResult{Rule: "MUSTGUARD"}
				ruleMustGuard(ctl, mg, bad, "(*guardctl.B).init", "last", "w")
				out = append(out, mg)
			}
			mg := &RuleResult{Rule: "MUSTGUARD"}
			ruleMustGuard(ctl, mg, "(*guardctl.B).GoodAdd", "(*guardctl.B).init", "last", "w")
			ruleMustGuard(ctl, mg, "(*guardctl.B).GoodAddViaReady", "(*guardctl.B).init", "last", "w")
			ruleMustGuard(ctl, mg, "(*guardctl.B).BadAddWritesFirst", "(*guardctl.B).init", "last", "w")
			out = append(out, mg)
			ne := &RuleResult{Rule: "NONEMPTY"}
			ruleNonEmpty(ctl, ne, "guardctl.lastKid")
			out = append(out, ne)
			bw := &RuleResult{Rule: "BYTEWISE"}
			ruleBytewise(ctl, bw, "guardctl")
			out = append(out, bw)
			for _, bad := range [][]string{{"(*sealctl.B1).BadFinishNoMark", "(*sealctl.B1).init"}, {"(*sealctl.B2).BadFinishMarkOnOneBranch", "(*sealctl.B2).init"}} {
				sl := &RuleResult{Rule: "SEAL"}
				ruleSeal(ctl, sl, bad[0], bad[1], []string{bad[0]})
				out = append(out, sl)
			}
			sl := &RuleResult{Rule: "SEAL"}
			ruleSeal(ctl, sl, "(*sealctl.B3).Finish", "(*sealctl.B3).init", []string{"(*sealctl.B3).BadAddIgnoresMark", "(*sealctl.B3).GoodAdd", "(*sealctl.B3).Finish"})
			ruleSeal(ctl, sl, "(*sealctl.B4).GoodFinishEnum", "(*sealctl.B4).init", []string{"(*sealctl.B4).GoodAddEnum", "(*sealctl.B4).GoodFinishEnum"})
			out = append(out, sl)
			fr := &RuleResult{Rule: "SEAL"}
			ruleFreshRoot(ctl, fr, "(*sealctl.B5).BadInitKeepsSlices", "node")
			ruleFreshRoot(ctl, fr, "(*sealctl.B5).GoodInit", "node")
			out = append(out, fr)
			ow := &RuleResult{Rule: "OWNWORD"}
			ruleOwnWord(ctl, ow, "(*guardctl.B).BadAddKeepsWord")
			ruleOwnWord(ctl, ow, "(*guardctl.B).GoodAddCopiesWord")
			out = append(out, ow)
			return out
		},
	})
}

// ruleOwnWord: the method stores no memory reachable from its (non-receiver) arguments into memory
// reachable from the receiver (E-EFF store edges, callees included). For Builder.Add this is what
// makes the recorded previous word mean "the word added last": a retained caller slice is compared
// with whatever the caller has since written into it (bufio.Scanner.Bytes, a reused line buffer), so
// an in-order word is rejected or an out-of-order word accepted.
func ruleOwnWord(c *Ctx, r *RuleResult, name string) {
	fn := c.Fn(name)
	if !checkUnknown(c, r, fn) {
		return
	}
	E := c.Eff()
	r.inst("%s: the receiver keeps no memory of the arguments", name)
	bad := map[string]bool{}
	var keys []string
	for _, e := range E.sums[fn].Stores {
		if e.src.Root >= 1 && e.src.Root < len(fn.Params) && e.dst.Root == 0 {
			k := fn.Params[e.src.Root].Name()
			if !bad[k] {
				bad[k] = true
				keys = append(keys, k)
			}
		}
	}
	sort.Strings(keys)
	for _, k := range keys {
		for _, e := range E.sums[fn].Stores {
			if e.src.Root >= 1 && e.src.Root < len(fn.Params) && e.dst.Root == 0 && fn.Params[e.src.Root].Name() == k {
				r.find(name+":keeps "+k, c.pos(fn.Pos()), "%s stores memory of its argument %s into the receiver (%s <- %s): the recorded word changes when the caller reuses the slice, so the order check compares the new word with something other than the word added last", name, k, E.apString(fn, e.dst), E.apString(fn, e.src))
				break
			}
		}
	}
	r.oblig(len(keys) == 0)
}
