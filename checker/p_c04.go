package main

import (
	"fmt"
	"go/token"
	"go/types"
	"sort"
	"strings"

	"golang.org/x/tools/go/ssa"
)

// transfer is one syntactic data movement of a function: dst <- src, both as access-path strings
// rooted at parameters ("iter.sg.G"), allocations ("new(save).N") or module call results ("WithPruning()").
type transfer struct {
	dst, src string
	in       ssa.Instruction
}

func typeShort(t types.Type) string {
	return types.TypeString(t, func(*types.Package) string { return "" })
}

func pathOfVal(c *Ctx, v ssa.Value) string {
	switch x := v.(type) {
	case *ssa.Parameter:
		return x.Name()
	case *ssa.Alloc:
		return "new(" + typeShort(x.Type().Underlying().(*types.Pointer).Elem()) + ")"
	case *ssa.Call:
		if f := x.Call.StaticCallee(); f != nil && c.inModule(f) {
			if p := returnedAlloc(c, f, 0); p != "" {
				return p // a helper that builds and returns the record: the record itself
			}
			return f.Name() + "()"
		}
		if b, ok := x.Call.Value.(*ssa.Builtin); ok && b.Name() == "len" {
			return "len(" + pathOfVal(c, x.Call.Args[0]) + ")"
		}
		return "?"
	case *ssa.UnOp:
		if x.Op == token.MUL {
			return pathOfAddr(c, x.X)
		}
		return "?"
	case *ssa.Slice:
		return pathOfVal(c, x.X)
	case *ssa.Convert:
		if isInt(x.Type()) && isInt(x.X.Type()) && intBits(x.Type()) < intBits(x.X.Type()) {
			return "narrowed(" + pathOfVal(c, x.X) + ")" // loses high bits: not a faithful copy
		}
		return pathOfVal(c, x.X)
	case *ssa.ChangeType:
		return pathOfVal(c, x.X)
	case *ssa.MakeInterface:
		return pathOfVal(c, x.X)
	case *ssa.Const:
		if x.Value == nil {
			return "nil"
		}
		return "const"
	case *ssa.Field:
		st := x.X.Type().Underlying().(*types.Struct)
		return pathOfVal(c, x.X) + "." + st.Field(x.Field).Name()
	case *ssa.MakeClosure, *ssa.Function:
		return "func"
	case *ssa.Extract:
		if call, ok := x.Tuple.(*ssa.Call); ok {
			if f := call.Call.StaticCallee(); f != nil && c.inModule(f) {
				if p := returnedAlloc(c, f, x.Index); p != "" {
					return p
				}
			}
		}
	}
	return "?"
}

// returnedAlloc: every return of f hands back, as result idx, an allocation made in f ("new(T)"):
// for the caller the call denotes that fresh record.
func returnedAlloc(c *Ctx, f *ssa.Function, idx int) string {
	if f.Blocks == nil || f.Object() == nil || f.Object().Exported() {
		return "" // exported constructors keep their own name in the paths (WithPruning().first)
	}
	path := ""
	for _, b := range f.Blocks {
		ret, ok := b.Instrs[len(b.Instrs)-1].(*ssa.Return)
		if !ok || idx >= len(ret.Results) {
			continue
		}
		al, isAlloc := ret.Results[idx].(*ssa.Alloc)
		if !isAlloc {
			return ""
		}
		p := "new(" + typeShort(al.Type().Underlying().(*types.Pointer).Elem()) + ")"
		if path != "" && path != p {
			return ""
		}
		path = p
	}
	return path
}

func pathOfAddr(c *Ctx, a ssa.Value) string {
	switch x := a.(type) {
	case *ssa.FieldAddr:
		st := x.X.Type().Underlying().(*types.Pointer).Elem().Underlying().(*types.Struct)
		return pathOfVal(c, x.X) + "." + st.Field(x.Field).Name()
	case *ssa.IndexAddr:
		return pathOfVal(c, x.X) + "[*]"
	case *ssa.Alloc:
		return pathOfVal(c, x)
	}
	return pathOfVal(c, a)
}

// transfersOf: the data movements of fn (helpers read in fn's terms), closed under one kind of
// chaining: a value parked in a field of a temporary struct (a config literal handed to a
// constructor helper) counts as moved from where the temporary got it.
func transfersOf(c *Ctx, fn *ssa.Function) []transfer {
	ts := transfersOfD(c, fn, 0)
	for round := 0; round < 2; round++ {
		from := map[string][]string{}
		for _, t := range ts {
			if strings.HasPrefix(t.dst, "new(") && !strings.HasPrefix(t.dst, "new(save)") && !strings.HasPrefix(t.dst, "new(GraphIterator)") {
				from[t.dst] = append(from[t.dst], t.src)
			}
		}
		seen := map[string]bool{}
		for _, t := range ts {
			seen[t.dst+"<-"+t.src] = true
		}
		var extra []transfer
		for _, t := range ts {
			for _, s2 := range from[t.src] {
				if k := t.dst + "<-" + s2; !seen[k] {
					seen[k] = true
					extra = append(extra, transfer{t.dst, s2, t.in})
				}
			}
		}
		if len(extra) == 0 {
			break
		}
		ts = append(ts, extra...)
	}
	return ts
}

// substParam rewrites a callee path rooted at one of its parameters into the caller's path.
func substParam(path string, sub map[string]string) string {
	for name, actual := range sub {
		if path == name {
			return actual
		}
		for _, sep := range []string{".", "[", ")"} {
			if strings.HasPrefix(path, name+sep) {
				return actual + path[len(name):]
			}
		}
		if strings.HasPrefix(path, "len("+name+")") {
			return "len(" + actual + ")" + path[len("len("+name+")"):]
		}
		if strings.HasPrefix(path, "narrowed("+name) {
			return "narrowed(" + substParam(path[len("narrowed("):], sub)
		}
	}
	return path
}

func transfersOfD(c *Ctx, fn *ssa.Function, depth int) []transfer {
	var out []transfer
	for _, b := range fn.Blocks {
		for _, in := range b.Instrs {
			switch x := in.(type) {
			case *ssa.Store:
				out = append(out, transfer{pathOfAddr(c, x.Addr), pathOfVal(c, x.Val), in})
			case *ssa.Call:
				if bi, ok := x.Call.Value.(*ssa.Builtin); ok && bi.Name() == "copy" {
					out = append(out, transfer{pathOfVal(c, x.Call.Args[0]) + "[*]", pathOfVal(c, x.Call.Args[1]) + "[*]", in})
				}
				if f := x.Call.StaticCallee(); f != nil && c.inModule(f) {
					sub := map[string]string{}
					for i, a := range x.Call.Args {
						if i < len(f.Params) {
							out = append(out, transfer{f.Name() + "(" + f.Params[i].Name() + ")", pathOfVal(c, a), in})
							sub[f.Params[i].Name()] = pathOfVal(c, a)
						}
					}
					// the data movements a helper performs on behalf of this function, in this function's terms
					if depth < 2 && f.Blocks != nil && f != fn {
						for _, t := range transfersOfD(c, f, depth+1) {
							out = append(out, transfer{substParam(t.dst, sub), substParam(t.src, sub), in})
						}
					}
				}
			}
		}
	}
	return out
}

// hasTransfer: the whole value, or (for slices) every element, is moved from src to dst.
func hasTransfer(ts []transfer, dst, src string) bool {
	for _, t := range ts {
		if t.dst == dst && t.src == src {
			return true
		}
		if !strings.HasSuffix(dst, "[*]") && t.dst == dst+"[*]" && t.src == src+"[*]" {
			return true
		}
	}
	return false
}

// classification of every field of GraphIterator and searchGraph (confirmed by reading; see DESIGN.md §2 C04)
type fieldClass struct {
	class  string // saved | resupplied | derived | cache | scratch
	record string // for saved: field of `save`
	param  string // for saved via WithPruning / resupplied: parameter of WithPruning / Load
	reason string
}

var c04Iter = map[string]fieldClass{
	"n":           {class: "saved", record: "N", param: "n"},
	"a":           {class: "saved", record: "A", param: "a"},
	"m":           {class: "saved", record: "M", param: "m"},
	"first":       {class: "saved", record: "First"},
	"choices":     {class: "saved", record: "Choices"},
	"currentPath": {class: "saved", record: "CurrentPath"},
	"preprune":    {class: "resupplied", param: "preprune"},
	"prune":       {class: "resupplied", param: "prune"},
	"splitLevel":  {class: "derived", reason: "function of n, computed in WithPruning"},
	"sg":          {class: "struct", reason: "see searchGraph fields"},
	"storage":     {class: "scratch", reason: "canonical-labelling work space, fully re-initialised by every CanonicalIsomorphAllocated call"},
	"op":          {class: "scratch", reason: "ordered partition, Reset before every use in getAutomorphismGroup"},
	"options":     {class: "scratch", reason: "CheckViability/ViableBits are assigned before every use"},
	"ds":          {class: "scratch", reason: "re-sliced and filled with -1 before use in addAugmentations"},
	"v":           {class: "scratch", reason: "truncated to [:0] before use in Next"},
}
var c04SG = map[string]fieldClass{
	"G":          {class: "saved", record: "G"},
	"Neighbours": {class: "scratch", reason: "recomputed by updateNeighbours before every labelling"},
	"Perm":       {class: "cache", reason: "nil => recomputed (addAugmentations / isCanonical)"},
	"Generators": {class: "cache", reason: "nil => recomputed"},
	"Orbits":     {class: "cache", reason: "nil => recomputed"},
}

func structOf(c *Ctx, pkgRel, name string) *types.Struct {
	o := c.Pkg(pkgRel).Types.Scope().Lookup(name)
	if o == nil {
		failf("type %s.%s not found", pkgRel, name)
	}
	st, ok := o.Type().Underlying().(*types.Struct)
	if !ok {
		failf("%s.%s is not a struct", pkgRel, name)
	}
	return st
}

func ruleCapture(c *Ctx) *RuleResult {
	r := &RuleResult{Rule: "CAPTURE", Doc: "every field of GraphIterator/searchGraph is classified; saved fields flow iterator->record in Save and record->iterator in Load (per DenseGraph field for the graph); derived and cache fields are not written by Load except with nil", MinInst: 12}
	iterT := structOf(c, "graph/search", "GraphIterator")
	sgT := structOf(c, "graph/search", "searchGraph")
	saveT := structOf(c, "graph/search", "save")
	dgT := structOf(c, "graph", "DenseGraph")
	save := transfersOf(c, c.Fn("(*graph/search.GraphIterator).Save"))
	load := transfersOf(c, c.Fn("graph/search.Load"))
	wp := transfersOf(c, c.Fn("graph/search.WithPruning"))
	clr := transfersOf(c, c.Fn("graph/search.clearAutomorphismGroup"))
	recordUsed := map[string]bool{}

	check := func(ok bool, key, pos, format string, a ...interface{}) {
		r.oblig(ok)
		if !ok {
			r.find(key, pos, format, a...)
		}
	}
	savePos := c.pos(c.Fn("(*graph/search.GraphIterator).Save").Pos())
	loadPos := c.pos(c.Fn("graph/search.Load").Pos())
	// the iterator Load builds is the result of WithPruning, or a fresh GraphIterator (possibly made
	// by an unexported constructor helper whose data movements are read in Load's terms)
	iterRoots := []string{"WithPruning()", "new(GraphIterator)"}
	loadHas := func(field, src string) bool {
		for _, root := range iterRoots {
			if hasTransfer(load, root+"."+field, src) {
				return true
			}
		}
		return false
	}
	isIterPath := func(p string) bool {
		for _, root := range iterRoots {
			if strings.HasPrefix(p, root+".") {
				return true
			}
		}
		return false
	}

	doField := func(owner string, path string, name string, t types.Type, table map[string]fieldClass) {
		fc, ok := table[name]
		r.inst("field %s.%s: %s", owner, name, fc.class)
		if !ok {
			r.oblig(false)
			r.find(owner+"."+name+":unclassified field", c.pos(c.Pkg("graph/search").Types.Scope().Lookup(owner).Pos()), "%s has a new field %s that is neither saved, re-supplied, derived, cache nor scratch: Save/Load may lose iterator state", owner, name)
			return
		}
		iterPath := "iter." + path + name
		loadedPath := "WithPruning()." + path + name
		switch fc.class {
		case "saved":
			recordUsed[fc.record] = true
			check(hasTransfer(save, "new(save)."+fc.record, iterPath), "graph/search.Save:"+fc.record+" not captured", savePos, "Save does not copy %s into the record field %s", iterPath, fc.record)
			// and nothing else is stored there: a second store (the value reduced, clamped, defaulted)
			// makes the record differ from the iterator it was taken from
			for _, t := range save {
				if (t.dst == "new(save)."+fc.record && t.src != iterPath) || (t.dst == "new(save)."+fc.record+"[*]" && t.src != iterPath+"[*]") {
					r.inst("Save: record field %s is stored from %s only", fc.record, iterPath)
					r.oblig(false)
					r.find("graph/search.Save:"+fc.record+" also stored from "+t.src, c.instrPos(t.in), "Save stores into the record field %s a value other than %s (%s): the record no longer describes the iterator it was taken from", fc.record, iterPath, t.src)
				}
			}
			if name == "G" {
				// restored field by field into the preallocated graph
				for i := 0; i < dgT.NumFields(); i++ {
					f := dgT.Field(i)
					dst := loadedPath + "." + f.Name()
					src := "new(save)." + fc.record + "." + f.Name()
					if _, isSlice := f.Type().Underlying().(*types.Slice); isSlice {
						dst, src = dst+"[*]", src+"[*]"
					}
					r.inst("restore %s <- %s", dst, src)
					check(loadHas(strings.TrimPrefix(dst, "WithPruning()."), src), "graph/search.Load:"+f.Name()+" of the graph not restored", loadPos, "Load does not restore %s from %s", dst, src)
				}
			} else if fc.param != "" {
				// either stored into the new iterator directly (by Load or a constructor helper it calls), or
				// handed to WithPruning, which stores it
				direct := loadHas(path+name, "new(save)."+fc.record)
				viaWP := hasTransfer(load, "WithPruning("+fc.param+")", "new(save)."+fc.record)
				check(direct || viaWP, "graph/search.Load:"+fc.record+" not passed on", loadPos, "Load neither stores record field %s into the iterator's %s nor passes it to WithPruning(%s)", fc.record, name, fc.param)
				check(hasTransfer(wp, "new(GraphIterator)."+name, fc.param), "graph/search.WithPruning:"+name+" not set", loadPos, "WithPruning does not store its parameter %s into iter.%s", fc.param, name)
			} else {
				check(loadHas(path+name, "new(save)."+fc.record), "graph/search.Load:"+fc.record+" not restored", loadPos, "Load does not restore %s from the record field %s", loadedPath, fc.record)
			}
		case "resupplied":
			check(loadHas(path+name, fc.param) || hasTransfer(load, "WithPruning("+fc.param+")", fc.param), "graph/search.Load:"+fc.param+" not passed on", loadPos, "Load neither stores its parameter %s into the iterator nor passes it to WithPruning", fc.param)
			check(hasTransfer(wp, "new(GraphIterator)."+name, fc.param), "graph/search.WithPruning:"+name+" not set", loadPos, "WithPruning does not store its parameter %s", fc.param)
		case "derived", "cache":
			for _, t := range load {
				if strings.HasSuffix(t.dst, "."+name) && isIterPath(t.dst) {
					ok := fc.class == "cache" && t.src == "nil"
					if fc.class == "derived" && sameDerivation(c, t.in, name) {
						ok = true // recomputed by the formula WithPruning uses, from the restored inputs
					}
					check(ok, "graph/search.Load:writes "+fc.class+" field "+name, c.instrPos(t.in), "Load writes the %s field %s (from %s); it must be left to be recomputed", fc.class, name, t.src)
				}
			}
			if fc.class == "cache" {
				check(hasTransfer(clr, "sg."+name, "nil"), "graph/search.clearAutomorphismGroup:"+name+" not cleared", c.pos(c.Fn("graph/search.clearAutomorphismGroup").Pos()), "clearAutomorphismGroup does not reset sg.%s to nil; a stale cache survives an edit of the graph", name)
				for _, t := range wp {
					if strings.HasSuffix(t.dst, "."+name) && t.src != "nil" {
						check(false, "graph/search.WithPruning:cache field "+name+" initialised", c.instrPos(t.in), "WithPruning initialises cache field %s from %s", name, t.src)
					}
				}
			}
		}
		_ = t
	}
	for i := 0; i < iterT.NumFields(); i++ {
		f := iterT.Field(i)
		doField("GraphIterator", "", f.Name(), f.Type(), c04Iter)
	}
	for i := 0; i < sgT.NumFields(); i++ {
		f := sgT.Field(i)
		doField("searchGraph", "sg.", f.Name(), f.Type(), c04SG)
	}
	// every record field is written by Save and read by Load
	for i := 0; i < saveT.NumFields(); i++ {
		n := saveT.Field(i).Name()
		r.inst("record field save.%s", n)
		check(recordUsed[n], "graph/search.save:"+n+" unclassified record field", savePos, "record field save.%s is not tied to an iterator field in the classification table", n)
	}
	// stale table entries
	for n := range c04Iter {
		found := false
		for i := 0; i < iterT.NumFields(); i++ {
			if iterT.Field(i).Name() == n {
				found = true
			}
		}
		if !found {
			r.undecided("classification table names GraphIterator.%s which no longer exists", n)
		}
	}
	for n := range c04SG {
		found := false
		for i := 0; i < sgT.NumFields(); i++ {
			if sgT.Field(i).Name() == n {
				found = true
			}
		}
		if !found {
			r.undecided("classification table names searchGraph.%s which no longer exists", n)
		}
	}
	return r
}

// sameDerivation: the store `in` (in Load, or in a constructor helper Load calls) assigns the derived
// field `name` a value that is the same polynomial of the restored configuration as the one
// WithPruning stores into that field of its parameters (n -> the record's N, ...).
func sameDerivation(c *Ctx, in ssa.Instruction, name string) bool {
	load := c.Fn("graph/search.Load")
	wp := c.Fn("graph/search.WithPruning")
	if call, isCall := in.(*ssa.Call); isCall {
		h := call.Call.StaticCallee()
		if h == wp {
			return true // Load goes through WithPruning: the derivation itself
		}
		// a constructor helper that WithPruning calls as well: one piece of code derives the field for
		// both, from the configuration each hands it (checked field by field above)
		if h != nil {
			for _, b := range wp.Blocks {
				for _, i2 := range b.Instrs {
					if c2, ok := i2.(*ssa.Call); ok && c2.Call.StaticCallee() == h {
						return true
					}
				}
			}
		}
		return false
	}
	st, ok := in.(*ssa.Store)
	if !ok {
		return false
	}
	if st.Parent() != load {
		return false
	}
	// WithPruning's store to the same field
	var wv ssa.Value
	for _, b := range wp.Blocks {
		for _, i2 := range b.Instrs {
			if s2, ok := i2.(*ssa.Store); ok {
				if fa, ok := s2.Addr.(*ssa.FieldAddr); ok {
					stt := fa.X.Type().Underlying().(*types.Pointer).Elem().Underlying().(*types.Struct)
					if stt.Field(fa.Field).Name() == name {
						wv = s2.Val
					}
				}
			}
		}
	}
	if wv == nil {
		return false
	}
	// Load's value for each parameter of WithPruning: the record field that restores it, or Load's own parameter
	args := make([]ssa.Value, len(wp.Params))
	for i, p := range wp.Params {
		for fname, fc := range c04Iter {
			_ = fname
			if fc.param != p.Name() {
				continue
			}
			if fc.class == "resupplied" {
				for _, lp := range load.Params {
					if lp.Name() == fc.param {
						args[i] = lp
					}
				}
				continue
			}
			for _, b := range load.Blocks {
				for _, i2 := range b.Instrs {
					if ld, ok := i2.(*ssa.UnOp); ok && ld.Op == token.MUL && pathOfVal(c, ld) == "new(save)."+fc.record && args[i] == nil {
						args[i] = ld
					}
				}
			}
		}
		if args[i] == nil {
			return false
		}
	}
	PW, PL := NewProver(c, wp), NewProver(c, load)
	t, ok := translatePolyX(PW, PW.poly(wv), wp, PL, args, nil)
	return ok && t.key() == PL.poly(st.Val).key()
}

// ruleGobFields: every field of the record type and of every struct reachable from it is exported
// and of a kind encoding/gob transmits.
func ruleGobFields(c *Ctx, pkgRel, typ string) *RuleResult {
	r := &RuleResult{Rule: "GOBFIELDS", Doc: "gob silently drops unexported fields and rejects func/chan: every field reachable from the record is exported and encodable", MinInst: 7}
	o := c.Pkg(pkgRel).Types.Scope().Lookup(typ)
	if o == nil {
		failf("type %s.%s not found", pkgRel, typ)
	}
	seen := map[types.Type]bool{}
	var walk func(t types.Type, path string)
	walk = func(t types.Type, path string) {
		if seen[t] {
			return
		}
		seen[t] = true
		switch u := t.Underlying().(type) {
		case *types.Struct:
			// a type with its own GobEncode/GobDecode is opaque to gob
			if n, ok := t.(*types.Named); ok {
				for i := 0; i < n.NumMethods(); i++ {
					if n.Method(i).Name() == "GobEncode" {
						r.inst("%s: custom GobEncode", path)
						return
					}
				}
			}
			for i := 0; i < u.NumFields(); i++ {
				f := u.Field(i)
				p := path + "." + f.Name()
				r.inst("%s %s", p, typeShort(f.Type()))
				r.oblig(f.Exported())
				if !f.Exported() {
					r.find(pkgRel+"."+typ+":unexported field "+strings.TrimPrefix(p, typ+"."), c.pos(f.Pos()), "field %s is unexported: encoding/gob silently omits it, so the saved search loses this state", p)
				}
				walk(f.Type(), p)
			}
		case *types.Pointer:
			walk(u.Elem(), path)
		case *types.Slice:
			walk(u.Elem(), path+"[]")
		case *types.Array:
			walk(u.Elem(), path+"[]")
		case *types.Map:
			walk(u.Key(), path+"[key]")
			walk(u.Elem(), path+"[]")
		case *types.Signature, *types.Chan:
			r.oblig(false)
			r.find(pkgRel+"."+typ+":unencodable "+path, c.pos(o.Pos()), "%s has type %s which gob cannot encode", path, typeShort(t))
		case *types.Interface:
			r.oblig(false)
			r.find(pkgRel+"."+typ+":interface "+path, c.pos(o.Pos()), "%s is an interface; gob needs registered concrete types", path)
		}
	}
	walk(o.Type(), typ)
	return r
}

func init() {
	register(&propDef{
		id:          "C04",
		explanation: "Decides the structural half of resumability: CAPTURE (each of the 15 GraphIterator and 5 searchGraph fields is classified saved / re-supplied / derived / cache / scratch; an unclassified new field fails; every saved field has a data-flow iterator->record in Save and record->iterator in Load, the graph field by field into the preallocated storage; cache fields are only ever set to nil by Load/WithPruning and are cleared by clearAutomorphismGroup), GOBFIELDS (every field reachable from the record is exported and gob-encodable), PURE (Save writes nothing reachable from the iterator; the loaded iterator reaches neither the reader nor any package-level memory), READFULL (the search package never takes data from the reader with a single unretried Read, which may legally come back short). Does not decide that the resumed sequence equals the remaining sequence.",
		notDecided:  []string{"equality (content and order) of the resumed output with the original's remaining output", "that the scratch/cache classification is semantically right beyond the stated one-line reasons (trusted table in checker/p_c04.go)", "that the restored slices have the right lengths"},
		assumptions: []string{"encoding/gob round-trips exported fields of the listed kinds faithfully", "field classification table (c04Iter, c04SG) confirmed by reading"},
		run: func(c *Ctx, tier string) []*RuleResult {
			pure := &RuleResult{Rule: "PURE", Doc: "Save does not write the iterator; Load's result is independent of the reader", MinInst: 2}
			noWrites(c, pure, c.Fn("(*graph/search.GraphIterator).Save"), []int{0}, "the iterator being saved")
			load := c.Fn("graph/search.Load")
			freshResult(c, pure, load, 0, []int{paramIndex(load, "r")}, nil, "must not keep the reader")
			fw := ruleFieldWriters(c, "DERIVED", []fieldWriterSpec{{pkgRel: "graph/search", typ: "GraphIterator", field: "splitLevel", noneOK: true},
				{pkgRel: "graph/search", typ: "GraphIterator", field: "n", noneOK: true}, {pkgRel: "graph/search", typ: "GraphIterator", field: "a", noneOK: true}, {pkgRel: "graph/search", typ: "GraphIterator", field: "m", noneOK: true}})
			fw.Doc = "configuration (n, a, m) and the derived splitLevel are written only where the iterator is built (WithPruning), never later through a *GraphIterator"
			fw.MinInst = 4
			gl := ruleGlobalIn(c, "graph/search")
			gl.Doc = "no function of the search package writes through, or hands out, a package-level variable: two iterators (or a saved record and the iterator it came from) can share nothing behind the caller's back"
			gl.MinInst = 5
			return []*RuleResult{ruleCapture(c), ruleGobFields(c, "graph/search", "save"), pure, fw, gl, ruleReadFull(c, "graph/search")}
		},
		controls: func(ctl *Ctx) []*RuleResult {
			g := ruleGobFields(ctl, "capctl", "BadRecord")
			g2 := ruleGobFields(ctl, "capctl", "GoodRecord")
			g.Findings = append(g.Findings, g2.Findings...)
			pure := &RuleResult{Rule: "PURE"}
			noWrites(ctl, pure, ctl.Fn("(*capctl.It).BadSave"), []int{0}, "the iterator being saved")
			noWrites(ctl, pure, ctl.Fn("(*capctl.It).GoodSave"), []int{0}, "the iterator being saved")
			tr := &RuleResult{Rule: "CAPTURE"}
			ts := transfersOf(ctl, ctl.Fn("(*capctl.It).GoodSave"))
			if !hasTransfer(ts, "new(GoodRecord).N", "it.n") || !hasTransfer(ts, "new(GoodRecord).Path", "it.path") {
				tr.undecided("transfer extraction lost GoodSave's flows: %v", fmtTransfers(ts))
			}
			tb := transfersOf(ctl, ctl.Fn("(*capctl.It).BadSave"))
			if !hasTransfer(tb, "new(GoodRecord).Path", "it.path") {
				tr.find("capctl.BadSave:Path not captured", "-", "control: BadSave does not copy it.path")
			}
			rf := ruleReadFull(ctl, "capctl")
			return []*RuleResult{g, pure, tr, rf}
		},
	})
}

func fmtTransfers(ts []transfer) string {
	var s []string
	for _, t := range ts {
		s = append(s, t.dst+"<-"+t.src)
	}
	sort.Strings(s)
	return fmt.Sprint(s)
}

// ruleReadFull: io.Reader.Read may return fewer bytes than asked for without an error. A direct
// Read whose block is not on a cycle (no retry loop) therefore reads "the header" only from readers
// that happen to deliver it in one piece (bytes.Buffer, files), and fails on the rest
// (network connections, bufio at a buffer boundary, iotest.OneByteReader).
func ruleReadFull(c *Ctx, pkgRel string) *RuleResult {
	r := &RuleResult{Rule: "READFULL", Doc: "no single, unretried Read on an io.Reader: a short read is not an error (io.ReadFull or a loop is required)", MinInst: 0}
	for _, fn := range c.Funcs {
		p := fnPkg(fn)
		if p == nil || p.Pkg.Path() != c.Mod+"/"+pkgRel || fn.Synthetic != "" {
			continue
		}
		for _, b := range fn.Blocks {
			for _, in := range b.Instrs {
				call, ok := in.(*ssa.Call)
				if !ok {
					continue
				}
				name := ""
				var sig *types.Signature
				if call.Call.IsInvoke() {
					name = call.Call.Method.Name()
					sig, _ = call.Call.Method.Type().(*types.Signature)
				} else if f := call.Call.StaticCallee(); f != nil && f.Signature.Recv() != nil {
					name = f.Name()
					sig = f.Signature
				}
				if name != "Read" || sig == nil || sig.Params().Len() != 1 || sig.Results().Len() != 2 {
					continue
				}
				if sl, ok := sig.Params().At(0).Type().Underlying().(*types.Slice); !ok || !isByte(sl.Elem()) {
					continue
				}
				r.inst("%s: %s", c.short(fn), instrDesc(c, call))
				onCycle := false
				for _, s := range b.Succs {
					if s == b || reachableBlocks(s, nil)[b] {
						onCycle = true
					}
				}
				r.oblig(onCycle)
				if !onCycle {
					r.find(c.short(fn)+":single Read", c.instrPos(call), "%s reads with one call of Read and no retry loop: Read may deliver fewer bytes than the buffer holds without reporting an error, so the data is only complete for readers that never split it", c.short(fn))
				}
			}
		}
	}
	return r
}
