package main

// Polynomials with int64 coefficients over prover atoms (E-PROVE terms).

import (
	"fmt"
	"sort"
	"strings"
)

// Poly is a polynomial over atoms with int64 coefficients; key "" is the constant term.
// A monomial key is the sorted atom ids joined by "*".
type Poly map[string]int64

func constP(c int64) Poly {
	if c == 0 {
		return Poly{}
	}
	return Poly{"": c}
}
func atomP(id int) Poly { return Poly{fmt.Sprint(id): 1} }

func (p Poly) clone() Poly {
	q := Poly{}
	for k, v := range p {
		q[k] = v
	}
	return q
}
func (p Poly) add(q Poly, s int64) Poly {
	r := p.clone()
	for k, v := range q {
		r[k] += s * v
		if r[k] == 0 {
			delete(r, k)
		}
	}
	return r
}
func (p Poly) scale(s int64) Poly {
	r := Poly{}
	if s == 0 {
		return r
	}
	for k, v := range p {
		r[k] = v * s
	}
	return r
}
func mulMono(a, b string) string {
	if a == "" {
		return b
	}
	if b == "" {
		return a
	}
	xs := append(strings.Split(a, "*"), strings.Split(b, "*")...)
	sort.Strings(xs)
	return strings.Join(xs, "*")
}
func (p Poly) mul(q Poly) Poly {
	r := Poly{}
	for k1, v1 := range p {
		for k2, v2 := range q {
			k := mulMono(k1, k2)
			r[k] += v1 * v2
			if r[k] == 0 {
				delete(r, k)
			}
		}
	}
	return r
}
func (p Poly) isConst() (int64, bool) {
	if len(p) == 0 {
		return 0, true
	}
	if len(p) == 1 {
		if c, ok := p[""]; ok {
			return c, true
		}
	}
	return 0, false
}
func (p Poly) key() string {
	ks := make([]string, 0, len(p))
	for k := range p {
		ks = append(ks, k)
	}
	sort.Strings(ks)
	var sb strings.Builder
	for _, k := range ks {
		fmt.Fprintf(&sb, "%+d[%s]", p[k], k)
	}
	return sb.String()
}
func (p Poly) monos() []string {
	ks := make([]string, 0, len(p))
	for k := range p {
		if k != "" {
			ks = append(ks, k)
		}
	}
	sort.Strings(ks)
	return ks
}
