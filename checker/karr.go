package main

// Affine-equality analysis (Karr 1976) over the prover's terms, used by E-PROVE as a source of
// loop invariants that are linear *equalities* between several counters - the kind no
// single-variable induction finds, e.g. a (byte index, bit shift) cursor pair against a bit count:
//   6*byteIdx - shift - p = 6*byteIdx0 - shift0      (inner loop)
//   6*byteIdx0 - shift0 + bitsLeft = 6*len - 5       (outer loop)
//
// The variables are the monomials of the prover's polynomials (atoms and, opaquely, products of
// atoms); a state is an affine subspace, kept as a reduced system of equations. SSA values other
// than phis are polynomials over atoms, so blocks have no transfer function of their own: the work
// is on edges - the equalities a branch condition adds, the parallel assignment of the target's
// phis, the projection of everything that the assignment (or, on a back edge, the next iteration)
// makes stale - and at joins (the affine hull, computed as the intersection of the two equation
// spaces). The lattice has finite height (the dimension can only grow), so the iteration ends.

import (
	"fmt"
	"go/token"
	"math/big"
	"sort"
	"strings"

	"golang.org/x/tools/go/ssa"
)

type kRow map[string]*big.Rat // monomial -> coefficient ("" = constant term); the row states  sum = 0

type kSpace struct {
	bottom bool
	rows   []kRow // reduced: each row has a pivot monomial that occurs in no other row
	piv    []string
}

func kBottom() *kSpace { return &kSpace{bottom: true} }
func kTop() *kSpace    { return &kSpace{} }

func (s *kSpace) clone() *kSpace {
	t := &kSpace{bottom: s.bottom}
	for i, r := range s.rows {
		q := kRow{}
		for k, v := range r {
			q[k] = new(big.Rat).Set(v)
		}
		t.rows = append(t.rows, q)
		t.piv = append(t.piv, s.piv[i])
	}
	return t
}

func rowFromPoly(p Poly) kRow {
	r := kRow{}
	for k, v := range p {
		r[k] = new(big.Rat).SetInt64(v)
	}
	return r
}

func (r kRow) addScaled(o kRow, f *big.Rat) {
	for k, v := range o {
		t := new(big.Rat).Mul(v, f)
		if cur, ok := r[k]; ok {
			cur.Add(cur, t)
			if cur.Sign() == 0 {
				delete(r, k)
			}
		} else if t.Sign() != 0 {
			r[k] = t
		}
	}
}

// pickPivot: the preferred monomial of a row (those in `first` win, then the largest key).
func pickPivot(r kRow, first map[string]bool) string {
	best, bestFirst := "", false
	for k := range r {
		if k == "" {
			continue
		}
		f := first != nil && first[k]
		if best == "" || (f && !bestFirst) || (f == bestFirst && k > best) {
			best, bestFirst = k, f
		}
	}
	return best
}

// add inserts the equation r = 0 (r is consumed).
func (s *kSpace) add(r kRow, first map[string]bool) {
	if s.bottom {
		return
	}
	for i, q := range s.rows {
		if c, ok := r[s.piv[i]]; ok {
			f := new(big.Rat).Neg(c) // pivots are normalised to 1
			r.addScaled(q, f)
		}
	}
	p := pickPivot(r, first)
	if p == "" {
		if c, ok := r[""]; ok && c.Sign() != 0 {
			s.bottom = true
			s.rows, s.piv = nil, nil
		}
		return
	}
	inv := new(big.Rat).Inv(r[p])
	for k := range r {
		r[k].Mul(r[k], inv)
	}
	for _, q := range s.rows {
		if c, ok := q[p]; ok {
			q.addScaled(r, new(big.Rat).Neg(c))
		}
	}
	s.rows = append(s.rows, r)
	s.piv = append(s.piv, p)
}

// project removes every equation that mentions a monomial for which drop() holds, after using the
// equations to eliminate those monomials from the others.
func (s *kSpace) project(drop func(m string) bool) *kSpace {
	if s.bottom {
		return s
	}
	first := map[string]bool{}
	for _, r := range s.rows {
		for k := range r {
			if k != "" && drop(k) {
				first[k] = true
			}
		}
	}
	if len(first) == 0 {
		return s
	}
	t := kTop()
	for _, r := range s.clone().rows {
		t.add(r, first)
	}
	out := kTop()
	for i, r := range t.rows {
		if first[t.piv[i]] {
			continue
		}
		mentions := false
		for k := range r {
			if first[k] {
				mentions = true
			}
		}
		if !mentions {
			out.rows = append(out.rows, r)
			out.piv = append(out.piv, t.piv[i])
		}
	}
	return out
}

func (s *kSpace) rename(m map[string]string) {
	for i, r := range s.rows {
		q := kRow{}
		for k, v := range r {
			if n, ok := m[k]; ok {
				q[n] = v
			} else {
				q[k] = v
			}
		}
		s.rows[i] = q
		if n, ok := m[s.piv[i]]; ok {
			s.piv[i] = n
		}
	}
}

// implies: does the space satisfy r = 0 ?
func (s *kSpace) implies(r kRow) bool {
	if s.bottom {
		return true
	}
	q := kRow{}
	q.addScaled(r, big.NewRat(1, 1))
	for i, row := range s.rows {
		if c, ok := q[s.piv[i]]; ok {
			q.addScaled(row, new(big.Rat).Neg(c))
		}
	}
	return len(q) == 0
}

// kJoin: the affine hull of two spaces = the equations implied by both. With both spaces non-empty,
// an equation holds on a space iff it lies in the row space of its system, so the hull's system is
// the intersection of the two row spaces: solve  sum alpha_i a_i = sum beta_j b_j.
func kJoin(a, b *kSpace) *kSpace {
	if a.bottom {
		return b.clone()
	}
	if b.bottom {
		return a.clone()
	}
	if len(a.rows) == 0 || len(b.rows) == 0 {
		return kTop()
	}
	// unknowns: alpha_0..alpha_{m-1}, beta_0..beta_{n-1}; one homogeneous equation per monomial
	m, n := len(a.rows), len(b.rows)
	monos := map[string]bool{}
	for _, r := range a.rows {
		for k := range r {
			monos[k] = true
		}
	}
	for _, r := range b.rows {
		for k := range r {
			monos[k] = true
		}
	}
	var keys []string
	for k := range monos {
		keys = append(keys, k)
	}
	sort.Strings(keys)
	sys := kTop() // reuse the solver: variables "x0".."x{m+n-1}"
	name := func(i int) string { return "x" + strings.Repeat("0", 0) + itoa(i) }
	for _, k := range keys {
		eq := kRow{}
		for i, r := range a.rows {
			if c, ok := r[k]; ok {
				eq[name(i)] = new(big.Rat).Set(c)
			}
		}
		for j, r := range b.rows {
			if c, ok := r[k]; ok {
				eq[name(m+j)] = new(big.Rat).Neg(c)
			}
		}
		if len(eq) > 0 {
			sys.add(eq, nil)
		}
	}
	// null space: free variables are those that are no pivot
	isPiv := map[string]int{}
	for i, p := range sys.piv {
		isPiv[p] = i
	}
	out := kTop()
	for f := 0; f < m+n; f++ {
		if _, ok := isPiv[name(f)]; ok {
			continue
		}
		// solution with free variable f = 1, other free variables 0
		val := make([]*big.Rat, m+n)
		for i := range val {
			val[i] = new(big.Rat)
		}
		val[f].SetInt64(1)
		for i, p := range sys.piv {
			// row: p + sum c_k x_k = 0  ->  p = -c_f
			if c, ok := sys.rows[i][name(f)]; ok {
				idx := atoi(p[1:])
				val[idx].Neg(c)
			}
		}
		v := kRow{}
		for i := 0; i < m; i++ {
			if val[i].Sign() != 0 {
				v.addScaled(a.rows[i], val[i])
			}
		}
		if len(v) > 0 {
			out.add(v, nil)
		}
	}
	return out
}

func itoa(i int) string {
	if i == 0 {
		return "0"
	}
	var b []byte
	for i > 0 {
		b = append([]byte{byte('0' + i%10)}, b...)
		i /= 10
	}
	return string(b)
}
func atoi(s string) int {
	n := 0
	for _, c := range s {
		n = n*10 + int(c-'0')
	}
	return n
}

func (s *kSpace) equal(t *kSpace) bool {
	if s.bottom != t.bottom || len(s.rows) != len(t.rows) {
		return false
	}
	for _, r := range t.rows {
		if !s.implies(r) {
			return false
		}
	}
	return true
}

// ---------------------------------------------------------------- the analysis

type karr struct {
	P  *Prover
	in map[*ssa.BasicBlock]*kSpace
}

// atomStaleUnder: is the atom defined inside the region dominated by h (so that a new trip
// through h invalidates it)?
func (P *Prover) atomDefBlock(a *Atom) []*ssa.BasicBlock {
	var out []*ssa.BasicBlock
	var walk func(a *Atom)
	walk = func(a *Atom) {
		if a.val != nil {
			if in, ok := a.val.(ssa.Instruction); ok && in.Block() != nil {
				out = append(out, in.Block())
			}
		}
		if a.inner != nil {
			P.atomsOf(a.inner, walk)
		}
	}
	walk(a)
	return out
}

func (P *Prover) monoAtoms(m string) []*Atom {
	var out []*Atom
	for _, s := range strings.Split(m, "*") {
		if s == "" {
			continue
		}
		id := atoi(s)
		if id < len(P.atoms) {
			out = append(out, P.atoms[id])
		}
	}
	return out
}

// runKarr computes the affine equalities at the entry of every block (after its phis).
func (P *Prover) runKarr() *karr {
	K := &karr{P: P, in: map[*ssa.BasicBlock]*kSpace{}}
	fn := P.fn
	for _, b := range fn.Blocks {
		K.in[b] = kBottom()
	}
	K.in[fn.Blocks[0]] = kTop()
	phiAtom := func(phi *ssa.Phi) (string, bool) {
		p := P.poly(phi)
		if len(p) == 1 {
			for k, v := range p {
				if v == 1 && k != "" && !strings.Contains(k, "*") {
					return k, true
				}
			}
		}
		return "", false
	}
	// equalities carried by the edge p -> b
	edgeEqs := func(p, b *ssa.BasicBlock) []Poly {
		if len(p.Instrs) == 0 {
			return nil
		}
		iff, ok := p.Instrs[len(p.Instrs)-1].(*ssa.If)
		if !ok || p.Succs[0] == p.Succs[1] {
			return nil
		}
		truth := p.Succs[0] == b
		var out []Poly
		fs := P.condFacts(iff.Cond, truth)
		// d <= 0 and -d <= 0 together
		for i, f := range fs {
			if _, isNeq := f["!="]; isNeq {
				continue
			}
			for j, g := range fs {
				if i < j && len(f.add(g, 1)) == 0 {
					out = append(out, f)
				}
			}
			// f <= 0 where f is known >= 0: an unsigned atom (or a length) alone
			if len(f) == 1 {
				for k, v := range f {
					if v == 1 && k != "" && !strings.Contains(k, "*") {
						if a := P.atoms[atoi(k)]; a.uns || a.kind == aLen {
							out = append(out, f)
						}
					}
				}
			}
			// the exit test of a counting loop: f <= 0 on this edge and f >= 0 provable by induction
			if len(P.phisIn(f)) > 0 && len(f) <= 4 && K.exitEq(p, f) {
				out = append(out, f)
			}
		}
		return out
	}
	rpo := fn.DomPreorder()
	for iter := 0; iter < 200; iter++ {
		changed := false
		for _, b := range rpo {
			if b == fn.Blocks[0] {
				continue
			}
			var acc *kSpace
			for pi, p := range b.Preds {
				src := K.in[p]
				if src.bottom {
					continue
				}
				s := src.clone()
				for _, e := range edgeEqs(p, b) {
					s.add(rowFromPoly(e), nil)
				}
				if s.bottom {
					continue
				}
				// parallel assignment of b's phis
				ren := map[string]string{}
				old := map[string]bool{}
				for _, in := range b.Instrs {
					phi, ok := in.(*ssa.Phi)
					if !ok {
						break
					}
					if !isInt(phi.Type()) {
						continue
					}
					name, ok := phiAtom(phi)
					if !ok {
						continue
					}
					old[name] = true
					op := P.poly(phi.Edges[pi])
					r := rowFromPoly(op)
					r.addScaled(kRow{name + "'": big.NewRat(1, 1)}, big.NewRat(-1, 1))
					s.add(r, nil)
					ren[name+"'"] = name
				}
				back := b.Dominates(p)
				s = s.project(func(m string) bool {
					if strings.HasSuffix(m, "'") {
						return false
					}
					for _, a := range P.monoAtoms(m) {
						if old[itoa(a.id)] {
							return true
						}
						if back {
							for _, db := range P.atomDefBlock(a) {
								if db == b || b.Dominates(db) {
									// defined inside the loop: stale on the next trip (the header's own phis were handled above)
									if _, isPhi := a.val.(*ssa.Phi); isPhi && db == b {
										continue
									}
									return true
								}
							}
						}
					}
					return false
				})
				s.rename(ren)
				if acc == nil {
					acc = s
				} else {
					acc = kJoin(acc, s)
				}
			}
			if acc == nil {
				continue
			}
			if !acc.equal(K.in[b]) {
				// ascending: the new state is the hull of old and new
				nw := kJoin(K.in[b], acc)
				if !nw.equal(K.in[b]) {
					K.in[b] = nw
					changed = true
				}
			}
		}
		if !changed {
			break
		}
	}
	return K
}

// exitEq: f <= 0 holds on an edge leaving block p; is f >= 0 provable at p (small budget)?
func (K *karr) exitEq(p *ssa.BasicBlock, f Poly) bool {
	P := K.P
	key := "exit:" + f.key() + "@" + itoa(p.Index)
	if r, ok := P.memo[key]; ok {
		return r
	}
	saveB, saveBudget := P.Budget, P.budget
	P.Budget, P.budget = 3000, 3000
	res := P.prove(f.scale(-1), p, nil, nil, 3)
	P.Budget, P.budget = saveB, saveBudget
	P.memo[key] = res
	return res
}

// karrFacts: the equalities at the entry of blk as pairs of inequalities with integer coefficients.
func (P *Prover) karrFacts(blk *ssa.BasicBlock) []Poly {
	if P.karr == nil {
		P.inKarr = true
		P.karr = P.runKarr()
		P.inKarr = false
	}
	s := P.karr.in[blk]
	if s == nil || s.bottom {
		return nil
	}
	var out []Poly
	for _, r := range s.rows {
		if len(r) > 8 {
			continue
		}
		// clear denominators
		l := big.NewInt(1)
		for _, v := range r {
			d := v.Denom()
			g := new(big.Int).GCD(nil, nil, l, d)
			l.Mul(l, new(big.Int).Div(d, g))
		}
		p := Poly{}
		okRow := true
		for k, v := range r {
			n := new(big.Int).Mul(v.Num(), new(big.Int).Div(l, v.Denom()))
			if !n.IsInt64() || n.Int64() > 1<<40 || n.Int64() < -(1<<40) {
				okRow = false
				break
			}
			p[k] = n.Int64()
		}
		if !okRow || len(p) == 0 {
			continue
		}
		out = append(out, p, p.scale(-1))
	}
	return out
}

// karrRewrite replaces, in p, every phi atom whose value at the entry of blk is pinned by the affine
// equalities there (index = i + v(v-1)/2 and i = v after a finished loop) by that expression. Only
// substitutions with integer coefficients are made.
func (P *Prover) karrRewrite(p Poly, blk *ssa.BasicBlock) Poly {
	if P.karr == nil {
		P.inKarr = true
		P.karr = P.runKarr()
		P.inKarr = false
	}
	s := P.karr.in[blk]
	if s == nil || s.bottom || len(s.rows) == 0 {
		return p
	}
	out := p.clone()
	if P.trace {
		fmt.Printf("karrRewrite at b%d: %d rows; p = %s\n", blk.Index, len(s.rows), P.show(p))
		for _, r := range s.rows {
			q := Poly{}
			for k, v := range r {
				if v.IsInt() {
					q[k] = v.Num().Int64()
				} else {
					q[k] = 999
				}
			}
			fmt.Printf("   row %s\n", P.show(q))
		}
	}
	gone := map[string]bool{} // eliminated so far: a later substitution must not bring them back
	for round := 0; round < 4; round++ {
		first := map[string]bool{}
		for m := range out {
			if m == "" || strings.Contains(m, "*") {
				continue
			}
			if a := P.atoms[atoi(m)]; a.kind == aVal {
				if _, isPhi := a.val.(*ssa.Phi); isPhi {
					first[m] = true
				}
			}
		}
		if len(first) == 0 {
			return out
		}
		t := kTop()
		for _, r := range s.clone().rows {
			t.add(r, first)
		}
		changed := false
		if P.trace {
			fmt.Printf("   first=%v pivots=%v\n", first, t.piv)
		}
		for i, r := range t.rows {
			pv := t.piv[i]
			c, has := out[pv]
			if !first[pv] || !has {
				continue
			}
			// pv = -(rest of the row); all coefficients must be integers
			sub := Poly{}
			okRow := true
			for k, v := range r {
				if k == pv {
					continue
				}
				if !v.IsInt() || !v.Num().IsInt64() {
					okRow = false
					break
				}
				sub[k] = -v.Num().Int64()
			}
			for k := range sub {
				if gone[k] {
					okRow = false
				}
			}
			if !okRow {
				continue
			}
			delete(out, pv)
			out = out.add(sub, c)
			gone[pv] = true
			changed = true
		}
		if !changed {
			break
		}
	}
	return out
}

var _ = token.ADD
