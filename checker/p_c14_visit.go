package main

// VISITONCE (C14): GobEncode (and the node listing it starts from) walk the automaton depth first
// with explicit stacks and a sorted list of the node ids seen so far. A Dawg shares nodes - that is
// its point - so the walk is linear only if a child that has been seen already is not entered
// again. The structural reading: inside the scan over a node's links, a push on a work stack
// happens only on the side of the membership test on which the child is recorded as seen for the
// first time. A push before the test stays on the stack when the test says "seen", the node is
// walked again from there, and the cost becomes the number of *paths* (all three-byte words: four
// nodes, hours).
//
// Recognised shape (found, not named): the visited list is the local slice with an insertion shift
// `copy(x[i+1:], x[i:])`; the membership test is the branch that decides whether that insertion runs;
// a work stack is a local slice that the same loop nest both appends to and pops by `s[:len(s)-1]`.

import (
	"go/token"

	"golang.org/x/tools/go/ssa"
)

func ruleVisitOnce(c *Ctx, r *RuleResult, fnName string) {
	fn := c.Fn(fnName)
	if fn.Blocks == nil {
		failf("%s has no body", fnName)
	}
	// root of a slice value: follow phis / appends / reslices back to a set of values
	family := func(v ssa.Value) map[ssa.Value]bool {
		seen := map[ssa.Value]bool{}
		var walk func(v ssa.Value)
		walk = func(v ssa.Value) {
			if v == nil || seen[v] {
				return
			}
			seen[v] = true
			switch x := v.(type) {
			case *ssa.UnOp:
				// a variable kept in memory (captured by a closure): every load of the cell is the variable
				if x.Op == token.MUL {
					if al, ok := x.X.(*ssa.Alloc); ok {
						walk(al)
					}
				}
			case *ssa.Phi:
				for _, e := range x.Edges {
					walk(e)
				}
			case *ssa.Slice:
				walk(x.X)
			case *ssa.Call:
				if b, ok := x.Call.Value.(*ssa.Builtin); ok && b.Name() == "append" {
					walk(x.Call.Args[0])
				}
			}
		}
		walk(v)
		return seen
	}
	sameFamily := func(a, b ssa.Value) bool {
		fa := family(a)
		for v := range family(b) {
			if fa[v] {
				return true
			}
		}
		return false
	}
	// (1) insertion shifts: copy(x[i+1:], x[i:])
	type ins struct {
		call *ssa.Call
		list ssa.Value
	}
	var inserts []ins
	for _, b := range fn.Blocks {
		for _, in := range b.Instrs {
			call, ok := in.(*ssa.Call)
			if !ok {
				continue
			}
			bi, isB := call.Call.Value.(*ssa.Builtin)
			if !isB || bi.Name() != "copy" || len(call.Call.Args) != 2 {
				continue
			}
			d, ok1 := call.Call.Args[0].(*ssa.Slice)
			s, ok2 := call.Call.Args[1].(*ssa.Slice)
			if !ok1 || !ok2 || !sameFamily(d.X, s.X) || d.Low == nil || s.Low == nil {
				continue
			}
			// d.Low = s.Low + 1
			if bo, ok := d.Low.(*ssa.BinOp); ok && bo.Op == token.ADD && bo.X == s.Low {
				if k, isK := constInt(bo.Y); isK && k == 1 {
					inserts = append(inserts, ins{call, d.X})
				}
			}
		}
	}
	if len(inserts) == 0 {
		r.note("%s keeps no sorted list of visited nodes (no insertion shift found): the walk is not judged", fnName)
		return
	}
	loops := loopsOf(fn)
	outermost := func(b *ssa.BasicBlock) map[*ssa.BasicBlock]bool {
		var best map[*ssa.BasicBlock]bool
		for _, body := range loops {
			// the whole traversal: the outermost loop around the test (the branch that enters a child
			// leaves the scan over the links and continues the outer loop)
			if body[b] && (best == nil || len(body) > len(best)) {
				best = body
			}
		}
		return best
	}
	for _, is := range inserts {
		ib := is.call.Block()
		// the side of the membership test on which the node is new is the region dominated by the block
		// that performs the insertion (the test itself may be a short-circuit of several branches)
		test, unseen := ib.Idom(), ib
		if test == nil {
			r.undecided("%s: the insertion into the visited list is not under a test", fnName)
			continue
		}
		body := outermost(test)
		if body == nil {
			r.note("%s: the visited list is filled outside any loop", fnName)
			continue
		}
		// work stacks: local slices appended in this loop nest and popped by s[:len(s)-1] somewhere
		var pops []ssa.Value
		for _, b := range fn.Blocks {
			for _, in := range b.Instrs {
				sl, ok := in.(*ssa.Slice)
				if !ok || sl.Low != nil || sl.High == nil {
					continue
				}
				if bo, ok := sl.High.(*ssa.BinOp); ok && bo.Op == token.SUB {
					if k, isK := constInt(bo.Y); isK && k == 1 {
						if ln, ok := bo.X.(*ssa.Call); ok {
							if bi, isB := ln.Call.Value.(*ssa.Builtin); isB && bi.Name() == "len" && sameFamily(ln.Call.Args[0], sl.X) {
								pops = append(pops, sl.X)
							}
						}
					}
				}
			}
		}
		n := 0
		for b := range body {
			for _, in := range b.Instrs {
				call, ok := in.(*ssa.Call)
				if !ok {
					continue
				}
				bi, isB := call.Call.Value.(*ssa.Builtin)
				if !isB || bi.Name() != "append" {
					continue
				}
				if sameFamily(call.Call.Args[0], is.list) {
					continue // the visited list itself
				}
				isStack := false
				for _, p := range pops {
					if sameFamily(call.Call.Args[0], p) {
						isStack = true
					}
				}
				if !isStack {
					continue
				}
				n++
				src := c.srcAt(call.Pos())
				if src == "" {
					src = valName(call)
				}
				r.inst("%s: push %s only for a node seen for the first time", fnName, src)
				ok2 := unseen.Dominates(b)
				r.oblig(ok2)
				if !ok2 {
					r.find(fnName+":push before the visited test "+src, c.instrPos(call), "%s pushes on its work stack (%s) before it has looked the child up in the list of visited nodes (test at %s): when the child has been seen the frame stays on the stack and the node is walked again from there, so a Dawg with shared nodes is encoded in time proportional to its number of paths, not nodes", fnName, src, c.instrPos(test.Instrs[len(test.Instrs)-1]))
				}
			}
		}
		if n == 0 {
			r.note("%s: no work-stack push inside the scan that fills the visited list", fnName)
		}
	}
}
