package main

import (
	"go/token"

	"golang.org/x/tools/go/ssa"
)

// setStores lists the stores of fn whose address is an element of the set reached from the
// receiver (E-EFF: rooted at parameter 0), with index and value.
type setStore struct {
	st  *ssa.Store
	ia  *ssa.IndexAddr
	idx ssa.Value
}

func setStores(c *Ctx, fn *ssa.Function) []setStore {
	E := c.Eff()
	f := E.fas[fn]
	var out []setStore
	for _, b := range fn.Blocks {
		for _, in := range b.Instrs {
			st, ok := in.(*ssa.Store)
			if !ok {
				continue
			}
			rooted := false
			for l := range f.P(st.Addr) {
				if l.o.root == 0 {
					rooted = true
				}
			}
			if !rooted {
				continue
			}
			ia, _ := st.Addr.(*ssa.IndexAddr)
			ss := setStore{st: st, ia: ia}
			if ia != nil {
				ss.idx = ia.Index
			}
			out = append(out, ss)
		}
	}
	return out
}

func ruleRootLink(c *Ctx, r *RuleResult, fnName string, finders map[string]bool) {
	fn := c.Fn(fnName)
	P := NewProver(c, fn)
	roots := map[ssa.Value]bool{}
	for _, b := range fn.Blocks {
		for _, in := range b.Instrs {
			if call, ok := in.(*ssa.Call); ok {
				if f := call.Call.StaticCallee(); f != nil && finders[c.short(f)] {
					roots[call] = true
				}
			}
		}
	}
	if len(roots) < 2 {
		r.undecided("%s: fewer than two Find results; cannot identify the roots being linked", fnName)
		return
	}
	stores := setStores(c, fn)
	if len(stores) == 0 {
		r.undecided("%s: no store into the set found", fnName)
		return
	}
	type linkAt struct {
		idx ssa.Value
		blk *ssa.BasicBlock
		pos int
	}
	var links []linkAt
	posOf := func(in ssa.Instruction) int {
		for i, x := range in.Block().Instrs {
			if x == in {
				return i
			}
		}
		return -1
	}
	for _, s := range stores {
		desc := c.srcAt(s.st.Pos())
		if desc == "" && s.ia != nil {
			desc = c.srcAt(s.ia.Pos())
		}
		if desc == "" {
			desc = valName(s.st.Addr)
		}
		r.inst("%s: store %s", fnName, desc)
		if s.ia == nil || !roots[s.idx] {
			r.oblig(false)
			r.find(fnName+":"+desc+" index is not a root", c.instrPos(s.st), "%s stores into the set at an index that is not a result of Find in this function: linking a non-root detaches its former ancestors", fnName)
			continue
		}
		v := s.st.Val
		switch {
		case roots[v] && v != s.idx:
			links = append(links, linkAt{s.idx, s.st.Block(), posOf(s.st)})
			r.oblig(true)
		case isDecrementOf(P, v, s.ia):
			// the decremented root must not have been linked away before on this path
			bad := false
			for _, l := range links {
				if l.idx == s.idx && (l.blk == s.st.Block() && l.pos < posOf(s.st) || (l.blk != s.st.Block() && l.blk.Dominates(s.st.Block()))) {
					bad = true
				}
			}
			r.oblig(!bad)
			if bad {
				r.find(fnName+":"+desc+" decrements a linked root", c.instrPos(s.st), "%s adjusts the rank entry of a root it has just re-pointed at the other root: the entry is now a parent index, and decrementing it points at the wrong element", fnName)
			}
		default:
			r.oblig(false)
			r.find(fnName+":"+desc+" value is neither the other root nor a rank bump", c.instrPos(s.st), "%s stores %s into a root's entry: it must be the other root (link) or the root's own entry minus one (rank)", fnName, valName(v))
		}
	}
}

// isDecrementOf: v == load(<same cell as ia>) - 1
func isDecrementOf(P *Prover, v ssa.Value, ia *ssa.IndexAddr) bool {
	bo, ok := v.(*ssa.BinOp)
	if !ok || bo.Op != token.SUB {
		return false
	}
	if k, ok := constInt(bo.Y); !ok || k != 1 {
		return false
	}
	ld, ok := bo.X.(*ssa.UnOp)
	if !ok || ld.Op != token.MUL {
		return false
	}
	src, ok := ld.X.(*ssa.IndexAddr)
	if !ok {
		return false
	}
	return src.Index == ia.Index && P.canon(strip(src.X)) == P.canon(strip(ia.X)) || (src.Index == ia.Index && sameSliceLoad(src.X, ia.X))
}

func sameSliceLoad(a, b ssa.Value) bool {
	if a == b {
		return true
	}
	la, ok1 := a.(*ssa.UnOp)
	lb, ok2 := b.(*ssa.UnOp)
	return ok1 && ok2 && la.Op == token.MUL && lb.Op == token.MUL && la.X == lb.X
}

func ruleCompress(c *Ctx, r *RuleResult, fnName string) {
	fn := c.Fn(fnName)
	stores := setStores(c, fn)
	if len(stores) == 0 {
		r.note("%s: no store into the set (no path compression)", fnName)
	}
	for _, s := range stores {
		desc := c.srcAt(s.st.Pos())
		if desc == "" && s.ia != nil {
			desc = c.srcAt(s.ia.Pos())
		}
		if desc == "" {
			desc = valName(s.st.Addr)
		}
		r.inst("%s: store %s", fnName, desc)
		// every return reachable from the store returns the stored value
		reach := reachableBlocks(s.st.Block(), nil)
		ok, n := true, 0
		for b := range reach {
			if ret, isRet := b.Instrs[len(b.Instrs)-1].(*ssa.Return); isRet {
				n++
				if len(ret.Results) == 0 || ret.Results[0] != s.st.Val {
					ok = false
				}
			}
		}
		if n == 0 {
			ok = false
		}
		r.oblig(ok)
		if !ok {
			r.find(fnName+":"+desc+" is not the returned root", c.instrPos(s.st), "%s writes %s into the set during a lookup, which is not the representative it returns: a lookup may only re-point elements at the root of their own tree", fnName, valName(s.st.Val))
		}
	}
}

func init() {
	finders := map[string]bool{"(*disjoint.Set).Find": true, "(*disjoint.Set).FindBuffered": true}
	register(&propDef{
		id:          "C18",
		explanation: "Decides two representation-level necessary conditions of the parent-forest encoding (negative entry = root): ROOTLINK (in Union and UnionBuffered every store into the set indexes a value returned by Find/FindBuffered in that call, i.e. a root, and stores either the other root (link) or that root's own entry minus one (rank bump), never a rank bump of a root already linked away), COMPRESS (in Find and FindBuffered every store into the set writes exactly the value the function goes on to return, so a lookup can only re-point an element at the root of its own tree), plus READONLY for Roots and WRITE-SCOPE (the buffered variants write only the set and buf). Does not decide the partition itself.",
		notDecided:  []string{"that two elements have the same representative exactly when connected by the unions so far", "Sets / SmallestRep / Roots describe that partition", "a correct path-halving variant would be reported (none exists in the tree)"},
		assumptions: []string{"Find returns a root (value-level; not decided)"},
		run: func(c *Ctx, tier string) []*RuleResult {
			rl := &RuleResult{Rule: "ROOTLINK", Doc: "union stores only link a Find result to the other Find result, or bump the rank of the surviving root", MinInst: 8}
			ruleRootLink(c, rl, "(*disjoint.Set).Union", finders)
			ruleRootLink(c, rl, "(*disjoint.Set).UnionBuffered", finders)
			cp := &RuleResult{Rule: "COMPRESS", Doc: "lookup stores write exactly the representative that is returned", MinInst: 2}
			ruleCompress(c, cp, "(*disjoint.Set).Find")
			ruleCompress(c, cp, "(*disjoint.Set).FindBuffered")
			ws := &RuleResult{Rule: "WRITE-SCOPE", Doc: "Roots writes nothing; New returns fresh memory; every method writes only the set's elements (and buf for the buffered variants), never the slice header", MinInst: 5}
			noWrites(c, ws, c.Fn("(*disjoint.Set).Roots"), nil, "anything")
			for _, n := range []string{"(*disjoint.Set).Find", "(*disjoint.Set).Union", "(*disjoint.Set).Sets", "(*disjoint.Set).SmallestRep"} {
				onlyWrites(c, ws, c.Fn(n), []int{0}, "the set")
			}
			for _, n := range []string{"(*disjoint.Set).FindBuffered", "(*disjoint.Set).UnionBuffered"} {
				fn := c.Fn(n)
				onlyWrites(c, ws, fn, []int{0, paramIndex(fn, "buf")}, "the set and buf")
			}
			return []*RuleResult{rl, cp, ws}
		},
		controls: func(ctl *Ctx) []*RuleResult {
			f := map[string]bool{"(*dsctl.Set).Find": true}
			var out []*RuleResult
			for _, n := range []string{"(*dsctl.Set).BadUnionLinksElement", "(*dsctl.Set).BadUnionRankOfChild"} {
				rl := &RuleResult{Rule: "ROOTLINK"}
				ruleRootLink(ctl, rl, n, f)
				out = append(out, rl)
			}
			g := &RuleResult{Rule: "ROOTLINK"}
			ruleRootLink(ctl, g, "(*dsctl.Set).GoodUnion", f)
			out[0].Findings = append(out[0].Findings, g.Findings...)
			cp := &RuleResult{Rule: "COMPRESS"}
			ruleCompress(ctl, cp, "(*dsctl.Set).BadFind")
			ruleCompress(ctl, cp, "(*dsctl.Set).Find")
			return append(out, cp)
		},
	})
}
