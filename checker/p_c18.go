package main

import (
	"go/token"
	"go/types"

	"golang.org/x/tools/go/ssa"
)

// setStores lists the stores of fn whose address is an element of the set reached from the
// receiver (E-EFF: rooted at parameter 0), with index and value.
type setStore struct {
	st  *ssa.Store
	ia  *ssa.IndexAddr
	idx ssa.Value
}

func setStores(c *Ctx, fn *ssa.Function) []setStore {
	E := c.Eff()
	f := E.fas[fn]
	var out []setStore
	for _, b := range fn.Blocks {
		for _, in := range b.Instrs {
			st, ok := in.(*ssa.Store)
			if !ok {
				continue
			}
			rooted := false
			for l := range f.P(st.Addr) {
				if l.o.root == 0 {
					rooted = true
				}
			}
			if !rooted {
				continue
			}
			ia, _ := st.Addr.(*ssa.IndexAddr)
			ss := setStore{st: st, ia: ia}
			if ia != nil {
				ss.idx = ia.Index
			}
			out = append(out, ss)
		}
	}
	return out
}

// guardedRoots: values x for which `set[x] < 0` holds on an edge dominating blk.
func guardedRoots(blk *ssa.BasicBlock) map[ssa.Value]bool {
	out := map[ssa.Value]bool{}
	for x := blk; x != nil; x = x.Idom() {
		if len(x.Preds) != 1 {
			continue
		}
		p := x.Preds[0]
		iff, ok := p.Instrs[len(p.Instrs)-1].(*ssa.If)
		if !ok || p.Succs[0] != x {
			continue
		}
		bo, ok := iff.Cond.(*ssa.BinOp)
		if !ok || bo.Op != token.LSS {
			continue
		}
		if k, ok := constInt(bo.Y); !ok || k != 0 {
			continue
		}
		if ld, ok := bo.X.(*ssa.UnOp); ok && ld.Op == token.MUL {
			if ia, ok := ld.X.(*ssa.IndexAddr); ok {
				out[ia.Index] = true
			}
		}
	}
	return out
}

// provedDistinct: blk is dominated by an edge on which a != b; two phis of one block are distinct
// when their incoming values are pairwise distinct on every edge (a conditional swap).
func provedDistinct(blk *ssa.BasicBlock, a, b ssa.Value) bool {
	if provedDistinct1(blk, a, b) {
		return true
	}
	pa, ok1 := a.(*ssa.Phi)
	pb, ok2 := b.(*ssa.Phi)
	if ok1 && ok2 && pa.Block() == pb.Block() {
		for i := range pa.Edges {
			if pa.Edges[i] == pb.Edges[i] || !provedDistinct1(pa.Block().Preds[i], pa.Edges[i], pb.Edges[i]) {
				return false
			}
		}
		return len(pa.Edges) > 0
	}
	return false
}

func provedDistinct1(blk *ssa.BasicBlock, a, b ssa.Value) bool {
	for x := blk; x != nil; x = x.Idom() {
		if len(x.Preds) != 1 {
			continue
		}
		p := x.Preds[0]
		iff, ok := p.Instrs[len(p.Instrs)-1].(*ssa.If)
		if !ok {
			continue
		}
		bo, ok := iff.Cond.(*ssa.BinOp)
		if !ok || !((bo.X == a && bo.Y == b) || (bo.X == b && bo.Y == a)) {
			continue
		}
		onTrue := p.Succs[0] == x
		if (bo.Op == token.NEQ && onTrue) || (bo.Op == token.EQL && !onTrue) {
			return true
		}
	}
	return false
}

// checkLinkStores judges the set stores of fn given the values known to be roots; it returns the
// candidate values actually used (as index or stored value).
func checkLinkStores(c *Ctx, r *RuleResult, fn *ssa.Function, fnName string, isRoot func(v ssa.Value, at *ssa.BasicBlock) bool, needDistinct bool) (map[ssa.Value]bool, bool) {
	P := NewProver(c, fn)
	used := map[ssa.Value]bool{}
	allDistinct := true
	type linkAt struct {
		idx ssa.Value
		blk *ssa.BasicBlock
		pos int
	}
	var links []linkAt
	posOf := func(in ssa.Instruction) int {
		for i, x := range in.Block().Instrs {
			if x == in {
				return i
			}
		}
		return -1
	}
	for _, s := range setStores(c, fn) {
		desc := c.srcAt(s.st.Pos())
		if desc == "" && s.ia != nil {
			desc = c.srcAt(s.ia.Pos())
		}
		if desc == "" {
			desc = valName(s.st.Addr)
		}
		r.inst("%s: store %s", fnName, desc)
		if s.ia == nil || !isRoot(s.idx, s.st.Block()) {
			r.oblig(false)
			r.find(fnName+":"+desc+" index is not a root", c.instrPos(s.st), "%s stores into the set at an index that is not known to be a root (a result of Find, or an element whose entry was just tested negative): linking a non-root detaches its former ancestors", fnName)
			continue
		}
		used[s.idx] = true
		v := s.st.Val
		switch {
		case v != s.idx && isRoot(v, s.st.Block()):
			used[v] = true
			links = append(links, linkAt{s.idx, s.st.Block(), posOf(s.st)})
			distinct := provedDistinct(s.st.Block(), s.idx, v)
			if !distinct {
				allDistinct = false
			}
			ok := !needDistinct || distinct
			r.oblig(ok)
			if !ok {
				r.find(fnName+":"+desc+" roots not known to differ", c.instrPos(s.st), "%s links root %s under root %s without having established that they differ: uniting an element with itself makes a root its own parent (or, after the rank bump, a child of an unrelated element)", fnName, valName(s.idx), valName(v))
			}
		case isDecrementOf(P, v, s.ia):
			bad := false
			for _, l := range links {
				if l.idx == s.idx && (l.blk == s.st.Block() && l.pos < posOf(s.st) || (l.blk != s.st.Block() && l.blk.Dominates(s.st.Block()))) {
					bad = true
				}
			}
			r.oblig(!bad)
			if bad {
				r.find(fnName+":"+desc+" decrements a linked root", c.instrPos(s.st), "%s adjusts the rank entry of a root it has just re-pointed at the other root: the entry is now a parent index, and decrementing it points at the wrong element", fnName)
			}
		default:
			r.oblig(false)
			r.find(fnName+":"+desc+" value is neither the other root nor a rank bump", c.instrPos(s.st), "%s stores %s into a root's entry: it must be the other root (link) or the root's own entry minus one (rank)", fnName, valName(v))
		}
	}
	return used, allDistinct
}

func ruleRootLink(c *Ctx, r *RuleResult, fnName string, finders map[string]bool) {
	fn := c.Fn(fnName)
	E := c.Eff()
	findRes := map[ssa.Value]bool{}
	for _, b := range fn.Blocks {
		for _, in := range b.Instrs {
			if call, ok := in.(*ssa.Call); ok {
				if f := call.Call.StaticCallee(); f != nil && finders[c.short(f)] {
					findRes[call] = true
				}
			}
		}
	}
	var rootHereD func(v ssa.Value, at *ssa.BasicBlock, depth int) bool
	rootHereD = func(v ssa.Value, at *ssa.BasicBlock, depth int) bool {
		if findRes[v] || guardedRoots(at)[v] {
			return true
		}
		// either of two roots, chosen by a test (e.g. swapped so that the smaller index survives)
		if ph, ok := v.(*ssa.Phi); ok && depth < 3 {
			for i, e := range ph.Edges {
				if !rootHereD(e, ph.Block().Preds[i], depth+1) {
					return false
				}
			}
			return len(ph.Edges) > 0
		}
		return false
	}
	rootHere := func(v ssa.Value, at *ssa.BasicBlock) bool { return rootHereD(v, at, 0) }
	if len(setStores(c, fn)) > 0 {
		checkLinkStores(c, r, fn, fnName, rootHere, true)
		return
	}
	// the stores live in a helper that receives the two roots
	n := 0
	for _, b := range fn.Blocks {
		for _, in := range b.Instrs {
			call, ok := in.(*ssa.Call)
			if !ok {
				continue
			}
			h := call.Call.StaticCallee()
			if h == nil || !c.inModule(h) || finders[c.short(h)] || h.Blocks == nil || len(setStores(c, h)) == 0 {
				continue
			}
			_ = E
			n++
			hname := c.short(h)
			params := map[ssa.Value]int{}
			for i, p := range h.Params {
				if isInt(p.Type()) {
					params[p] = i
				}
			}
			used, distinctInside := checkLinkStores(c, r, h, hname, func(v ssa.Value, at *ssa.BasicBlock) bool {
				_, isParam := params[v]
				return isParam || guardedRoots(at)[v]
			}, false)
			// obligations moved to the call site: every parameter used as a root receives a root, and they differ
			var rootArgs []ssa.Value
			desc := c.srcAt(call.Pos())
			for p, i := range params {
				if !used[p] {
					continue
				}
				a := call.Call.Args[i]
				rootArgs = append(rootArgs, a)
				r.inst("%s: %s passes a root as %s", fnName, desc, h.Params[i].Name())
				ok := rootHere(a, b)
				r.oblig(ok)
				if !ok {
					r.find(fnName+":"+desc+" argument "+h.Params[i].Name()+" is not a root", c.instrPos(call), "%s passes %s to %s, which links it as a root, but it is neither a result of Find nor an element whose entry was just tested negative", fnName, valName(a), hname)
				}
			}
			if len(rootArgs) == 2 && distinctInside {
				r.inst("%s: %s (the helper itself returns early when the two roots coincide)", fnName, desc)
				r.oblig(true)
			} else if len(rootArgs) == 2 {
				ok := provedDistinct(b, rootArgs[0], rootArgs[1])
				r.inst("%s: %s passes two different roots", fnName, desc)
				r.oblig(ok)
				if !ok {
					r.find(fnName+":"+desc+" roots not known to differ", c.instrPos(call), "%s calls %s without having established that the two roots differ: uniting an element with itself makes a root its own parent (or, after the rank bump, a child of an unrelated element)", fnName, hname)
				}
			}
		}
	}
	if n == 0 {
		r.undecided("%s: no store into the set found, directly or in a helper it calls", fnName)
	}
}

// isDecrementOf: v == load(<same cell as ia>) - 1
func isDecrementOf(P *Prover, v ssa.Value, ia *ssa.IndexAddr) bool {
	bo, ok := v.(*ssa.BinOp)
	if !ok || bo.Op != token.SUB {
		return false
	}
	if k, ok := constInt(bo.Y); !ok || k != 1 {
		return false
	}
	ld, ok := bo.X.(*ssa.UnOp)
	if !ok || ld.Op != token.MUL {
		return false
	}
	src, ok := ld.X.(*ssa.IndexAddr)
	if !ok {
		return false
	}
	return src.Index == ia.Index && P.canon(strip(src.X)) == P.canon(strip(ia.X)) || (src.Index == ia.Index && sameSliceLoad(src.X, ia.X))
}

func sameSliceLoad(a, b ssa.Value) bool {
	if a == b {
		return true
	}
	la, ok1 := a.(*ssa.UnOp)
	lb, ok2 := b.(*ssa.UnOp)
	return ok1 && ok2 && la.Op == token.MUL && lb.Op == token.MUL && la.X == lb.X
}

func ruleCompress(c *Ctx, r *RuleResult, fnName string) {
	fn := c.Fn(fnName)
	stores := setStores(c, fn)
	if len(stores) == 0 {
		// the walk may live in a helper whose result is returned as is
		followed := false
		for _, b := range fn.Blocks {
			for _, in := range b.Instrs {
				call, ok := in.(*ssa.Call)
				if !ok {
					continue
				}
				h := call.Call.StaticCallee()
				if h == nil || !c.inModule(h) || h.Blocks == nil || h == fn || len(setStores(c, h)) == 0 {
					continue
				}
				followed = true
				returned := false
				for _, ref := range *call.Referrers() {
					if ret, ok := ref.(*ssa.Return); ok && len(ret.Results) > 0 && ret.Results[0] == ssa.Value(call) {
						returned = true
					}
				}
				r.inst("%s: returns the result of %s unchanged", fnName, c.short(h))
				r.oblig(returned)
				if !returned {
					r.find(fnName+":result of "+c.short(h)+" not returned", c.instrPos(call), "%s lets %s rewrite parent entries but does not return that helper's result as the representative", fnName, c.short(h))
				}
				ruleCompress(c, r, c.short(h))
			}
		}
		if !followed {
			r.note("%s: no store into the set (no path compression)", fnName)
		}
		return
	}
	for _, s := range stores {
		desc := c.srcAt(s.st.Pos())
		if desc == "" && s.ia != nil {
			desc = c.srcAt(s.ia.Pos())
		}
		if desc == "" {
			desc = valName(s.st.Addr)
		}
		r.inst("%s: store %s", fnName, desc)
		// path halving / splitting: the element is re-pointed at its grandparent, both parent pointers
		// having just been tested non-negative: it stays in its tree
		if isGrandparentStore(c, fn, s) {
			r.oblig(true)
			r.note("%s: %s re-points an element at its grandparent (path halving): still an ancestor in the same tree", fnName, desc)
			continue
		}
		// every return reachable from the store returns the stored value
		reach := reachableBlocks(s.st.Block(), nil)
		ok, n := true, 0
		for b := range reach {
			if ret, isRet := b.Instrs[len(b.Instrs)-1].(*ssa.Return); isRet {
				n++
				if len(ret.Results) == 0 || ret.Results[0] != s.st.Val {
					ok = false
				}
			}
		}
		if n == 0 {
			ok = false
		}
		r.oblig(ok)
		if !ok {
			r.find(fnName+":"+desc+" is not the returned root", c.instrPos(s.st), "%s writes %s into the set during a lookup, which is not the representative it returns: a lookup may only re-point elements at the root of their own tree", fnName, valName(s.st.Val))
		}
	}
}

func init() {
	finders := map[string]bool{"(*disjoint.Set).Find": true, "(*disjoint.Set).FindBuffered": true}
	register(&propDef{
		id:          "C18",
		explanation: "Decides two representation-level necessary conditions of the parent-forest encoding (negative entry = root): ROOTLINK (in Union and UnionBuffered every store into the set indexes a value returned by Find/FindBuffered in that call, i.e. a root, and stores either the other root (link) or that root's own entry minus one (rank bump), never a rank bump of a root already linked away), COMPRESS (in Find and FindBuffered every store into the set writes exactly the value the function goes on to return, so a lookup can only re-point an element at the root of its own tree), plus READONLY for Roots, WRITE-SCOPE (the buffered variants write only the set and buf) and FIXEDARRAY (no fixed-size scratch array is indexed by a path-length counter that is not proved in range: union by rank bounds the height only while every union keeps the ranks) and BUFCAP (no exported function reslices a caller's scratch buffer to a constant positive length without proving the buffer that long: any buffer, nil included, is a legal argument of the buffered variants). Does not decide the partition itself.",
		notDecided:  []string{"that two elements have the same representative exactly when connected by the unions so far", "Sets / SmallestRep / Roots describe that partition", "other compression schemes than compress-to-root and path halving (e.g. path splitting written differently) would be reported"},
		assumptions: []string{"Find returns a root (value-level; not decided)"},
		run: func(c *Ctx, tier string) []*RuleResult {
			rl := &RuleResult{Rule: "ROOTLINK", Doc: "union stores only link a Find result to the other Find result, or bump the rank of the surviving root", MinInst: 4}
			ruleRootLink(c, rl, "(*disjoint.Set).Union", finders)
			ruleRootLink(c, rl, "(*disjoint.Set).UnionBuffered", finders)
			cp := &RuleResult{Rule: "COMPRESS", Doc: "lookup stores write exactly the representative that is returned", MinInst: 2}
			ruleCompress(c, cp, "(*disjoint.Set).Find")
			ruleCompress(c, cp, "(*disjoint.Set).FindBuffered")
			ws := &RuleResult{Rule: "WRITE-SCOPE", Doc: "Roots writes nothing; New returns fresh memory; every method writes only the set's elements (and buf for the buffered variants), never the slice header", MinInst: 5}
			noWrites(c, ws, c.Fn("(*disjoint.Set).Roots"), nil, "anything")
			for _, n := range []string{"(*disjoint.Set).Find", "(*disjoint.Set).Union", "(*disjoint.Set).Sets", "(*disjoint.Set).SmallestRep"} {
				onlyWrites(c, ws, c.Fn(n), []int{0}, "the set")
			}
			for _, n := range []string{"(*disjoint.Set).FindBuffered", "(*disjoint.Set).UnionBuffered"} {
				fn := c.Fn(n)
				onlyWrites(c, ws, fn, []int{0, paramIndex(fn, "buf")}, "the set and buf")
			}
			bc := ruleBufCap(c, "disjoint")
			bc.MinInst = 1
			return []*RuleResult{rl, cp, ws, ruleFixedArray(c, "disjoint"), bc}
		},
		controls: func(ctl *Ctx) []*RuleResult {
			f := map[string]bool{"(*dsctl.Set).Find": true}
			var out []*RuleResult
			for _, n := range []string{"(*dsctl.Set).BadUnionLinksElement", "(*dsctl.Set).BadUnionRankOfChild", "(*dsctl.Set).BadUnionNoDistinctCheck", "(*dsctl.Set).BadUnionViaHelperFastPath"} {
				rl := &RuleResult{Rule: "ROOTLINK"}
				ruleRootLink(ctl, rl, n, f)
				out = append(out, rl)
			}
			g := &RuleResult{Rule: "ROOTLINK"}
			ruleRootLink(ctl, g, "(*dsctl.Set).GoodUnion", f)
			ruleRootLink(ctl, g, "(*dsctl.Set).GoodUnionViaHelper", f)
			ruleRootLink(ctl, g, "(*dsctl.Set).GoodUnionSmallerRoot", f)
			out[0].Findings = append(out[0].Findings, g.Findings...)
			cp := &RuleResult{Rule: "COMPRESS"}
			ruleCompress(ctl, cp, "(*dsctl.Set).BadFind")
			ruleCompress(ctl, cp, "(*dsctl.Set).Find")
			good := &RuleResult{Rule: "COMPRESS"}
			ruleCompress(ctl, good, "(*dsctl.Set).GoodFindHalving")
			for _, f := range good.Findings {
				f.Key += " (Good)"
				cp.Findings = append(cp.Findings, f)
			}
			return append(out, cp, ruleBufCap(ctl, "dsctl"))
		},
	})
}

// isGrandparentStore:  set[x] = set[set[x]]  with set[x] >= 0 and set[set[x]] >= 0 established.
func isGrandparentStore(c *Ctx, fn *ssa.Function, s setStore) bool {
	if s.ia == nil {
		return false
	}
	P := NewProver(c, fn)
	gl, ok := s.st.Val.(*ssa.UnOp)
	if !ok || gl.Op != token.MUL {
		return false
	}
	gia, ok := gl.X.(*ssa.IndexAddr)
	if !ok || !sameSliceLoad(gia.X, s.ia.X) && P.canon(strip(gia.X)) != P.canon(strip(s.ia.X)) {
		return false
	}
	pl, ok := P.canon(strip(gia.Index)).(*ssa.UnOp)
	if !ok || pl.Op != token.MUL {
		return false
	}
	pia, ok := pl.X.(*ssa.IndexAddr)
	if !ok || pia.Index != s.ia.Index {
		return false
	}
	if !sameSliceLoad(pia.X, s.ia.X) && P.canon(strip(pia.X)) != P.canon(strip(s.ia.X)) {
		return false
	}
	b := s.st.Block()
	return P.Prove(P.poly(pl).scale(-1), b) && P.Prove(P.poly(gl).scale(-1), b)
}

// ruleBufCap: a slice expression p[:k] (or p[k:]) with a constant k > 0 applied directly to a slice
// parameter panics when the caller's slice is shorter (for the high bound: has less capacity) than k.
// Nothing bounds a caller-supplied buffer unless the code checks it, so k <= len(p) must be proved
// under the guards that dominate the expression; append(p[:0], ...) needs no such proof. Exported
// functions only: an unexported helper is called with the module's own buffers.
func ruleBufCap(c *Ctx, pkgRel string) *RuleResult {
	r := &RuleResult{Rule: "BUFCAP", Doc: "no slice parameter is resliced to a constant positive bound without a proof that it is that long (a nil or empty scratch buffer is a legal argument)", MinInst: 0}
	n := 0
	for _, fn := range c.Funcs {
		p := fnPkg(fn)
		if p == nil || p.Pkg.Path() != c.Mod+"/"+pkgRel || fn.Synthetic != "" || fn.Blocks == nil {
			continue
		}
		if o := fn.Object(); o == nil || !o.Exported() {
			continue // an unexported helper is called with the module's own buffers
		}
		n++
		isParam := map[ssa.Value]bool{}
		for _, q := range fn.Params {
			if _, ok := q.Type().Underlying().(*types.Slice); ok {
				isParam[q] = true
			}
		}
		var P *Prover
		for _, b := range fn.Blocks {
			for _, in := range b.Instrs {
				sl, ok := in.(*ssa.Slice)
				if !ok || !isParam[sl.X] {
					continue
				}
				var k int64
				for _, bound := range []ssa.Value{sl.Low, sl.High, sl.Max} {
					if bound == nil {
						continue
					}
					if v, isK := constInt(bound); isK && v > k {
						k = v
					}
				}
				if k <= 0 {
					continue
				}
				if P == nil {
					P = NewProver(c, fn)
				}
				src := c.srcAt(sl.Pos())
				if src == "" {
					src = valName(sl)
				}
				r.inst("%s: %s", c.short(fn), src)
				ok2 := P.Prove(constP(k).add(P.lenOf(sl.X), -1), b)
				r.oblig(ok2)
				if !ok2 {
					r.find(c.short(fn)+":"+src+" caller buffer may be shorter", c.instrPos(sl), "%s: %s reslices the caller's %s to %d element(s) without a proof that it is that long: a nil or empty buffer panics", c.short(fn), src, sl.X.Name(), k)
				}
			}
		}
	}
	r.inst("%d exported functions of package %s scanned for constant reslices of slice parameters", n, pkgRel)
	return r
}

// ruleArgIndex: every index into a slice the function was handed (a slice parameter, or the slice a
// pointer receiver points to) is proved in range under the guards that dominate it: an empty set is
// a set, and a[0] or a[len(a)-1] without a length test panics on it.
func ruleArgIndex(c *Ctx, pkgRel string) *RuleResult {
	r := &RuleResult{Rule: "ARGINDEX", Doc: "every index into an argument slice (or the receiver's slice) is proved within its length: the empty set is a legal argument", MinInst: 1}
	nf := 0
	for _, fn := range c.Funcs {
		p := fnPkg(fn)
		if p == nil || p.Pkg.Path() != c.Mod+"/"+pkgRel || fn.Synthetic != "" || fn.Blocks == nil || fn.Parent() != nil {
			continue
		}
		if o := fn.Object(); o == nil || !o.Exported() {
			continue
		}
		nf++
		isArg := func(v ssa.Value) bool {
			for depth := 0; depth < 4; depth++ {
				switch x := v.(type) {
				case *ssa.Parameter:
					_, ok := x.Type().Underlying().(*types.Slice)
					return ok
				case *ssa.ChangeType:
					v = x.X
					continue
				case *ssa.UnOp:
					if x.Op == token.MUL {
						if prm, ok := x.X.(*ssa.Parameter); ok {
							if pt, ok := prm.Type().Underlying().(*types.Pointer); ok {
								_, isSl := pt.Elem().Underlying().(*types.Slice)
								return isSl
							}
						}
					}
				}
				return false
			}
			return false
		}
		var P *Prover
		for _, b := range fn.Blocks {
			for _, in := range b.Instrs {
				ia, ok := in.(*ssa.IndexAddr)
				if !ok || !isArg(ia.X) {
					continue
				}
				if P == nil {
					P = NewProver(c, fn)
					searchResults(P, fn)
				}
				src := c.srcAt(ia.Pos())
				if src == "" {
					src = valName(ia)
				}
				idx, ln := P.poly(ia.Index), P.lenOf(ia.X)
				r.inst("%s: %s", c.short(fn), src)
				ok2 := P.Prove(idx.scale(-1), b) && P.Prove(idx.add(ln, -1).add(constP(1), 1), b)
				r.oblig(ok2)
				if !ok2 {
					r.find(c.short(fn)+":"+src+" may be out of range", c.instrPos(ia), "%s: %s: the index %s is not proved to lie within the argument's length %s: the function panics for the arguments (the empty set, say) for which it does not", c.short(fn), src, P.showTerm(idx), P.showTerm(ln))
				}
			}
		}
	}
	r.inst("%d exported functions of package %s scanned for indices into their arguments", nf, pkgRel)
	return r
}

// searchResults: the documented range of the standard binary searches, as facts: sort.SearchInts(a, x)
// and sort.Search(n, f) return a position in [0, len(a)] resp. [0, n].
func searchResults(P *Prover, fn *ssa.Function) {
	for _, b := range fn.Blocks {
		for _, in := range b.Instrs {
			call, ok := in.(*ssa.Call)
			if !ok {
				continue
			}
			f := call.Call.StaticCallee()
			if f == nil || len(call.Call.Args) < 1 {
				continue
			}
			switch f.String() {
			case "sort.SearchInts", "sort.SearchStrings", "sort.SearchFloat64s":
				P.global = append(P.global, P.poly(call).scale(-1), P.poly(call).add(P.lenOf(call.Call.Args[0]), -1))
			case "sort.Search":
				P.global = append(P.global, P.poly(call).scale(-1), P.poly(call).add(P.poly(call.Call.Args[0]), -1))
			}
		}
	}
}
