package main

import (
	"fmt"
	"go/token"
	"strings"

	"golang.org/x/tools/go/ssa"
)

// callees that cannot panic for any argument values the decoders can pass
var noPanicStd = map[string]bool{
	"strings.HasPrefix": true, "fmt.Errorf": true, "errors.New": true, "math/bits.LeadingZeros64": true,
	"math.Sqrt": true, "fmt.Sprintf": true, "math/bits.Len64": true, "math/bits.TrailingZeros64": true,
	"strings.TrimPrefix": true, "strings.TrimSuffix": true, "strings.HasSuffix": true, "strings.Contains": true, "strings.IndexByte": true,
	"strings.Index": true, "strings.TrimLeft": true, "strings.TrimRight": true, "strings.Trim": true, "strings.TrimSpace": true, "math/bits.Len": true,
}

// trusted contracts (stated, not derived: they rest on representation invariants of the receiver)
type rangeContract struct {
	args []int    // argument positions (receiver = 0) that must lie in [0, N)
	ctor []string // the receiver must be the result of one of these constructors; N is its first argument
	why  string
}

var contracts = map[string]rangeContract{
	"(*graph.SparseGraph).AddEdge": {args: []int{1, 2}, ctor: []string{"graph.NewSparse"}, why: "indexes Neighbourhoods and DegreeSequence, which have length N"},
	"(*graph.DenseGraph).AddEdge":  {args: []int{1, 2}, ctor: []string{"graph.NewDense"}, why: "indexes DegreeSequence (length N) and the packed triangle"},
}

// atomOverParams translates a callee polynomial whose atoms mention only parameters into the
// caller's terms, substituting the actual arguments.
func translatePoly(cal *Prover, p Poly, callee *ssa.Function, caller *Prover, args []ssa.Value) (Poly, bool) {
	return translatePolyX(cal, p, callee, caller, args, nil)
}

// translatePolyX also maps a value the callee (a closure) reads from a captured variable to the value
// that variable holds in the caller: free(fv) is that value, or nil.
func translatePolyX(cal *Prover, p Poly, callee *ssa.Function, caller *Prover, args []ssa.Value, free func(fv *ssa.FreeVar) ssa.Value) (Poly, bool) {
	out := Poly{}
	ok := true
	idx := func(v ssa.Value) int {
		for i, q := range callee.Params {
			if ssa.Value(q) == v {
				return i
			}
		}
		return -1
	}
	var trAtom func(a *Atom) (Poly, bool)
	var trPoly func(q Poly) (Poly, bool)
	captured := func(v ssa.Value) ssa.Value {
		if free == nil {
			return nil
		}
		if ld, ok := v.(*ssa.UnOp); ok && ld.Op == token.MUL {
			if fv, ok := ld.X.(*ssa.FreeVar); ok {
				return free(fv)
			}
		}
		return nil
	}
	trAtom = func(a *Atom) (Poly, bool) {
		switch a.kind {
		case aVal:
			if i := idx(a.val); i >= 0 {
				return caller.poly(args[i]), true
			}
			if cv := captured(a.val); cv != nil {
				return caller.poly(cv), true
			}
		case aLen:
			if i := idx(a.val); i >= 0 {
				return caller.lenOf(args[i]), true
			}
			if cv := captured(a.val); cv != nil {
				return caller.lenOf(cv), true
			}
		case aNil:
			if i := idx(a.val); i >= 0 {
				return caller.nilP(args[i]), true
			}
		case aDiv:
			in, ok := trPoly(a.inner)
			if ok {
				return caller.divP(in, a.c, a.uns), true
			}
		case aRem:
			in, ok := trPoly(a.inner)
			if ok {
				return atomP(caller.atom(aRem, nil, in, a.c, a.uns).id), true
			}
		case aTab:
			in, ok := trPoly(a.inner)
			if ok {
				return atomP(caller.atom(aTab, a.val, in, 0, a.uns).id), true
			}
		}
		return nil, false
	}
	trPoly = func(q Poly) (Poly, bool) {
		res := Poly{}
		for m, c := range q {
			if m == "!=" {
				continue
			}
			term := constP(c)
			if m != "" {
				for _, s := range strings.Split(m, "*") {
					var id int
					fmt.Sscan(s, &id)
					t, ok := trAtom(cal.atoms[id])
					if !ok {
						return nil, false
					}
					term = term.mul(t)
				}
			}
			res = res.add(term, 1)
		}
		return res, true
	}
	out, ok = trPoly(p)
	return out, ok
}

func rulePrecond(c *Ctx, fns []string) *RuleResult {
	r := &RuleResult{Rule: "PRECOND", Doc: "every call made by a decoder is to a function that cannot panic, or whose explicit panics are refuted at the call site (a dominating condition of the panic is disproved after substituting the actual arguments), or whose stated range contract is proved by E-PROVE", MinInst: 6}
	for _, name := range fns {
		fn := c.Fn(name)
		P := NewProver(c, fn)
		for _, b := range fn.Blocks {
			for _, in := range b.Instrs {
				call, ok := in.(*ssa.Call)
				if !ok {
					continue
				}
				if _, isB := call.Call.Value.(*ssa.Builtin); isB {
					continue // len, append, make ... : covered by BOUNDS
				}
				callee := call.Call.StaticCallee()
				desc := c.srcAt(call.Pos())
				if desc == "" {
					desc = instrDesc(c, call)
				}
				if callee == nil {
					r.inst("%s: dynamic call %s", name, desc)
					r.oblig(false)
					r.find(name+":dynamic call "+desc, c.instrPos(call), "%s makes a dynamic call (%s); its panic-freedom is not decided", name, desc)
					continue
				}
				if !c.inModule(callee) {
					r.inst("%s: %s (library function that does not panic)", name, callee.String())
					r.oblig(noPanicStd[callee.String()])
					if !noPanicStd[callee.String()] {
						r.undecided("%s calls %s, which is not in the list of non-panicking library functions", name, callee.String())
					}
					continue
				}
				cname := c.short(callee)
				// (a) stated range contract
				if ct, ok := contracts[cname]; ok {
					recv := strip(call.Call.Args[0])
					var N Poly
					if mk, ok := recv.(*ssa.Call); ok {
						if f := mk.Call.StaticCallee(); f != nil {
							for _, cn := range ct.ctor {
								if c.short(f) == cn {
									N = P.poly(mk.Call.Args[0])
								}
							}
						}
					}
					for _, ai := range ct.args {
						a := P.poly(call.Call.Args[ai])
						inst := fmt.Sprintf("%s: %s argument %d in [0, N) (%s)", name, desc, ai, ct.why)
						r.inst("%s", inst)
						ok := N != nil && P.Prove(a.scale(-1), b) && P.Prove(a.add(N, -1).add(constP(1), 1), b)
						r.oblig(ok)
						if !ok {
							r.find(fmt.Sprintf("%s:%s argument %d out of range", name, desc, ai), c.instrPos(call), "%s: cannot prove 0 <= %s < number of vertices for %s, which %s", name, P.showTerm(a), desc, ct.why)
						}
					}
					continue
				}
				// (b) explicit panics of the callee, refuted at the call site
				CP := NewProver(c, callee)
				npanics := 0
				for _, cb := range callee.Blocks {
					for _, cin := range cb.Instrs {
						pn, isPanic := cin.(*ssa.Panic)
						if !isPanic {
							continue
						}
						npanics++
						r.inst("%s: %s cannot reach the panic at %s", name, desc, c.instrPos(pn))
						refuted := false
						// translate each dominating fact and refute it in the caller
						for _, f := range CP.factsAt(cb) {
							if _, isNeq := f["!="]; isNeq {
								d, ok := translatePoly(CP, f, callee, P, call.Call.Args)
								if ok && P.Prove(d, b) && P.Prove(d.scale(-1), b) {
									refuted = true // d == 0 contradicts d != 0
								}
								continue
							}
							t, ok := translatePoly(CP, f, callee, P, call.Call.Args)
							if ok && P.Prove(constP(1).add(t, -1), b) { // t >= 1 contradicts t <= 0
								refuted = true
							}
						}
						if !refuted {
							// callee-side proof under the constant arguments of this call
							var assume []Poly
							for i, a := range call.Call.Args {
								if i >= len(callee.Params) {
									break
								}
								a = strip(a)
								if isNilConst(a) {
									n := CP.nilP(callee.Params[i])
									assume = append(assume, constP(1).add(n, -1), CP.lenOf(callee.Params[i]))
								} else if k, ok := constInt(a); ok {
									p := CP.poly(callee.Params[i])
									assume = append(assume, p.add(constP(-k), 1), constP(k).add(p, -1))
								}
							}
							if CP.Unreachable(cb, assume) {
								refuted = true
							}
						}
						r.oblig(refuted)
						if !refuted {
							r.find(name+":"+desc+" may panic", c.instrPos(call), "%s: the call %s can reach the explicit panic at %s; none of its dominating conditions is refuted by the arguments", name, desc, c.instrPos(pn))
						}
					}
				}
				if npanics == 0 {
					r.inst("%s: %s (no explicit panic in callee)", name, desc)
					r.oblig(true)
				}
				// callees one level down must not contain explicit panics we have not looked at
				for _, cb := range callee.Blocks {
					for _, cin := range cb.Instrs {
						if c2, ok := cin.(*ssa.Call); ok {
							if f2 := c2.Call.StaticCallee(); f2 != nil && c.inModule(f2) {
								for _, b2 := range f2.Blocks {
									for _, i2 := range b2.Instrs {
										if _, isP := i2.(*ssa.Panic); isP {
											r.undecided("%s -> %s -> %s contains an explicit panic that is not analysed", name, cname, c.short(f2))
										}
									}
								}
							}
						}
					}
				}
			}
		}
	}
	return r
}

func init() {
	dec := []string{"graph.Graph6Decode", "graph.Sparse6Decode"}
	register(&propDef{
		id:          "C08",
		explanation: "Decides panic-freedom and termination of Graph6Decode and Sparse6Decode themselves for every input string: BOUNDS (every string/slice index, slice expression, make size, non-constant divisor and signed shift count is proved in range by E-PROVE from the dominating guards: polynomial terms, division facts, phi-induction), TERM (every loop has a strictly monotone integer counter bounded by a loop-invariant value: ranking function), PRECOND (every callee either cannot panic, or its explicit panics are refuted at the call site after substituting the actual arguments, or its stated range contract (AddEdge: 0 <= i, j < N) is proved), plus no explicit panic is reachable; FRESH (the graph returned reaches no package-level memory: no cached instance is shared between calls). Apart from one obligation - an unsigned subtraction whose result is measured by a math/bits function (k = 64 - LeadingZeros64(n-1)) must be proved not to wrap - integer arithmetic is assumed not to overflow (the property's own bound 1 <= n <= 4096 for the pair value, 6*len(s) and n(n-1)/2). Does not decide which malformed strings yield an error rather than a graph, nor the re-encode/decode clause. SIGNCONV: in the decoders no signed value is converted to an unsigned type (a shift count, an index) unless it is proved not to be negative.",
		notDecided:  []string{"that re-encoding a successfully decoded graph and decoding again gives the same graph", "that an error (rather than some graph) is returned for each particular malformed string", "allocation size for huge declared n (outside the property's bound)", "index safety inside callees beyond their explicit panics and stated contracts (NewDense, NewSparse, AddEdge bodies)"},
		assumptions: []string{"declared n <= 4096, so n(n-1)/2, 6*len(s) and uint64->int conversions do not overflow", "trusted contracts: (*SparseGraph).AddEdge(i, j) is panic-free for 0 <= i, j < N; fmt/errors/strings/bits functions listed in noPanicStd do not panic"},
		run: func(c *Ctx, tier string) []*RuleResult {
			hd := &RuleResult{Rule: "HEADER", Doc: "the optional header is removed as a prefix: a strings.Trim/TrimLeft with the header text as its character set eats leading data bytes (the size byte), so the graph returned is not on the declared number of vertices", MinInst: 2}
			trimRule(c, hd, "graph.Graph6Decode", 63, 126)
			trimRule(c, hd, "graph.Sparse6Decode", 58, 58)
			// every call returns a graph of its own: a cached instance handed out for the empty string or
			// next to errors would carry one caller's edits to the next
			fr := &RuleResult{Rule: "FRESH", Doc: "the graph a decoder returns reaches no package-level memory and none of its argument: results of different calls are independent", MinInst: 2}
			for _, n := range dec {
				freshResult(c, fr, c.Fn(n), 0, nil, nil, "is a graph of its own")
			}
			// a negative value converted to an unsigned type is huge: as a shift count it makes the word 0
			// (an 18-bit window shifted by uint(17 - pos%6 - k) reads pairs as b = 0, x = 0 for k >= 15)
			only := map[*ssa.Function]bool{}
			for _, n := range dec {
				for _, f := range codecScope(c.Fn(n)) {
					only[f] = true
				}
			}
			sc := ruleSignConvIn(c, "graph", only, "as a shift count or an index it is huge, and a shift by it yields 0")
			sc.Doc = "in the decoders no signed value is converted to an unsigned type (a shift count, say) unless it is proved not to be negative"
			sc.MinInst = 1
			return []*RuleResult{ruleBounds(c, dec, tier), ruleTerm(c, dec), rulePrecond(c, dec), hd, fr, sc}
		},
		controls: func(ctl *Ctx) []*RuleResult {
			b := ruleBounds(ctl, []string{"decctl.BadIndexBeforeCheck", "decctl.BadLoopEnd", "decctl.GoodDecode"}, "quick")
			t := ruleTerm(ctl, []string{"decctl.BadNoProgress", "decctl.GoodDecode"})
			p := rulePrecond(ctl, []string{"decctl.BadCallsPanicker", "decctl.GoodCallsPanicker"})
			return []*RuleResult{b, t, p}
		},
	})
}
