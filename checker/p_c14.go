package main

// C14: E-WIRE. The encoder's and the decoder's CFGs are read as NFAs over wire tokens
// (U = variable-length unsigned integer, B = one raw byte); the check is L(encoder) ⊆ L(decoder).

import (
	"fmt"
	"go/token"
	"go/types"
	"sort"
	"strings"

	"golang.org/x/tools/go/ssa"
)

type wireNode struct {
	id    int
	label string // "U", "B", "?", "" for entry, "ACCEPT"
	in    ssa.Instruction
	succ  map[int]bool
}

type wireNFA struct {
	nodes  []*wireNode
	entry  int
	accept int
}

// buildWire builds the token NFA of fn. classify returns the token label of an instruction ("" = not a token).
// accepting reports whether a return instruction ends a successful run.
func buildWire(fn *ssa.Function, classify func(ssa.Instruction) string, accepting func(*ssa.Return) bool) *wireNFA {
	n := &wireNFA{}
	add := func(label string, in ssa.Instruction) *wireNode {
		w := &wireNode{id: len(n.nodes), label: label, in: in, succ: map[int]bool{}}
		n.nodes = append(n.nodes, w)
		return w
	}
	entry := add("", nil)
	acc := add("ACCEPT", nil)
	n.entry, n.accept = entry.id, acc.id
	tok := map[ssa.Instruction]*wireNode{}
	for _, b := range fn.Blocks {
		for _, in := range b.Instrs {
			if l := classify(in); l != "" {
				tok[in] = add(l, in)
			}
		}
	}
	// successors of a program point: scan forward to the next tokens / returns
	scan := func(from *wireNode, b *ssa.BasicBlock, idx int) {
		type pt struct {
			b *ssa.BasicBlock
			i int
		}
		seen := map[*ssa.BasicBlock]bool{}
		stack := []pt{{b, idx}}
		for len(stack) > 0 {
			p := stack[len(stack)-1]
			stack = stack[:len(stack)-1]
			stopped := false
			for i := p.i; i < len(p.b.Instrs); i++ {
				in := p.b.Instrs[i]
				if t, ok := tok[in]; ok {
					from.succ[t.id] = true
					stopped = true
					break
				}
				if ret, ok := in.(*ssa.Return); ok {
					if accepting(ret) {
						from.succ[acc.id] = true
					}
					stopped = true
					break
				}
				if _, ok := in.(*ssa.Panic); ok {
					stopped = true
					break
				}
			}
			if stopped {
				continue
			}
			for _, s := range p.b.Succs {
				if !seen[s] {
					seen[s] = true
					stack = append(stack, pt{s, 0})
				}
			}
		}
	}
	if len(fn.Blocks) > 0 {
		scan(entry, fn.Blocks[0], 0)
	}
	for in, t := range tok {
		b := in.Block()
		for i, x := range b.Instrs {
			if x == in {
				scan(t, b, i+1)
			}
		}
	}
	return n
}

func returnsNilError(ret *ssa.Return) bool {
	if len(ret.Results) == 0 {
		return true
	}
	k, ok := ret.Results[len(ret.Results)-1].(*ssa.Const)
	return ok && k.Value == nil
}

// wireInclusion checks L(a) ⊆ L(b) by the subset construction on b; it returns the first stuck point.
func wireInclusion(a, b *wireNFA) (ok bool, at *wireNode, expected []*wireNode, prefix []string, states int) {
	type state struct {
		an  int
		key string
	}
	setKey := func(s map[int]bool) string {
		var ks []int
		for k := range s {
			ks = append(ks, k)
		}
		sort.Ints(ks)
		return fmt.Sprint(ks)
	}
	type item struct {
		an   int
		bs   map[int]bool
		path []string
	}
	seen := map[state]bool{}
	queue := []item{{a.entry, map[int]bool{b.entry: true}, nil}}
	seen[state{a.entry, setKey(queue[0].bs)}] = true
	for len(queue) > 0 {
		it := queue[0]
		queue = queue[1:]
		states++
		for an := range a.nodes[it.an].succ {
			node := a.nodes[an]
			next := map[int]bool{}
			for bn := range it.bs {
				for s := range b.nodes[bn].succ {
					if b.nodes[s].label == node.label {
						next[s] = true
					}
				}
			}
			if len(next) == 0 {
				var exp []*wireNode
				for bn := range it.bs {
					for s := range b.nodes[bn].succ {
						exp = append(exp, b.nodes[s])
					}
				}
				return false, node, exp, it.path, states
			}
			if node.label == "ACCEPT" {
				continue
			}
			st := state{an, setKey(next)}
			if !seen[st] {
				seen[st] = true
				queue = append(queue, item{an, next, append(append([]string{}, it.path...), node.label)})
			}
		}
	}
	return true, nil, nil, nil, states
}

// encoder token classifier: append(<output chain>, y...) where y is the result of the varint
// encoder (U) or a one-element varargs array (B).
func encClassifier(c *Ctx, fn *ssa.Function, varintEnc string) func(ssa.Instruction) string {
	// output chain: values that flow into result #0 through phi / append first operands
	chain := map[ssa.Value]bool{}
	var work []ssa.Value
	for _, b := range fn.Blocks {
		if ret, ok := b.Instrs[len(b.Instrs)-1].(*ssa.Return); ok && len(ret.Results) > 0 {
			work = append(work, ret.Results[0])
		}
	}
	for len(work) > 0 {
		v := work[len(work)-1]
		work = work[:len(work)-1]
		if chain[v] {
			continue
		}
		chain[v] = true
		switch x := v.(type) {
		case *ssa.Phi:
			work = append(work, x.Edges...)
		case *ssa.Call:
			if b, ok := x.Call.Value.(*ssa.Builtin); ok && b.Name() == "append" {
				work = append(work, x.Call.Args[0])
			}
		case *ssa.Slice:
			work = append(work, x.X)
		}
	}
	return func(in ssa.Instruction) string {
		call, ok := in.(*ssa.Call)
		if !ok {
			return ""
		}
		b, ok := call.Call.Value.(*ssa.Builtin)
		if !ok || b.Name() != "append" || !chain[call] {
			return ""
		}
		if len(call.Call.Args) != 2 {
			return "?"
		}
		y := call.Call.Args[1]
		if cc, ok := y.(*ssa.Call); ok {
			if f := cc.Call.StaticCallee(); f != nil && c.short(f) == varintEnc {
				return "U"
			}
			return "?"
		}
		if sl, ok := y.(*ssa.Slice); ok {
			if al, ok := sl.X.(*ssa.Alloc); ok {
				if arr, ok := al.Type().Underlying().(*types.Pointer).Elem().Underlying().(*types.Array); ok && arr.Len() == 1 && isByte(arr.Elem()) {
					return "B"
				}
			}
		}
		return "?"
	}
}

func decClassifier(c *Ctx, varintDec string) func(ssa.Instruction) string {
	return func(in ssa.Instruction) string {
		call, ok := in.(*ssa.Call)
		if !ok {
			return ""
		}
		f := call.Call.StaticCallee()
		if f == nil {
			if call.Call.IsInvoke() && (call.Call.Method.Name() == "ReadByte") {
				return "B"
			}
			if call.Call.IsInvoke() && call.Call.Method.Name() == "Read" {
				return "?"
			}
			return ""
		}
		switch {
		case c.short(f) == varintDec:
			return "U"
		case f.String() == "(*bytes.Reader).ReadByte" || f.String() == "(*bufio.Reader).ReadByte":
			return "B"
		case f.String() == "io.ReadFull" || f.String() == "(*bytes.Reader).Read" || f.String() == "io.ReadAll":
			return "?"
		}
		return ""
	}
}

func ruleGrammar(c *Ctx, r *RuleResult, encName, decName, varintEnc, varintDec string) {
	enc, dec := c.Fn(encName), c.Fn(decName)
	A := buildWire(enc, encClassifier(c, enc, varintEnc), func(ret *ssa.Return) bool { return returnsNilError(ret) })
	B := buildWire(dec, decClassifier(c, varintDec), returnsNilError)
	count := func(n *wireNFA) (u, b, q int) {
		for _, w := range n.nodes {
			switch w.label {
			case "U":
				u++
			case "B":
				b++
			case "?":
				q++
			}
		}
		return
	}
	eu, eb, eq := count(A)
	du, db, dq := count(B)
	r.inst("%s: %d varint tokens, %d raw-byte tokens", encName, eu, eb)
	r.inst("%s: %d varint tokens, %d raw-byte tokens", decName, du, db)
	for _, w := range A.nodes {
		if w.in != nil {
			r.inst("%s token %s: %s", encName, w.label, c.srcAt(w.in.Pos()))
		}
	}
	for _, w := range B.nodes {
		if w.in != nil {
			r.inst("%s token %s: %s", decName, w.label, instrDesc(c, w.in))
		}
	}
	if eq > 0 || dq > 0 {
		for _, n := range []*wireNFA{A, B} {
			for _, w := range n.nodes {
				if w.label == "?" {
					r.undecided("unrecognised wire primitive at %s (%s)", c.instrPos(w.in), w.in.String())
				}
			}
		}
		return
	}
	if eu+eb == 0 || du+db == 0 {
		r.undecided("no wire tokens recognised in %s / %s (refactored beyond recognition)", encName, decName)
		return
	}
	ok, at, exp, prefix, states := wireInclusion(A, B)
	r.note("product automaton explored %d states", states)
	r.oblig(ok)
	if !ok {
		var es []string
		for _, e := range exp {
			if e.in != nil {
				es = append(es, fmt.Sprintf("%s at %s", e.label, c.instrPos(e.in)))
			} else {
				es = append(es, e.label)
			}
		}
		sort.Strings(es)
		pos, what := "-", "end of record"
		if at.in != nil {
			pos = c.instrPos(at.in)
			what = fmt.Sprintf("token %s (%s)", at.label, c.srcAt(at.in.Pos()))
		}
		r.find(fmt.Sprintf("%s:record token %d", encName, len(prefix)+1), pos, "after the token sequence %s the encoder emits %s but the decoder can only continue with {%s}: the two sides disagree on the kind of field on the wire", strings.Join(prefix, ""), what, strings.Join(es, "; "))
	}
}

// ---------------------------------------------------------------- VARINT constants

func findConsts(fn *ssa.Function, match func(in ssa.Instruction) (int64, bool)) []int64 {
	var out []int64
	for _, b := range fn.Blocks {
		for _, in := range b.Instrs {
			if v, ok := match(in); ok {
				out = append(out, v)
			}
		}
	}
	return out
}

func ruleVarint(c *Ctx, r *RuleResult, encName, decName string) {
	enc, dec := c.Fn(encName), c.Fn(decName)
	one := func(what string, vs []int64) (int64, bool) {
		if len(vs) != 1 {
			r.undecided("VARINT: expected exactly one %s, found %v (shape changed)", what, vs)
			return 0, false
		}
		return vs[0], true
	}
	// encoder: x <= C (param compare)
	encSmall, ok1 := one("single-byte threshold in "+encName, findConsts(enc, func(in ssa.Instruction) (int64, bool) {
		if bo, ok := in.(*ssa.BinOp); ok && bo.Op == token.LEQ {
			if _, isP := bo.X.(*ssa.Parameter); isP {
				return constInt(bo.Y)
			}
		}
		return 0, false
	}))
	// encoder: prefix byte  P - byte(zeroBytes)  stored to buf[0]
	encPrefix, ok2 := one("length-prefix base in "+encName, findConsts(enc, func(in ssa.Instruction) (int64, bool) {
		if bo, ok := in.(*ssa.BinOp); ok && bo.Op == token.SUB && isByte(bo.Type()) {
			return constInt(bo.X)
		}
		return 0, false
	}))
	// encoder: loop bound  i < L - zeroBytes
	encLen, ok3 := one("payload loop bound in "+encName, findConsts(enc, func(in ssa.Instruction) (int64, bool) {
		if bo, ok := in.(*ssa.BinOp); ok && bo.Op == token.LSS {
			if s, ok := bo.Y.(*ssa.BinOp); ok && s.Op == token.SUB {
				return constInt(s.X)
			}
		}
		return 0, false
	}))
	// encoder: total length  buf[:T-zeroBytes]
	encTotal, ok4 := one("total length in "+encName, findConsts(enc, func(in ssa.Instruction) (int64, bool) {
		if sl, ok := in.(*ssa.Slice); ok && sl.High != nil {
			if s, ok := sl.High.(*ssa.BinOp); ok && s.Op == token.SUB {
				return constInt(s.X)
			}
		}
		return 0, false
	}))
	// encoder: zeroBytes = LeadingZeros64(x) >> S ; shift unit  M * (K - (i+zb))
	encZS, ok5 := one("leading-zero shift in "+encName, findConsts(enc, func(in ssa.Instruction) (int64, bool) {
		if bo, ok := in.(*ssa.BinOp); ok && bo.Op == token.SHR {
			if call, ok := bo.X.(*ssa.Call); ok {
				if f := call.Call.StaticCallee(); f != nil && f.String() == "math/bits.LeadingZeros64" {
					return constInt(bo.Y)
				}
			}
		}
		return 0, false
	}))
	encUnit, ok6 := one("bits-per-byte factor in "+encName, findConsts(enc, func(in ssa.Instruction) (int64, bool) {
		if bo, ok := in.(*ssa.BinOp); ok && bo.Op == token.MUL {
			if v, ok := constInt(bo.X); ok {
				return v, true
			}
			return constInt(bo.Y)
		}
		return 0, false
	}))
	encTop, ok7 := one("top byte index in "+encName, findConsts(enc, func(in ssa.Instruction) (int64, bool) {
		if bo, ok := in.(*ssa.BinOp); ok && bo.Op == token.SUB && !isByte(bo.Type()) {
			if inner, ok := bo.Y.(*ssa.BinOp); ok && inner.Op == token.ADD {
				return constInt(bo.X)
			}
		}
		return 0, false
	}))
	// decoder: buf[0] <= C ; n = int(b) - D ; n > Lmax ; x<<S
	decSmall, ok8 := one("single-byte threshold in "+decName, findConsts(dec, func(in ssa.Instruction) (int64, bool) {
		if bo, ok := in.(*ssa.BinOp); ok && bo.Op == token.LEQ && isByte(bo.X.Type()) {
			return constInt(bo.Y)
		}
		return 0, false
	}))
	decBase, ok9 := one("length-prefix base in "+decName, findConsts(dec, func(in ssa.Instruction) (int64, bool) {
		if bo, ok := in.(*ssa.BinOp); ok && bo.Op == token.SUB {
			if _, isConv := bo.X.(*ssa.Convert); isConv {
				return constInt(bo.Y)
			}
		}
		return 0, false
	}))
	decMax, ok10 := one("maximum payload length in "+decName, findConsts(dec, func(in ssa.Instruction) (int64, bool) {
		if bo, ok := in.(*ssa.BinOp); ok && bo.Op == token.GTR && isInt(bo.X.Type()) && !isByte(bo.X.Type()) {
			return constInt(bo.Y)
		}
		return 0, false
	}))
	decShift, ok11 := one("accumulator shift in "+decName, findConsts(dec, func(in ssa.Instruction) (int64, bool) {
		if bo, ok := in.(*ssa.BinOp); ok && bo.Op == token.SHL {
			return constInt(bo.Y)
		}
		return 0, false
	}))
	if !(ok1 && ok2 && ok3 && ok4 && ok5 && ok6 && ok7 && ok8 && ok9 && ok10 && ok11) {
		return
	}
	check := func(ok bool, key, format string, a ...interface{}) {
		r.inst("%s", fmt.Sprintf(format, a...))
		r.oblig(ok)
		if !ok {
			r.find(key, c.pos(enc.Pos()), "varint encoder and decoder disagree: "+format+" does not hold", a...)
		}
	}
	check(encSmall == decSmall, "dawg.varint:single-byte threshold", "encoder single-byte range <= %d equals decoder's <= %d", encSmall, decSmall)
	check(decBase == decSmall+1, "dawg.varint:prefix base vs threshold", "decoder prefix base %d is threshold %d + 1", decBase, decSmall)
	check(encPrefix-decBase == encLen, "dawg.varint:prefix base", "encoder prefix constant %d minus decoder base %d equals payload bound %d", encPrefix, decBase, encLen)
	check(encTotal == encLen+1, "dawg.varint:total length", "encoder total length constant %d equals payload bound %d + 1", encTotal, encLen)
	check(decMax == encLen, "dawg.varint:max length", "decoder accepts up to %d payload bytes, encoder emits up to %d", decMax, encLen)
	check(encLen*encUnit == 64, "dawg.varint:payload width", "%d payload bytes of %d bits cover a uint64", encLen, encUnit)
	check(int64(1)<<uint(encZS) == encUnit, "dawg.varint:zero-byte shift", "leading zeros >> %d counts bytes of %d bits", encZS, encUnit)
	check(encTop == encLen-1, "dawg.varint:byte order", "encoder shifts by %d*(%d-(i+zeroBytes)): most significant byte first (top index %d = %d-1)", encUnit, encTop, encTop, encLen)
	check(decShift == encUnit, "dawg.varint:decoder shift", "decoder accumulates x<<%d per byte, encoder uses %d bits per byte", decShift, encUnit)
}

func init() {
	register(&propDef{
		id:          "C14",
		explanation: "Decides that encoder and decoder agree on the kind of every field on the wire: GRAMMAR reads the SSA control-flow graphs of GobEncode and GobDecode as NFAs over the tokens U (a varint: append of an encodeUint64 result / call of decodeUint64) and B (one raw byte: append of a single byte / ReadByte) and checks L(GobEncode) ⊆ L(GobDecode) by the subset construction, reporting the first token on which the product automaton is stuck; VARINT checks nine constant relations between encodeUint64 and decodeUint64 (single-byte threshold, prefix base, payload bound, total length, byte order, shift widths). Does not decide equality of words/ranks after a round trip.",
		notDecided:  []string{"that the decoded automaton has the same words, ranks, node count and search results", "that re-encoding gives the same bytes", "that element counts on the wire match loop counts (regular approximation ignores counts)"},
		assumptions: []string{"every byte of the output is appended through the recognised primitives (an unrecognised append to the output chain is 'undecided' and fails)"},
		run: func(c *Ctx, tier string) []*RuleResult {
			g := &RuleResult{Rule: "GRAMMAR", Doc: "L(GobEncode) ⊆ L(GobDecode) over wire tokens U (varint) and B (raw byte)", MinInst: 10}
			ruleGrammar(c, g, "(*dawg.Dawg).GobEncode", "(*dawg.Dawg).GobDecode", "dawg.encodeUint64", "dawg.decodeUint64")
			v := &RuleResult{Rule: "VARINT", Doc: "encodeUint64 / decodeUint64 agree on threshold, prefix base, lengths, byte order", MinInst: 9}
			ruleVarint(c, v, "dawg.encodeUint64", "dawg.decodeUint64")
			return []*RuleResult{g, v}
		},
		controls: func(ctl *Ctx) []*RuleResult {
			g := &RuleResult{Rule: "GRAMMAR"}
			ruleGrammar(ctl, g, "(*wirectl.T).BadEncode", "(*wirectl.T).Decode", "wirectl.putUvarint", "wirectl.getUvarint")
			g2 := &RuleResult{Rule: "GRAMMAR"}
			ruleGrammar(ctl, g2, "(*wirectl.T).GoodEncode", "(*wirectl.T).Decode", "wirectl.putUvarint", "wirectl.getUvarint")
			for _, f := range g2.Findings {
				f.Key += " (Good)"
				g.Findings = append(g.Findings, f)
			}
			g.Undecided = append(g.Undecided, g2.Undecided...)
			return []*RuleResult{g}
		},
	})
}
