package main

// C14: E-WIRE. The encoder's and the decoder's CFGs are read as NFAs over wire tokens
// (U = variable-length unsigned integer, B = one raw byte); the check is L(encoder) ⊆ L(decoder).

import (
	"fmt"
	"go/token"
	"go/types"
	"sort"
	"strings"

	"golang.org/x/tools/go/ssa"
)

type wireNode struct {
	id    int
	label string // "U", "B", "?", "" for entry, "ACCEPT"
	in    ssa.Instruction
	succ  map[int]bool
}

type wireNFA struct {
	nodes  []*wireNode
	entry  int
	accept int
}

// wctx is an instantiation context: a function together with the values bound to its free
// variables (for closures) so that captured cells can be traced to the enclosing function.
type wctx struct {
	fn     *ssa.Function
	bind   []ssa.Value
	parent *wctx
	depth  int
}

// cellOf resolves an address (an Alloc, or a FreeVar of a closure) to the Alloc it denotes.
func cellOf(ctx *wctx, addr ssa.Value) ssa.Value {
	for ctx != nil {
		switch a := addr.(type) {
		case *ssa.Alloc:
			return a
		case *ssa.FreeVar:
			for k, fv := range ctx.fn.FreeVars {
				if fv == a && k < len(ctx.bind) {
					addr = ctx.bind[k]
					ctx = ctx.parent
					goto next
				}
			}
			return nil
		default:
			return nil
		}
	next:
	}
	return nil
}

// closureStoredIn finds the unique MakeClosure stored into cell within fn.
func closureStoredIn(fn *ssa.Function, cell ssa.Value) *ssa.MakeClosure {
	var found *ssa.MakeClosure
	n := 0
	for _, b := range fn.Blocks {
		for _, in := range b.Instrs {
			if st, ok := in.(*ssa.Store); ok && st.Addr == cell {
				n++
				if mc, ok := st.Val.(*ssa.MakeClosure); ok {
					found = mc
				}
			}
		}
	}
	if n == 1 {
		return found
	}
	return nil
}

// calleeOf resolves a call to a function with a body and the context to analyse it in.
func calleeOf(c *Ctx, ctx *wctx, call *ssa.CallCommon) *wctx {
	if call.IsInvoke() || ctx.depth > 4 {
		return nil
	}
	switch v := call.Value.(type) {
	case *ssa.Function:
		if c.inModule(v) && v.Blocks != nil {
			return &wctx{fn: v, parent: ctx, depth: ctx.depth + 1}
		}
	case *ssa.MakeClosure:
		return &wctx{fn: v.Fn.(*ssa.Function), bind: v.Bindings, parent: ctx, depth: ctx.depth + 1}
	case *ssa.UnOp:
		if v.Op != token.MUL {
			return nil
		}
		// a closure held in a captured or local variable
		owner := ctx
		addr := v.X
		for owner != nil {
			if fv, ok := addr.(*ssa.FreeVar); ok {
				idx := -1
				for k, x := range owner.fn.FreeVars {
					if x == fv {
						idx = k
					}
				}
				if idx < 0 || idx >= len(owner.bind) {
					return nil
				}
				addr, owner = owner.bind[idx], owner.parent
				continue
			}
			break
		}
		if owner == nil {
			return nil
		}
		if al, ok := addr.(*ssa.Alloc); ok {
			if mc := closureStoredIn(owner.fn, al); mc != nil {
				return &wctx{fn: mc.Fn.(*ssa.Function), bind: mc.Bindings, parent: owner, depth: ctx.depth + 1}
			}
		}
	}
	return nil
}

// buildWire builds the token NFA of a function, expanding calls to closures and module
// functions that (transitively) contain tokens. classify returns the token label of an
// instruction in its context ("" = not a token). accepting says whether a return of the ROOT
// function ends a successful run.
func buildWire(c *Ctx, root *ssa.Function, classify func(*wctx, ssa.Instruction) string, accepting func(*ssa.Return) bool) *wireNFA {
	n := &wireNFA{}
	add := func(label string, in ssa.Instruction) *wireNode {
		w := &wireNode{id: len(n.nodes), label: label, in: in, succ: map[int]bool{}}
		n.nodes = append(n.nodes, w)
		return w
	}
	entry := add("", nil)
	acc := add("ACCEPT", nil)
	n.entry, n.accept = entry.id, acc.id
	// hasTokens: does the function (transitively) emit tokens?
	memo := map[*ssa.Function]int{}
	var hasTokens func(ctx *wctx) bool
	hasTokens = func(ctx *wctx) bool {
		if v, ok := memo[ctx.fn]; ok {
			return v == 1
		}
		memo[ctx.fn] = 0
		res := false
		for _, b := range ctx.fn.Blocks {
			for _, in := range b.Instrs {
				if classify(ctx, in) != "" {
					res = true
				}
				if call, ok := in.(*ssa.Call); ok {
					if cc := calleeOf(c, ctx, &call.Call); cc != nil && hasTokens(cc) {
						res = true
					}
				}
			}
		}
		if res {
			memo[ctx.fn] = 1
		}
		return res
	}
	// instantiate returns (entryNode, exitNode) of a copy of ctx.fn's token graph; both are epsilon nodes.
	var instantiate func(ctx *wctx, isRoot bool) (*wireNode, *wireNode)
	instantiate = func(ctx *wctx, isRoot bool) (*wireNode, *wireNode) {
		in0 := add("eps", nil)
		out0 := add("eps", nil)
		type point struct {
			b *ssa.BasicBlock
			i int
		}
		// "stops": instructions that become nodes (tokens, expanded calls)
		type stop struct {
			first, last *wireNode
		}
		stops := map[ssa.Instruction]stop{}
		for _, b := range ctx.fn.Blocks {
			for _, in := range b.Instrs {
				if l := classify(ctx, in); l != "" {
					if len(l) > 1 && strings.Trim(l, "Bb") == "" {
						// one instruction emitting several raw bytes (append(b, 0, 0)): a chain of B tokens
						first := add(l[:1], in)
						last := first
						for k := 1; k < len(l); k++ {
							nx := add(l[k:k+1], in)
							last.succ[nx.id] = true
							last = nx
						}
						stops[in] = stop{first, last}
						continue
					}
					w := add(l, in)
					stops[in] = stop{w, w}
					continue
				}
				if call, ok := in.(*ssa.Call); ok {
					if cc := calleeOf(c, ctx, &call.Call); cc != nil && hasTokens(cc) {
						a, z := instantiate(cc, false)
						stops[in] = stop{a, z}
					}
				}
			}
		}
		scan := func(from *wireNode, b *ssa.BasicBlock, idx int) {
			seen := map[*ssa.BasicBlock]bool{}
			stack := []point{{b, idx}}
			for len(stack) > 0 {
				p := stack[len(stack)-1]
				stack = stack[:len(stack)-1]
				stopped := false
				for i := p.i; i < len(p.b.Instrs); i++ {
					in := p.b.Instrs[i]
					if st, ok := stops[in]; ok {
						from.succ[st.first.id] = true
						stopped = true
						break
					}
					if ret, ok := in.(*ssa.Return); ok {
						if !isRoot {
							from.succ[out0.id] = true
						} else if accepting(ret) {
							from.succ[acc.id] = true
						}
						stopped = true
						break
					}
					if _, ok := in.(*ssa.Panic); ok {
						stopped = true
						break
					}
				}
				if stopped {
					continue
				}
				for _, s := range p.b.Succs {
					if !seen[s] {
						seen[s] = true
						stack = append(stack, point{s, 0})
					}
				}
			}
		}
		if len(ctx.fn.Blocks) > 0 {
			scan(in0, ctx.fn.Blocks[0], 0)
		}
		for in, st := range stops {
			b := in.Block()
			for i, x := range b.Instrs {
				if x == in {
					scan(st.last, b, i+1)
				}
			}
		}
		return in0, out0
	}
	a, _ := instantiate(&wctx{fn: root}, true)
	entry.succ[a.id] = true
	n.elimEps()
	return n
}

// elimEps removes epsilon nodes by closing successor sets over them.
func (n *wireNFA) elimEps() {
	isEps := func(id int) bool { return n.nodes[id].label == "eps" }
	var closure func(id int, seen map[int]bool, out map[int]bool)
	closure = func(id int, seen map[int]bool, out map[int]bool) {
		for s := range n.nodes[id].succ {
			if isEps(s) {
				if !seen[s] {
					seen[s] = true
					closure(s, seen, out)
				}
			} else {
				out[s] = true
			}
		}
	}
	for _, w := range n.nodes {
		if w.label == "eps" {
			continue
		}
		out := map[int]bool{}
		closure(w.id, map[int]bool{}, out)
		w.succ = out
	}
	for _, w := range n.nodes {
		if w.label == "eps" {
			w.succ = map[int]bool{}
		}
	}
}

func returnsNilError(ret *ssa.Return) bool {
	if len(ret.Results) == 0 {
		return true
	}
	k, ok := ret.Results[len(ret.Results)-1].(*ssa.Const)
	return ok && k.Value == nil
}

// wireInclusion checks L(a) ⊆ L(b) by the subset construction on b; it returns the first stuck point.
func wireInclusion(a, b *wireNFA) (ok bool, at *wireNode, expected []*wireNode, prefix []string, states int) {
	type state struct {
		an  int
		key string
	}
	setKey := func(s map[int]bool) string {
		var ks []int
		for k := range s {
			ks = append(ks, k)
		}
		sort.Ints(ks)
		return fmt.Sprint(ks)
	}
	type item struct {
		an   int
		bs   map[int]bool
		path []string
	}
	seen := map[state]bool{}
	queue := []item{{a.entry, map[int]bool{b.entry: true}, nil}}
	seen[state{a.entry, setKey(queue[0].bs)}] = true
	for len(queue) > 0 {
		it := queue[0]
		queue = queue[1:]
		states++
		for an := range a.nodes[it.an].succ {
			node := a.nodes[an]
			next := map[int]bool{}
			for bn := range it.bs {
				for s := range b.nodes[bn].succ {
					if b.nodes[s].label == node.label || (node.label == "b" && b.nodes[s].label == "B") {
						next[s] = true
					}
				}
			}
			if len(next) == 0 && node.label == "b" {
				// "b": a constant byte below 128 is its own varint, so where no decoder position
				// reads a raw byte it may be read back by the varint reader. Only then: letting it
				// stand for U everywhere lets the count-agnostic header loop swallow whole records
				// (the flag byte is what keeps the two automata in step).
				for bn := range it.bs {
					for s := range b.nodes[bn].succ {
						if b.nodes[s].label == "U" {
							next[s] = true
						}
					}
				}
			}
			if len(next) == 0 {
				var exp []*wireNode
				for bn := range it.bs {
					for s := range b.nodes[bn].succ {
						exp = append(exp, b.nodes[s])
					}
				}
				return false, node, exp, it.path, states
			}
			if node.label == "ACCEPT" {
				continue
			}
			st := state{an, setKey(next)}
			if !seen[st] {
				seen[st] = true
				queue = append(queue, item{an, next, append(append([]string{}, it.path...), node.label)})
			}
		}
	}
	return true, nil, nil, nil, states
}

// encoder token classifier: append(<output>, y...) where the result goes back into the output
// variable (an SSA value chain ending in result #0, or a cell captured by closures); y is the
// result of the varint encoder (U) or a one-element varargs array (B).
func encClassifier(c *Ctx, fn *ssa.Function, varintEnc string) func(*wctx, ssa.Instruction) string {
	// value chain: values that flow into result #0 through phi / append / slice, and through module
	// helpers that take the output slice and return it extended (b = appendRecord(b, ...))
	chains := map[*ssa.Function]map[ssa.Value]bool{}
	var outCell ssa.Value
	var chainFrom func(f *ssa.Function, res int, depth int) map[ssa.Value]bool
	chainFrom = func(f *ssa.Function, res int, depth int) map[ssa.Value]bool {
		if ch, ok := chains[f]; ok {
			return ch
		}
		chain := map[ssa.Value]bool{}
		chains[f] = chain
		var work []ssa.Value
		for _, b := range f.Blocks {
			if ret, ok := b.Instrs[len(b.Instrs)-1].(*ssa.Return); ok && len(ret.Results) > res {
				work = append(work, ret.Results[res])
			}
		}
		for len(work) > 0 {
			v := work[len(work)-1]
			work = work[:len(work)-1]
			if chain[v] {
				continue
			}
			chain[v] = true
			switch x := v.(type) {
			case *ssa.Phi:
				work = append(work, x.Edges...)
			case *ssa.Extract:
				work = append(work, x.Tuple)
			case *ssa.Call:
				if b, ok := x.Call.Value.(*ssa.Builtin); ok && b.Name() == "append" {
					work = append(work, x.Call.Args[0])
					break
				}
				if callee := x.Call.StaticCallee(); callee != nil && c.inModule(callee) && callee.Blocks != nil && depth < 4 && c.short(callee) != varintEnc {
					ri := 0
					if refs := x.Referrers(); refs != nil {
						for _, ref := range *refs {
							if ex, ok := ref.(*ssa.Extract); ok && chain[ex] {
								ri = ex.Index
							}
						}
					}
					sub := chainFrom(callee, ri, depth+1)
					for k, prm := range callee.Params {
						if sub[prm] && k < len(x.Call.Args) {
							work = append(work, x.Call.Args[k])
						}
					}
				}
			case *ssa.Slice:
				work = append(work, x.X)
			case *ssa.UnOp:
				if x.Op == token.MUL && f == fn {
					if al, ok := x.X.(*ssa.Alloc); ok {
						outCell = al // the output lives in a variable captured by closures
					}
				}
			}
		}
		return chain
	}
	chainFrom(fn, 0, 0)
	// lastStored: the value most recently stored (earlier in the same block) into the cell read by ld
	lastStored := func(ctx *wctx, ld *ssa.UnOp) ssa.Value {
		cell := cellOf(ctx, ld.X)
		if cell == nil {
			return nil
		}
		var val ssa.Value
		for _, in := range ld.Block().Instrs {
			if in == ssa.Instruction(ld) {
				break
			}
			if st, ok := in.(*ssa.Store); ok && cellOf(ctx, st.Addr) == cell {
				val = st.Val
			}
		}
		return val
	}
	return func(ctx *wctx, in ssa.Instruction) string {
		call, ok := in.(*ssa.Call)
		if !ok {
			return ""
		}
		b, ok := call.Call.Value.(*ssa.Builtin)
		if !ok || b.Name() != "append" {
			return ""
		}
		isOut := chains[ctx.fn][call]
		if !isOut && outCell != nil {
			for _, ref := range *call.Referrers() {
				if st, ok := ref.(*ssa.Store); ok && st.Val == ssa.Value(call) && cellOf(ctx, st.Addr) == outCell {
					isOut = true
				}
			}
		}
		if !isOut {
			return ""
		}
		if len(call.Call.Args) != 2 {
			return "?"
		}
		y := call.Call.Args[1]
		if ld, ok := y.(*ssa.UnOp); ok && ld.Op == token.MUL {
			if v := lastStored(ctx, ld); v != nil {
				y = v
			}
		}
		if cc, ok := y.(*ssa.Call); ok {
			if f := cc.Call.StaticCallee(); f != nil && c.short(f) == varintEnc {
				return "U"
			}
			return "?"
		}
		if sl, ok := y.(*ssa.Slice); ok {
			if al, ok := sl.X.(*ssa.Alloc); ok {
				if arr, ok := al.Type().Underlying().(*types.Pointer).Elem().Underlying().(*types.Array); ok && arr.Len() >= 1 && arr.Len() <= 16 && isByte(arr.Elem()) && sl.Low == nil && sl.High == nil {
					return byteOperandLabels(al, int(arr.Len())) // append(b, x, y, ...): one raw byte per operand
				}
			}
		}
		// a block of raw bytes appended at once (a []byte field or a window of one)
		if st, ok := y.Type().Underlying().(*types.Slice); ok && isByte(st.Elem()) {
			base := y
			if sl, ok := base.(*ssa.Slice); ok {
				base = sl.X
			}
			if ld, ok := base.(*ssa.UnOp); ok && ld.Op == token.MUL {
				if _, isField := ld.X.(*ssa.FieldAddr); isField {
					return "S"
				}
			}
		}
		return "?"
	}
}

// byteOperandLabels labels the k operands of append(b, x0, ..., xk-1) (held in the array al):
// "b" for a constant below 128 (a byte that is also its own varint), "B" for any other byte.
func byteOperandLabels(al *ssa.Alloc, k int) string {
	out := []byte(strings.Repeat("B", k))
	nstores := make([]int, k)
	for _, ref := range *al.Referrers() {
		ia, ok := ref.(*ssa.IndexAddr)
		if !ok {
			continue
		}
		ic, ok := ia.Index.(*ssa.Const)
		if !ok || ic.Value == nil {
			return strings.Repeat("B", k)
		}
		i := int(ic.Int64())
		if i < 0 || i >= k {
			continue
		}
		for _, r2 := range *ia.Referrers() {
			if st, ok := r2.(*ssa.Store); ok && st.Addr == ssa.Value(ia) {
				nstores[i]++
				if cv, ok := st.Val.(*ssa.Const); ok && cv.Value != nil && cv.Uint64() < 128 {
					out[i] = 'b'
				}
			}
		}
	}
	for i := range out {
		if nstores[i] != 1 {
			out[i] = 'B'
		}
	}
	return string(out)
}

func decClassifier(c *Ctx, varintDec string) func(*wctx, ssa.Instruction) string {
	return func(ctx *wctx, in ssa.Instruction) string {
		call, ok := in.(*ssa.Call)
		if !ok {
			return ""
		}
		f := call.Call.StaticCallee()
		if f == nil {
			if call.Call.IsInvoke() && (call.Call.Method.Name() == "ReadByte") {
				return "B"
			}
			if call.Call.IsInvoke() && call.Call.Method.Name() == "Read" {
				return "S"
			}
			return ""
		}
		switch {
		case c.short(f) == varintDec:
			return "U"
		case f.String() == "(*bytes.Reader).ReadByte" || f.String() == "(*bufio.Reader).ReadByte":
			return "B"
		case f.String() == "io.ReadFull" || f.String() == "(*bytes.Reader).Read" || f.String() == "(*bytes.Buffer).Read" || f.String() == "(*bytes.Buffer).Next" || f.String() == "(*bufio.Reader).Read":
			return "S" // a block of raw bytes taken at once
		case f.String() == "io.ReadAll":
			return "?"
		}
		return ""
	}
}

func ruleGrammar(c *Ctx, r *RuleResult, encName, decName, varintEnc, varintDec string) {
	enc, dec := c.Fn(encName), c.Fn(decName)
	A := buildWire(c, enc, encClassifier(c, enc, varintEnc), func(ret *ssa.Return) bool { return returnsNilError(ret) })
	B := buildWire(c, dec, decClassifier(c, varintDec), returnsNilError)
	count := func(n *wireNFA) (u, b, q int) {
		for _, w := range n.nodes {
			switch w.label {
			case "U":
				u++
			case "B", "b":
				b++
			case "?":
				q++
			}
		}
		return
	}
	eu, eb, eq := count(A)
	du, db, dq := count(B)
	r.inst("%s: %d varint tokens, %d raw-byte tokens", encName, eu, eb)
	r.inst("%s: %d varint tokens, %d raw-byte tokens", decName, du, db)
	for _, w := range A.nodes {
		if w.in != nil {
			r.inst("%s token %s: %s", encName, w.label, c.srcAt(w.in.Pos()))
		}
	}
	for _, w := range B.nodes {
		if w.in != nil {
			r.inst("%s token %s: %s", decName, w.label, instrDesc(c, w.in))
		}
	}
	if eq > 0 || dq > 0 {
		for _, n := range []*wireNFA{A, B} {
			for _, w := range n.nodes {
				if w.label == "?" {
					r.undecided("unrecognised wire primitive at %s (%s)", c.instrPos(w.in), w.in.String())
				}
			}
		}
		return
	}
	if eu+eb == 0 || du+db == 0 {
		r.undecided("no wire tokens recognised in %s / %s (refactored beyond recognition)", encName, decName)
		return
	}
	ok, at, exp, prefix, states := wireInclusion(A, B)
	r.note("product automaton explored %d states", states)
	r.oblig(ok)
	if !ok {
		var es []string
		for _, e := range exp {
			if e.in != nil {
				es = append(es, fmt.Sprintf("%s at %s", e.label, c.instrPos(e.in)))
			} else {
				es = append(es, e.label)
			}
		}
		sort.Strings(es)
		pos, what := "-", "end of record"
		if at.in != nil {
			pos = c.instrPos(at.in)
			what = fmt.Sprintf("token %s (%s)", at.label, c.srcAt(at.in.Pos()))
		}
		r.find(fmt.Sprintf("%s:record token %d", encName, len(prefix)+1), pos, "after the token sequence %s the encoder emits %s but the decoder can only continue with {%s}: the two sides disagree on the kind of field on the wire", strings.Join(prefix, ""), what, strings.Join(es, "; "))
	}
}

// ---------------------------------------------------------------- VARINT constants

func findConsts(fn *ssa.Function, match func(in ssa.Instruction) (int64, bool)) []int64 {
	var out []int64
	seen := map[*ssa.Function]bool{}
	var scan func(f *ssa.Function, depth int)
	scan = func(f *ssa.Function, depth int) {
		if seen[f] || f.Blocks == nil {
			return
		}
		seen[f] = true
		for _, b := range f.Blocks {
			for _, in := range b.Instrs {
				if v, ok := match(in); ok {
					out = append(out, v)
				}
				// unexported helpers of the same package that the codec calls (bigEndian(buf[:n]))
				if call, ok := in.(*ssa.Call); ok && depth < 1 {
					if h := call.Call.StaticCallee(); h != nil && h.Pkg != nil && h.Pkg == fn.Pkg && h.Object() != nil && !h.Object().Exported() && h.Signature.Recv() == nil {
						scan(h, depth+1)
					}
				}
			}
		}
	}
	scan(fn, 0)
	return out
}

func ruleVarint(c *Ctx, r *RuleResult, encName, decName string) {
	enc, dec := c.Fn(encName), c.Fn(decName)
	one := func(what string, vs []int64) (int64, bool) {
		if len(vs) != 1 {
			r.undecided("VARINT: expected exactly one %s, found %v (shape changed)", what, vs)
			return 0, false
		}
		return vs[0], true
	}
	// ---- encoder, as polynomials over x and z = (number of leading zero bytes of x)
	P := NewProver(c, enc)
	var x ssa.Value
	for _, p := range enc.Params {
		if isInt(p.Type()) {
			x = p
		}
	}
	if x == nil {
		r.undecided("VARINT: %s has no integer parameter", encName)
		return
	}
	encSmallVs := findConsts(enc, func(in ssa.Instruction) (int64, bool) {
		if bo, ok := in.(*ssa.BinOp); ok && bo.X == x {
			if k, ok := constInt(bo.Y); ok {
				switch bo.Op {
				case token.LEQ:
					return k, true
				case token.LSS:
					return k - 1, true
				}
			}
		}
		return 0, false
	})
	encSmall, ok1 := one("single-byte threshold in "+encName, encSmallVs)
	var H, V0, T Poly
	var zAtom *Atom
	for _, b := range enc.Blocks {
		for _, in := range b.Instrs {
			switch v := in.(type) {
			case *ssa.Slice:
				if v.High != nil {
					if _, isK := constInt(v.High); !isK {
						H = P.polyLoose(v.High)
					}
				}
			case *ssa.Call:
				// copy(buf[a:], tmp[b:]) after binary.BigEndian.PutUint64(tmp[:], x): by the library's contract
				// tmp[q] = byte(x >> 8*(7-q)), so buf[I] = byte(x >> 8*(7 - (b + I - a))): shift + 8*I = 56 - 8b + 8a
				if bi, isB := v.Call.Value.(*ssa.Builtin); isB && bi.Name() == "copy" && len(v.Call.Args) == 2 {
					dst, okD := v.Call.Args[0].(*ssa.Slice)
					src, okS := v.Call.Args[1].(*ssa.Slice)
					if !okD || !okS {
						continue
					}
					tmp, isAlloc := src.X.(*ssa.Alloc)
					if !isAlloc {
						continue
					}
					filled := false
					for _, ref := range *tmp.Referrers() {
						if sl, ok := ref.(*ssa.Slice); ok && sl.Low == nil {
							for _, r2 := range *sl.Referrers() {
								if pc, ok := r2.(*ssa.Call); ok {
									if f := pc.Call.StaticCallee(); f != nil && f.String() == "(encoding/binary.bigEndian).PutUint64" && len(pc.Call.Args) == 3 && stripAll(pc.Call.Args[2]) == x {
										filled = true
									}
								}
							}
						}
					}
					if !filled {
						continue
					}
					a, b := Poly{}, Poly{}
					if dst.Low != nil {
						a = P.polyLoose(dst.Low)
					}
					if src.Low != nil {
						b = P.polyLoose(src.Low)
					}
					T = constP(56).add(b.scale(8), -1).add(a.scale(8), 1)
				}
			case *ssa.Store:
				ia, ok := v.Addr.(*ssa.IndexAddr)
				if !ok || !isByte(v.Val.Type()) {
					continue
				}
				if k, isK := constInt(ia.Index); isK {
					if k == 0 {
						val := P.polyLoose(v.Val)
						if val.add(P.polyLoose(x), -1).key() != "" { // not the direct byte(x) store
							V0 = val
						}
					}
					continue
				}
				// buf[I] = byte(x >> S)
				cv := v.Val
				for {
					if cc, ok := cv.(*ssa.Convert); ok {
						cv = cc.X
						continue
					}
					break
				}
				if sh, ok := cv.(*ssa.BinOp); ok && sh.Op == token.SHR && stripAll(sh.X) == x {
					I := P.polyLoose(ia.Index)
					S := P.polyLoose(sh.Y)
					T = S.add(I.scale(8), 1)
				} else if ph, ok := cv.(*ssa.Phi); ok {
					// buf[I] = byte(xs) in a loop with xs = φ(x, xs >> K) and a counter j = φ(init, j ± 1)
					// in the same header: in iteration t, xs = x >> K*t and j = init ± t, so the shift is
					// K*(j - init) (counting up) or K*(init - j) (counting down).
					if S, ok := shiftOfLoopPhi(P, ph, x, P.polyLoose(ia.Index)); ok {
						T = S.add(P.polyLoose(ia.Index).scale(8), 1)
					}
				}
			}
		}
	}
	// a helper that returns the payload length as  C - (LeadingZeros64(p) >> 3)  of its parameter: the
	// call is rewritten to that form over one zero-byte atom, so that the relations below read the same
	zFromHelper := false
	subst := func(q Poly) Poly {
		if q == nil {
			return nil
		}
		out := q
		P.atomsOf(q, func(a *Atom) {
			if a.kind != aVal {
				return
			}
			call, ok := a.val.(*ssa.Call)
			if !ok || len(call.Call.Args) != 1 || stripAll(call.Call.Args[0]) != x {
				return
			}
			h := call.Call.StaticCallee()
			if h == nil || !c.inModule(h) || h.Blocks == nil || len(h.Blocks) != 1 || len(h.Params) != 1 {
				return
			}
			ret, ok := h.Blocks[0].Instrs[len(h.Blocks[0].Instrs)-1].(*ssa.Return)
			if !ok || len(ret.Results) != 1 {
				return
			}
			HP := NewProver(c, h)
			rp := HP.polyLoose(ret.Results[0])
			ms := rp.monos()
			if len(ms) != 1 || rp[ms[0]] != -1 {
				return
			}
			var za *Atom
			HP.atomsOf(Poly{ms[0]: 1}, func(b *Atom) { za = b })
			okZ := false
			if za != nil && za.kind == aVal {
				if bo, ok := za.val.(*ssa.BinOp); ok {
					var cnt ssa.Value
					if k, isK := constInt(bo.Y); isK && (bo.Op == token.SHR && k == 3 || bo.Op == token.QUO && k == 8) {
						cnt = bo.X
					}
					if lz, ok := cnt.(*ssa.Call); ok {
						if f := lz.Call.StaticCallee(); f != nil && f.String() == "math/bits.LeadingZeros64" && stripAll(lz.Call.Args[0]) == ssa.Value(h.Params[0]) {
							okZ = true
						}
					}
				}
			}
			if !okZ {
				return
			}
			// call = C - z  with z carried by the helper's own zero-byte value
			zv := atomP(P.atom(aVal, za.val, nil, 0, true).id)
			rep := constP(rp[""]).add(zv, -1)
			coef := out[itoa(a.id)]
			delete(out, itoa(a.id))
			out = out.clone().add(rep, coef)
			zFromHelper = true
		})
		return out
	}
	H, V0, T = subst(H), subst(V0), subst(T)
	if H == nil || V0 == nil || T == nil {
		r.undecided("VARINT: %s: could not find the length (%v), prefix byte (%v) and payload stores (%v) of the multi-byte form", encName, H != nil, V0 != nil, T != nil)
		return
	}
	// z: the single non-constant atom of H, defined as LeadingZeros64(x) >> 3
	hm := H.monos()
	if len(hm) != 1 || H[hm[0]] != -1 {
		r.undecided("VARINT: %s: total length %s is not of the form C - zeroBytes", encName, P.showTerm(H))
		return
	}
	P.atomsOf(Poly{hm[0]: 1}, func(a *Atom) { zAtom = a })
	zOK := zFromHelper
	if zAtom != nil && zAtom.kind == aVal && !zOK {
		if bo, ok := zAtom.val.(*ssa.BinOp); ok {
			var cnt ssa.Value
			switch {
			case bo.Op == token.SHR:
				if k, ok := constInt(bo.Y); ok && k == 3 {
					cnt = bo.X
				}
			case bo.Op == token.QUO:
				if k, ok := constInt(bo.Y); ok && k == 8 {
					cnt = bo.X
				}
			}
			if call, ok := cnt.(*ssa.Call); ok {
				if f := call.Call.StaticCallee(); f != nil && f.String() == "math/bits.LeadingZeros64" && stripAll(call.Call.Args[0]) == x {
					zOK = true
				}
			}
		}
	}
	// ---- decoder constants
	// cmpNorm: a comparison of a value with a constant, written either way round, as (value, op, k)
	cmpNorm := func(in ssa.Instruction) (ssa.Value, token.Token, int64, bool) {
		bo, ok := in.(*ssa.BinOp)
		if !ok {
			return nil, 0, 0, false
		}
		if k, ok := constInt(bo.Y); ok {
			if _, both := constInt(bo.X); !both {
				return bo.X, bo.Op, k, true
			}
		}
		if k, ok := constInt(bo.X); ok {
			op := bo.Op
			switch op {
			case token.LSS:
				op = token.GTR
			case token.GTR:
				op = token.LSS
			case token.LEQ:
				op = token.GEQ
			case token.GEQ:
				op = token.LEQ
			}
			return bo.Y, op, k, true
		}
		return nil, 0, 0, false
	}
	decSmall, ok8 := one("single-byte threshold in "+decName, findConsts(dec, func(in ssa.Instruction) (int64, bool) {
		if x, op, k, ok := cmpNorm(in); ok && isByte(x.Type()) {
			switch op {
			case token.LEQ:
				return k, true
			case token.LSS:
				return k - 1, true
			case token.GTR: // the multi-byte branch tested first: b > 127
				return k, true
			case token.GEQ:
				return k - 1, true
			}
		}
		if bo, ok := in.(*ssa.BinOp); ok && false {
			if k, ok := constInt(bo.Y); ok {
				switch bo.Op {
				case token.LEQ:
					return k, true
				case token.LSS:
					return k - 1, true
				}
			}
		}
		return 0, false
	}))
	decBase, ok9 := one("length-prefix base in "+decName, findConsts(dec, func(in ssa.Instruction) (int64, bool) {
		if bo, ok := in.(*ssa.BinOp); ok && bo.Op == token.SUB {
			if _, isConv := bo.X.(*ssa.Convert); isConv {
				return constInt(bo.Y)
			}
		}
		return 0, false
	}))
	decMax, ok10 := one("maximum payload length in "+decName, findConsts(dec, func(in ssa.Instruction) (int64, bool) {
		if x, op, k, ok := cmpNorm(in); ok && isInt(x.Type()) && !isByte(x.Type()) {
			switch op {
			case token.GTR:
				return k, true
			case token.GEQ:
				return k - 1, true
			}
		}
		return 0, false
	}))
	decShift, ok11 := one("accumulator shift in "+decName, findConsts(dec, func(in ssa.Instruction) (int64, bool) {
		if bo, ok := in.(*ssa.BinOp); ok && bo.Op == token.SHL {
			return constInt(bo.Y)
		}
		return 0, false
	}))
	if !(ok1 && ok8 && ok9 && ok10 && ok11) {
		return
	}
	check := func(ok bool, key, format string, a ...interface{}) {
		r.inst("%s", fmt.Sprintf(format, a...))
		r.oblig(ok)
		if !ok {
			r.find(key, c.pos(enc.Pos()), "varint encoder and decoder disagree: "+format+" does not hold", a...)
		}
	}
	z := Poly{hm[0]: 1}
	check(zOK, "dawg.varint:zero-byte count", "encoder counts leading zero BYTES as LeadingZeros64(x) >> 3 (%v)", zOK)
	check(encSmall == decSmall, "dawg.varint:single-byte threshold", "encoder single-byte range <= %d equals decoder's <= %d", encSmall, decSmall)
	check(decBase == decSmall+1, "dawg.varint:prefix base vs threshold", "decoder prefix base %d is threshold %d + 1", decBase, decSmall)
	// total length H = 1 + payload, payload = decMax - z
	check(H.add(constP(decMax+1), -1).add(z, 1).key() == "", "dawg.varint:total length", "encoder total length %s equals 1 + %d - zeroBytes", P.showTerm(H), decMax)
	// prefix byte announces exactly the payload length: V0 - decBase == H - 1
	check(V0.add(constP(-decBase), 1).add(H, -1).add(constP(1), 1).key() == "", "dawg.varint:prefix base", "encoder prefix byte %s minus decoder base %d equals the payload length %s - 1", P.showTerm(V0), decBase, P.showTerm(H))
	// byte at index p carries bits from 8*(H-1-p): S + 8p == 8*(H-1)
	check(T.add(H.scale(8), -1).add(constP(8), 1).key() == "", "dawg.varint:byte order", "payload byte at index p is x >> (8*(length-1-p)): shift + 8*index = %s equals 8*(%s) - 8 (most significant byte first)", P.showTerm(T), P.showTerm(H))
	check(decMax*8 == 64, "dawg.varint:max length", "decoder accepts up to %d payload bytes of 8 bits for a 64-bit value", decMax)
	check(decShift == 8, "dawg.varint:decoder shift", "decoder accumulates x<<%d per byte", decShift)
}

// shiftOfLoopPhi recognises xs = φ(x, xs >> K) with a lock-step counter j = φ(init, j ± 1) in the
// same loop header, where j is the counter the store index I is written in, and returns the
// shift amount applied to x in terms of j.
func shiftOfLoopPhi(P *Prover, xs *ssa.Phi, x ssa.Value, I Poly) (Poly, bool) {
	if len(xs.Edges) != 2 {
		return nil, false
	}
	initIdx := -1
	var K int64
	for k, e := range xs.Edges {
		if stripAll(e) == x {
			initIdx = k
		}
	}
	if initIdx < 0 {
		return nil, false
	}
	back, ok := stripAll(xs.Edges[1-initIdx]).(*ssa.BinOp)
	if !ok || back.Op != token.SHR || stripAll(back.X) != ssa.Value(xs) {
		return nil, false
	}
	if k, isK := constInt(back.Y); isK && k > 0 {
		K = k
	} else {
		return nil, false
	}
	var found Poly
	n := 0
	for _, in := range xs.Block().Instrs {
		j, ok := in.(*ssa.Phi)
		if !ok || j == xs || len(j.Edges) != 2 || !isInt(j.Type()) {
			continue
		}
		used := false
		P.atomsOf(I, func(a *Atom) {
			if a.kind == aVal && a.val == ssa.Value(j) {
				used = true
			}
		})
		if !used {
			continue
		}
		step, ok := j.Edges[1-initIdx].(*ssa.BinOp)
		if !ok || step.X != ssa.Value(j) {
			continue
		}
		one, isK := constInt(step.Y)
		if !isK || one != 1 || (step.Op != token.ADD && step.Op != token.SUB) {
			continue
		}
		d := P.polyLoose(j).add(P.polyLoose(j.Edges[initIdx]), -1) // j - init
		if step.Op == token.SUB {
			d = d.scale(-1)
		}
		found = d.scale(K)
		n++
	}
	if n != 1 {
		return nil, false
	}
	return found, true
}

func stripAll(v ssa.Value) ssa.Value {
	for {
		switch x := v.(type) {
		case *ssa.Convert:
			v = x.X
			continue
		case *ssa.ChangeType:
			v = x.X
			continue
		}
		return v
	}
}

func init() {
	register(&propDef{
		id:          "C14",
		explanation: "Decides that encoder and decoder agree on the kind of every field on the wire: GRAMMAR reads the SSA control-flow graphs of GobEncode and GobDecode as NFAs over the tokens U (a varint: append of an encodeUint64 result / call of decodeUint64) and B (one raw byte: append of a single byte / ReadByte) and checks L(GobEncode) ⊆ L(GobDecode) by the subset construction, reporting the first token on which the product automaton is stuck; VARINT checks nine constant relations between encodeUint64 and decodeUint64 (single-byte threshold, prefix base, payload bound, total length, byte order, shift widths); OVERWRITE checks that GobDecode assigns every field of every node on every iteration of a loop, so a reused receiver keeps no stale state; FRESH also requires that GobDecode stores no memory of its input slice into the automaton (no zero-copy decode), and NARROWLEN that no length is converted to a type narrower than 64 bits without a proof that it fits (byte(len(links)) is 0 for 256 children). Blocks of raw bytes appended or read at once are a token of their own (S). GLOBAL: package dawg keeps no package-level state (no shared scratch buffer in the codec). Does not decide equality of words/ranks after a round trip. VISITONCE: in the depth-first walks of GobEncode and listNodesCountEdges a child is pushed on the work stacks only in the region dominated by the insertion into the sorted list of visited ids (recognised by its shift idiom copy(x[i+1:], x[i:])), i.e. only when it is seen for the first time; a push before the visited test leaves the frame of a seen child on the stack, shared nodes are walked once per path, and GobEncode of a small, wide Dawg does not return in any useful time.",
		notDecided:  []string{"that the decoded automaton has the same words, ranks, node count and search results", "that re-encoding gives the same bytes", "that element counts on the wire match loop counts (regular approximation ignores counts)"},
		assumptions: []string{"every byte of the output is appended through the recognised primitives (an unrecognised append to the output chain is 'undecided' and fails)"},
		run: func(c *Ctx, tier string) []*RuleResult {
			g := &RuleResult{Rule: "GRAMMAR", Doc: "L(GobEncode) ⊆ L(GobDecode) over wire tokens U (varint) and B (raw byte)", MinInst: 6}
			ruleGrammar(c, g, "(*dawg.Dawg).GobEncode", "(*dawg.Dawg).GobDecode", "dawg.encodeUint64", "dawg.decodeUint64")
			v := &RuleResult{Rule: "VARINT", Doc: "encodeUint64 / decodeUint64 agree on threshold, prefix base, lengths, byte order (encoder read as polynomials over x and its number of leading zero bytes)", MinInst: 8}
			ruleVarint(c, v, "dawg.encodeUint64", "dawg.decodeUint64")
			fr := &RuleResult{Rule: "FRESH", Doc: "the bytes returned by GobEncode are the caller's own: they reach no package-level memory (a pooled buffer would be overwritten by the next encode) and none of the Dawg's", MinInst: 2}
			ge := c.Fn("(*dawg.Dawg).GobEncode")
			freshResult(c, fr, ge, 0, nil, nil, "is freshly allocated")
			noWrites(c, fr, ge, nil, "the Dawg or any shared state")
			ow := &RuleResult{Rule: "OVERWRITE", Doc: "GobDecode assigns every field of every node on every iteration of a loop (or resets the receiver as a whole): no stale state of a reused receiver survives", MinInst: 1}
			ruleOverwrite(c, ow, "(*dawg.Dawg).GobDecode", "dawg", "Dawg")
			// the decoded automaton keeps nothing of the input slice (a zero-copy decode would change
			// with the caller's buffer) and no narrowing conversion of a length is unproved
			gd := c.Fn("(*dawg.Dawg).GobDecode")
			fr.inst("(*dawg.Dawg).GobDecode: the receiver keeps no memory of the input")
			E := c.Eff()
			keeps := false
			for _, e := range E.sums[gd].Stores {
				if e.src.Root >= 1 && e.src.Root < len(gd.Params) && e.dst.Root == 0 {
					keeps = true
					fr.find("(*dawg.Dawg).GobDecode:keeps "+gd.Params[e.src.Root].Name(), c.pos(gd.Pos()), "GobDecode stores memory of its argument %s into the automaton (%s <- %s): the decoded Dawg changes when the caller reuses the buffer it decoded from", gd.Params[e.src.Root].Name(), E.apString(gd, e.dst), E.apString(gd, e.src))
					break
				}
			}
			fr.oblig(!keeps)
			nl := ruleNarrowLen(c, filesOf(c, "(*dawg.Dawg).GobEncode", "(*dawg.Dawg).GobDecode", "dawg.encodeUint64", "dawg.decodeUint64"))
			// the codec keeps no package-level scratch: two decodes (or encodes) of different automata cannot meet
			gl := ruleGlobalIn(c, "dawg")
			gl.Doc = "no function of package dawg writes through, or hands out, a package-level variable (a shared varint buffer would be corrupted by concurrent decodes and would tie one result to the next call)"
			vo := &RuleResult{Rule: "VISITONCE", Doc: "in the depth-first walks of GobEncode and listNodesCountEdges a child is pushed on the work stacks only on the side of the visited test on which it is recorded for the first time (a Dawg shares nodes: otherwise the walk is over paths, not nodes)", MinInst: 2}
			ruleVisitOnce(c, vo, "(*dawg.Dawg).GobEncode")
			if c.FnOpt("(*dawg.Dawg).listNodesCountEdges") != nil {
				ruleVisitOnce(c, vo, "(*dawg.Dawg).listNodesCountEdges")
			}
			// BYTEWISE (C12's rule) for the codec: only what GobEncode / GobDecode and the varint pair do is judged here
			bwAll := &RuleResult{Rule: "BYTEWISE"}
			ruleBytewise(c, bwAll, "dawg")
			bw := &RuleResult{Rule: "BYTEWISE", Doc: "labels are bytes on the wire and in the automaton: the codec (GobEncode, GobDecode, encodeUint64, decodeUint64) neither iterates a string with range nor converts between strings and runes, and builds no string with string(x) from a label byte whose bytes it reads back (a code-point conversion: a byte >= 0x80 becomes two)", MinInst: 2}
			inCodec := func(s string) bool {
				for _, n := range []string{"(*dawg.Dawg).GobEncode", "(*dawg.Dawg).GobDecode", "dawg.encodeUint64", "dawg.decodeUint64"} {
					if strings.Contains(s, n+":") {
						return true
					}
				}
				return false
			}
			for _, in := range bwAll.Instances {
				if inCodec(in) {
					bw.Instances = append(bw.Instances, in)
					bw.Obligations++
					bw.Discharged++
				}
			}
			for _, f := range bwAll.Findings {
				if inCodec(f.Key + ":") {
					bw.Findings = append(bw.Findings, f)
					bw.Discharged--
				}
			}
			bw.Undecided = bwAll.Undecided
			return []*RuleResult{g, v, ow, fr, nl, gl, vo, bw}
		},
		controls: func(ctl *Ctx) []*RuleResult {
			g := &RuleResult{Rule: "GRAMMAR"}
			ruleGrammar(ctl, g, "(*wirectl.T).BadEncode", "(*wirectl.T).Decode", "wirectl.putUvarint", "wirectl.getUvarint")
			g2 := &RuleResult{Rule: "GRAMMAR"}
			ruleGrammar(ctl, g2, "(*wirectl.T).GoodEncode", "(*wirectl.T).Decode", "wirectl.putUvarint", "wirectl.getUvarint")
			for _, f := range g2.Findings {
				f.Key += " (Good)"
				g.Findings = append(g.Findings, f)
			}
			g.Undecided = append(g.Undecided, g2.Undecided...)
			ow := &RuleResult{Rule: "OVERWRITE"}
			ruleOverwrite(ctl, ow, "(*wirectl.N).BadDecode", "wirectl", "N")
			ow2 := &RuleResult{Rule: "OVERWRITE"}
			ruleOverwrite(ctl, ow2, "(*wirectl.N).GoodDecode", "wirectl", "N")
			for _, f := range ow2.Findings {
				f.Key += " (Good)"
				ow.Findings = append(ow.Findings, f)
			}
			vo := &RuleResult{Rule: "VISITONCE"}
			ruleVisitOnce(ctl, vo, "(*visitctl.N).BadWalk")
			ruleVisitOnce(ctl, vo, "(*visitctl.N).GoodWalk")
			return []*RuleResult{g, ow, vo}
		},
	})
}

// ruleOverwrite: GobDecode replaces the receiver's contents, so every field of every node it
// fills must be assigned on every iteration of some loop (or the receiver must be reset as a
// whole first): a field assigned only on some paths keeps stale state of a reused receiver.
func ruleOverwrite(c *Ctx, r *RuleResult, fnName, pkgRel, typ string) {
	fn := c.Fn(fnName)
	st := structOf(c, pkgRel, typ)
	T := c.Pkg(pkgRel).Types.Scope().Lookup(typ).Type()
	E := c.Eff()
	f := E.fas[fn]
	isNode := func(v ssa.Value) bool {
		for l := range f.P(v) {
			t := l.o.typ
			if t == nil {
				continue
			}
			if p, ok := t.Underlying().(*types.Pointer); ok {
				t = p.Elem()
			}
			if types.Identical(t, T) {
				return true
			}
		}
		return false
	}
	// whole-struct reset of the receiver in the entry region
	reset := false
	for _, b := range fn.Blocks {
		for _, in := range b.Instrs {
			if s, ok := in.(*ssa.Store); ok && s.Addr == ssa.Value(fn.Params[0]) && b.Dominates(fn.Blocks[len(fn.Blocks)-1]) {
				reset = true
			}
		}
	}
	loops := loopsOf(fn)
	for i := 0; i < st.NumFields(); i++ {
		name := st.Field(i).Name()
		writers := map[*ssa.BasicBlock]bool{}
		n := 0
		for _, b := range fn.Blocks {
			for _, in := range b.Instrs {
				s, ok := in.(*ssa.Store)
				if !ok {
					continue
				}
				fa, ok := s.Addr.(*ssa.FieldAddr)
				if !ok || !isNode(fa.X) {
					continue
				}
				fst := fa.X.Type().Underlying().(*types.Pointer).Elem().Underlying().(*types.Struct)
				if fst.Field(fa.Field).Name() == name {
					writers[b] = true
					n++
				}
			}
		}
		r.inst("%s: field %s.%s assigned on every iteration of a loop (%d stores)", fnName, typ, name, n)
		must := false
		for h, body := range loops {
			// with writer blocks removed, can the header reach one of its back-edge sources?
			if writers[h] {
				must = true
				continue
			}
			reach := reachableBlocks(h, func(b *ssa.BasicBlock) bool { return writers[b] || !body[b] })
			esc := false
			for _, p := range h.Preds {
				if body[p] && reach[p] {
					esc = true
				}
			}
			hasWriterInside := false
			for b := range writers {
				if body[b] {
					hasWriterInside = true
				}
			}
			if hasWriterInside && !esc {
				must = true
			}
		}
		ok := must || (reset && n > 0) || (reset && n == 0)
		r.oblig(ok)
		if !ok {
			if n == 0 {
				r.find(fnName+":field "+name+" never assigned", c.pos(fn.Pos()), "%s never assigns %s.%s: a decoded node keeps whatever a reused receiver held", fnName, typ, name)
			} else {
				r.find(fnName+":field "+name+" assigned only on some paths", c.pos(fn.Pos()), "%s assigns %s.%s only on some paths through its node loop: decoding into a receiver that already holds an automaton keeps the stale value (e.g. a root that stays final)", fnName, typ, name)
			}
		}
	}
}

// ruleNarrowLen: a length or count written on the wire (or kept) in a type narrower than int must be
// proved to fit it: byte(len(links)) is 0 for a node with 256 children.
func ruleNarrowLen(c *Ctx, files func(string) bool) *RuleResult {
	r := &RuleResult{Rule: "NARROWLEN", Doc: "a len(...) converted to an integer type narrower than 64 bits is proved to fit", MinInst: 0}
	for _, fn := range c.Funcs {
		if fn.Synthetic != "" || fn.Blocks == nil || !files(c.Fset.Position(fn.Pos()).Filename) {
			continue
		}
		var P *Prover
		for _, b := range fn.Blocks {
			for _, in := range b.Instrs {
				cv, ok := in.(*ssa.Convert)
				if !ok || !isInt(cv.Type()) || !isInt(cv.X.Type()) || intBits(cv.Type()) >= 64 {
					continue
				}
				call, ok := stripAll(cv.X).(*ssa.Call)
				if !ok {
					continue
				}
				if bi, isB := call.Call.Value.(*ssa.Builtin); !isB || bi.Name() != "len" {
					continue
				}
				if P == nil {
					P = NewProver(c, fn)
				}
				_, hi, _ := typeRange(cv.Type())
				v := P.poly(cv.X)
				src := c.srcAt(cv.Pos())
				if src == "" {
					src = valName(cv)
				}
				r.inst("%s: %s", c.short(fn), src)
				ok2 := P.Prove(v.add(constP(-hi), 1), b)
				r.oblig(ok2)
				if !ok2 {
					r.find(c.short(fn)+":narrow length "+src, c.instrPos(cv), "%s converts the length %s to a %d-bit integer without a proof that it is at most %d: one element more and the count wraps (a node with 256 children is written as having none)", c.short(fn), P.showTerm(v), intBits(cv.Type()), hi)
				}
			}
		}
	}
	return r
}
