package main

// E-PATH rules on SSA control-flow graphs: CLOSE (C19), ERRCHK (C20), REJECT-PURE and
// MUSTGUARD (C12).

import (
	"go/token"
	"go/types"

	"golang.org/x/tools/go/ssa"
)

// reachableBlocks returns the blocks reachable from `from`, never entering a block for which cut(b) is true
// (the start block itself is always included).
func reachableBlocks(from *ssa.BasicBlock, cut func(b *ssa.BasicBlock) bool) map[*ssa.BasicBlock]bool {
	seen := map[*ssa.BasicBlock]bool{from: true}
	stack := []*ssa.BasicBlock{from}
	for len(stack) > 0 {
		b := stack[len(stack)-1]
		stack = stack[:len(stack)-1]
		for _, s := range b.Succs {
			if seen[s] || (cut != nil && cut(s)) {
				continue
			}
			seen[s] = true
			stack = append(stack, s)
		}
	}
	return seen
}

func isBuiltinCall(in ssa.Instruction, name string, arg0 ssa.Value) bool {
	var cc *ssa.CallCommon
	switch x := in.(type) {
	case *ssa.Call:
		cc = &x.Call
	case *ssa.Defer:
		cc = &x.Call
	default:
		return false
	}
	b, ok := cc.Value.(*ssa.Builtin)
	return ok && b.Name() == name && (arg0 == nil || (len(cc.Args) > 0 && cc.Args[0] == arg0))
}

// ruleClose: in fn, every path from entry to a return passes through close(ch) and no send on ch
// is reachable after a close.
func ruleClose(c *Ctx, r *RuleResult, fnName, chParam string) {
	fn := c.Fn(fnName)
	var ch ssa.Value
	for _, p := range fn.Params {
		if p.Name() == chParam {
			ch = p
		}
	}
	if ch == nil {
		failf("%s has no parameter %s", fnName, chParam)
	}
	if _, ok := ch.Type().Underlying().(*types.Chan); !ok {
		failf("%s.%s is not a channel", fnName, chParam)
	}
	r.inst("%s: every return preceded by close(%s); no send after close", fnName, chParam)
	deferred := false
	closes := map[*ssa.BasicBlock]int{}
	for _, b := range fn.Blocks {
		for i, in := range b.Instrs {
			if isBuiltinCall(in, "close", ch) {
				if _, ok := in.(*ssa.Defer); ok && b == fn.Blocks[0] {
					deferred = true
				}
				if _, ok := closes[b]; !ok {
					closes[b] = i
				}
			}
		}
	}
	ok := true
	if !deferred {
		// a return is bad if it is reachable from entry without passing a close
		entry := fn.Blocks[0]
		reach := map[*ssa.BasicBlock]bool{}
		if _, has := closes[entry]; !has {
			reach = reachableBlocks(entry, func(b *ssa.BasicBlock) bool { _, has := closes[b]; return has })
		}
		// blocks with a close are entered but not left; a return in such a block before the close is also bad
		for _, b := range fn.Blocks {
			for i, in := range b.Instrs {
				ret, isRet := in.(*ssa.Return)
				if !isRet {
					continue
				}
				bad := reach[b]
				if ci, has := closes[b]; has {
					// the block is a cut block: reachable iff some predecessor is reachable without close (or it is entry)
					enter := b == entry
					for _, p := range b.Preds {
						if reach[p] {
							enter = true
						}
					}
					bad = enter && ci > i
				}
				if bad {
					ok = false
					r.find(fnName+":return without close("+chParam+")", c.instrPos(ret), "%s can return without closing %s; a receiver ranging over it blocks forever", fnName, chParam)
				}
			}
		}
	}
	// send after close
	for b, ci := range closes {
		after := reachableBlocks(b, nil)
		for x := range after {
			for i, in := range x.Instrs {
				s, isSend := in.(*ssa.Send)
				if !isSend || s.Chan != ch {
					continue
				}
				if x == b && i < ci {
					// before the close in the same block: only bad if the block is in a cycle
					inCycle := false
					for _, sx := range b.Succs {
						if reachableBlocks(sx, nil)[b] {
							inCycle = true
						}
					}
					if !inCycle {
						continue
					}
				}
				ok = false
				r.find(fnName+":send after close("+chParam+")", c.instrPos(in), "%s may send on %s after closing it (panics)", fnName, chParam)
			}
		}
	}
	r.oblig(ok)
}

var _ = token.NoPos
