package main

import (
	"go/token"
	"go/types"

	"golang.org/x/tools/go/ssa"
)

// wrapper constructors: functions that build a buffering writer around their first argument.
var bufferingWrappers = map[string]string{
	"text/tabwriter.NewWriter": "text/tabwriter holds every line of >= 2 cells until Flush, so writes to it that cannot complete a single-cell line cannot fail before Flush (line shapes decided by a dataflow over the writes)",
	"bufio.NewWriter":          "bufio.Writer reports a failed underlying write again from Flush",
	"bufio.NewWriterSize":      "bufio.Writer reports a failed underlying write again from Flush",
}

func stripIface(v ssa.Value) ssa.Value {
	for {
		switch x := v.(type) {
		case *ssa.MakeInterface:
			v = x.X
		case *ssa.ChangeInterface:
			v = x.X
		case *ssa.ChangeType:
			v = x.X
		case *ssa.UnOp:
			// a local that a closure captures lives in a cell: a load of a cell that is stored exactly
			// once is the value stored (tw := tabwriter.NewWriter(...); cell := func(...) { tw.Write(...) })
			if x.Op != token.MUL {
				return v
			}
			al, ok := x.X.(*ssa.Alloc)
			if !ok || al.Referrers() == nil {
				return v
			}
			var stored ssa.Value
			n := 0
			for _, ref := range *al.Referrers() {
				if st, ok := ref.(*ssa.Store); ok && st.Addr == ssa.Value(al) {
					stored = st.Val
					n++
				}
			}
			if n != 1 {
				return v
			}
			v = stored
		default:
			return v
		}
	}
}

var errType = types.Universe.Lookup("error").Type()

// errorResult returns the SSA value carrying the error result of a call (nil if it has none),
// and whether that value is referenced at all.
func errorResult(call *ssa.Call) (ssa.Value, bool, bool) {
	t := call.Type()
	if tt, ok := t.(*types.Tuple); ok {
		idx := -1
		for i := 0; i < tt.Len(); i++ {
			if types.Identical(tt.At(i).Type(), errType) {
				idx = i
			}
		}
		if idx < 0 {
			return nil, false, false
		}
		for _, ref := range *call.Referrers() {
			if ex, ok := ref.(*ssa.Extract); ok && ex.Index == idx {
				return ex, true, true
			}
		}
		return nil, true, false
	}
	if types.Identical(t, errType) {
		used := false
		for _, ref := range *call.Referrers() {
			if _, dbg := ref.(*ssa.DebugRef); !dbg {
				used = true
			}
		}
		return call, true, used
	}
	return nil, false, false
}

// sameErr: v is E, or a load of a local variable (a named result spilled because the function has
// defers) whose most recent store on every path is E.
func sameErr(v, E ssa.Value) bool { return sameErrD(v, E, 0) }

func sameErrD(v, E ssa.Value, depth int) bool {
	if v == E {
		return true
	}
	if depth > 3 {
		return false
	}
	ld, ok := v.(*ssa.UnOp)
	if !ok || ld.Op != token.MUL {
		return false
	}
	al, ok := ld.X.(*ssa.Alloc)
	if !ok {
		return false
	}
	pos := func(in ssa.Instruction) ipos {
		for i, x := range in.Block().Instrs {
			if x == in {
				return ipos{in.Block(), i}
			}
		}
		return ipos{in.Block(), 0}
	}
	var stores []*ssa.Store
	for _, ref := range *al.Referrers() {
		switch x := ref.(type) {
		case *ssa.Store:
			if x.Addr == ssa.Value(al) {
				stores = append(stores, x)
			}
		case *ssa.UnOp:
		default:
			return false // address escapes
		}
	}
	for _, s := range stores {
		if s.Val != E {
			continue
		}
		ps, pl := pos(s), pos(ld)
		if !(ps.b == pl.b && ps.i < pl.i) && !(ps.b != pl.b && ps.b.Dominates(pl.b)) {
			continue
		}
		clean := true
		for _, o := range stores {
			if o == s {
				continue
			}
			if po := pos(o); po.b == pl.b && po.i > pl.i {
				continue // after the load in straight-line code
			}
			if o.Val != ssa.Value(ld) && sameErrD(o.Val, E, depth+1) {
				continue // re-stores the same error (return err with a spilled result)
			}
			po := pos(o)
			if reaches(ps, po, ps) && reaches(po, pl, ps) {
				clean = false
			}
		}
		if clean {
			return true
		}
	}
	return false
}

// derivedFrom: v is E itself, a call that has E among its arguments (wrapping), or a phi of such.
func derivedFrom(v, E ssa.Value, depth int) bool {
	if sameErr(v, E) {
		return true
	}
	if depth > 4 {
		return false
	}
	// a sentinel error of another package (io.ErrShortWrite) is a reported failure as well
	if ld, ok := v.(*ssa.UnOp); ok && ld.Op == token.MUL {
		if g, ok := ld.X.(*ssa.Global); ok && types.Identical(g.Type().(*types.Pointer).Elem(), errType) && g.Pkg != nil && E.Parent() != nil && g.Pkg != E.Parent().Pkg {
			return true
		}
	}
	switch x := v.(type) {
	case *ssa.Call:
		for _, a := range x.Call.Args {
			if derivedFrom(stripIface(a), E, depth+1) {
				return true
			}
			// variadic: E stored into the varargs array
			if sl, ok := a.(*ssa.Slice); ok {
				if al, ok := sl.X.(*ssa.Alloc); ok {
					for _, ref := range *al.Referrers() {
						if ia, ok := ref.(*ssa.IndexAddr); ok {
							for _, r2 := range *ia.Referrers() {
								if st, ok := r2.(*ssa.Store); ok && derivedFrom(stripIface(st.Val), E, depth+1) {
									return true
								}
							}
						}
					}
				}
			}
		}
	case *ssa.Phi:
		for _, e := range x.Edges {
			if !derivedFrom(e, E, depth+1) {
				return false
			}
		}
		return len(x.Edges) > 0
	case *ssa.MakeInterface:
		return derivedFrom(x.X, E, depth+1)
	}
	return false
}

// errHandled explores the CFG after the call, tracking whether the check `E != nil` has been
// passed and on which edge; every reachable return must agree with the state.
func errHandled(fn *ssa.Function, call *ssa.Call, E ssa.Value) (bool, ssa.Instruction, string) {
	const (
		unchecked = iota
		errPath
		okPath
	)
	type st struct {
		b     *ssa.BasicBlock
		state int
	}
	ei := fn.Signature.Results().Len() - 1
	seen := map[st]bool{}
	var stack []st
	// process the remainder of the call's block
	visit := func(b *ssa.BasicBlock, from int, state int) (bool, ssa.Instruction, string) {
		for i := from; i < len(b.Instrs); i++ {
			switch x := b.Instrs[i].(type) {
			case *ssa.Return:
				rv := x.Results[ei]
				switch state {
				case unchecked:
					if !derivedFrom(rv, E, 0) {
						return false, x, "a return is reachable before the error is examined"
					}
				case errPath:
					if !derivedFrom(rv, E, 0) {
						return false, x, "the failure branch returns something other than the write error (success reported for truncated output)"
					}
				}
				return true, nil, ""
			case *ssa.Panic:
				return true, nil, ""
			case *ssa.If:
				cond := x.Cond
				neg := false
				for {
					if u, ok := cond.(*ssa.UnOp); ok && u.Op == token.NOT {
						cond, neg = u.X, !neg
						continue
					}
					break
				}
				ns := [2]int{state, state}
				if bo, ok := cond.(*ssa.BinOp); ok && state == unchecked && (bo.Op == token.NEQ || bo.Op == token.EQL) &&
					((sameErr(bo.X, E) && isNilConst(bo.Y)) || (sameErr(bo.Y, E) && isNilConst(bo.X))) {
					errOnTrue := (bo.Op == token.NEQ) != neg
					if errOnTrue {
						ns = [2]int{errPath, okPath}
					} else {
						ns = [2]int{okPath, errPath}
					}
				}
				for k, s := range b.Succs {
					n := st{s, ns[k]}
					if !seen[n] {
						seen[n] = true
						stack = append(stack, n)
					}
				}
				return true, nil, ""
			case *ssa.Jump:
				n := st{b.Succs[0], state}
				if !seen[n] {
					seen[n] = true
					stack = append(stack, n)
				}
				return true, nil, ""
			}
		}
		return true, nil, ""
	}
	idx := -1
	for i, in := range call.Block().Instrs {
		if in == ssa.Instruction(call) {
			idx = i
		}
	}
	if ok, at, why := visit(call.Block(), idx+1, unchecked); !ok {
		return false, at, why
	}
	for len(stack) > 0 {
		n := stack[len(stack)-1]
		stack = stack[:len(stack)-1]
		if n.state == okPath {
			continue
		}
		if ok, at, why := visit(n.b, 0, n.state); !ok {
			return false, at, why
		}
	}
	return true, nil, ""
}

var errChkSeen = map[*ssa.Function]bool{}

func ruleErrChk(c *Ctx, r *RuleResult, fnName, sinkParam string) {
	fn := c.Fn(fnName)
	var sink ssa.Value
	for _, p := range fn.Params {
		if p.Name() == sinkParam {
			sink = p
		}
	}
	if sink == nil {
		failf("%s has no parameter %s", fnName, sinkParam)
	}
	if n := fn.Signature.Results().Len(); n == 0 || !types.Identical(fn.Signature.Results().At(n-1).Type(), errType) {
		failf("%s does not return an error", fnName)
	}
	// "sticky error" wrappers: a local struct that holds the sink, whose Write method forwards to it
	// and records the error in a field; LIB then returns that field at the end
	type sticky struct {
		errField string
		ok       bool
		why      string
	}
	stickies := map[ssa.Value]*sticky{}
	// forwarding wrappers: writes through them are writes to the sink
	forwarders := map[*ssa.Alloc]bool{}
	isSink := func(v ssa.Value) bool {
		if v == sink {
			return true
		}
		if al, ok := v.(*ssa.Alloc); ok && forwarders[al] {
			return true
		}
		if ld, ok := v.(*ssa.UnOp); ok && ld.Op == token.MUL {
			if al, ok := ld.X.(*ssa.Alloc); ok && forwarders[al] {
				return true
			}
		}
		return false
	}
	for _, ref := range *sink.Referrers() {
		mi, isMI := ref.(*ssa.MakeInterface)
		var refs []ssa.Instruction
		if isMI {
			refs = *mi.Referrers()
		} else {
			refs = []ssa.Instruction{ref}
		}
		for _, rr := range refs {
			st, ok := rr.(*ssa.Store)
			if !ok {
				continue
			}
			fa, ok := st.Addr.(*ssa.FieldAddr)
			if !ok {
				continue
			}
			al, ok := fa.X.(*ssa.Alloc)
			if !ok {
				continue
			}
			stT := al.Type().Underlying().(*types.Pointer).Elem()
			wfield := stT.Underlying().(*types.Struct).Field(fa.Field).Name()
			sk := analyseSticky(c, al.Type(), wfield)
			if sk.errField == "" {
				// not a recorder: a plain forwarder? (a struct around the writer whose Write hands the
				// bytes on and returns what it got back)
				if okF, whyF, decided := analyseForwarder(c, al.Type(), wfield); decided {
					r.inst("%s: forwarding wrapper %s around %s", fnName, typeShort(stT), sinkParam)
					r.oblig(okF)
					if !okF {
						r.find(fnName+":"+typeShort(stT)+".Write is not a faithful forwarder", c.instrPos(st), "%s writes through %s, whose Write %s: what reaches the underlying writer, or what %s is told about it, is not what a direct write would give", fnName, typeShort(stT), whyF, fnName)
					}
					forwarders[al] = true
					continue
				}
				r.undecided("%s stores %s into %s but that type is not a recognisable error-recording writer (%s)", fnName, sinkParam, typeShort(stT), sk.why)
				continue
			}
			stickies[al] = &sticky{errField: sk.errField, ok: sk.ok, why: sk.why}
			r.inst("%s: error-recording wrapper %s around %s (errors kept in field %s)", fnName, typeShort(stT), sinkParam, sk.errField)
			r.oblig(sk.ok)
			if !sk.ok {
				r.find(fnName+":"+typeShort(stT)+".Write loses an earlier error", c.instrPos(st), "%s writes through %s, whose Write %s: a transient failure followed by a successful write is reported as success", fnName, typeShort(stT), sk.why)
			}
		}
	}
	wrappers := map[ssa.Value]string{}
	for changed := true; changed; {
		changed = false
		for _, b := range fn.Blocks {
			for _, in := range b.Instrs {
				call, ok := in.(*ssa.Call)
				if !ok {
					continue
				}
				if _, done := wrappers[call]; done {
					continue
				}
				if f := call.Call.StaticCallee(); f != nil {
					if why, ok := bufferingWrappers[f.String()]; ok && len(call.Call.Args) > 0 {
						a0 := stripIface(call.Call.Args[0])
						_, onWrapper := wrappers[a0]
						_, onSticky := stickies[a0]
						if isSink(a0) || onWrapper || onSticky {
							wrappers[call] = why
							changed = true
							r.inst("%s: wrapper construction %s around %s", fnName, f.String(), valName(a0))
							r.note("buffered writes through %s are exempt: %s", f.String(), why)
						}
					}
				}
			}
		}
	}
	// deferred flushes cannot report their error (no closure assigns it to the result here)
	for _, b := range fn.Blocks {
		for _, in := range b.Instrs {
			d, ok := in.(*ssa.Defer)
			if !ok {
				continue
			}
			var ops []ssa.Value
			if d.Call.IsInvoke() {
				ops = append(ops, d.Call.Value)
			}
			ops = append(ops, d.Call.Args...)
			for _, a := range ops {
				v := stripIface(a)
				_, isW := wrappers[v]
				if isSink(v) || isW {
					name := "call"
					if f := d.Call.StaticCallee(); f != nil {
						name = "call " + c.short(f)
					}
					r.inst("%s: deferred %s", fnName, name)
					r.oblig(false)
					r.find(fnName+":deferred "+name, c.instrPos(d), "%s defers %s on the output: its error result cannot reach the caller, so a failed final write is reported as success", fnName, name)
				}
			}
		}
	}
	// every wrapper must be flushed on every path from its construction to a success return
	for w := range wrappers {
		wc := w.(*ssa.Call)
		flushBlocks := map[*ssa.BasicBlock]bool{}
		for _, b := range fn.Blocks {
			for _, in := range b.Instrs {
				if call, ok := in.(*ssa.Call); ok && len(call.Call.Args) > 0 && stripIface(call.Call.Args[0]) == ssa.Value(wc) {
					if f := call.Call.StaticCallee(); f != nil && (f.Name() == "Flush" || f.Name() == "Close") {
						flushBlocks[b] = true
					}
				}
			}
		}
		reach := reachableBlocks(wc.Block(), func(b *ssa.BasicBlock) bool { return flushBlocks[b] })
		okFlush := true
		if !flushBlocks[wc.Block()] {
			for b := range reach {
				if ret, isRet := b.Instrs[len(b.Instrs)-1].(*ssa.Return); isRet && returnsNilError(ret) {
					okFlush = false
					r.find(fnName+":"+c.srcAt(wc.Pos())+" not flushed before success", c.instrPos(ret), "%s can report success without flushing the buffering writer built at %s: buffered output never reaches %s", fnName, c.instrPos(wc), sinkParam)
				}
			}
		}
		r.inst("%s: wrapper %s flushed on every success path", fnName, c.srcAt(wc.Pos()))
		r.oblig(okFlush)
	}
	// text/tabwriter buffers only lines of two or more cells: a write that can complete a
	// single-cell line (or emits a form feed) reaches the output at once (p_c20_tab.go)
	earlyFlush := map[*ssa.Call]string{}
	for w := range wrappers {
		wc := w.(*ssa.Call)
		if f := wc.Call.StaticCallee(); f == nil || f.String() != "text/tabwriter.NewWriter" {
			continue
		}
		fl, assumed := tabFlushers(c, fn, w)
		if assumed > 0 {
			r.note("%s: text written to the tabwriter from non-constant, non-numeric operands is assumed to contain no tab and no line break", fnName)
		}
		for call, why := range fl {
			if call.Parent() == fn {
				earlyFlush[call] = why
				continue
			}
			// inside a helper that was handed the wrapper: the write's error must at least be looked at
			_, has, used := errorResult(call)
			r.inst("%s: helper %s makes a tabwriter write that reaches the output at once", fnName, c.short(call.Parent()))
			r.oblig(has && used)
			if !(has && used) {
				r.find(fnName+":"+c.short(call.Parent())+":"+instrDesc(c, call), c.instrPos(call), "%s (called from %s with the tabwriter) discards the error of %s, but %s: a failed write there is reported as success", c.short(call.Parent()), fnName, instrDesc(c, call), why)
			}
		}
	}
	n := 0
	for _, b := range fn.Blocks {
		for _, in := range b.Instrs {
			call, ok := in.(*ssa.Call)
			if !ok {
				continue
			}
			if _, isWrap := wrappers[call]; isWrap {
				continue
			}
			kind := ""
			var operands []ssa.Value
			if call.Call.IsInvoke() {
				operands = append(operands, call.Call.Value)
			}
			operands = append(operands, call.Call.Args...)
			recorded := false
			for _, a := range operands {
				if _, ok := stickies[stripIface(a)]; ok {
					recorded = true
				}
				// a buffering wrapper built (transitively) on a sticky wrapper
				if wv, ok := stripIface(a).(*ssa.Call); ok {
					if _, isW := wrappers[wv]; isW && len(wv.Call.Args) > 0 {
						if _, ok := stickies[stripIface(wv.Call.Args[0])]; ok {
							recorded = true
						}
					}
				}
			}
			if recorded {
				r.inst("%s: recorded %s (error kept by the wrapper)", fnName, instrDesc(c, call))
				continue
			}
			for i, a := range operands {
				v := stripIface(a)
				if isSink(v) {
					kind = "direct"
				}
				if _, ok := wrappers[v]; ok {
					name := ""
					if f := call.Call.StaticCallee(); f != nil {
						name = f.Name()
					} else if call.Call.IsInvoke() {
						name = call.Call.Method.Name()
					}
					if i == 0 && (name == "Flush" || name == "Close") {
						kind = "flush"
					} else if kind == "" {
						kind = "buffered"
					}
				}
			}
			if kind == "" {
				continue
			}
			desc := instrDesc(c, call)
			if why, early := earlyFlush[call]; early && kind == "buffered" {
				kind = "tabwriter (written out at once, so in effect direct)"
				r.note("%s: %s is not exempt: %s", fnName, desc, why)
			}
			if kind == "buffered" {
				r.inst("%s: buffered %s (exempt)", fnName, desc)
				continue
			}
			n++
			r.inst("%s: %s %s", fnName, kind, desc)
			// a module helper that is handed the output itself is held to the same rule
			if cal := call.Call.StaticCallee(); cal != nil && c.inModule(cal) && cal.Blocks != nil && kind == "direct" && !errChkSeen[cal] {
				errChkSeen[cal] = true
				if nres := cal.Signature.Results().Len(); nres > 0 && types.Identical(cal.Signature.Results().At(nres-1).Type(), errType) {
					for k, a := range call.Call.Args {
						if isSink(stripIface(a)) && k < len(cal.Params) {
							ruleErrChk(c, r, c.short(cal), cal.Params[k].Name())
						}
					}
				}
			}
			E, has, used := errorResult(call)
			if !has {
				r.note("%s: %s has no error result", fnName, desc)
				continue
			}
			if !used || E == nil {
				r.oblig(false)
				r.find(fnName+":"+desc, c.instrPos(call), "%s discards the error of %s (%s write to %s): a failed write is reported as success", fnName, desc, kind, sinkParam)
				continue
			}
			ok2, at, why := errHandled(fn, call, E)
			r.oblig(ok2)
			if !ok2 {
				pos := c.instrPos(call)
				if at != nil {
					pos = c.instrPos(at)
				}
				r.find(fnName+":"+desc, pos, "%s: error of %s (%s write) is not propagated: %s", fnName, desc, kind, why)
			}
		}
	}
	for al, sk := range stickies {
		alloc := al.(*ssa.Alloc)
		reach := reachableBlocks(alloc.Block(), nil)
		okRet := true
		for b := range reach {
			ret, isRet := b.Instrs[len(b.Instrs)-1].(*ssa.Return)
			if !isRet {
				continue
			}
			rv := ret.Results[len(ret.Results)-1]
			fromField := false
			var chase func(v ssa.Value, depth int) bool
			chase = func(v ssa.Value, depth int) bool {
				if depth > 3 {
					return false
				}
				switch x := v.(type) {
				case *ssa.UnOp:
					if fa, ok := x.X.(*ssa.FieldAddr); ok && x.Op == token.MUL && fa.X == ssa.Value(alloc) {
						stT := alloc.Type().Underlying().(*types.Pointer).Elem().Underlying().(*types.Struct)
						return stT.Field(fa.Field).Name() == sk.errField
					}
					if inner, ok := x.X.(*ssa.Alloc); ok && x.Op == token.MUL { // spilled named result
						for _, ref := range *inner.Referrers() {
							if st, ok := ref.(*ssa.Store); ok && st.Addr == ssa.Value(inner) && chase(st.Val, depth+1) {
								return true
							}
						}
					}
				case *ssa.Phi:
					for _, e := range x.Edges {
						if !chase(e, depth+1) {
							return false
						}
					}
					return len(x.Edges) > 0
				}
				return false
			}
			fromField = chase(rv, 0)
			if !fromField {
				okRet = false
				r.find(fnName+":return ignores the recorded error", c.instrPos(ret), "%s returns %s after writing through the error-recording wrapper instead of the error it recorded", fnName, valName(rv))
			}
		}
		r.inst("%s: every return after the wrapper is built hands back its recorded error", fnName)
		r.oblig(okRet)
	}
	if n == 0 && len(wrappers) == 0 && len(stickies) == 0 {
		r.undecided("%s: no direct or flush write to %s found", fnName, sinkParam)
	}
	// the sink must not escape to module functions or be stored
	for _, ref := range *sink.Referrers() {
		switch x := ref.(type) {
		case *ssa.Call, *ssa.DebugRef, *ssa.MakeInterface, *ssa.ChangeInterface:
		case *ssa.Store:
			if fa, ok := x.Addr.(*ssa.FieldAddr); ok {
				if _, isSticky := stickies[fa.X]; isSticky {
					continue
				}
				if al, isAl := fa.X.(*ssa.Alloc); isAl && forwarders[al] {
					continue // writes through a forwarding wrapper are followed (isSink)
				}
			}
			r.undecided("%s stores %s at %s; writes through the copy are not tracked", fnName, sinkParam, c.instrPos(x))
		}
	}
}

func init() {
	register(&propDef{
		id:          "C20",
		explanation: "Decides the fault clause for every failure position and the domain of the weight calls: ERRCHK (in tsp.LIB every call that writes to w directly, and every Flush of a buffering wrapper built around w, has its error result examined by an `!= nil` test; on the failure edge every reachable return carries that error (or a wrap of it), and no return is reachable before the test; writes into the text/tabwriter wrapper are exempt because tabwriter holds rows until Flush), DOMAIN (E-PROVE shows 0 <= j < i < n at every call weights(i, j), and weights is used in no other way), SIGNCONV (no signed value - a weight - is converted to an unsigned type without a proof that it is not negative). Does not decide the literal header text or the row layout. FLOATCONV: no non-constant 64-bit integer is converted to a floating-point type in the writer (a weight routed through float64 to share a formatting path is rounded above 2^53).",
		notDecided:  []string{"the exact TSPLIB header text, DIMENSION value and row layout (pinned by the golden-file test)", "that a partial write with a nil error from a non-conforming io.Writer is detected"},
		assumptions: []string{"text/tabwriter buffers lines of two or more cells until Flush (a single-cell line and a form feed are written out at once: such writes are held to the rule for direct writes) and returns the underlying write error from Flush", "text formatted from non-constant, non-numeric operands contains no tab and no line break", "io.WriteString / fmt.Fprintf return a non-nil error whenever the underlying Write does"},
		run: func(c *Ctx, tier string) []*RuleResult {
			e := &RuleResult{Rule: "ERRCHK", Doc: "every direct write to w and every Flush of a wrapper of w has its error tested and propagated on the failure edge", MinInst: 1}
			ruleErrChk(c, e, "tsp.LIB", "w")
			gl := ruleGlobalIn(c, "tsp")
			gl.Doc = "the writer keeps no state between calls: no function of package tsp writes or hands out a package-level variable (a pooled or cached output buffer makes one call's output depend on an earlier, possibly failed, call)"
			return []*RuleResult{e, ruleDomain(c, "tsp.LIB", "weights", "n"), gl, ruleSignConv(c, "tsp"), ruleFloatConv(c, "tsp")}
		},
		controls: func(ctl *Ctx) []*RuleResult {
			var out []*RuleResult
			for _, f := range []string{"errctl.BadFlushDropped", "errctl.BadErrSwallowed", "errctl.BadCheckedLate", "errctl.BadDeferredFlush", "errctl.BadNeverFlushed", "errctl.BadStickyWriter", "errctl.BadStickyIgnored", "errctl.BadSingleCellLine", "errctl.BadSingleCellFirstRow", "errctl.BadForwarder", "errctl.BadRetryForwarder"} {
				e := &RuleResult{Rule: "ERRCHK"}
				ruleErrChk(ctl, e, f, "w")
				out = append(out, e)
			}
			g := &RuleResult{Rule: "ERRCHK"}
			ruleErrChk(ctl, g, "errctl.GoodWrite", "w")
			ruleErrChk(ctl, g, "errctl.GoodWithDefer", "w")
			ruleErrChk(ctl, g, "errctl.GoodStickyWriter", "w")
			ruleErrChk(ctl, g, "errctl.GoodRowsThroughHelper", "w")
			ruleErrChk(ctl, g, "errctl.GoodSingleCellChecked", "w")
			ruleErrChk(ctl, g, "errctl.GoodForwarder", "w")
			out = append(out, ruleFloatConv(ctl, "errctl"))
			out[0].Findings = append(out[0].Findings, g.Findings...)
			d := ruleDomain(ctl, "errctl.BadDomain", "weights", "n")
			d2 := ruleDomain(ctl, "errctl.GoodDomain", "weights", "n")
			d.Findings = append(d.Findings, d2.Findings...)
			return append(out, d)
		},
	})
}

type stickyInfo struct {
	errField string
	ok       bool
	why      string
}

// analyseSticky inspects (*T).Write of a wrapper type holding the sink in field wfield: it must
// forward to that field's Write and store the error into a field only when no error is recorded yet.
func analyseSticky(c *Ctx, ptrT types.Type, wfield string) stickyInfo {
	ms := c.Prog.MethodSets.MethodSet(ptrT)
	var w *ssa.Function
	for i := 0; i < ms.Len(); i++ {
		if ms.At(i).Obj().Name() == "Write" {
			w = c.Prog.MethodValue(ms.At(i))
		}
	}
	if w == nil || w.Blocks == nil || !c.inModule(w) {
		return stickyInfo{why: "it has no Write method in the module"}
	}
	recv := w.Params[0]
	fieldName := func(fa *ssa.FieldAddr) string {
		return fa.X.Type().Underlying().(*types.Pointer).Elem().Underlying().(*types.Struct).Field(fa.Field).Name()
	}
	info := stickyInfo{}
	for _, b := range w.Blocks {
		for _, in := range b.Instrs {
			call, ok := in.(*ssa.Call)
			if !ok || !call.Call.IsInvoke() || call.Call.Method.Name() != "Write" {
				continue
			}
			ld, ok := call.Call.Value.(*ssa.UnOp)
			if !ok {
				continue
			}
			fa, ok := ld.X.(*ssa.FieldAddr)
			if !ok || fa.X != ssa.Value(recv) || fieldName(fa) != wfield {
				continue
			}
			E, has, _ := errorResult(call)
			if !has || E == nil {
				return stickyInfo{why: "its Write drops the error of the underlying Write"}
			}
			// where is E stored?
			for _, ref := range *E.Referrers() {
				st, ok := ref.(*ssa.Store)
				if !ok {
					continue
				}
				efa, ok := st.Addr.(*ssa.FieldAddr)
				if !ok || efa.X != ssa.Value(recv) {
					continue
				}
				info.errField = fieldName(efa)
				// sticky: the store (and hence the overwrite) happens only while the field is still nil
				guarded := false
				for x := st.Block(); x != nil; x = x.Idom() {
					if len(x.Preds) != 1 {
						continue
					}
					p := x.Preds[0]
					iff, isIf := p.Instrs[len(p.Instrs)-1].(*ssa.If)
					if !isIf {
						continue
					}
					bo, isBo := iff.Cond.(*ssa.BinOp)
					if !isBo {
						continue
					}
					onTrue := p.Succs[0] == x
					var other ssa.Value
					if isNilConst(bo.Y) {
						other = bo.X
					} else if isNilConst(bo.X) {
						other = bo.Y
					}
					if other == nil {
						continue
					}
					if l2, ok := other.(*ssa.UnOp); ok {
						if f2, ok := l2.X.(*ssa.FieldAddr); ok && f2.X == ssa.Value(recv) && fieldName(f2) == info.errField {
							if (bo.Op == token.EQL && onTrue) || (bo.Op == token.NEQ && !onTrue) {
								guarded = true
							}
						}
					}
				}
				info.ok = guarded
				if !guarded {
					info.why = "overwrites the recorded error with the result of every later write"
				}
			}
		}
	}
	if info.errField == "" && info.why == "" {
		info.why = "its Write does not record the underlying error in a field"
	}
	return info
}

// ruleSignConv: a signed value that is converted to an unsigned type is printed, compared and
// stored as a different number when it is negative (uint64(-2) = 18446744073709551614); weights
// are arbitrary ints, so such a conversion must be of a value proved not to be negative.
func ruleSignConv(c *Ctx, pkgRel string) *RuleResult {
	return ruleSignConvIn(c, pkgRel, nil, "a negative weight is written as a huge positive number")
}

// ruleSignConvIn: the same obligation for a named set of functions (only != nil) with its own consequence text.
func ruleSignConvIn(c *Ctx, pkgRel string, only map[*ssa.Function]bool, consequence string) *RuleResult {
	r := &RuleResult{Rule: "SIGNCONV", Doc: "no signed value is converted to an unsigned type unless it is proved not to be negative", MinInst: 0}
	for _, fn := range c.Funcs {
		p := fnPkg(fn)
		if p == nil || p.Pkg.Path() != c.Mod+"/"+pkgRel || fn.Synthetic != "" || fn.Blocks == nil {
			continue
		}
		if only != nil && !only[fn] {
			continue
		}
		var P *Prover
		for _, b := range fn.Blocks {
			for _, in := range b.Instrs {
				cv, ok := in.(*ssa.Convert)
				if !ok || !isInt(cv.Type()) || !isInt(cv.X.Type()) || isUnsigned(cv.X.Type()) || !isUnsigned(cv.Type()) {
					continue
				}
				if _, isK := cv.X.(*ssa.Const); isK {
					continue
				}
				if P == nil {
					P = NewProver(c, fn)
				}
				src := c.srcAt(cv.Pos())
				if src == "" {
					src = valName(cv)
				}
				r.inst("%s: %s", c.short(fn), src)
				ok2 := P.Prove(P.poly(cv.X).scale(-1), b)
				r.oblig(ok2)
				if !ok2 {
					r.find(c.short(fn)+":signed to unsigned "+src, c.instrPos(cv), "%s converts %s (%s) to %s without establishing that it is not negative: %s", c.short(fn), src, cv.X.Type(), cv.Type(), consequence)
				}
			}
		}
	}
	return r
}

// analyseForwarder: the struct type (pointer to it) has a Write method that calls Write on its field
// wfield exactly once and whose returns, from that call on, agree with the error it got back (the
// same CFG exploration as for the writes of LIB itself). decided=false when the type has no such
// method shape.
func analyseForwarder(c *Ctx, ptrT types.Type, wfield string) (ok bool, why string, decided bool) {
	pt, isPtr := ptrT.Underlying().(*types.Pointer)
	if !isPtr {
		return false, "", false
	}
	named, isNamed := pt.Elem().(*types.Named)
	if !isNamed {
		return false, "", false
	}
	var wr *ssa.Function
	for _, fn := range c.Funcs {
		if fn.Name() != "Write" || fn.Signature.Recv() == nil || fn.Synthetic != "" || fn.Blocks == nil {
			continue
		}
		rt := fn.Signature.Recv().Type()
		if p, ok := rt.(*types.Pointer); ok {
			rt = p.Elem()
		}
		if types.Identical(rt, named) {
			wr = fn
		}
	}
	if wr == nil || wr.Signature.Results().Len() != 2 {
		return false, "", false
	}
	recv := wr.Params[0]
	var inner []*ssa.Call
	for _, b := range wr.Blocks {
		for _, in := range b.Instrs {
			call, isCall := in.(*ssa.Call)
			if !isCall || !call.Call.IsInvoke() || call.Call.Method.Name() != "Write" {
				continue
			}
			v := call.Call.Value
			onField := false
			switch x := v.(type) {
			case *ssa.Field:
				if st, ok := x.X.Type().Underlying().(*types.Struct); ok && x.X == ssa.Value(recv) && st.Field(x.Field).Name() == wfield {
					onField = true
				}
			case *ssa.UnOp:
				if fa, ok := x.X.(*ssa.FieldAddr); ok && x.Op == token.MUL && (fa.X == ssa.Value(recv) || spillOf(fa.X, recv)) {
					if st, ok := fa.X.Type().Underlying().(*types.Pointer).Elem().Underlying().(*types.Struct); ok && st.Field(fa.Field).Name() == wfield {
						onField = true
					}
				}
			}
			if onField {
				inner = append(inner, call)
			}
		}
	}
	if len(inner) != 1 {
		return false, "", false
	}
	// a retry loop around the underlying Write that passes the same bytes again: whatever the failed
	// attempt did write (its count is n > 0 for a partial write) is sent a second time
	for _, body := range loopsOf(wr) {
		if body[inner[0].Block()] && len(inner[0].Call.Args) == 1 {
			if _, isParam := inner[0].Call.Args[0].(*ssa.Parameter); isParam {
				return false, "calls the underlying Write again with the same bytes after a failed attempt (the part that attempt did write is sent twice; a retry must continue from p[n:])", true
			}
		}
	}
	var E ssa.Value
	if refs := inner[0].Referrers(); refs != nil {
		for _, ref := range *refs {
			if ex, ok := ref.(*ssa.Extract); ok && ex.Index == 1 {
				E = ex
			}
		}
	}
	if E == nil {
		return false, "discards the error of the underlying Write", true
	}
	if okH, _, whyH := errHandled(wr, inner[0], E); !okH {
		return false, "does not hand the error of the underlying Write back on every path (" + whyH + ")", true
	}
	return true, "", true
}

// spillOf: a is the local copy a value receiver (or struct parameter) was spilled to.
func spillOf(a ssa.Value, prm *ssa.Parameter) bool {
	al, ok := a.(*ssa.Alloc)
	if !ok || al.Referrers() == nil {
		return false
	}
	n := 0
	for _, ref := range *al.Referrers() {
		if st, ok := ref.(*ssa.Store); ok && st.Addr == ssa.Value(al) {
			if st.Val != ssa.Value(prm) {
				return false
			}
			n++
		}
	}
	return n == 1
}

// ruleFloatConv: the weights are integers and the file must contain exactly weights(i, j). A 64-bit
// integer routed through float64 (to share a formatting path, say) is rounded above 2^53.
func ruleFloatConv(c *Ctx, pkgRel string) *RuleResult {
	r := &RuleResult{Rule: "FLOATCONV", Doc: "no non-constant 64-bit integer is converted to a floating-point type in the writer (float64 holds integers exactly only up to 2^53)", MinInst: 1}
	n := 0
	for _, fn := range c.Funcs {
		p := fnPkg(fn)
		if p == nil || p.Pkg.Path() != c.Mod+"/"+pkgRel || fn.Synthetic != "" || fn.Blocks == nil {
			continue
		}
		n++
		for _, b := range fn.Blocks {
			for _, in := range b.Instrs {
				cv, ok := in.(*ssa.Convert)
				if !ok || !isInt(cv.X.Type()) || intBits(cv.X.Type()) < 64 {
					continue
				}
				bt, isBasic := cv.Type().Underlying().(*types.Basic)
				if !isBasic || bt.Info()&types.IsFloat == 0 {
					continue
				}
				if _, isK := cv.X.(*ssa.Const); isK {
					continue
				}
				src := c.srcAt(cv.Pos())
				if src == "" {
					src = valName(cv)
				}
				r.inst("%s: %s", c.short(fn), src)
				r.oblig(false)
				r.find(c.short(fn)+":integer to float "+src, c.instrPos(cv), "%s converts the 64-bit integer %s to %s: values of magnitude above 2^53 are rounded, so the number written is not the weight", c.short(fn), valName(cv.X), cv.Type())
			}
		}
	}
	r.inst("%d functions of package %s scanned for integer-to-float conversions", n, pkgRel)
	return r
}
