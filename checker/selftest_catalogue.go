package main

// Catalogue of checker self-test rewrites (thorough tier). Each must compile, and must be
// reported by the named property's rules with a key containing `expect`.
func init() {
	mutants["C19"] = []mutant{
		{"global-scratch-buffer", "sortints/sorted_ints.go", "func IntersectionSize(a, b SortedInts) int {\n\tintersection := 0", "var scratch = make([]int, 1)\n\nfunc IntersectionSize(a, b SortedInts) int {\n\tscratch[0]++\n\tintersection := 0", "GLOBAL:sortints.IntersectionSize"},
		{"lookup-writes-numwords", "dawg/dawg.go", "\tdawg := t\n\tindex := -1", "\tdawg := t\n\tdawg.numWords += 0\n\tindex := -1", "READONLY:(*dawg.Dawg).Lookup"},
		{"dense-neighbours-cache", "graph/graph_dense.go", "\tdegrees := g.DegreeSequence\n\tr := make([]int, 0, degrees[v])", "\tdegrees := g.DegreeSequence\n\tdegrees[v] += 0\n\tr := make([]int, 0, degrees[v])", "READONLY:(graph.DenseGraph).Neighbours"},
		{"complement-degrees-inplace", "graph/transformation.go", "\tdegrees := c.g.Degrees()\n\tfor i := range degrees {", "\tdegrees := c.g.Degrees()\n\tif dg, ok := c.g.(*DenseGraph); ok {\n\t\tdegrees = dg.DegreeSequence\n\t}\n\tfor i := range degrees {", "READONLY:(graph.complement).Degrees"},
		{"goroutine-in-library", "graph/clique.go", "\tn := g.N()\n\n\tR := make([]int, 0)\n\tP := make([]int, n)\n\tfor i := range P {\n\t\tP[i] = i\n\t}\n\tX := make([]int, 0)\n\tvar cd cliqueData", "\tn := g.N()\n\tgo func() {}()\n\n\tR := make([]int, 0)\n\tP := make([]int, n)\n\tfor i := range P {\n\t\tP[i] = i\n\t}\n\tX := make([]int, 0)\n\tvar cd cliqueData", "NOSHARE:graph.AllMaximalCliques"},
		{"cliques-early-return", "graph/clique.go", "\t\tif len(P) == 0 && len(X) == 0 {\n\t\t\tc <- R\n\t\t\tcontinue\n\t\t}\n\t\t//Choose a pivot vertex", "\t\tif len(P) == 0 && len(X) == 0 {\n\t\t\tc <- R\n\t\t\tif n == 1 {\n\t\t\t\treturn\n\t\t\t}\n\t\t\tcontinue\n\t\t}\n\t\t//Choose a pivot vertex", "CLOSE:graph.AllMaximalCliques"},
		{"pattern-searcher-normalises-pattern", "dawg/dawg_search.go", "func (p PatternSearcher) AllowWord() bool {\n\treturn", "func (p PatternSearcher) AllowWord() bool {\n\tif len(p.pattern) > 0 && p.pattern[0] == 0 {\n\t\tp.pattern[0] = p.blank\n\t}\n\treturn", "RETAIN:(dawg.PatternSearcher).AllowWord"},
		{"newsparse-keeps-caller-rows", "graph/graph_sparse.go", "\t\ttmpNeighbourhoods[i] = sortints.NewSortedInts(neighbourhoods[i]...)", "\t\ttmpNeighbourhoods[i] = neighbourhoods[i]", "RETAIN:graph.NewSparse"},
		{"global-rand", "graph/generating.go", "\tr := rand.New(rand.NewSource(seed))\n\tg := NewDense(n, nil)", "\tr := rand.New(rand.NewSource(seed + rand.Int63()))\n\tg := NewDense(n, nil)", "NOSHARE:graph.RandomGraph"},
	}
	mutants["C17"] = []mutant{
		{"union-sorts-argument", "sortints/sorted_ints.go", "func Union(a, b SortedInts) SortedInts {\n", "func Union(a, b SortedInts) SortedInts {\n\tsort.Ints(b)\n", "PURE:sortints.Union"},
		{"setminus-reuses-a", "sortints/sorted_ints.go", "\tr := make([]int, 0, len(a)-IntersectionSize(a, b))", "\tr := a[:0]", "PURE:sortints.SetMinus"},
		{"add-sorts-variadic-in-place", "sortints/sorted_ints.go", "\ttmp := make([]int, len(x))\n\tcopy(tmp, x)\n\tx = tmp\n\tsort.Ints(x)", "\tsort.Ints(x)\n\ttmp := x", "RECEIVER-ONLY:(*sortints.SortedInts).Add"},
		{"method-union-writes-b", "sortints/sorted_ints.go", "\ti := len(a) - 1   //Position in a", "\tif len(b) > 0 {\n\t\tb[0] += 0\n\t}\n\ti := len(a) - 1   //Position in a", "RECEIVER-ONLY:(*sortints.SortedInts).Union"},
		{"insertion-sort-overwrite", "ints/int_sort.go", "\t\t\tdata[j], data[j-1] = data[j-1], data[j]\n\t\t}\n\t}\n}\n\n// siftDown", "\t\t\tdata[j] = data[j-1]\n\t\t}\n\t}\n}\n\n// siftDown", "SWAP:ints.insertionSort"},
		{"pivot-swap-wrong-cell", "ints/int_sort.go", "\tdata[pivot], data[b-1] = data[b-1], data[pivot]\n\treturn b - 1, c", "\tdata[pivot], data[b-1] = data[b-1], data[lo]\n\t_ = pivot\n\treturn b - 1, c", "SWAP:ints.doPivot"},
		{"setminus-returns-argument", "sortints/sorted_ints.go", "func SetMinus(a, b SortedInts) SortedInts {\n", "func SetMinus(a, b SortedInts) SortedInts {\n\tif len(b) == 0 {\n\t\treturn a\n\t}\n", "FRESH:sortints.SetMinus"},
		{"union-returns-larger-argument", "sortints/sorted_ints.go", "func Union(a, b SortedInts) SortedInts {\n", "func Union(a, b SortedInts) SortedInts {\n\tif len(a) == 0 {\n\t\treturn b[:len(b):len(b)]\n\t}\n", "FRESH:sortints.Union"},
		{"range-builds-in-global", "sortints/sorted_ints.go", "\ttmp := make([]int, 0, (end-start+step-1)/step)\n\tfor i := start; i < end; i += step {\n\t\ttmp = append(tmp, i)\n\t}\n\treturn tmp\n}", "\ttmp := rangeBuf[:0]\n\tfor i := start; i < end; i += step {\n\t\ttmp = append(tmp, i)\n\t}\n\treturn tmp\n}\n\nvar rangeBuf = make([]int, 0, 64)", "PURE:sortints.Range"},
	}
	mutants["C15"] = []mutant{
		{"heap-step-overwrites", "itertools/permutations.go", "\t\t\t\tp.p[0], p.p[p.i] = p.p[p.i], p.p[0]", "\t\t\t\tp.p[0] = p.p[p.i]", "SWAP:itertools.PermutationIterator.Next"},
		{"lex-rotation-drops-cell", "itertools/permutations.go", "\t\t\titer.a[n-3], iter.a[n-2], iter.a[n-1] = iter.a[n-1], iter.a[n-3], iter.a[n-2]", "\t\t\titer.a[n-3], iter.a[n-2], iter.a[n-1] = iter.a[n-1], iter.a[n-3], iter.a[n-3]", "SWAP:itertools.LexicographicPermutationIterator.Next"},
		{"lex-rotation-coinciding-cells", "itertools/permutations.go", "\t\t\titer.a[j], iter.a[j+1], iter.a[n-1] = iter.a[n-1], iter.a[j], iter.a[j+1]", "\t\t\titer.a[j], iter.a[j+3], iter.a[n-1] = iter.a[n-1], iter.a[j], iter.a[j+3]", "SWAP:itertools.LexicographicPermutationIterator.Next"},
		{"value-normalises-in-place", "itertools/permutations.go", "func (iter *LexicographicPermutationIterator) Value() []int {\n\treturn iter.a", "func (iter *LexicographicPermutationIterator) Value() []int {\n\tif iter.n > 0 && iter.a[0] < 0 {\n\t\titer.a[0] = 0\n\t}\n\treturn iter.a", "FIELD-WRITERS:(*itertools.LexicographicPermutationIterator).Value"},
	}
	mutants["C12"] = []mutant{
		{"lookup-walks-runes", "dawg/dawg.go", "letter:\n\tfor _, l := range word {\n\t\tfor j, link := range dawg.linkLabels {\n\t\t\tif link == l {", "letter:\n\tfor _, r := range string(word) {\n\t\tl := byte(r)\n\t\tfor j, link := range dawg.linkLabels {\n\t\t\tif link == l {", "BYTEWISE:(*dawg.Dawg).Lookup"},
		{"lastword-recorded-before-check", "dawg/dawg.go", "\tif db.lastWord != nil && bytes.Compare(db.lastWord, b) != -1 {\n\t\treturn errors.New(\"byte slices must be added in lexicographical order\")\n\t}\n\tdb.lastWord = b\n", "\tprev := db.lastWord\n\tdb.lastWord = b\n\tif prev != nil && bytes.Compare(prev, b) != -1 {\n\t\treturn errors.New(\"byte slices must be added in lexicographical order\")\n\t}\n", "REJECT-PURE:(*dawg.Builder).Add"},
		{"duplicates-admitted", "dawg/dawg.go", "bytes.Compare(db.lastWord, b) != -1 {", "bytes.Compare(db.lastWord, b) == 1 {", "MUSTGUARD:(*dawg.Builder).Add"},
		{"compare-arguments-swapped", "dawg/dawg.go", "bytes.Compare(db.lastWord, b) != -1 {", "bytes.Compare(b, db.lastWord) != -1 {", "MUSTGUARD:(*dawg.Builder).Add"},
		{"done-check-after-mutation", "dawg/dawg.go", "\tif db.done {\n\t\treturn errors.New(\"DawgBuilder has already finished\")\n\t}\n\n\tif db.lastWord != nil", "\tdb.lastID += 0\n\tif db.done {\n\t\treturn errors.New(\"DawgBuilder has already finished\")\n\t}\n\n\tif db.lastWord != nil", "REJECT-PURE:(*dawg.Builder).Add"},
		{"add-drops-children-guard", "dawg/dawg.go", "\tif len(lastNode.links) != 0 {\n\t\tdb.register = replaceOrRegister(lastNode, db.register)\n\t}", "\tdb.register = replaceOrRegister(lastNode, db.register)", "NONEMPTY:(*dawg.Builder).Add"},
		{"recursion-drops-children-guard", "dawg/dawg.go", "\tif len(lastChild.links) != 0 {\n\t\tregister = replaceOrRegister(lastChild, register)\n\t}", "\tregister = replaceOrRegister(lastChild, register)", "NONEMPTY:dawg.replaceOrRegister"},
		{"finish-guard-removed", "dawg/dawg.go", "\tif len(db.d.links) != 0 {\n\t\treplaceOrRegister(db.d, db.register)\n\t}", "\treplaceOrRegister(db.d, db.register)", "NONEMPTY:(*dawg.Builder).Finish"},
		{"lookup-counts-visits", "dawg/dawg.go", "\t\t\t\tdawg = dawg.links[j]\n\t\t\t\tif dawg.final {\n\t\t\t\t\tindex++\n\t\t\t\t}", "\t\t\t\tdawg = dawg.links[j]\n\t\t\t\tdawg.id |= 0\n\t\t\t\tif dawg.final {\n\t\t\t\t\tindex++\n\t\t\t\t}", "PURE:(*dawg.Dawg).Lookup"},
		{"numberofwords-lazy-cache", "dawg/dawg.go", "func (t *Dawg) NumberOfWords() int {\n\treturn t.numWords", "func (t *Dawg) NumberOfWords() int {\n\tif t.numWords < 0 {\n\t\tt.numWords = 0\n\t}\n\treturn t.numWords", "WHO-WRITES:(*dawg.Dawg).NumberOfWords"},
		{"areequivalent-sorts-labels", "dawg/dawg.go", "func areEquivalent(t, u *Dawg) bool {\n", "func areEquivalent(t, u *Dawg) bool {\n\tif len(t.linkLabels) > 300 {\n\t\tt.linkLabels[0], t.linkLabels[1] = t.linkLabels[1], t.linkLabels[0]\n\t}\n", "WHO-WRITES:dawg.areEquivalent"},
	}
	mutants["C13"] = []mutant{
		{"search-prunes-visited-counts", "dawg/dawg_search.go", "\t\t\tif !allowStep {\n\t\t\t\tindex += currDawg.links[j].numWords\n\t\t\t\tcontinue\n\t\t\t}", "\t\t\tif !allowStep {\n\t\t\t\tindex += currDawg.links[j].numWords\n\t\t\t\tcurrDawg.links[j].numWords += 0\n\t\t\t\tcontinue\n\t\t\t}", "PURE:(*dawg.Dawg).Search"},
		{"anagram-allowstep-consumes-letter", "dawg/dawg_search.go", "\t\tif p.counts[i].letter == b && p.counts[i].count > 0 {\n\t\t\treturn true\n\t\t}\n\t}\n\treturn false", "\t\tif p.counts[i].letter == b && p.counts[i].count > 0 {\n\t\t\tp.counts[i].count += 0\n\t\t\treturn true\n\t\t}\n\t}\n\treturn false", "SEARCHER-RO:(dawg.AnagramSearcher).AllowStep"},
		{"anagram-allowword-trims-path", "dawg/dawg_search.go", "func (p AnagramSearcher) AllowWord() bool {\n\treturn", "func (p AnagramSearcher) AllowWord() bool {\n\tif len(p.currPath) > 90 {\n\t\tp.currPath[0] = p.blank\n\t}\n\treturn", "SEARCHER-RO:(dawg.AnagramSearcher).AllowWord"},
		{"pattern-chosen-resets-pattern", "dawg/dawg_search.go", "func (p PatternSearcher) Chosen() {}", "func (p PatternSearcher) Chosen() {\n\tif len(p.pattern) > 90 {\n\t\tp.pattern[0] = p.blank\n\t}\n}", "SEARCHER-RO:(dawg.PatternSearcher).Chosen"},
		{"search-early-return-mid-word", "dawg/dawg_search.go", "\t\tif len(currWord) == 0 {\n\t\t\treturn solns, ids\n\t\t}", "\t\tif len(currWord) == 0 || index == t.numWords-1 {\n\t\t\treturn solns, ids\n\t\t}", "BALANCE:(*dawg.Dawg).Search"},
		{"search-backstep-skips-first-searcher", "dawg/dawg_search.go", "\t\tfor i := range searchers {\n\t\t\tsearchers[i].Backstep()\n\t\t}", "\t\tfor i := 1; i < len(searchers); i++ {\n\t\t\tsearchers[i].Backstep()\n\t\t}", "BALANCE:(*dawg.Dawg).Search"},
		{"search-step-stops-at-first-refusal", "dawg/dawg_search.go", "\t\t\tfor i := range searchers {\n\t\t\t\tsearchers[i].Step(l)\n\t\t\t}", "\t\t\tfor i := range searchers {\n\t\t\t\tif i > 3 {\n\t\t\t\t\tbreak\n\t\t\t\t}\n\t\t\t\tsearchers[i].Step(l)\n\t\t\t}", "BALANCE:(*dawg.Dawg).Search"},
		{"search-pops-twice", "dawg/dawg_search.go", "\t\tcurrWord = currWord[:len(currWord)-1]\n\t\tcurrDecisions", "\t\tcurrWord = currWord[:len(currWord)-1]\n\t\tif len(currWord) > 40 {\n\t\t\tcurrWord = currWord[:len(currWord)-1]\n\t\t}\n\t\tcurrDecisions", "BALANCE:(*dawg.Dawg).Search"},
		{"search-calls-mutating-chosen", "dawg/dawg_search.go", "func (p AnagramSearcher) Chosen() {}", "func (p AnagramSearcher) Chosen() {\n\tif len(p.counts) > 90 {\n\t\tp.counts[0].count = 0\n\t}\n}", "STEP-ONLY:(*dawg.Dawg).Search"},
	}
	mutants["C04"] = []mutant{
		{"save-forgets-first", "graph/search/search_all.go", "\ts.First = iter.first\n", "", "CAPTURE:graph/search.Save:First not captured"},
		{"save-forgets-current-path", "graph/search/search_all.go", "\ts.CurrentPath = iter.currentPath\n", "\ts.CurrentPath = nil\n", "CAPTURE:graph/search.Save:CurrentPath not captured"},
		{"load-forgets-choices", "graph/search/search_all.go", "\titer.choices = s.Choices\n", "", "CAPTURE:graph/search.Load:Choices not restored"},
		{"load-forgets-edge-count", "graph/search/search_all.go", "\titer.sg.G.NumberOfEdges = s.G.NumberOfEdges\n", "", "CAPTURE:graph/search.Load:NumberOfEdges of the graph not restored"},
		{"load-skips-degree-copy", "graph/search/search_all.go", "\tcopy(iter.sg.G.DegreeSequence, s.G.DegreeSequence)\n", "", "CAPTURE:graph/search.Load:DegreeSequence of the graph not restored"},
		{"load-swaps-a-and-m", "graph/search/search_all.go", "iter := WithPruning(s.N, s.A, s.M, preprune, prune)", "iter := WithPruning(s.N, s.M, s.A, preprune, prune)", "CAPTURE:graph/search.Load:A not passed on"},
		{"new-iterator-field", "graph/search/search_all.go", "\tsplitLevel int\n", "\tsplitLevel int\n\tvisited    int\n", "CAPTURE:GraphIterator.visited:unclassified field"},
		{"record-field-unexported", "graph/search/search_all.go", "\tFirst bool\n\n\tG *graph.DenseGraph", "\tFirst bool\n\tdepth int\n\n\tG *graph.DenseGraph", "GOBFIELDS:graph/search.save:unexported field"},
		{"save-drains-choices", "graph/search/search_all.go", "\ts.Choices = iter.choices\n", "\ts.Choices = iter.choices\n\titer.choices = iter.choices[:len(iter.choices):len(iter.choices)]\n", "PURE:(*graph/search.GraphIterator).Save"},
		{"clear-forgets-orbits", "graph/search/search_all.go", "\tsg.Generators = nil\n\tsg.Orbits = nil\n}", "\tsg.Generators = nil\n}", "CAPTURE:graph/search.clearAutomorphismGroup:Orbits not cleared"},
		{"next-retunes-split-level", "graph/search/search_all.go", "\tcont := true\n\tif iter.first {", "\tcont := true\n\tif iter.first && iter.m == 1 {\n\t\titer.splitLevel = 0\n\t}\n\tif iter.first {", "DERIVED:(*graph/search.GraphIterator).Next"},
	}
	mutants["C20"] = []mutant{
		{"flush-error-dropped", "tsp/tsplib.go", "\terr = tw.Flush()\n\tif err != nil {\n\t\treturn err\n\t}\n", "\ttw.Flush()\n", "ERRCHK:tsp.LIB:call (*text/tabwriter.Writer).Flush"},
		{"dimension-error-unchecked", "tsp/tsplib.go", "\t_, err = fmt.Fprintf(w, \"DIMENSION: %d\\n\", n)\n\tif err != nil {\n\t\treturn err\n\t}\n", "\t_, err = fmt.Fprintf(w, \"DIMENSION: %d\\n\", n)\n", "ERRCHK:tsp.LIB:call fmt.Fprintf"},
		{"eof-failure-returns-nil", "tsp/tsplib.go", "\t_, err = io.WriteString(w, \"EOF\\n\")\n\tif err != nil {\n\t\treturn err\n\t}", "\t_, err = io.WriteString(w, \"EOF\\n\")\n\tif err != nil {\n\t\treturn nil\n\t}", "ERRCHK:tsp.LIB:call io.WriteString"},
		{"flush-error-overwritten", "tsp/tsplib.go", "\terr = tw.Flush()\n\tif err != nil {\n\t\treturn err\n\t}\n", "\terr = tw.Flush()\n", "ERRCHK:tsp.LIB:call (*text/tabwriter.Writer).Flush"},
		{"weights-arguments-swapped", "tsp/tsplib.go", "weights(i, j))", "weights(j, i))", "DOMAIN:tsp.LIB"},
		{"weights-called-on-diagonal", "tsp/tsplib.go", "for j := 0; j < i; j++ {", "for j := 0; j <= i; j++ {", "DOMAIN:tsp.LIB"},
		{"weights-one-based", "tsp/tsplib.go", "weights(i, j))", "weights(i+1, j+1))", "DOMAIN:tsp.LIB"},
	}
	mutants["C16"] = []mutant{
		{"threshold-too-high", "comb/comb.go", " 3612, 1449, 746,", " 3612, 1450, 746,", "TABLE:comb.maxSizes[7]"},
		{"threshold-too-low", "comb/comb.go", " 308, 227, 178,", " 308, 226, 178,", "TABLE:comb.maxSizes[11]"},
		{"pascal-cell-wrong", "comb/comb.go", "{1, 12, 66, 220, 495, 792, 924}", "{1, 12, 66, 220, 495, 792, 942}", "TABLE:comb.smallEntries[12][6]"},
		{"table-bound-off-by-one", "comb/comb.go", "\tif n <= 32 {\n\t\treturn smallEntries[n][k]", "\tif n <= 33 {\n\t\treturn smallEntries[n][k]", "TABLE:comb.CoeffUint64:smallEntries access"},
		{"largest-k-guard-dropped", "comb/comb.go", "\tif k > largestK || n > maxSizes[k] {", "\tif k <= largestK && n > maxSizes[k] {", "TABLE:comb.CoeffUint64:guard"},
		{"threshold-compared-with-wrong-row", "comb/comb.go", "\tif k > largestK || n > maxSizes[k] {", "\tif k > largestK || n > maxSizes[k-1] {", "TABLE:comb.CoeffUint64:guard n<=maxSizes[k]"},
		{"symmetric-reduction-dropped", "comb/comb.go", "\tif k > n/2 {\n\t\tk = n - k\n\t}", "\tif k > n/2 && n <= 32 {\n\t\tk = n - k\n\t}", "TABLE:comb.CoeffUint64"},
		{"coeff-maxint-check-dropped", "comb/comb.go", "\tif comb > maxInt {\n\t\tpanic(\"coeff does not fit in an int\")\n\t}\n\treturn int(comb)", "\treturn int(comb)", "TABLE:comb.Coeff:int("},
		{"coeffs-plain-addition", "comb/comb.go", "tmp[j], overflow = addHasOverflowed(coeffs[i-1][j-1], coeffs[i-1][j])", "tmp[j] = coeffs[i-1][j-1] + coeffs[i-1][j]", "OVF:comb.Coeffs"},
		{"unrank-plain-product", "comb/comb.go", "\t\t\thi, lo := bits.Mul64(b, l+1)\n\t\t\tif hi >= l+1-r {\n\t\t\t\t//The quotient doesn't fit in 64 bits so it is certainly larger than m.\n\t\t\t\tbreak\n\t\t\t}\n\t\t\tnext, _ := bits.Div64(hi, lo, l+1-r)", "\t\t\tnext := b * (l + 1) / (l + 1 - r)\n\t\t\t_ = bits.Len64(next)", "OVF:comb.Unrank"},
		{"rank-unchecked-sum", "comb/comb.go", "\t\trank, overflow = addHasOverflowed(rank, c)\n", "\t\trank += c\n", "OVF:comb.Rank"},
		{"checked-add-test-removed", "comb/comb.go", "\tif (sum^a)&(sum^b) < 0 {\n\t\treturn sum, true\n\t}\n\treturn sum, false\n}\n\n//CoeffUint64", "\treturn sum, false\n}\n\n//CoeffUint64", "OVF:comb.addHasOverflowed"},
	}
	mutants["C18"] = []mutant{
		{"union-links-element-not-root", "disjoint/disjoint_set.go", "\tif ds[parentX] < ds[parentY] {\n\t\tds[parentY] = parentX\n\t} else if ds[parentY] < ds[parentX] {\n\t\tds[parentX] = parentY\n\t} else {\n\t\tds[parentX] = parentY\n\t\tds[parentY]--\n\t}\n}\n\n//UnionBuffered", "\tif ds[parentX] < ds[parentY] {\n\t\tds[y] = parentX\n\t} else if ds[parentY] < ds[parentX] {\n\t\tds[parentX] = parentY\n\t} else {\n\t\tds[parentX] = parentY\n\t\tds[parentY]--\n\t}\n}\n\n//UnionBuffered", "ROOTLINK:(*disjoint.Set).Union"},
		{"buffered-union-bumps-linked-root", "disjoint/disjoint_set.go", "\t\tds[parentX] = parentY\n\t\tds[parentY]--\n\t}\n}\n\n//Sets", "\t\tds[parentX] = parentY\n\t\tds[parentX]--\n\t}\n}\n\n//Sets", "ROOTLINK:(*disjoint.Set).UnionBuffered"},
		{"union-stores-rank-sum", "disjoint/disjoint_set.go", "\t\tds[parentX] = parentY\n\t\tds[parentY]--\n\t}\n}\n\n//UnionBuffered", "\t\tds[parentY] += ds[parentX]\n\t\tds[parentX] = parentY\n\t}\n}\n\n//UnionBuffered", "ROOTLINK:(*disjoint.Set).Union"},
		{"find-compresses-to-parent-entry", "disjoint/disjoint_set.go", "\t\t\tfor i := 0; i < len(seenNumbers)-2; i++ {\n\t\t\t\tds[seenNumbers[i]] = tmp\n\t\t\t}\n\t\t\treturn tmp\n\t\t}\n\t\tseenNumbers = append(seenNumbers, currentPlace)\n\t}\n}\n\n//FindBuffered", "\t\t\tfor i := 0; i < len(seenNumbers)-2; i++ {\n\t\t\t\tds[seenNumbers[i]] = seenNumbers[i+2]\n\t\t\t}\n\t\t\treturn tmp\n\t\t}\n\t\tseenNumbers = append(seenNumbers, currentPlace)\n\t}\n}\n\n//FindBuffered", "COMPRESS:(*disjoint.Set).Find"},
		{"findbuffered-writes-marker", "disjoint/disjoint_set.go", "\tseenNumbers := buf[:1]\n\tseenNumbers[0] = x\n", "\tseenNumbers := buf[:1]\n\tseenNumbers[0] = x\n\tds[x] = ds[x] + 0\n", "COMPRESS:(*disjoint.Set).FindBuffered"},
		{"roots-compacts-in-place", "disjoint/disjoint_set.go", "\troots := make([]int, 0, 1)\n\tfor i, v := range ds {\n\t\tif v < 0 {", "\troots := make([]int, 0, 1)\n\tfor i, v := range ds {\n\t\tif v < -1 {\n\t\t\tds[i] = -1\n\t\t}\n\t\tif v < 0 {", "WRITE-SCOPE:(*disjoint.Set).Roots"},
	}
	mutants["C14"] = []mutant{
		{"root-child-count-raw-byte", "dawg/dawg.go", "\tbuf = encodeUint64(uint64(len(t.linkLabels)), buf)\n\tb = append(b, buf...)\n", "\tb = append(b, byte(len(t.linkLabels)))\n", "GRAMMAR:(*dawg.Dawg).GobEncode:record token"},
		{"inner-child-count-raw-byte", "dawg/dawg.go", "\t\t\t\tbuf = encodeUint64(uint64(len(linkDawg.linkLabels)), buf)\n\t\t\t\tb = append(b, buf...)\n", "\t\t\t\tb = append(b, byte(len(linkDawg.linkLabels)))\n", "GRAMMAR:(*dawg.Dawg).GobEncode:record token"},
		{"numwords-dropped-from-inner-records", "dawg/dawg.go", "\t\t\t\tbuf = encodeUint64(uint64(linkDawg.numWords), buf)\n\t\t\t\tb = append(b, buf...)\n", "", "GRAMMAR:(*dawg.Dawg).GobEncode:record token"},
		{"decoder-reads-final-as-varint", "dawg/dawg.go", "\t\tfinal, err := r.ReadByte()\n", "\t\tfinal, _, err := decodeUint64(r, buf)\n", "GRAMMAR:(*dawg.Dawg).GobEncode:record token"},
		{"decoder-label-after-target", "dawg/dawg.go", "\t\t\tlabel, err := r.ReadByte()\n\t\t\tif err != nil {\n\t\t\t\treturn err\n\t\t\t}\n\t\t\ttarget, _, err := decodeUint64(r, buf)\n\t\t\tif err != nil {\n\t\t\t\treturn err\n\t\t\t}\n", "\t\t\ttarget, _, err := decodeUint64(r, buf)\n\t\t\tif err != nil {\n\t\t\t\treturn err\n\t\t\t}\n\t\t\tlabel, err := r.ReadByte()\n\t\t\tif err != nil {\n\t\t\t\treturn err\n\t\t\t}\n", "GRAMMAR:(*dawg.Dawg).GobEncode:record token"},
		{"varint-threshold-mismatch", "dawg/dawg.go", "\tif x <= 127 {\n\t\tbuf[0] = uint8(x)", "\tif x <= 128 {\n\t\tbuf[0] = uint8(x)", "VARINT:dawg.varint:single-byte threshold"},
		{"varint-prefix-base-shifted", "dawg/dawg.go", "\tn = int(b) - 128\n", "\tn = int(b) - 127\n", "VARINT:dawg.varint:prefix base"},
		{"varint-decoder-length-cap", "dawg/dawg.go", "\tif n > 8 {\n", "\tif n > 7 {\n", "VARINT:dawg.varint:max length"},
		{"varint-little-endian-encoder", "dawg/dawg.go", "byte(x >> uint(8*(7-(i+zeroBytes))))", "byte(x >> uint(8*(6-(i+zeroBytes))))", "VARINT:dawg.varint:byte order"},
	}
	mutants["C08"] = []mutant{
		{"graph6-long-header-guard-dropped", "graph/encoding.go", "\t} else if len(s) < 4 {\n\t\treturn &DenseGraph{}, errors.New(\"String too short - unable to decode n\")\n\t} else if s[1] != 126 {\n\t\tn = (uint64(s[1]-63) << 12) + (uint64(s[2]-63) << 6) + uint64(s[3]-63)\n\t\ti = 4\n\t} else {\n\t\tif len(s) < 8 {\n\t\t\treturn &DenseGraph{}", "\t} else if len(s) < 3 {\n\t\treturn &DenseGraph{}, errors.New(\"String too short - unable to decode n\")\n\t} else if s[1] != 126 {\n\t\tn = (uint64(s[1]-63) << 12) + (uint64(s[2]-63) << 6) + uint64(s[3]-63)\n\t\ti = 4\n\t} else {\n\t\tif len(s) < 8 {\n\t\t\treturn &DenseGraph{}", "BOUNDS:graph.Graph6Decode:s[3]"},
		{"graph6-edge-bytes-off-by-one", "graph/encoding.go", "\tif i+int(((n*(n-1))/2)+5)/6 > len(s) {", "\tif i+int(((n*(n-1))/2)+5)/6 > len(s)+1 {", "BOUNDS:graph.Graph6Decode:s[i + j / 6]"},
		{"graph6-edge-array-wrong-size", "graph/encoding.go", "\tedges := make([]uint8, (n*(n-1))/2)\n", "\tedges := make([]uint8, (n*(n+1))/2)\n", "PRECOND:graph.Graph6Decode:NewDense"},
		{"graph6-eight-byte-header-reads-s8", "graph/encoding.go", "uint64(s[7]-63)\n\t\ti = 8\n\t\tMaxN", "uint64(s[8]-63)\n\t\ti = 8\n\t\tMaxN", "BOUNDS:graph.Graph6Decode:s[8]"},
		{"sparse6-empty-check-dropped", "graph/encoding.go", "\tif len(s) == 0 {\n\t\treturn &SparseGraph{}, errors.New(\"String too short - no initial character\")\n\t}\n", "", "BOUNDS:graph.Sparse6Decode:s[0]"},
		{"sparse6-header-check-dropped", "graph/encoding.go", "\tif len(s) == 0 {\n\t\treturn &SparseGraph{}, errors.New(\"String too short - unable to decode n\")\n\t}\n", "", "BOUNDS:graph.Sparse6Decode:s[0]"},
		{"sparse6-reads-one-pair-too-many", "graph/encoding.go", "\tfor pos+k < numBits {", "\tfor pos+k <= numBits {", "BOUNDS:graph.Sparse6Decode"},
		{"sparse6-vertex-bound-inclusive", "graph/encoding.go", "\t\t} else if v < int(n) {", "\t\t} else if v <= int(n) {", "PRECOND:graph.Sparse6Decode:g.AddEdge(v, x) argument 1"},
		{"sparse6-edge-added-unconditionally", "graph/encoding.go", "\t\tif x > v {\n\t\t\tv = x\n\t\t} else if v < int(n) {\n\t\t\tg.AddEdge(v, x)\n\t\t} else {", "\t\tif x > v {\n\t\t\tv = x\n\t\t} else if v != int(n) {\n\t\t\tg.AddEdge(v, x)\n\t\t} else {", "PRECOND:graph.Sparse6Decode:g.AddEdge(v, x) argument 1"},
		{"sparse6-cursor-does-not-advance-for-k0", "graph/encoding.go", "\t\tpos += k + 1\n", "\t\tpos += k\n", "TERM:graph.Sparse6Decode"},
		{"sparse6-bit-index-from-wrong-base", "graph/encoding.go", "\t\t\tx = 2*x + int(((s[i+p/6]-63)>>uint(5-p%6))&1)", "\t\t\tx = 2*x + int(((s[i+1+p/6]-63)>>uint(5-p%6))&1)", "BOUNDS:graph.Sparse6Decode"},
		{"sparse6-numbits-counts-header", "graph/encoding.go", "\tnumBits := 6 * (len(s) - i)\n", "\tnumBits := 6 * len(s)\n", "BOUNDS:graph.Sparse6Decode"},
	}
	mutants["C07"] = []mutant{
		{"g6enc-long-header-shift", "graph/encoding.go", "\t\ts[4] = byte((n>>18)&63) + 63\n\t\ts[5] = byte((n>>12)&63) + 63\n\t\ts[6] = byte((n>>6)&63) + 63\n\t\ts[7] = byte(n&63) + 63\n\t} else {\n\t\tpanic(\"Graph too large\")\n\t}\n\n\tvar b byte\n\tbIndex := 0", "\t\ts[4] = byte((n>>16)&63) + 63\n\t\ts[5] = byte((n>>12)&63) + 63\n\t\ts[6] = byte((n>>6)&63) + 63\n\t\ts[7] = byte(n&63) + 63\n\t} else {\n\t\tpanic(\"Graph too large\")\n\t}\n\n\tvar b byte\n\tbIndex := 0", "HDR:graph.Graph6Encode:header bytes for n<=68719476735"},
		{"g6enc-threshold-258048", "graph/encoding.go", "\t} else if n <= 258047 {\n\t\ts = make([]byte, 4, 4+", "\t} else if n <= 258048 {\n\t\ts = make([]byte, 4, 4+", "HDR:graph.Graph6Encode:header threshold 258047"},
		{"g6enc-short-threshold-63", "graph/encoding.go", "\t} else if n <= 62 {\n\t\ts = make([]byte, 1, 1+", "\t} else if n <= 63 {\n\t\ts = make([]byte, 1, 1+", "HDR:graph.Graph6Encode:header threshold 62"},
		{"s6enc-middle-sextet-mask", "graph/encoding.go", "\t\ts[3] = byte((n>>6)&63) + 63\n\t\ts[4] = byte(n&63) + 63\n\t} else if n <= 68719476735 {\n\t\ts = make([]byte, 9,", "\t\ts[3] = byte((n>>6)&31) + 63\n\t\ts[4] = byte(n&63) + 63\n\t} else if n <= 68719476735 {\n\t\ts = make([]byte, 9,", "HDR:graph.Sparse6Encode:header bytes for n<=258047"},
		{"s6enc-long-header-one-marker", "graph/encoding.go", "\t\ts = make([]byte, 9, 9+((k+1)*2*m+5)/6)\n\t\ts[0] = 58\n\t\ts[1] = 126\n\t\ts[2] = 126\n", "\t\ts = make([]byte, 9, 9+((k+1)*2*m+5)/6)\n\t\ts[0] = 58\n\t\ts[1] = 126\n\t\ts[2] = 125\n", "HDR:graph.Sparse6Encode:header bytes for n<=68719476735"},
		{"g6dec-four-byte-shift", "graph/encoding.go", "\t\tn = (uint64(s[1]-63) << 12) + (uint64(s[2]-63) << 6) + uint64(s[3]-63)\n\t\ti = 4\n\t} else {\n\t\tif len(s) < 8 {\n\t\t\treturn &DenseGraph{}", "\t\tn = (uint64(s[1]-63) << 12) + (uint64(s[2]-63) << 8) + uint64(s[3]-63)\n\t\ti = 4\n\t} else {\n\t\tif len(s) < 8 {\n\t\t\treturn &DenseGraph{}", "HDR:graph.Graph6Decode:header sum"},
		{"s6dec-eight-byte-data-offset", "graph/encoding.go", "uint64(s[7]-63)\n\t\ti = 8\n\t}\n\n\tg := NewSparse", "uint64(s[7]-63)\n\t\ti = 7\n\t}\n\n\tg := NewSparse", "HDR:graph.Sparse6Decode:data offset after header"},
		{"s6dec-marker-byte", "graph/encoding.go", "\t} else if s[1] != 126 {\n\t\tn = (uint64(s[1]-63) << 12) + (uint64(s[2]-63) << 6) + uint64(s[3]-63)\n\t\ti = 4\n\t} else {\n\t\tif len(s) < 8 {\n\t\t\treturn &SparseGraph{}", "\t} else if s[1] != 125 {\n\t\tn = (uint64(s[1]-63) << 12) + (uint64(s[2]-63) << 6) + uint64(s[3]-63)\n\t\ti = 4\n\t} else {\n\t\tif len(s) < 8 {\n\t\t\treturn &SparseGraph{}", "HDR:graph.Sparse6Decode:marker"},
		{"g6dec-bit-order-reversed", "graph/encoding.go", "edges[j] = ((s[i+j/6] - 63) & (1 << uint(5-(j%6)))) >> uint(5-(j%6))", "edges[j] = ((s[i+j/6] - 63) & (1 << uint(4-(j%6)))) >> uint(4-(j%6))", "SEXTET:graph.Graph6Decode:top bit index"},
		{"g6enc-wrap-at-seven", "graph/encoding.go", "\t\t\tbIndex++\n\t\t\tif bIndex == 6 {", "\t\t\tbIndex++\n\t\t\tif bIndex == 7 {", "SEXTET:graph.Graph6Encode:bits per byte"},
		{"s6dec-range-upper-127", "graph/encoding.go", "\t\tif s[i] < 63 || s[i] > 126 {\n\t\t\treturn &SparseGraph{}", "\t\tif s[i] < 63 || s[i] > 127 {\n\t\t\treturn &SparseGraph{}", "SEXTET:graph.Sparse6Decode:highest valid byte"},
		{"s6enc-k-bits-of-n", "graph/encoding.go", "\tk := 64 - bits.LeadingZeros64(uint64(n-1))\n", "\tk := 64 - bits.LeadingZeros64(uint64(n))\n", "SEXTET:graph.Sparse6Encode:k formula"},
		{"g6enc-offset-64", "graph/encoding.go", "\tif bIndex != 0 {\n\t\ts = append(s, b+63)\n\t}", "\tif bIndex != 0 {\n\t\ts = append(s, b+64)\n\t}", "SEXTET:graph.Graph6Encode:byte offset"},
	}
	mutants["C05"] = []mutant{
		{"sparse-removevertex-forgets-degrees", "graph/graph_sparse.go", "\t\tg.Neighbourhoods[v].Remove(i)\n\t\tg.DegreeSequence[v]--\n\t}\n\n\tg.Neighbourhoods = g.Neighbourhoods[:i+copy(g.Neighbourhoods[i:], g.Neighbourhoods[i+1:])]\n\tg.DegreeSequence = g.DegreeSequence[:i+copy(g.DegreeSequence[i:], g.DegreeSequence[i+1:])]\n", "\t\tg.Neighbourhoods[v].Remove(i)\n\t}\n\n\tg.Neighbourhoods = g.Neighbourhoods[:i+copy(g.Neighbourhoods[i:], g.Neighbourhoods[i+1:])]\n", "COUPLE:(*graph.SparseGraph).RemoveVertex"},
		{"dense-addvertex-forgets-edge-count", "graph/graph_dense.go", "\tg.NumberOfVertices++\n\tg.NumberOfEdges += len(neighbours)\n", "\tg.NumberOfVertices++\n", "COUPLE:(*graph.DenseGraph).AddVertex"},
		{"dense-removeedge-early-return-after-clear", "graph/graph_dense.go", "\tg.DegreeSequence[i]--\n\tg.DegreeSequence[j]--\n\tg.NumberOfEdges--\n}", "\tif g.NumberOfEdges == 0 {\n\t\treturn\n\t}\n\tg.DegreeSequence[i]--\n\tg.DegreeSequence[j]--\n\tg.NumberOfEdges--\n}", "COUPLE:(*graph.DenseGraph).RemoveEdge"},
		{"sparse-addedge-one-endpoint-degree", "graph/graph_sparse.go", "\tg.NumberOfEdges++\n\tg.DegreeSequence[i]++\n\tg.DegreeSequence[j]++\n}", "\tg.NumberOfEdges++\n\tg.DegreeSequence[i]++\n\tg.DegreeSequence[i]++\n}", "COUPLE:(*graph.SparseGraph).AddEdge"},
		{"sparse-removeedge-increments-count", "graph/graph_sparse.go", "\tg.Neighbourhoods[j].Remove(i)\n\tg.NumberOfEdges--\n", "\tg.Neighbourhoods[j].Remove(i)\n\tg.NumberOfEdges++\n", "COUPLE:(*graph.SparseGraph).RemoveEdge"},
		{"dense-copy-shares-degrees", "graph/graph_dense.go", "\tnewDegrees := make([]int, len(g.DegreeSequence))\n\tcopy(newDegrees, g.DegreeSequence)\n\treturn &DenseGraph{", "\tnewDegrees := g.DegreeSequence[:len(g.DegreeSequence):len(g.DegreeSequence)]\n\treturn &DenseGraph{", "FRESH:(*graph.DenseGraph).Copy"},
		{"sparse-copy-shares-rows", "graph/graph_sparse.go", "\t\ttmpNeighbourhoods[i] = make(sortints.SortedInts, len(g.Neighbourhoods[i]))\n\t\tcopy(tmpNeighbourhoods[i], g.Neighbourhoods[i])\n", "\t\ttmpNeighbourhoods[i] = g.Neighbourhoods[i]\n", "FRESH:(graph.SparseGraph).Copy"},
		{"sparse-induced-sorts-v-in-place", "graph/graph_sparse.go", "\tn := len(V)\n\tvalues, indices := intsSort(V)", "\tn := len(V)\n\tsort.Ints(V)\n\tvalues, indices := intsSort(V)", "FRESH:(graph.SparseGraph).InducedSubgraph"},
		{"dense-addedge-swapped-triangle-index", "graph/graph_dense.go", "\tif i < j {\n\t\tg.Edges[(j*(j-1))/2+i] = 1\n\t} else if i > j {\n\t\tg.Edges[(i*(i-1))/2+j] = 1\n\t}\n}", "\tif i < j {\n\t\tg.Edges[(i*(i-1))/2+j] = 1\n\t} else if i > j {\n\t\tg.Edges[(i*(i-1))/2+j] = 1\n\t}\n}", "TRI:(*graph.DenseGraph).AddEdge"},
		{"dense-neighbours-upper-loop-includes-v", "graph/graph_dense.go", "\tfor i := v + 1; i < g.N(); i++ {\n\t\tindex := (i*(i-1))/2 + v\n\t\tif g.Edges[index] > 0 {\n\t\t\tr = append(r, i)", "\tfor i := v; i < g.N(); i++ {\n\t\tindex := (i*(i-1))/2 + v\n\t\tif g.Edges[index] > 0 {\n\t\t\tr = append(r, i)", "TRI:(graph.DenseGraph).Neighbours"},
		{"dense-isedge-row-formula", "graph/graph_dense.go", "\tif i < j && g.Edges[(j*(j-1))/2+i] > 0 {", "\tif i < j && g.Edges[(j*(j+1))/2+i] > 0 {", "TRI:(graph.DenseGraph).IsEdge"},
	}
	mutants["C06"] = []mutant{
		{"newdense-keeps-caller-slice", "graph/graph_dense.go", "DegreeSequence: degrees, Edges: copyOfEdges}", "DegreeSequence: degrees, Edges: edges}", "FRESH:graph.NewDense"},
		{"newsparse-keeps-caller-rows", "graph/graph_sparse.go", "\t\ttmpNeighbourhoods[i] = sortints.NewSortedInts(neighbourhoods[i]...)", "\t\ttmpNeighbourhoods[i] = neighbourhoods[i]", "FRESH:graph.NewSparse"},
		{"newsparse-sorts-caller-rows", "graph/graph_sparse.go", "\tfor i := range neighbourhoods {\n\t\ttmpNeighbourhoods[i] =", "\tfor i := range neighbourhoods {\n\t\tsort.Ints(neighbourhoods[i])\n\t\ttmpNeighbourhoods[i] =", "FRESH:graph.NewSparse"},
		{"prufer-literal-again", "graph/encoding.go", "\treturn NewDense(n, edges)\n}\n\n//AdjacencyMatrixEncode", "\treturn &DenseGraph{NumberOfVertices: n, Edges: edges}\n}\n\n//AdjacencyMatrixEncode", "LITERAL:graph.PruferDecode"},
		{"star-literal-without-degrees", "graph/generating.go", "\treturn &DenseGraph{NumberOfVertices: n, NumberOfEdges: n - 1, DegreeSequence: degrees, Edges: edges}\n}\n\n//RookGraph", "\t_ = degrees\n\treturn &DenseGraph{NumberOfVertices: n, NumberOfEdges: n - 1, Edges: edges}\n}\n\n//RookGraph", "LITERAL:graph.Star"},
		{"cycle-guard-too-weak", "graph/generating.go", "\tif n < 3 {\n\t\tpanic(\"n must be at least 3.\")\n\t}\n\tedges := make", "\tif n < 1 {\n\t\tpanic(\"n must be at least 3.\")\n\t}\n\tedges := make", "TRI:graph.Cycle"},
		{"flowersnark-guard-dropped", "graph/generating.go", "\tif n < 3 {\n\t\tpanic(\"n must be at least 3\")\n\t}\n", "", "TRI:graph.FlowerSnark"},
		{"path-wrong-row", "graph/generating.go", "\tfor i := 0; i < n-1; i++ {\n\t\tedges[((i+1)*i)/2+i] = 1\n\t}\n\n\tdegrees := make([]int, n)\n\tif n > 0 {\n\t\tdegrees[0] = 1", "\tfor i := 0; i < n-1; i++ {\n\t\tedges[(i*(i-1))/2+i] = 1\n\t}\n\n\tdegrees := make([]int, n)\n\tif n > 0 {\n\t\tdegrees[0] = 1", "TRI:graph.Path"},
		{"linegraph-row-off-by-one", "graph/transformation.go", "\t\t\t\tfor k, v := range lVerticesLower {\n\t\t\t\t\tif i == v {\n\t\t\t\t\t\tedges[(mIndex*(mIndex-1))/2+k] = 1", "\t\t\t\tfor k, v := range lVerticesLower {\n\t\t\t\t\tif i == v {\n\t\t\t\t\t\tedges[(mIndex*(mIndex-1))/2+k+1] = 1", "TRI:graph.LineGraphDense"},
		{"complementdense-index-not-advanced", "graph/transformation.go", "\t\t\tif !g.IsEdge(i, j) {\n\t\t\t\tedges[index] = 1\n\t\t\t}\n\t\t\tindex++", "\t\t\tif !g.IsEdge(i, j) {\n\t\t\t\tedges[index] = 1\n\t\t\t\tindex++\n\t\t\t}", "TRI:graph.ComplementDense"},
		{"star-centre-column-shifted", "graph/generating.go", "\tfor i := 1; i < n; i++ {\n\t\tedges[(i*(i-1))/2] = 1\n\t}", "\tfor i := 1; i < n; i++ {\n\t\tedges[(i*(i-1))/2+1] = 1\n\t}", "TRI:graph.Star"},
	}
	mutants["C09"] = []mutant{
		{"chromatic-index-n-zero", "graph/colouring.go", "\tn := g.N()\n\tcolouringIndex := 0", "\tn := 0\n\tcolouringIndex := 0", "LIVE:graph.ChromaticIndex"},
		{"chromatic-index-dead-loop", "graph/colouring.go", "\tindex := 0\n\tfor j := 1; j < n; j++ {\n\t\tfor i := 0; i < j; i++ {\n\t\t\tif g.IsEdge(i, j) {\n\t\t\t\tcolouredEdges[index]", "\tindex := 0\n\tfor j := 1; j < 1; j++ {\n\t\tfor i := 0; i < j; i++ {\n\t\t\tif g.IsEdge(i, j) {\n\t\t\t\tcolouredEdges[index]", "LIVE:graph.ChromaticIndex"},
		{"greedy-colour-table-empty", "graph/colouring.go", "\tc := make([]int, n)\n\tfor i := range c {\n\t\tc[i] = -1\n\t}\n\tseenColours", "\tc := make([]int, n-n)\n\tfor i := range c {\n\t\tc[i] = -1\n\t}\n\tseenColours", "LIVE:graph.GreedyColor"},
		{"chromatic-index-caches-in-graph", "graph/colouring.go", "\th := LineGraphDense(g)\n\tci, colouring := ChromaticNumber(h)", "\th := LineGraphDense(g)\n\tif dg, ok := g.(*DenseGraph); ok && dg.NumberOfEdges < 0 {\n\t\tdg.NumberOfEdges = 0\n\t}\n\tci, colouring := ChromaticNumber(h)", "READONLY:graph.ChromaticIndex"},
		{"maximal-cliques-child-by-append", "graph/clique.go", "\t\t\ttmpR := make([]int, len(R)+1)\n\t\t\ttmpP := make([]int, 0, len(P))\n\t\t\ttmpX := make([]int, 0, len(X)+1)\n\t\t\tcopy(tmpR, R)\n\t\t\ttmpR[len(tmpR)-1] = v\n", "\t\t\ttmpR := append(R, v)\n\t\t\ttmpP := make([]int, 0, len(P))\n\t\t\ttmpX := make([]int, 0, len(X)+1)\n", "EMIT:graph.AllMaximalCliques"},
		{"maximal-cliques-patch-after-send", "graph/clique.go", "\t\t\tc <- R\n\t\t\tcontinue\n", "\t\t\tc <- R\n\t\t\tif len(R) > 0 {\n\t\t\t\tR[0] = -1\n\t\t\t}\n\t\t\tcontinue\n", "EMIT:graph.AllMaximalCliques"},
	}
}
