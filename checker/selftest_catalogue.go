package main

// Catalogue of checker self-test rewrites (thorough tier). Each must compile, and must be
// reported by the named property's rules with a key containing `expect`.
func init() {
	mutants["C19"] = []mutant{
		{"global-scratch-buffer", "sortints/sorted_ints.go", "func IntersectionSize(a, b SortedInts) int {\n\tintersection := 0", "var scratch = make([]int, 1)\n\nfunc IntersectionSize(a, b SortedInts) int {\n\tscratch[0]++\n\tintersection := 0", "GLOBAL:sortints.IntersectionSize"},
		{"lookup-writes-numwords", "dawg/dawg.go", "\tdawg := t\n\tindex := -1", "\tdawg := t\n\tdawg.numWords += 0\n\tindex := -1", "READONLY:(*dawg.Dawg).Lookup"},
		{"dense-neighbours-cache", "graph/graph_dense.go", "\tdegrees := g.DegreeSequence\n\tr := make([]int, 0, degrees[v])", "\tdegrees := g.DegreeSequence\n\tdegrees[v] += 0\n\tr := make([]int, 0, degrees[v])", "READONLY:(graph.DenseGraph).Neighbours"},
		{"complement-degrees-inplace", "graph/transformation.go", "\tdegrees := c.g.Degrees()\n\tfor i := range degrees {", "\tdegrees := c.g.Degrees()\n\tif dg, ok := c.g.(*DenseGraph); ok {\n\t\tdegrees = dg.DegreeSequence\n\t}\n\tfor i := range degrees {", "READONLY:(graph.complement).Degrees"},
		{"goroutine-in-library", "graph/clique.go", "\tn := g.N()\n\n\tR := make([]int, 0)\n\tP := make([]int, n)\n\tfor i := range P {\n\t\tP[i] = i\n\t}\n\tX := make([]int, 0)\n\tvar cd cliqueData", "\tn := g.N()\n\tgo func() {}()\n\n\tR := make([]int, 0)\n\tP := make([]int, n)\n\tfor i := range P {\n\t\tP[i] = i\n\t}\n\tX := make([]int, 0)\n\tvar cd cliqueData", "NOSHARE:graph.AllMaximalCliques"},
		{"cliques-early-return", "graph/clique.go", "\t\tif len(P) == 0 && len(X) == 0 {\n\t\t\tc <- R\n\t\t\tcontinue\n\t\t}\n\t\t//Choose a pivot vertex", "\t\tif len(P) == 0 && len(X) == 0 {\n\t\t\tc <- R\n\t\t\tif n == 1 {\n\t\t\t\treturn\n\t\t\t}\n\t\t\tcontinue\n\t\t}\n\t\t//Choose a pivot vertex", "CLOSE:graph.AllMaximalCliques"},
		{"pattern-searcher-normalises-pattern", "dawg/dawg_search.go", "func (p PatternSearcher) AllowWord() bool {\n\treturn", "func (p PatternSearcher) AllowWord() bool {\n\tif len(p.pattern) > 0 && p.pattern[0] == 0 {\n\t\tp.pattern[0] = p.blank\n\t}\n\treturn", "RETAIN:(dawg.PatternSearcher).AllowWord"},
		{"newsparse-keeps-caller-rows", "graph/graph_sparse.go", "\t\ttmpNeighbourhoods[i] = sortints.NewSortedInts(neighbourhoods[i]...)", "\t\ttmpNeighbourhoods[i] = neighbourhoods[i]", "RETAIN:graph.NewSparse"},
		{"global-rand", "graph/generating.go", "\tr := rand.New(rand.NewSource(seed))\n\tg := NewDense(n, nil)", "\tr := rand.New(rand.NewSource(seed + rand.Int63()))\n\tg := NewDense(n, nil)", "NOSHARE:graph.RandomGraph"},
	}
	mutants["C17"] = []mutant{
		{"union-sorts-argument", "sortints/sorted_ints.go", "func Union(a, b SortedInts) SortedInts {\n", "func Union(a, b SortedInts) SortedInts {\n\tsort.Ints(b)\n", "PURE:sortints.Union"},
		{"setminus-reuses-a", "sortints/sorted_ints.go", "\tr := make([]int, 0, len(a)-IntersectionSize(a, b))", "\tr := a[:0]", "PURE:sortints.SetMinus"},
		{"add-sorts-variadic-in-place", "sortints/sorted_ints.go", "\ttmp := make([]int, len(x))\n\tcopy(tmp, x)\n\tx = tmp\n\tsort.Ints(x)", "\tsort.Ints(x)\n\ttmp := x", "RECEIVER-ONLY:(*sortints.SortedInts).Add"},
		{"method-union-writes-b", "sortints/sorted_ints.go", "\ti := len(a) - 1   //Position in a", "\tif len(b) > 0 {\n\t\tb[0] += 0\n\t}\n\ti := len(a) - 1   //Position in a", "RECEIVER-ONLY:(*sortints.SortedInts).Union"},
		{"insertion-sort-overwrite", "ints/int_sort.go", "\t\t\tdata[j], data[j-1] = data[j-1], data[j]\n\t\t}\n\t}\n}\n\n// siftDown", "\t\t\tdata[j] = data[j-1]\n\t\t}\n\t}\n}\n\n// siftDown", "SWAP:ints.insertionSort"},
		{"pivot-swap-wrong-cell", "ints/int_sort.go", "\tdata[pivot], data[b-1] = data[b-1], data[pivot]\n\treturn b - 1, c", "\tdata[pivot], data[b-1] = data[b-1], data[lo]\n\t_ = pivot\n\treturn b - 1, c", "SWAP:ints.doPivot"},
		{"range-builds-in-global", "sortints/sorted_ints.go", "\ttmp := make([]int, 0, (end-start+step-1)/step)\n\tfor i := start; i < end; i += step {\n\t\ttmp = append(tmp, i)\n\t}\n\treturn tmp\n}", "\ttmp := rangeBuf[:0]\n\tfor i := start; i < end; i += step {\n\t\ttmp = append(tmp, i)\n\t}\n\treturn tmp\n}\n\nvar rangeBuf = make([]int, 0, 64)", "PURE:sortints.Range"},
	}
	mutants["C15"] = []mutant{
		{"heap-step-overwrites", "itertools/permutations.go", "\t\t\t\tp.p[0], p.p[p.i] = p.p[p.i], p.p[0]", "\t\t\t\tp.p[0] = p.p[p.i]", "SWAP:itertools.PermutationIterator.Next"},
		{"lex-rotation-drops-cell", "itertools/permutations.go", "\t\t\titer.a[n-3], iter.a[n-2], iter.a[n-1] = iter.a[n-1], iter.a[n-3], iter.a[n-2]", "\t\t\titer.a[n-3], iter.a[n-2], iter.a[n-1] = iter.a[n-1], iter.a[n-3], iter.a[n-3]", "SWAP:itertools.LexicographicPermutationIterator.Next"},
		{"lex-rotation-coinciding-cells", "itertools/permutations.go", "\t\t\titer.a[j], iter.a[j+1], iter.a[n-1] = iter.a[n-1], iter.a[j], iter.a[j+1]", "\t\t\titer.a[j], iter.a[j+3], iter.a[n-1] = iter.a[n-1], iter.a[j], iter.a[j+3]", "SWAP:itertools.LexicographicPermutationIterator.Next"},
		{"value-normalises-in-place", "itertools/permutations.go", "func (iter *LexicographicPermutationIterator) Value() []int {\n\treturn iter.a", "func (iter *LexicographicPermutationIterator) Value() []int {\n\tif iter.n > 0 && iter.a[0] < 0 {\n\t\titer.a[0] = 0\n\t}\n\treturn iter.a", "FIELD-WRITERS:(*itertools.LexicographicPermutationIterator).Value"},
	}
}
