package main

// SEAL (C12): typestate of the builder. Finish hands out the automaton the builder has been
// editing in place, so a builder that has finished must refuse further work: an Add after Finish
// edits nodes of the Dawg that was returned (its word set, counts and ranks change under the
// caller), a second Finish minimises the root again. Two structural clauses:
//   (a) on every path of Finish to a successful return (a result that may be a non-nil Dawg), a
//       constant is stored into a field of the builder - the "finished" mark - and not undone;
//   (b) in Add and in Finish, with the edges removed on which the mark is known to be absent
//       (the test of that field against that constant failing), no instruction that writes the
//       builder is reachable from the entry, the lazy initialiser excepted (it starts a new Dawg).
// The mark is found in the code (any field, any constant), not named in the rule.

import (
	"fmt"
	"go/token"
	"go/types"
	"sort"

	"golang.org/x/tools/go/ssa"
)

type sealMark struct {
	field string
	val   string // constant, ExactString / "nil"
}

func constKey(v ssa.Value) (string, bool) {
	k, ok := v.(*ssa.Const)
	if !ok {
		return "", false
	}
	if k.Value == nil {
		return "nil", true
	}
	return k.Value.ExactString(), true
}

func fieldOfAddr(a ssa.Value, recv ssa.Value) (string, bool) {
	fa, ok := a.(*ssa.FieldAddr)
	if !ok || fa.X != recv {
		return "", false
	}
	pt, ok := fa.X.Type().Underlying().(*types.Pointer)
	if !ok {
		return "", false
	}
	st, ok := pt.Elem().Underlying().(*types.Struct)
	if !ok {
		return "", false
	}
	return st.Field(fa.Field).Name(), true
}

func ruleSeal(c *Ctx, r *RuleResult, finishName, initName string, guarded []string) {
	fin := c.Fn(finishName)
	if !checkUnknown(c, r, fin) {
		return
	}
	recv := fin.Params[0]
	// successful returns: result 0 is not the constant nil
	var okRets []*ssa.Return
	for _, b := range fin.Blocks {
		if ret, ok := b.Instrs[len(b.Instrs)-1].(*ssa.Return); ok && len(ret.Results) > 0 {
			if k, isK := constKey(ret.Results[0]); isK && k == "nil" {
				continue
			}
			okRets = append(okRets, ret)
		}
	}
	if len(okRets) == 0 {
		r.undecided("%s has no return that may hand out a value", finishName)
		return
	}
	// candidate marks: constant stores into a field of the receiver in Finish
	cands := map[sealMark]bool{}
	for _, b := range fin.Blocks {
		for _, in := range b.Instrs {
			if st, ok := in.(*ssa.Store); ok {
				if f, ok := fieldOfAddr(st.Addr, recv); ok {
					if k, isK := constKey(st.Val); isK {
						cands[sealMark{f, k}] = true
					}
				}
			}
		}
	}
	var marks []sealMark
	for m := range cands {
		marks = append(marks, m)
	}
	sort.Slice(marks, func(i, j int) bool { return marks[i].field+marks[i].val < marks[j].field+marks[j].val })
	// (a) must-pass-through, per candidate: "unsealed" may hold at the successful returns?
	var held []sealMark
	for _, m := range marks {
		in := map[*ssa.BasicBlock]bool{fin.Blocks[0]: true}
		out := map[*ssa.BasicBlock]bool{}
		transfer := func(b *ssa.BasicBlock, s bool) bool {
			for _, ins := range b.Instrs {
				if st, ok := ins.(*ssa.Store); ok {
					if f, ok := fieldOfAddr(st.Addr, recv); ok && f == m.field {
						k, isK := constKey(st.Val)
						s = !(isK && k == m.val)
					}
				}
				if initName != "" && isCallTo(ins, c, initName) {
					s = true
				}
			}
			return s
		}
		for changed := true; changed; {
			changed = false
			for _, b := range fin.Blocks {
				o := false
				if in[b] {
					o = transfer(b, true)
				}
				if o != out[b] {
					out[b] = o
					changed = true
				}
				if o {
					for _, s := range b.Succs {
						if !in[s] {
							in[s] = true
							changed = true
						}
					}
				}
			}
		}
		all := true
		for _, ret := range okRets {
			if in[ret.Block()] && transfer(ret.Block(), true) {
				all = false
			}
		}
		if all {
			held = append(held, m)
		}
	}
	r.inst("%s: every successful return is preceded by a constant store into a builder field (the finished mark)", finishName)
	r.oblig(len(held) > 0)
	if len(held) == 0 {
		r.find(finishName+":does not mark the builder finished", c.pos(fin.Pos()), "%s returns the automaton the builder edits in place, but on some path to a successful return it records nothing in the builder that a later call could test (no constant is stored into a field of the receiver): Add after Finish changes the Dawg that was handed out, and Finish can be called again", finishName)
		for _, name := range guarded {
			r.inst("%s: no write to the builder is reachable once the finished mark is set (there is no mark)", name)
			r.oblig(false)
		}
		return
	}
	for _, m := range held {
		r.inst("%s: finished mark %s = %s", finishName, m.field, m.val)
	}
	// (b) the mark is honoured
	E := c.Eff()
	for _, name := range guarded {
		fn := c.Fn(name)
		if !checkUnknown(c, r, fn) {
			continue
		}
		rv := fn.Params[0]
		best := ""
		var bestSites []string
		var bestPos []string
		for _, m := range held {
			gates := map[cfgEdge]bool{}
			for _, b := range fn.Blocks {
				iff, ok := b.Instrs[len(b.Instrs)-1].(*ssa.If)
				if !ok {
					continue
				}
				for ei, truth := range []bool{true, false} {
					if markAbsentOn(iff.Cond, truth, rv, m) {
						gates[cfgEdge{b, b.Succs[ei]}] = true
					}
				}
			}
			// reachability from entry without gate edges; a block that calls the initialiser starts
			// a new automaton: nothing after it touches the one handed out
			callsInit := func(b *ssa.BasicBlock) int {
				for i, in := range b.Instrs {
					if initName != "" && isCallTo(in, c, initName) {
						return i
					}
				}
				return -1
			}
			seen := map[*ssa.BasicBlock]bool{fn.Blocks[0]: true}
			stack := []*ssa.BasicBlock{fn.Blocks[0]}
			for len(stack) > 0 {
				b := stack[len(stack)-1]
				stack = stack[:len(stack)-1]
				if callsInit(b) >= 0 {
					continue
				}
				for _, s := range b.Succs {
					if gates[cfgEdge{b, s}] || seen[s] {
						continue
					}
					seen[s] = true
					stack = append(stack, s)
				}
			}
			var sites []string
			var poss []string
			for _, b := range fn.Blocks {
				if !seen[b] {
					continue
				}
				ci := callsInit(b)
				for i, in := range b.Instrs {
					if ci >= 0 && i >= ci {
						break
					}
					if _, w := rootedAt(E.InstrWrites(fn, in), 0); w {
						sites = append(sites, instrDesc(c, in))
						poss = append(poss, c.instrPos(in))
					}
				}
			}
			if best == "" || len(sites) < len(bestSites) {
				best, bestSites, bestPos = fmt.Sprintf("%s = %s", m.field, m.val), sites, poss
			}
			if len(sites) == 0 {
				break
			}
		}
		r.inst("%s: no write to the builder is reachable once the finished mark (%s) is set", name, best)
		r.oblig(len(bestSites) == 0)
		for i, s := range bestSites {
			r.find(name+":"+s+" on a finished builder", bestPos[i], "%s: %s is reachable without passing a test that the finished mark (%s) is absent: a builder that has finished still edits the automaton it handed out", name, s, best)
		}
	}
}

// markAbsentOn: does cond having the given truth value establish that <recv>.<field> differs from the mark?
func markAbsentOn(cond ssa.Value, truth bool, recv ssa.Value, m sealMark) bool {
	for {
		if u, ok := cond.(*ssa.UnOp); ok && u.Op == token.NOT {
			cond, truth = u.X, !truth
			continue
		}
		break
	}
	if isLoadOfField(cond, recv, m.field) { // a boolean field tested directly
		return (m.val == "true" && !truth) || (m.val == "false" && truth)
	}
	bo, ok := cond.(*ssa.BinOp)
	if !ok || (bo.Op != token.EQL && bo.Op != token.NEQ) {
		return false
	}
	var k string
	var isK bool
	switch {
	case isLoadOfField(bo.X, recv, m.field):
		k, isK = constKey(bo.Y)
	case isLoadOfField(bo.Y, recv, m.field):
		k, isK = constKey(bo.X)
	}
	if !isK {
		return false
	}
	if k == m.val {
		return (bo.Op == token.EQL && !truth) || (bo.Op == token.NEQ && truth)
	}
	// equal to a different constant implies the mark is absent
	return (bo.Op == token.EQL && truth) || (bo.Op == token.NEQ && !truth)
}

// ruleFreshRoot: the automaton a (re-)initialised builder starts from is storage of its own. The
// previous root may have been handed out by Finish; a new root whose label or link slices are the
// old ones cut to length 0 (to "keep the memory") is appended to in place, and the Dawg that was
// handed out changes under its owner. Every value Initialise stores into a pointer field of the
// builder that holds a Dawg must be a local allocation none of whose fields refers to memory that
// existed before the call.
func ruleFreshRoot(c *Ctx, r *RuleResult, initName, typ string) {
	fn := c.Fn(initName)
	if !checkUnknown(c, r, fn) {
		return
	}
	E := c.Eff()
	f := E.fas[fn]
	recv := fn.Params[0]
	n := 0
	for _, b := range fn.Blocks {
		for _, in := range b.Instrs {
			st, ok := in.(*ssa.Store)
			if !ok {
				continue
			}
			fld, ok := fieldOfAddr(st.Addr, recv)
			if !ok {
				continue
			}
			pt, isPtr := st.Val.Type().Underlying().(*types.Pointer)
			if !isPtr {
				continue
			}
			nm, isNamed := pt.Elem().(*types.Named)
			if !isNamed || nm.Obj().Name() != typ {
				continue
			}
			n++
			r.inst("%s: the %s stored into %s is a fresh allocation that refers to no earlier memory", initName, typ, fld)
			bad := ""
			for l := range f.P(st.Val) {
				if l.o.root >= 0 {
					bad = "the value itself is " + E.apString(fn, f.apOf(l))
					break
				}
				for slot, ls := range l.o.content {
					for l2 := range ls {
						if l2.o.root >= 0 && l2.o.root < rFresh {
							bad = "its field " + slot + " refers to " + E.apString(fn, f.apOf(l2))
						}
					}
				}
			}
			r.oblig(bad == "")
			if bad != "" {
				r.find(initName+":new "+fld+" shares memory with the previous state", c.instrPos(st), "%s installs a %s that shares memory with the builder's previous state (%s): the previous automaton may have been handed out by Finish, and building the next one then edits it in place", initName, typ, bad)
			}
		}
	}
	if n == 0 {
		r.undecided("%s stores no *%s into the builder", initName, typ)
	}
}
