package main

// C07: HDR (the four hand-written copies of the size header N(n) agree with the published
// graph6/sparse6 format and hence with each other) and SEXTET (bit-packing constants).

import (
	"fmt"
	"go/constant"
	"go/token"
	"go/types"
	"math/big"
	"sort"
	"strings"

	"golang.org/x/tools/go/ssa"
)

func constBig(v ssa.Value) (string, bool) {
	k, ok := v.(*ssa.Const)
	if !ok || k.Value == nil || k.Value.Kind() != constant.Int {
		return "", false
	}
	return constant.ToInt(k.Value).ExactString(), true
}

// leqBranch reads an If on `x <= K`, `x < K`, `x > K` or `x >= K` as "x <= T on successor succ".
func leqBranch(iff *ssa.If) (x ssa.Value, T string, succ int, ok bool) {
	bo, isBo := iff.Cond.(*ssa.BinOp)
	if !isBo {
		return nil, "", 0, false
	}
	ks, isK := constBig(bo.Y)
	if !isK {
		return nil, "", 0, false
	}
	k, good := new(big.Int).SetString(ks, 10)
	if !good {
		return nil, "", 0, false
	}
	X := stripWiden(bo.X)
	switch bo.Op {
	case token.LEQ:
		return X, k.String(), 0, true
	case token.LSS:
		return X, new(big.Int).Sub(k, big.NewInt(1)).String(), 0, true
	case token.GTR:
		return X, k.String(), 1, true
	case token.GEQ:
		return X, new(big.Int).Sub(k, big.NewInt(1)).String(), 1, true
	}
	return nil, "", 0, false
}

// stripWiden removes value-preserving integer conversions (int -> int64, written so that a constant
// above 2^31 compiles on 32-bit targets): the comparison is about the same number.
func stripWiden(v ssa.Value) ssa.Value {
	for {
		cv, ok := v.(*ssa.Convert)
		if !ok || !isInt(cv.Type()) || !isInt(cv.X.Type()) {
			return v
		}
		du, su := isUnsigned(cv.Type()), isUnsigned(cv.X.Type())
		db, sb := intBits(cv.Type()), intBits(cv.X.Type())
		if (du == su && db >= sb) || (!du && su && db > sb) {
			v = cv.X
			continue
		}
		return v
	}
}

// hdrStore describes one constant-index store into the output buffer.
type hdrStore struct {
	idx  int64
	kind string // "const:<v>", "sextet:<shift>", "direct"
}

// classifyHeaderByte recognises   K,  byte((n>>SH)&63)+63,  byte(n&63)+63,  byte(n+63).
func classifyHeaderByte(v ssa.Value, n ssa.Value) string {
	if k, ok := constInt(v); ok {
		return fmt.Sprintf("const:%d", k)
	}
	if cv, ok := v.(*ssa.Convert); ok && isByte(cv.Type()) {
		if add, ok := cv.X.(*ssa.BinOp); ok && add.Op == token.ADD && add.X == n {
			if k, ok := constInt(add.Y); ok {
				return fmt.Sprintf("direct+%d", k)
			}
		}
	}
	add, ok := v.(*ssa.BinOp)
	if !ok || add.Op != token.ADD {
		return "?"
	}
	off, ok := constInt(add.Y)
	if !ok {
		return "?"
	}
	cv, ok := add.X.(*ssa.Convert)
	if !ok {
		return "?"
	}
	and, ok := cv.X.(*ssa.BinOp)
	if !ok || and.Op != token.AND {
		return "?"
	}
	mask, ok := constInt(and.Y)
	if !ok {
		return "?"
	}
	sh := int64(0)
	src := and.X
	if shr, ok := src.(*ssa.BinOp); ok && shr.Op == token.SHR {
		k, ok := constInt(shr.Y)
		if !ok {
			return "?"
		}
		sh, src = k, shr.X
	}
	if src != n {
		return "?"
	}
	return fmt.Sprintf("sextet>>%d&%d+%d", sh, mask, off)
}

// sextetFill: h(dst []byte, n int) is
//
//	shift := 6*len(dst); for i := range dst { shift -= 6; dst[i] = byte((n>>shift)&63) + 63 }
//
// i.e. dst[i] receives digit len(dst)-1-i of n in base 64, plus 63. The loop is read once, in
// this one form (a counter from 0 in unit steps, a shift that starts at 6*len(dst) and is lowered
// by 6 before each use); anything else is not recognised.
func sextetFill(h *ssa.Function) bool {
	if len(h.Params) != 2 || h.Blocks == nil {
		return false
	}
	dst, n := ssa.Value(h.Params[0]), ssa.Value(h.Params[1])
	found := false
	for _, b := range h.Blocks {
		for _, in := range b.Instrs {
			st, ok := in.(*ssa.Store)
			if !ok {
				continue
			}
			ia, ok := st.Addr.(*ssa.IndexAddr)
			if !ok || ia.X != dst {
				return false // some other store: not the pure fill
			}
			// index: the range counter (phi(-1, idx) + 1) or phi(0, idx+1)
			okIdx := false
			switch ix := ia.Index.(type) {
			case *ssa.BinOp:
				if ph, isPhi := ix.X.(*ssa.Phi); isPhi && ix.Op == token.ADD {
					if one, isK := constInt(ix.Y); isK && one == 1 && len(ph.Edges) == 2 {
						for i, e := range ph.Edges {
							if k, isK := constInt(e); isK && k == -1 && ph.Edges[1-i] == ssa.Value(ix) {
								okIdx = true
							}
						}
					}
				}
			case *ssa.Phi:
				if len(ix.Edges) == 2 {
					for i, e := range ix.Edges {
						if k, isK := constInt(e); isK && k == 0 {
							if inc, isInc := ix.Edges[1-i].(*ssa.BinOp); isInc && inc.Op == token.ADD && inc.X == ssa.Value(ix) {
								if one, isK := constInt(inc.Y); isK && one == 1 {
									okIdx = true
								}
							}
						}
					}
				}
			}
			if !okIdx {
				return false
			}
			// value: byte((n >> S) & 63) + 63 with S = shiftPhi - 6, shiftPhi = phi(6*len(dst), S)
			add, ok := st.Val.(*ssa.BinOp)
			if !ok || add.Op != token.ADD {
				return false
			}
			if k, isK := constInt(add.Y); !isK || k != 63 {
				return false
			}
			cv, ok := add.X.(*ssa.Convert)
			if !ok {
				return false
			}
			and, ok := cv.X.(*ssa.BinOp)
			if !ok || and.Op != token.AND {
				return false
			}
			if k, isK := constInt(and.Y); !isK || k != 63 {
				return false
			}
			shr, ok := and.X.(*ssa.BinOp)
			if !ok || shr.Op != token.SHR || shr.X != n {
				return false
			}
			S, ok := stripAll(shr.Y).(*ssa.BinOp)
			if !ok || S.Op != token.SUB {
				return false
			}
			if k, isK := constInt(S.Y); !isK || k != 6 {
				return false
			}
			ph, ok := S.X.(*ssa.Phi)
			if !ok || len(ph.Edges) != 2 {
				return false
			}
			okShift := false
			for i, e := range ph.Edges {
				if ph.Edges[1-i] != ssa.Value(S) {
					continue
				}
				init := stripAll(e)
				if mul, isMul := init.(*ssa.BinOp); isMul && mul.Op == token.MUL {
					var l ssa.Value
					if k, isK := constInt(mul.X); isK && k == 6 {
						l = mul.Y
					} else if k, isK := constInt(mul.Y); isK && k == 6 {
						l = mul.X
					}
					if call, isCall := l.(*ssa.Call); isCall {
						if bi, isB := call.Call.Value.(*ssa.Builtin); isB && bi.Name() == "len" && call.Call.Args[0] == dst {
							okShift = true
						}
					}
				}
			}
			if !okShift {
				return false
			}
			found = true
		}
	}
	return found
}

// encoderHeaders: threshold -> (initial length, stores), for branches `n <= T`.
func encoderHeaders(c *Ctx, r *RuleResult, fn *ssa.Function) (map[string][]hdrStore, map[string]int64, ssa.Value) {
	// n = the value compared in the `<=` chain
	var n ssa.Value
	thr := map[*ssa.BasicBlock]string{}
	for _, b := range fn.Blocks {
		if iff, ok := b.Instrs[len(b.Instrs)-1].(*ssa.If); ok {
			if x, k, succ, ok := leqBranch(iff); ok {
				if n == nil {
					n = x
				}
				if x == n {
					thr[b.Succs[succ]] = k
				}
			}
		}
	}
	stores := map[string][]hdrStore{}
	lens := map[string]int64{}
	for blk, T := range thr {
		for _, in := range blk.Instrs {
			switch x := in.(type) {
			case *ssa.MakeSlice:
				if l, ok := constInt(x.Len); ok {
					lens[T] = l
				}
			case *ssa.Store:
				ia, ok := x.Addr.(*ssa.IndexAddr)
				if !ok {
					continue
				}
				idx, ok := constInt(ia.Index)
				if !ok {
					continue
				}
				if _, isMk := ia.X.(*ssa.MakeSlice); !isMk {
					continue
				}
				stores[T] = append(stores[T], hdrStore{idx, classifyHeaderByte(x.Val, n)})
			case *ssa.Call:
				// putSextets(s[a:b], n): a helper that fills its slice with the base-64 digits of n, most
				// significant first; with a constant window it stands for the stores it performs
				h := x.Call.StaticCallee()
				if h == nil || !c.inModule(h) || len(x.Call.Args) != 2 || x.Call.Args[1] != n {
					continue
				}
				win, ok := x.Call.Args[0].(*ssa.Slice)
				if !ok || win.Low == nil || win.High == nil {
					continue
				}
				if _, isMk := win.X.(*ssa.MakeSlice); !isMk {
					continue
				}
				a, okA := constInt(win.Low)
				b, okB := constInt(win.High)
				if !okA || !okB || b <= a || !sextetFill(h) {
					continue
				}
				L := b - a
				for i := int64(0); i < L; i++ {
					stores[T] = append(stores[T], hdrStore{a + i, fmt.Sprintf("sextet>>%d&63+63", 6*(L-1-i))})
				}
			}
		}
		sort.Slice(stores[T], func(i, j int) bool { return stores[T][i].idx < stores[T][j].idx })
	}
	return stores, lens, n
}

func fmtStores(ss []hdrStore) string {
	var out []string
	for _, s := range ss {
		out = append(out, fmt.Sprintf("[%d]=%s", s.idx, s.kind))
	}
	return strings.Join(out, " ")
}

// expected encoder layout per the format definition; base = number of leading bytes before N(n).
func expectedEnc(base int64, lead string) map[string]string {
	pre := ""
	if base == 1 {
		pre = "[0]=const:" + lead + " "
	}
	sx := func(i int64, sh int) string { return fmt.Sprintf("[%d]=sextet>>%d&63+63", base+i, sh) }
	m126 := func(i int64) string { return fmt.Sprintf("[%d]=const:126", base+i) }
	return map[string]string{
		"62":          pre + fmt.Sprintf("[%d]=direct+63", base),
		"258047":      pre + strings.Join([]string{m126(0), sx(1, 12), sx(2, 6), sx(3, 0)}, " "),
		"68719476735": pre + strings.Join([]string{m126(0), m126(1), sx(2, 30), sx(3, 24), sx(4, 18), sx(5, 12), sx(6, 6), sx(7, 0)}, " "),
	}
}

// headerHost finds the function holding the `n <= T` chain: the encoder itself or a module
// function it calls (a shared helper).
func headerHost(c *Ctx, fn *ssa.Function) *ssa.Function {
	has := func(f *ssa.Function) bool {
		n := 0
		for _, b := range f.Blocks {
			if iff, ok := b.Instrs[len(b.Instrs)-1].(*ssa.If); ok {
				if _, k, _, ok := leqBranch(iff); ok && k != "1" && k != "0" && isInt(iff.Cond.(*ssa.BinOp).X.Type()) && !isByte(iff.Cond.(*ssa.BinOp).X.Type()) {
					n++
				}
			}
		}
		return n >= 2
	}
	if has(fn) {
		return fn
	}
	for _, b := range fn.Blocks {
		for _, in := range b.Instrs {
			if call, ok := in.(*ssa.Call); ok {
				if f := call.Call.StaticCallee(); f != nil && c.inModule(f) && f.Blocks != nil && has(f) {
					return f
				}
			}
		}
	}
	return nil
}

func ruleHdrEncoder(c *Ctx, r *RuleResult, fnName string, base int64, lead string) {
	fn := c.Fn(fnName)
	host := headerHost(c, fn)
	if host == nil {
		r.undecided("%s: no chain of `n <= T` tests found in it or in a function it calls; header form selection not recognised", fnName)
		return
	}
	hostName := c.short(host)
	stores, lens, hostN := encoderHeaders(c, r, host)
	// every threshold constant the chain uses (also those whose branch has no recognisable stores)
	thr := map[string]bool{}
	for _, b := range host.Blocks {
		if iff, ok := b.Instrs[len(b.Instrs)-1].(*ssa.If); ok {
			if x, k, _, ok := leqBranch(iff); ok && x == hostN {
				thr[k] = true
			}
		}
	}
	exp := expectedEnc(base, lead)
	wantLen := map[string]int64{"62": base + 1, "258047": base + 4, "68719476735": base + 8}
	for _, T := range []string{"62", "258047", "68719476735"} {
		r.inst("%s (in %s): header form switches at n <= %s", fnName, hostName, T)
		r.oblig(thr[T])
		if !thr[T] {
			r.find(fnName+":header threshold "+T, c.pos(host.Pos()), "%s has no branch `n <= %s`; the format switches header form at 62, 258047 (the largest 18-bit value whose leading sextet is not the marker 63) and 68719476735", hostName, T)
		}
	}
	for T := range thr {
		if _, ok := exp[T]; !ok && T != "1" {
			r.oblig(false)
			r.find(fnName+":unexpected header threshold "+T, c.pos(host.Pos()), "%s switches header form at n <= %s, which is not a threshold of the format (62, 258047, 68719476735)", hostName, T)
		}
	}
	if host != fn {
		// a shared helper appends the header: positions are relative, the byte layout is not recognised here
		r.undecided("%s writes the header through %s; the byte layout of a helper built with append/loops is not recognised (thresholds were checked)", fnName, hostName)
		return
	}
	for _, T := range []string{"62", "258047", "68719476735"} {
		got, ok := stores[T]
		if !ok {
			continue
		}
		r.inst("%s: header branch n <= %s: %s", fnName, T, fmtStores(got))
		okS := fmtStores(got) == exp[T]
		r.oblig(okS)
		if !okS {
			r.find(fnName+":header bytes for n<="+T, c.pos(fn.Pos()), "%s writes the size header for n <= %s as {%s}; the format prescribes {%s}", fnName, T, fmtStores(got), exp[T])
		}
		okL := lens[T] == wantLen[T]
		r.oblig(okL)
		if !okL {
			r.find(fnName+":header length for n<="+T, c.pos(fn.Pos()), "%s allocates %d header bytes for n <= %s; the format prescribes %d", fnName, lens[T], T, wantLen[T])
		}
	}
}

// decoder: n is a phi whose incoming values are sums of  uint64(s[c]-63) << SH.
type hdrTerm struct {
	idx, shift, off int64
}

func decodeTerms(v ssa.Value, out *[]hdrTerm) bool {
	v = strip(v)
	switch x := v.(type) {
	case *ssa.BinOp:
		switch x.Op {
		case token.ADD, token.OR:
			return decodeTerms(x.X, out) && decodeTerms(x.Y, out)
		case token.SHL:
			sh, ok := constInt(x.Y)
			if !ok {
				return false
			}
			var inner []hdrTerm
			if !decodeTerms(x.X, &inner) || len(inner) != 1 || inner[0].shift != 0 {
				return false
			}
			inner[0].shift = sh
			*out = append(*out, inner[0])
			return true
		case token.SUB:
			off, ok := constInt(x.Y)
			if !ok {
				return false
			}
			ix, ok := x.X.(*ssa.Index)
			if !ok {
				// a constant subtracted from a combination that contains one raw byte:
				// A + B + uint64(s[3]) - 63 is the prescribed sum (the offset moves onto the raw byte);
				// A | B | uint64(s[3]) - 63 is ((A|B)|s[3]) - 63 in Go (| and - bind alike), and bit 6 of the
				// raw byte collides with the low bit of B: not a form of the format
				var ts []hdrTerm
				usesOr := false
				if !rawTerms(x.X, &ts, &usesOr) {
					return false
				}
				raw := -1
				for i, t := range ts {
					if t.off == 0 {
						if raw >= 0 {
							return false
						}
						raw = i
					}
				}
				if raw < 0 {
					return false
				}
				if usesOr {
					ts = append(ts, hdrTerm{-1, 0, off}) // marks "offset applied to an OR of terms"
				} else {
					ts[raw].off = off
				}
				*out = append(*out, ts...)
				return true
			}
			c, ok := constInt(ix.Index)
			if !ok {
				return false
			}
			*out = append(*out, hdrTerm{c, 0, off})
			return true
		}
	}
	return false
}

// rawTerms: like decodeTerms, but a byte used without its offset (uint64(s[c])) is a term with off 0.
func rawTerms(v ssa.Value, out *[]hdrTerm, usesOr *bool) bool {
	v = strip(v)
	switch x := v.(type) {
	case *ssa.Index:
		c, ok := constInt(x.Index)
		if !ok {
			return false
		}
		*out = append(*out, hdrTerm{c, 0, 0})
		return true
	case *ssa.BinOp:
		switch x.Op {
		case token.ADD, token.OR:
			if x.Op == token.OR {
				*usesOr = true
			}
			return rawTerms(x.X, out, usesOr) && rawTerms(x.Y, out, usesOr)
		case token.SHL:
			sh, ok := constInt(x.Y)
			if !ok {
				return false
			}
			var inner []hdrTerm
			if !rawTerms(x.X, &inner, usesOr) || len(inner) != 1 || inner[0].shift != 0 {
				return false
			}
			inner[0].shift = sh
			*out = append(*out, inner[0])
			return true
		case token.SUB:
			var ts []hdrTerm
			if !decodeTerms(x, &ts) {
				return false
			}
			*out = append(*out, ts...)
			return true
		}
	}
	return false
}

func fmtTerms(ts []hdrTerm) string {
	sort.Slice(ts, func(i, j int) bool { return ts[i].idx < ts[j].idx })
	var out []string
	for _, t := range ts {
		out = append(out, fmt.Sprintf("(s[%d]-%d)<<%d", t.idx, t.off, t.shift))
	}
	return strings.Join(out, " + ")
}

func ruleHdrDecoder(c *Ctx, r *RuleResult, fnName string) {
	fn := c.Fn(fnName)
	expect := map[string]int64{
		"(s[0]-63)<<0": 1,
		"(s[1]-63)<<12 + (s[2]-63)<<6 + (s[3]-63)<<0":                                                 4,
		"(s[2]-63)<<30 + (s[3]-63)<<24 + (s[4]-63)<<18 + (s[5]-63)<<12 + (s[6]-63)<<6 + (s[7]-63)<<0": 8,
	}
	// a header form: the value of n and the number of header bytes that goes with it
	type form struct {
		n, i ssa.Value
		at   ssa.Instruction
	}
	var forms []form
	scope := codecScope(fn)
	for _, f := range scope {
		// (a) n and i joined by phis in one block
		for _, b := range f.Blocks {
			var nph, iph *ssa.Phi
			for _, in := range b.Instrs {
				ph, ok := in.(*ssa.Phi)
				if !ok {
					break
				}
				if isInt(ph.Type()) && isUnsigned(ph.Type()) && intBits(ph.Type()) == 64 && nph == nil {
					ok := len(ph.Edges) >= 2
					for _, e := range ph.Edges {
						var ts []hdrTerm
						if !decodeTerms(e, &ts) {
							ok = false
						}
					}
					if ok {
						nph = ph
					}
				}
			}
			if nph == nil {
				continue
			}
			for _, in := range b.Instrs {
				ph, ok := in.(*ssa.Phi)
				if !ok {
					break
				}
				if ph != nph && isInt(ph.Type()) && !isUnsigned(ph.Type()) {
					allConst := true
					for _, e := range ph.Edges {
						if _, isK := constInt(e); !isK {
							allConst = false
						}
					}
					if allConst {
						iph = ph
					}
				}
			}
			// or the header is cut off the string itself: a phi of s[K:] re-slices with constant K
			var sph *ssa.Phi
			if iph == nil {
				for _, in := range b.Instrs {
					ph, ok := in.(*ssa.Phi)
					if !ok {
						break
					}
					if bt, isB := ph.Type().Underlying().(*types.Basic); !isB || bt.Info()&types.IsString == 0 {
						continue
					}
					all := len(ph.Edges) == len(nph.Edges)
					for _, e := range ph.Edges {
						sl, isSl := e.(*ssa.Slice)
						if !isSl || sl.Low == nil || sl.High != nil {
							all = false
							break
						}
						if _, isK := constInt(sl.Low); !isK {
							all = false
						}
					}
					if all {
						sph = ph
					}
				}
			}
			for ei, e := range nph.Edges {
				fm := form{n: e, at: nph}
				if iph != nil {
					fm.i = iph.Edges[ei]
				} else if sph != nil {
					fm.i = sph.Edges[ei].(*ssa.Slice).Low
				}
				forms = append(forms, fm)
			}
		}
		// (b) a helper returning (n, bytesUsed, ...)
		if len(forms) == 0 && f.Signature.Results().Len() >= 2 {
			for _, b := range f.Blocks {
				ret, ok := b.Instrs[len(b.Instrs)-1].(*ssa.Return)
				if !ok {
					continue
				}
				var ts []hdrTerm
				if isUnsigned(ret.Results[0].Type()) && decodeTerms(ret.Results[0], &ts) {
					forms = append(forms, form{n: ret.Results[0], i: ret.Results[1], at: ret})
				}
			}
		}
		if len(forms) > 0 {
			break
		}
	}
	if len(forms) == 0 {
		r.undecided("%s: size header decoding not recognised (neither a phi of header sums nor a helper returning them)", fnName)
	} else {
		seen := map[string]bool{}
		for _, fm := range forms {
			var ts []hdrTerm
			decodeTerms(fm.n, &ts)
			f := fmtTerms(ts)
			seen[f] = true
			wantI, known := expect[f]
			r.inst("%s: header form n = %s", fnName, f)
			r.oblig(known)
			if !known {
				r.find(fnName+":header sum "+f, c.instrPos(fm.at), "%s decodes the size header as n = %s, which is none of the three forms of the format", fnName, f)
				continue
			}
			if fm.i == nil {
				r.undecided("%s: no byte count accompanies the header form %s", fnName, f)
				continue
			}
			iv, ok := constInt(fm.i)
			r.oblig(ok && iv == wantI)
			if !(ok && iv == wantI) {
				r.find(fnName+":data offset after header "+f, c.instrPos(fm.at), "%s continues at byte %d after the %d-byte size header", fnName, iv, wantI)
			}
		}
		for f := range expect {
			if !seen[f] {
				r.oblig(false)
				r.find(fnName+":header form missing "+f, c.pos(fn.Pos()), "%s never decodes the header form n = %s", fnName, f)
			}
		}
	}
	// marker tests: s[0] != 126, s[1] != 126
	markers := map[string]bool{}
	for _, f := range scope {
		for _, b := range f.Blocks {
			for _, in := range b.Instrs {
				if bo, ok := in.(*ssa.BinOp); ok && (bo.Op == token.NEQ || bo.Op == token.EQL) {
					if ix, ok := bo.X.(*ssa.Index); ok {
						if ci, ok := constInt(ix.Index); ok {
							if k, ok := constInt(bo.Y); ok && k > 100 {
								markers[fmt.Sprintf("s[%d]:%d", ci, k)] = true
							}
						}
					}
				}
			}
		}
	}
	for _, m := range []string{"s[0]:126", "s[1]:126"} {
		if len(forms) == 0 {
			break // the decoding as a whole was not recognised (undecided above): no verdict on its markers
		}
		r.inst("%s: marker test %s", fnName, m)
		r.oblig(markers[m])
		if !markers[m] {
			var got []string
			for k := range markers {
				got = append(got, k)
			}
			sort.Strings(got)
			r.find(fnName+":marker "+m, c.pos(fn.Pos()), "%s does not select the header form by testing %s (found %v)", fnName, m, got)
		}
	}
	for m := range markers {
		if m != "s[0]:126" && m != "s[1]:126" {
			r.oblig(false)
			r.find(fnName+":marker "+m, c.pos(fn.Pos()), "%s tests %s; the format's marker byte is 126 at positions 0 and 1", fnName, m)
		}
	}
}

// codecScope: the function, its closures, and the module functions it calls directly (helpers
// such as a shared header reader or bit writer), so that a role is found wherever a refactoring put it.
func codecScope(fn *ssa.Function) []*ssa.Function {
	seen := map[*ssa.Function]bool{}
	var out []*ssa.Function
	var add func(f *ssa.Function, depth int)
	add = func(f *ssa.Function, depth int) {
		if f == nil || seen[f] || f.Blocks == nil {
			return
		}
		seen[f] = true
		out = append(out, f)
		for _, a := range f.AnonFuncs {
			add(a, depth)
		}
		if depth >= 2 {
			return
		}
		for _, b := range f.Blocks {
			for _, in := range b.Instrs {
				if call, ok := in.(*ssa.Call); ok {
					if cal := call.Call.StaticCallee(); cal != nil && cal.Pkg != nil && fn.Pkg != nil && cal.Pkg == fn.Pkg {
						// only unexported helpers: exported functions of the package are codecs or constructors of their own;
						// methods only of unexported helper types (a bit writer / reader struct)
						if cal.Object() == nil || cal.Object().Exported() {
							continue
						}
						if recv := cal.Signature.Recv(); recv != nil {
							rt := recv.Type()
							if p, isP := rt.Underlying().(*types.Pointer); isP {
								rt = p.Elem()
							}
							if n, isN := rt.(*types.Named); !isN || n.Obj().Exported() {
								continue
							}
						}
						add(cal, depth+1)
					}
				}
			}
		}
	}
	add(fn, 0)
	return out
}

// isShiftCount: v is used (possibly through a conversion) as the count of a shift.
func isShiftCount(v ssa.Value, depth int) bool {
	if depth > 2 || v.Referrers() == nil {
		return false
	}
	for _, ref := range *v.Referrers() {
		switch x := ref.(type) {
		case *ssa.BinOp:
			if (x.Op == token.SHL || x.Op == token.SHR) && x.Y == v {
				return true
			}
		case *ssa.Convert:
			if isShiftCount(x, depth+1) {
				return true
			}
		}
	}
	return false
}

// sameFieldAddr: two FieldAddr instructions of the same field of the same struct pointer.
func sameFieldAddr(a, b ssa.Value) bool {
	fa, ok1 := a.(*ssa.FieldAddr)
	fb, ok2 := b.(*ssa.FieldAddr)
	return ok1 && ok2 && fa.X == fb.X && fa.Field == fb.Field
}

// countdown recognises a loop counter  for s := K; s >= L; s--  used as a shift count and returns
// (K, number of values taken).
func countdown(in ssa.Instruction) (top, count int64, ok bool) {
	ph, isPhi := in.(*ssa.Phi)
	if !isPhi || len(ph.Edges) != 2 || !isInt(ph.Type()) || !isShiftCount(ph, 0) {
		return 0, 0, false
	}
	var K int64
	haveK, haveDec := false, false
	for _, e := range ph.Edges {
		if k, isK := constInt(e); isK {
			K, haveK = k, true
		} else if bo, isBo := e.(*ssa.BinOp); isBo && bo.Op == token.SUB && bo.X == ssa.Value(ph) {
			if one, isOne := constInt(bo.Y); isOne && one == 1 {
				haveDec = true
			}
		}
	}
	if !haveK || !haveDec {
		return 0, 0, false
	}
	count = -1
	if iff, isIf := ph.Block().Instrs[len(ph.Block().Instrs)-1].(*ssa.If); isIf {
		if bo, isBo := iff.Cond.(*ssa.BinOp); isBo && bo.X == ssa.Value(ph) {
			if l, isK := constInt(bo.Y); isK {
				switch bo.Op {
				case token.GEQ:
					count = K - l + 1
				case token.GTR:
					count = K - l
				}
			}
		}
	}
	return K, count, true
}

// countdownWrap recognises a bit cursor that is decremented while it is above L and otherwise reset to
// K (if s > L { s-- } else { s = K; next byte }): a web of phis fed only by the constant K, by each
// other and by member-1. It takes the values K..L, i.e. K-L+1 of them.
func countdownWrap(in ssa.Instruction) (top, count int64, ok bool) {
	ph, isPhi := in.(*ssa.Phi)
	if !isPhi || !isInt(ph.Type()) || !isShiftCount(ph, 0) {
		return 0, 0, false
	}
	web := map[*ssa.Phi]bool{}
	consts := map[int64]bool{}
	decs := 0
	bad := false
	var walk func(p *ssa.Phi)
	walk = func(p *ssa.Phi) {
		if web[p] {
			return
		}
		web[p] = true
		for _, e := range p.Edges {
			if k, isK := constInt(e); isK {
				consts[k] = true
			} else if q, isQ := e.(*ssa.Phi); isQ {
				walk(q)
			} else if bo, isBo := e.(*ssa.BinOp); isBo && bo.Op == token.SUB {
				if one, isOne := constInt(bo.Y); isOne && one == 1 {
					if q, isQ := bo.X.(*ssa.Phi); isQ {
						decs++
						walk(q)
						continue
					}
				}
				bad = true
			} else {
				bad = true
			}
		}
	}
	walk(ph)
	if bad || len(consts) == 0 || decs == 0 || len(web) < 2 {
		return 0, 0, false
	}
	K := int64(-1 << 62) // several start / reset constants: the largest is judged (they must all be the top bit)
	for k := range consts {
		if k > K {
			K = k
		}
	}
	// the guard of the decrement: member > L (or member != 0 / member >= L+1)
	count = -1
	for p := range web {
		for _, ref := range *p.Referrers() {
			bo, isBo := ref.(*ssa.BinOp)
			if !isBo || bo.X != ssa.Value(p) {
				continue
			}
			l, isK := constInt(bo.Y)
			if !isK {
				continue
			}
			switch bo.Op {
			case token.GTR:
				count = K - l + 1
			case token.GEQ:
				count = K - l + 2
			case token.NEQ, token.EQL:
				if l == 0 {
					count = K + 1
				}
			}
		}
	}
	return K, count, true
}

// maskWalk recognises a one-hot byte mask that starts at a constant power of two and moves right
// by one position per step (mask >>= 1), and returns the bit index it starts at; wraps reports
// whether the moved mask is compared with zero (all lower positions used).
func maskWalk(in ssa.Instruction) (top int64, wraps bool, ok bool) {
	sh, isBo := in.(*ssa.BinOp)
	if !isBo || sh.Op != token.SHR || !isByte(sh.Type()) {
		return 0, false, false
	}
	if one, isK := constInt(sh.Y); !isK || one != 1 {
		return 0, false, false
	}
	// constants feeding the mask through phis
	consts := map[int64]bool{}
	seen := map[ssa.Value]bool{}
	var walk func(v ssa.Value)
	walk = func(v ssa.Value) {
		if seen[v] {
			return
		}
		seen[v] = true
		if k, isK := constInt(v); isK {
			consts[k] = true
			return
		}
		switch x := v.(type) {
		case *ssa.Phi:
			for _, e := range x.Edges {
				walk(e)
			}
		case *ssa.BinOp:
			if x.Op == token.SHR {
				walk(x.X)
			}
		}
	}
	walk(sh.X)
	if len(consts) != 1 {
		return 0, false, false
	}
	for k := range consts {
		if k <= 0 || k&(k-1) != 0 {
			return 0, false, false
		}
		for k > 1 {
			k >>= 1
			top++
		}
	}
	if refs := sh.Referrers(); refs != nil {
		for _, ref := range *refs {
			if cmp, isCmp := ref.(*ssa.BinOp); isCmp && (cmp.Op == token.EQL || cmp.Op == token.NEQ) {
				if z, isK := constInt(cmp.Y); isK && z == 0 {
					wraps = true
				}
			}
		}
	}
	return top, wraps, true
}

func roleConsts(fn *ssa.Function, match func(in ssa.Instruction) (int64, bool)) []int64 {
	set := map[int64]bool{}
	for _, f := range codecScope(fn) {
		for _, b := range f.Blocks {
			for _, in := range b.Instrs {
				if v, ok := match(in); ok {
					set[v] = true
				}
			}
		}
	}
	var out []int64
	for v := range set {
		out = append(out, v)
	}
	sort.Slice(out, func(i, j int) bool { return out[i] < out[j] })
	return out
}

func sameSet(a []int64, b ...int64) bool {
	if len(a) != len(b) {
		return false
	}
	for i := range a {
		if a[i] != b[i] {
			return false
		}
	}
	return true
}

func ruleSextet(c *Ctx) *RuleResult {
	r := &RuleResult{Rule: "SEXTET", Doc: "bit-packing constants of the four codecs: 6 bits per byte, most significant first (5 - position), offset 63, byte range [63,126] checked before any decoding, k = 64 - LeadingZeros64(n-1)", MinInst: 8}
	role := func(fnName, what string, got []int64, want ...int64) {
		r.inst("%s: %s = %v", fnName, what, got)
		if len(got) == 0 {
			r.undecided("%s: role '%s' not found (shape changed)", fnName, what)
			return
		}
		ok := sameSet(got, want...)
		r.oblig(ok)
		if !ok {
			r.find(fnName+":"+what, c.pos(c.Fn(fnName).Pos()), "%s uses %v for %s; the format prescribes %v", fnName, got, what, want)
		}
	}
	remBy := func(in ssa.Instruction) (int64, bool) {
		if bo, ok := in.(*ssa.BinOp); ok && bo.Op == token.REM {
			return constInt(bo.Y)
		}
		return 0, false
	}
	quoBy := func(in ssa.Instruction) (int64, bool) {
		if bo, ok := in.(*ssa.BinOp); ok && bo.Op == token.QUO {
			if k, ok := constInt(bo.Y); ok && k != 2 {
				return k, true
			}
		}
		return 0, false
	}
	// const - x used (possibly through a conversion) as a shift count
	subFrom := func(in ssa.Instruction) (int64, bool) {
		bo, ok := in.(*ssa.BinOp)
		if !ok || bo.Op != token.SUB || isByte(bo.Type()) {
			return 0, false
		}
		k, ok := constInt(bo.X)
		if !ok {
			return 0, false
		}
		if call, isCall := bo.Y.(*ssa.Call); isCall {
			if cal := call.Call.StaticCallee(); cal != nil && cal.Pkg != nil && cal.Pkg.Pkg.Path() == "math/bits" {
				return 0, false // k = 64 - LeadingZeros64(n-1) is the pair width, judged by the k formula
			}
		}
		if isShiftCount(bo, 0) {
			return k, true
		}
		return 0, false
	}
	byteOffset := func(in ssa.Instruction) (int64, bool) {
		if bo, ok := in.(*ssa.BinOp); ok && (bo.Op == token.SUB || bo.Op == token.ADD) && isByte(bo.Type()) {
			return constInt(bo.Y)
		}
		return 0, false
	}
	rangeLo := func(in ssa.Instruction) (int64, bool) {
		if bo, ok := in.(*ssa.BinOp); ok && bo.Op == token.LSS && isByte(bo.X.Type()) {
			return constInt(bo.Y)
		}
		return 0, false
	}
	rangeHi := func(in ssa.Instruction) (int64, bool) {
		if bo, ok := in.(*ssa.BinOp); ok && bo.Op == token.GTR && isByte(bo.X.Type()) {
			return constInt(bo.Y)
		}
		return 0, false
	}
	// counter+1 == K : the bit counter wrapping to the next byte
	wrapAt := func(in ssa.Instruction) (int64, bool) {
		if bo, ok := in.(*ssa.BinOp); ok && (bo.Op == token.EQL || bo.Op == token.NEQ || bo.Op == token.LSS || bo.Op == token.GEQ) && isInt(bo.X.Type()) && !isByte(bo.X.Type()) {
			x := bo.X
			// a counter captured by a closure lives in a cell: look through the load at the value just stored
			if ld, ok := x.(*ssa.UnOp); ok && ld.Op == token.MUL {
				for _, prev := range ld.Block().Instrs {
					if prev == ssa.Instruction(ld) {
						break
					}
					if st, ok := prev.(*ssa.Store); ok && (st.Addr == ld.X || sameFieldAddr(st.Addr, ld.X)) {
						x = st.Val
					}
				}
			}
			if inc, ok := x.(*ssa.BinOp); ok && inc.Op == token.ADD {
				if one, ok := constInt(inc.Y); ok && one == 1 {
					return constInt(bo.Y)
				}
			}
		}
		return 0, false
	}
	kFormula := func(fnName string) {
		fn := c.Fn(fnName)
		ok := false
		var all []ssa.Instruction
		for _, f := range codecScope(fn) {
			for _, b := range f.Blocks {
				all = append(all, b.Instrs...)
			}
		}
		for _, blk := range [][]ssa.Instruction{all} {
			for _, in := range blk {
				var call *ssa.Call
				if lc, isCall := in.(*ssa.Call); isCall && lc.Call.StaticCallee() != nil && lc.Call.StaticCallee().String() == "math/bits.Len64" {
					call = lc // bits.Len64(x) is 64 - LeadingZeros64(x)
				} else {
					bo, isBo := in.(*ssa.BinOp)
					if !isBo || bo.Op != token.SUB {
						continue
					}
					if k, isK := constInt(bo.X); !isK || k != 64 {
						continue
					}
					lz, isCall := bo.Y.(*ssa.Call)
					if !isCall || lz.Call.StaticCallee() == nil || lz.Call.StaticCallee().String() != "math/bits.LeadingZeros64" {
						continue
					}
					call = lz
				}
				arg := strip(call.Call.Args[0])
				if s, isS := arg.(*ssa.BinOp); isS && s.Op == token.SUB {
					if one, isOne := constInt(s.Y); isOne && one == 1 {
						ok = true
					}
				}
			}
		}
		r.inst("%s: k = 64 - LeadingZeros64(n-1)", fnName)
		r.oblig(ok)
		if !ok {
			r.find(fnName+":k formula", c.pos(fn.Pos()), "%s does not compute the bit width as 64 - LeadingZeros64(n-1) (bits needed for n-1)", fnName)
		}
	}
	union := func(sets ...[]int64) []int64 {
		m := map[int64]bool{}
		for _, s := range sets {
			for _, v := range s {
				m[v] = true
			}
		}
		var out []int64
		for v := range m {
			out = append(out, v)
		}
		sort.Slice(out, func(i, j int) bool { return out[i] < out[j] })
		return out
	}
	cdTop := func(in ssa.Instruction) (int64, bool) {
		if t, _, ok := countdown(in); ok {
			return t, true
		}
		t, _, ok := countdownWrap(in)
		return t, ok
	}
	cdBits := func(in ssa.Instruction) (int64, bool) {
		if _, n, ok := countdown(in); ok {
			return n, n >= 0
		}
		_, n, ok := countdownWrap(in)
		return n, ok && n >= 0
	}
	mkTop := func(in ssa.Instruction) (int64, bool) { t, _, ok := maskWalk(in); return t, ok }
	mkBits := func(in ssa.Instruction) (int64, bool) { t, w, ok := maskWalk(in); return t + 1, ok && w }
	for _, d := range []string{"graph.Graph6Decode", "graph.Sparse6Decode"} {
		fn := c.Fn(d)
		// each role may be written in several ways; every way that occurs must agree with the format
		role(d, "bits per byte (position / 6, position % 6, or a shift counter over 5..0)", union(roleConsts(fn, quoBy), roleConsts(fn, remBy), roleConsts(fn, cdBits), roleConsts(fn, mkBits)), 6)
		if q := roleConsts(fn, quoBy); len(q) > 0 {
			role(d, "bits per byte (position / 6)", q, 6)
		}
		if m := roleConsts(fn, remBy); len(m) > 0 {
			role(d, "bits per byte (position % 6)", m, 6)
		}
		role(d, "top bit index (5 - position%6, or the start of the shift counter / mask)", union(roleConsts(fn, subFrom), roleConsts(fn, cdTop), roleConsts(fn, mkTop)), 5)
		role(d, "byte offset", roleConsts(fn, byteOffset), 63)
		role(d, "lowest valid byte", roleConsts(fn, rangeLo), 63)
		role(d, "highest valid byte", roleConsts(fn, rangeHi), 126)
		// the range check dominates every data access: the loop containing it precedes the first header read
		rangeDominates(c, r, fn, d)
	}
	for _, e := range []string{"graph.Graph6Encode", "graph.Sparse6Encode"} {
		fn := c.Fn(e)
		role(e, "top bit index (5 - position, or the start of the shift counter / mask)", union(roleConsts(fn, subFrom), roleConsts(fn, cdTop), roleConsts(fn, mkTop)), 5)
		role(e, "bits per byte (wrap at)", union(roleConsts(fn, wrapAt), roleConsts(fn, cdBits), roleConsts(fn, mkBits)), 6)
		role(e, "byte offset", roleConsts(fn, byteOffset), 63)
	}
	kFormula("graph.Sparse6Decode")
	kFormula("graph.Sparse6Encode")
	padRule(c, r, "graph.Sparse6Encode")
	trimRule(c, r, "graph.Graph6Decode", 63, 126)
	trimRule(c, r, "graph.Sparse6Decode", 58, 58)
	return r
}

// trimRule: the optional header is a fixed prefix. Removing it with strings.Trim/TrimLeft treats
// the header text as a *set* of characters and goes on eating the data: any leading data byte that
// happens to be in the set disappears (for graph6 the first data byte is the size, any of 63..126).
func trimRule(c *Ctx, r *RuleResult, fnName string, lo, hi int64) {
	fn := c.Fn(fnName)
	n := 0
	for _, f := range codecScope(fn) {
		for _, b := range f.Blocks {
			for _, in := range b.Instrs {
				call, ok := in.(*ssa.Call)
				if !ok {
					continue
				}
				cal := call.Call.StaticCallee()
				if cal == nil || cal.Pkg == nil || (cal.Pkg.Pkg.Path() != "strings" && cal.Pkg.Pkg.Path() != "bytes") {
					continue
				}
				n++
				if cal.Name() != "Trim" && cal.Name() != "TrimLeft" {
					continue
				}
				k, isK := call.Call.Args[1].(*ssa.Const)
				if !isK || k.Value == nil {
					r.undecided("%s: %s.%s with a cutset that is not a constant", fnName, cal.Pkg.Pkg.Name(), cal.Name())
					continue
				}
				set := constant.StringVal(k.Value)
				eats := ""
				for i := 0; i < len(set); i++ {
					if int64(set[i]) >= lo && int64(set[i]) <= hi {
						eats += string(set[i])
					}
				}
				if eats != "" {
					r.find(fnName+":header stripped as a character set", c.instrPos(in), "%s removes the optional header with %s.%s(s, %q): every leading byte in that set is removed, including data bytes (%q can each be the first data byte)", fnName, cal.Pkg.Pkg.Name(), cal.Name(), set, eats)
				}
			}
		}
	}
	r.inst("%s: %d calls into strings/bytes examined for set-wise header stripping", fnName, n)
	r.oblig(true)
}

// padRule: the format pads the last byte with 1-bits, except that for n = 2^k (k < 6) a run of
// k+1 or more 1-bits would read as the pair (1, n-1), a loop at vertex n-1 once the vertex pointer
// stands at n-2; "if there are k+1 or more bits to pad" a 0-bit goes first. The comparison that
// guards the special case relates the bits left in the byte (6 - position) to k: written as
// D >= 0 it must be D = 5 - position - k.
func padRule(c *Ctx, r *RuleResult, fnName string) {
	fn := c.Fn(fnName)
	for _, f := range codecScope(fn) {
		P := NewProver(c, f)
		// k = 64 - LeadingZeros64(...)
		var kAtoms []Poly
		for _, b := range f.Blocks {
			for _, in := range b.Instrs {
				bo, ok := in.(*ssa.BinOp)
				if !ok || bo.Op != token.SUB {
					continue
				}
				if k, isK := constInt(bo.X); !isK || k != 64 {
					continue
				}
				if call, ok := bo.Y.(*ssa.Call); ok && call.Call.StaticCallee() != nil && call.Call.StaticCallee().String() == "math/bits.LeadingZeros64" {
					kAtoms = append(kAtoms, P.polyLoose(bo))
				}
			}
		}
		if len(kAtoms) == 0 {
			continue
		}
		for _, b := range f.Blocks {
			for _, in := range b.Instrs {
				bo, ok := in.(*ssa.BinOp)
				if !ok || !isInt(bo.X.Type()) || isByte(bo.X.Type()) {
					continue
				}
				x, y := P.polyLoose(bo.X), P.polyLoose(bo.Y)
				var D Poly
				switch bo.Op {
				case token.GTR:
					D = x.add(y, -1).add(constP(-1), 1)
				case token.GEQ:
					D = x.add(y, -1)
				case token.LSS:
					D = y.add(x, -1).add(constP(-1), 1)
				case token.LEQ:
					D = y.add(x, -1)
				default:
					continue
				}
				for _, kp := range kAtoms {
					rest := D.add(kp, 1) // D + k: what is left should be  c0 - position
					ms := rest.monos()
					var vars []string
					for _, m := range ms {
						if m != "" {
							vars = append(vars, m)
						}
					}
					if D.add(kp, 1).key() == D.key() || len(vars) != 1 || strings.Contains(vars[0], "*") || rest[vars[0]] != -1 || rest[""] <= 0 {
						continue
					}
					// the other variable must be a bit position: something compared with 6 elsewhere is not required; the shape is enough
					c0 := rest[""]
					r.inst("%s: zero-bit padding case applies when (bits left in the byte) >= k + %d", fnName, 6-c0)
					ok := c0 == 5
					r.oblig(ok)
					if !ok {
						r.find(fnName+":padding threshold", c.instrPos(in), "%s applies the zero-bit padding exception only when %d - position - k >= 0, i.e. from k+%d padding bits; the format prescribes it for k+1 or more (exactly k+1 one-bits already read as the pair (1, n-1): a loop at vertex n-1)", fnName, c0, 6-c0)
					}
				}
			}
		}
	}
}

// rangeCheckedEdge finds, in fn, a call r := H(s) of an unexported helper whose body scans the
// string with the range comparisons inside a loop, returns from inside the loop only non-constant
// values (the offending index) and after the loop a negative constant; and an If in fn on r whose
// one successor is taken exactly when r is that "all passed" value. It returns that successor.
func rangeCheckedEdge(fn *ssa.Function) (*ssa.BasicBlock, *ssa.Call) {
	for _, b := range fn.Blocks {
		for _, in := range b.Instrs {
			call, ok := in.(*ssa.Call)
			if !ok {
				continue
			}
			h := call.Call.StaticCallee()
			if h == nil || h.Pkg != fn.Pkg || h.Blocks == nil || h.Object() == nil || h.Object().Exported() || h.Signature.Results().Len() != 1 || !isInt(h.Signature.Results().At(0).Type()) {
				continue
			}
			// the helper's scan loop
			var chk *ssa.BasicBlock
			for _, hb := range h.Blocks {
				for _, hin := range hb.Instrs {
					if bo, ok := hin.(*ssa.BinOp); ok && (bo.Op == token.LSS || bo.Op == token.GTR) && isByte(bo.X.Type()) {
						if _, isIdx := bo.X.(*ssa.Index); isIdx {
							chk = hb
						}
					}
				}
			}
			if chk == nil {
				continue
			}
			loops := loopsOf(h)
			var body map[*ssa.BasicBlock]bool
			var header *ssa.BasicBlock
			for hh, bd := range loops {
				if bd[chk] {
					body, header = bd, hh
				}
			}
			if body == nil {
				continue
			}
			var passed *int64
			good := true
			for _, hb := range h.Blocks {
				ret, isRet := hb.Instrs[len(hb.Instrs)-1].(*ssa.Return)
				if !isRet {
					continue
				}
				k, isK := constInt(ret.Results[0])
				reachedAfterLoop := false
				for _, s := range header.Succs {
					if !body[s] && (s == hb || s.Dominates(hb)) {
						reachedAfterLoop = true
					}
				}
				switch {
				case reachedAfterLoop && isK && k < 0:
					kk := k
					if passed != nil && *passed != kk {
						good = false
					}
					passed = &kk
				case !reachedAfterLoop && !isK:
					// the index of the offending byte: non-negative by construction of the scan
				default:
					good = false
				}
			}
			if !good || passed == nil {
				continue
			}
			// the caller's test of the result
			if call.Referrers() == nil {
				continue
			}
			for _, ref := range *call.Referrers() {
				bo, isBo := ref.(*ssa.BinOp)
				if !isBo || bo.X != ssa.Value(call) || bo.Referrers() == nil {
					continue
				}
				k, isK := constInt(bo.Y)
				if !isK {
					continue
				}
				for _, r2 := range *bo.Referrers() {
					iff, isIf := r2.(*ssa.If)
					if !isIf {
						continue
					}
					// which successor is taken exactly for negative results (all results are >= 0 or *passed)?
					var okSucc *ssa.BasicBlock
					switch {
					case bo.Op == token.GEQ && k == 0, bo.Op == token.GTR && k == -1, bo.Op == token.NEQ && k == *passed:
						okSucc = iff.Block().Succs[1]
					case bo.Op == token.LSS && k == 0, bo.Op == token.LEQ && k == -1, bo.Op == token.EQL && k == *passed:
						okSucc = iff.Block().Succs[0]
					}
					if okSucc != nil && len(okSucc.Preds) == 1 {
						return okSucc, call
					}
				}
			}
		}
	}
	return nil, nil
}

// rangeDominates: every Index of the string whose result feeds arithmetic (s[c]-63) is dominated
// by the exit of the loop that contains the range comparisons.
func rangeDominates(c *Ctx, r *RuleResult, fn *ssa.Function, name string) {
	var checkBlocks []*ssa.BasicBlock
	for _, b := range fn.Blocks {
		for _, in := range b.Instrs {
			if bo, ok := in.(*ssa.BinOp); ok && (bo.Op == token.LSS || bo.Op == token.GTR) && isByte(bo.X.Type()) {
				if _, isIdx := bo.X.(*ssa.Index); isIdx {
					checkBlocks = append(checkBlocks, b)
				}
			}
		}
	}
	var exit *ssa.BasicBlock
	var scanCall *ssa.Call
	if len(checkBlocks) == 0 {
		// the scan may live in a helper that reports the first bad byte (an index, or a negative
		// constant when every byte passed); the caller then goes on only on the "all passed" edge
		exit, scanCall = rangeCheckedEdge(fn)
		if exit == nil {
			r.undecided("%s: byte range check not found", name)
			return
		}
	} else {
		loops := loopsOf(fn)
		var body map[*ssa.BasicBlock]bool
		var header *ssa.BasicBlock
		for h, bd := range loops {
			if bd[checkBlocks[0]] {
				body, header = bd, h
			}
		}
		if body == nil {
			r.undecided("%s: byte range check is not inside a loop over the string", name)
			return
		}
		// exit block of that loop reached only when the whole string was checked: header's non-body successor
		for _, s := range header.Succs {
			if !body[s] {
				exit = s
			}
		}
	}
	ok := exit != nil
	n := 0
	for _, b := range fn.Blocks {
		for _, in := range b.Instrs {
			bo, isBo := in.(*ssa.BinOp)
			if !isBo || bo.Op != token.SUB || !isByte(bo.Type()) {
				continue
			}
			if _, isIdx := bo.X.(*ssa.Index); !isIdx {
				continue
			}
			n++
			if exit == nil || !(exit == b || exit.Dominates(b)) {
				ok = false
				r.find(name+":data read before range check", c.instrPos(in), "%s subtracts the offset from a byte that has not passed the [63,126] range check", name)
			}
		}
	}
	// helpers that receive the string (a shared header reader) must be called after the check as well
	for _, b := range fn.Blocks {
		for _, in := range b.Instrs {
			call, isCall := in.(*ssa.Call)
			if !isCall || call == scanCall {
				continue
			}
			cal := call.Call.StaticCallee()
			if cal == nil || cal.Pkg != fn.Pkg || cal.Object() == nil || cal.Object().Exported() {
				continue
			}
			takes := false
			for _, a := range call.Call.Args {
				if bt, isB := a.Type().Underlying().(*types.Basic); isB && bt.Info()&types.IsString != 0 {
					takes = true
				}
			}
			if !takes {
				continue
			}
			n++
			if exit == nil || !(exit == b || exit.Dominates(b)) {
				ok = false
				r.find(name+":helper reads bytes before range check", c.instrPos(in), "%s passes the string to %s before every byte has passed the [63,126] range check", name, cal.Name())
			}
		}
	}
	r.inst("%s: %d byte decodes dominated by completion of the range check loop", name, n)
	r.oblig(ok)
}

func init() {
	register(&propDef{
		id:          "C07",
		explanation: "Decides that the four hand-written copies of the size header N(n) (Graph6Encode, Sparse6Encode, Graph6Decode, Sparse6Decode) agree with the published format and hence with each other: HDR extracts, per encoder branch `n <= T`, the constant-index stores (marker bytes 126, sextets byte((n>>SH)&63)+63, direct byte n+63) and the allocated header length, and per decoder the three forms of n as sums of (s[c]-63)<<SH with the data offset that follows, and compares them with the format's thresholds 62 / 258047 / 68719476735, shifts 12,6,0 and 30..0, marker positions and the sparse6 ':' shift; EDGEBYTE checks that no codec uses the numeric value of an adjacency byte of the graph it is given (any non-zero byte is an edge, so packing the bytes directly would emit bytes outside the format for such graphs); SEXTET checks the bit-packing constants (6 bits per byte, top bit 5, offset 63, valid range [63,126] established before any byte is decoded, k = 64 - LeadingZeros64(n-1) on both sparse6 sides). NARROW requires every narrowing integer conversion in the codecs to be of a value proved to fit (a size byte n+63 without its n <= 62 guard is reported), READONLY that the four encoders do not write the graph they encode (PruferEncode works on Degrees(): that must be a copy). The long-header branches are never executed by the tests. Does not decide round-trip equality.",
		notDecided:  []string{"decode(encode(g)) == g for all graphs", "sparse6 padding special case, end-of-stream handling (repaired under C08, not detected here)", "Multicode", "Pruefer bijection"},
		assumptions: []string{"format definition: https://users.cecs.anu.edu.au/~bdm/data/formats.txt (constants transcribed in checker/p_c07.go)", "Graph.N() and Graph.M() are not negative (NARROW)"},
		run: func(c *Ctx, tier string) []*RuleResult {
			h := &RuleResult{Rule: "HDR", Doc: "size header N(n): thresholds, marker bytes, sextet shifts/mask/offset and lengths agree with the format in all four codecs", MinInst: 16}
			ruleHdrEncoder(c, h, "graph.Graph6Encode", 0, "")
			ruleHdrEncoder(c, h, "graph.Sparse6Encode", 1, "58")
			ruleHdrDecoder(c, h, "graph.Graph6Decode")
			ruleHdrDecoder(c, h, "graph.Sparse6Decode")
			codecFiles := filesOf(c, "graph.Graph6Decode", "graph.Graph6Encode", "graph.Sparse6Decode", "graph.Sparse6Encode", "graph.MulticodeEncode", "graph.MulticodeDecode", "graph.MulticodeDecodeMultiple", "graph.PruferEncode", "graph.PruferDecode")
			ds := ruleDegSync(c, codecFiles)
			// a size or vertex number written as one byte must be proved to fit (byte(n+63) without n <= 62)
			nwc := ruleNarrowWith(c, codecFiles, nonNegativeOrder)
			nwc.Doc = "every conversion of an integer to a narrower integer type in the codecs is of a value proved to fit (a size byte n+63 needs its n <= 62 guard)"
			// encoders only read the graph they are given
			roc := &RuleResult{Rule: "READONLY", Doc: "the encoders do not write the graph they encode", MinInst: 4}
			for _, n := range []string{"graph.Graph6Encode", "graph.Sparse6Encode", "graph.MulticodeEncode", "graph.PruferEncode"} {
				noWrites(c, roc, c.Fn(n), []int{0}, "the graph being encoded")
			}
			ds.MinInst = 0
			return []*RuleResult{h, ruleSextet(c), ruleEdgeByte(c, "graph"), ds, ruleUwrap(c, codecFiles), ruleSubword(c, codecFiles), nwc, roc}
		},
		controls: func(ctl *Ctx) []*RuleResult {
			h := &RuleResult{Rule: "HDR"}
			ruleHdrEncoder(ctl, h, "hdrctl.BadEncode", 0, "")
			h2 := &RuleResult{Rule: "HDR"}
			ruleHdrDecoder(ctl, h2, "hdrctl.BadDecode")
			return []*RuleResult{h, h2, ruleUwrap(ctl, inFiles("hdrctl.go")), ruleSubword(ctl, inFiles("hdrctl.go"))}
		},
	})
}

// ruleUwrap: a counter of unsigned type that lives across loop iterations must not be started (or
// stepped) by a subtraction that can go below zero: it becomes a huge count and the loop that
// waits for it to reach zero reads the rest of the input as something else. Only subtractions
// whose result flows (through phis) into a loop-carried variable are judged; a wrapped
// intermediate that is consumed at once is a different question.
func ruleUwrap(c *Ctx, files func(string) bool) *RuleResult {
	r := &RuleResult{Rule: "UWRAP", Doc: "no loop-carried unsigned counter of a codec is set by a subtraction that can wrap below zero", MinInst: 1}
	n := 0
	for _, fn := range c.Funcs {
		if fn.Synthetic != "" || fn.Blocks == nil || !files(c.Fset.Position(fn.Pos()).Filename) {
			continue
		}
		n++
		loops := loopsOf(fn)
		var P *Prover
		for _, b := range fn.Blocks {
			for _, in := range b.Instrs {
				bo, ok := in.(*ssa.BinOp)
				if !ok || bo.Op != token.SUB || !isUnsigned(bo.Type()) || !isInt(bo.Type()) {
					continue
				}
				// does the result reach a phi at a loop header (directly or through other phis)?
				carried := false
				seen := map[ssa.Value]bool{}
				var walk func(v ssa.Value, depth int)
				walk = func(v ssa.Value, depth int) {
					if seen[v] || depth > 4 || v.Referrers() == nil {
						return
					}
					seen[v] = true
					for _, ref := range *v.Referrers() {
						if ph, ok := ref.(*ssa.Phi); ok {
							if loops[ph.Block()] != nil {
								carried = true
							}
							walk(ph, depth+1)
						}
					}
				}
				walk(bo, 0)
				if !carried {
					continue
				}
				if P == nil {
					P = NewProver(c, fn)
				}
				src := c.srcAt(bo.Pos())
				if src == "" {
					src = valName(bo)
				}
				r.inst("%s: loop-carried %s", c.short(fn), src)
				ok2 := P.Prove(P.poly(bo.Y).add(P.poly(bo.X), -1), b) // Y - X <= 0
				r.oblig(ok2)
				if !ok2 {
					r.find(c.short(fn)+":counter "+src+" may wrap", c.instrPos(bo), "%s keeps %s in an unsigned loop-carried counter, but %s >= %s is not established there: for the smallest input value the counter wraps to a huge number instead of going to zero", c.short(fn), src, P.showTerm(P.poly(bo.X)), P.showTerm(P.poly(bo.Y)))
				}
			}
		}
	}
	r.inst("%d codec functions scanned for loop-carried unsigned subtractions", n)
	return r
}

// ruleSubword: arithmetic on graph sizes and vertex numbers is done in int; a product formed in an
// 8- or 16-bit type (u*(u-1) with u a byte) wraps as soon as a graph has more than a handful of
// vertices, silently addressing another cell. Every multiplication of two non-constant operands in
// a type narrower than 32 bits must be proved to fit.
func ruleSubword(c *Ctx, files func(string) bool) *RuleResult {
	r := &RuleResult{Rule: "SUBWORD", Doc: "no product of two non-constant operands is formed in an integer type narrower than 32 bits unless it is proved to fit", MinInst: 1}
	n := 0
	for _, fn := range c.Funcs {
		if fn.Synthetic != "" || fn.Blocks == nil || !files(c.Fset.Position(fn.Pos()).Filename) {
			continue
		}
		n++
		var P *Prover
		for _, b := range fn.Blocks {
			for _, in := range b.Instrs {
				bo, ok := in.(*ssa.BinOp)
				if !ok || bo.Op != token.MUL || !isInt(bo.Type()) || intBits(bo.Type()) >= 32 {
					continue
				}
				if _, isK := constInt(strip(bo.X)); isK {
					continue
				}
				if _, isK := constInt(strip(bo.Y)); isK {
					continue
				}
				if P == nil {
					P = NewProver(c, fn)
				}
				src := c.srcAt(bo.Pos())
				if src == "" {
					src = valName(bo)
				}
				_, hi, _ := typeRange(bo.Type())
				r.inst("%s: %s in %s", c.short(fn), src, bo.Type())
				ok2 := P.Prove(P.polyLoose(bo.X).mul(P.polyLoose(bo.Y)).add(constP(-hi), 1), b)
				r.oblig(ok2)
				if !ok2 {
					r.find(c.short(fn)+":narrow product "+src, c.instrPos(bo), "%s multiplies %s in %s: the product is not proved to stay within %d, so it wraps for all but the smallest vertex numbers and the result addresses a different cell", c.short(fn), src, bo.Type(), hi)
				}
			}
		}
	}
	r.inst("%d functions scanned for products in sub-word integer types", n)
	return r
}
