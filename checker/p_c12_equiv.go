package main

import (
	"fmt"
	"go/token"
	"go/types"
	"sort"
	"strings"

	"golang.org/x/tools/go/ssa"
)

// EQUIV (C12): minimality and exactness of the automaton rest on areEquivalent being the
// equivalence "same finality, same labels, same targets": replaceOrRegister merges two states
// whenever it answers true. The rule decides that a `true` answer is only reachable after each of
// these aspects has been compared in full. For each aspect K the function is explored under the
// hypothesis "the two nodes differ in K (and possibly elsewhere)": the control-flow edges that the
// hypothesis makes infeasible are removed and no exit that may return true may remain reachable.
//
//   - a scalar field: the "equal" edge of every comparison of t.F with u.F is infeasible;
//   - the length of a slice field: the "equal" edge of every comparison of the two lengths, and the
//     "equal" outcome of every bulk comparison (bytes.Equal / slices.Equal) of the field;
//   - the elements of a slice field: they differ at one unknown index j. The index set [0, len) must
//     be covered by *pieces*: a comparison of t.F[e] with u.F[e] at an explicit index e (a constant,
//     or len-c), a loop comparing t.F[i] with u.F[i] over a recognised contiguous index range, or a
//     bulk comparison. For each piece, "j lies in this piece" removes that piece's way of saying
//     "equal" (the equal edge, the loop's normal exit, the bulk result) and nothing that may return
//     true may remain reachable; uncovered indices are reported. Under this hypothesis the slices
//     are not empty, which decides tests such as `len(t.links)-1 < 0`.
//
// Lengths of the label and the link slices of one node are taken to be equal (every constructor
// appends to both).
type equivSpec struct {
	fn      string
	typ     string   // struct type name
	scalars []string // fields compared as scalars
	slices  []string // fields compared element-wise (all of one length per node)
	// helper mode: the function compares two of its slice parameters (indices a, b; field name "X");
	// integer parameters may stand for the common length (normalised at the call site)
	helper    *ssa.Function
	a, b      int
	paramNorm map[int]idxNorm
	depth     int
}

type idxNorm struct {
	rel bool  // relative to the length (value = len + off) or absolute (value = off)
	off int64 // offset
	ok  bool
}

func ruleEquiv(c *Ctx, r *RuleResult, spec equivSpec) {
	var fn *ssa.Function
	var t, u *ssa.Parameter
	if spec.helper != nil {
		fn = spec.helper
	} else {
		fn = c.Fn(spec.fn)
		if len(fn.Params) != 2 {
			r.undecided("%s: expected two parameters", spec.fn)
			return
		}
		t, u = fn.Params[0], fn.Params[1]
	}
	fieldLoad := func(v ssa.Value) (side int, field string) { // load of p.F for p in {t,u}
		if spec.helper != nil {
			switch stripAll(v) {
			case ssa.Value(fn.Params[spec.a]):
				return 1, "X"
			case ssa.Value(fn.Params[spec.b]):
				return 2, "X"
			}
			return 0, ""
		}
		ld, ok := v.(*ssa.UnOp)
		if !ok || ld.Op != token.MUL {
			return 0, ""
		}
		fa, ok := ld.X.(*ssa.FieldAddr)
		if !ok {
			return 0, ""
		}
		st := fa.X.Type().Underlying().(*types.Pointer).Elem().Underlying().(*types.Struct)
		switch fa.X {
		case ssa.Value(t):
			return 1, st.Field(fa.Field).Name()
		case ssa.Value(u):
			return 2, st.Field(fa.Field).Name()
		}
		return 0, ""
	}
	isSliceField := map[string]bool{}
	for _, f := range spec.slices {
		isSliceField[f] = true
	}
	var norm func(v ssa.Value, depth int) idxNorm
	norm = func(v ssa.Value, depth int) idxNorm {
		if depth > 6 {
			return idxNorm{}
		}
		switch x := v.(type) {
		case *ssa.Parameter:
			if spec.helper != nil {
				for i, p := range fn.Params {
					if p == x {
						if n, ok := spec.paramNorm[i]; ok {
							return n
						}
					}
				}
			}
		case *ssa.Const:
			if k, ok := constInt(x); ok {
				return idxNorm{off: k, ok: true}
			}
		case *ssa.Call:
			if bi, ok := x.Call.Value.(*ssa.Builtin); ok && bi.Name() == "len" {
				if s, f := fieldLoad(x.Call.Args[0]); s != 0 && isSliceField[f] {
					return idxNorm{rel: true, ok: true}
				}
			}
		case *ssa.BinOp:
			if x.Op == token.ADD || x.Op == token.SUB {
				a, b := norm(x.X, depth+1), norm(x.Y, depth+1)
				if a.ok && b.ok && !b.rel {
					if x.Op == token.ADD {
						a.off += b.off
					} else {
						a.off -= b.off
					}
					return a
				}
				if x.Op == token.ADD && a.ok && b.ok && !a.rel {
					b.off += a.off
					return b
				}
			}
		}
		return idxNorm{}
	}
	// elemPair: v1, v2 are loads of t.F[i] and u.F[i] (either order) with the same index value
	elemLoad := func(v ssa.Value) (side int, field string, idx ssa.Value) {
		ld, ok := v.(*ssa.UnOp)
		if !ok || ld.Op != token.MUL {
			return
		}
		ia, ok := ld.X.(*ssa.IndexAddr)
		if !ok {
			return
		}
		s, f := fieldLoad(ia.X)
		if s == 0 || !isSliceField[f] {
			return
		}
		return s, f, ia.Index
	}
	type edge = eqEdge
	type piece struct {
		desc  string
		call  *ssa.Call
		cuts  []edge
		lo    idxNorm // covered index range [lo, hi]
		hi    idxNorm
		whole bool
	}
	// classification of every If in the function
	scalarCuts := map[string][]edge{}
	lengthCuts := []edge{}
	elemPieces := map[string][]piece{}
	bulkFalse := map[string][]ssa.Value{} // bulk comparison results per field
	condEdges := func(b *ssa.BasicBlock, cond ssa.Value) (neg bool, core ssa.Value) {
		for {
			if un, ok := cond.(*ssa.UnOp); ok && un.Op == token.NOT {
				neg = !neg
				cond = un.X
				continue
			}
			return neg, cond
		}
	}
	// bulk comparisons: bytes.Equal / slices.Equal of the two fields, or a module helper that is handed
	// the two fields and, analysed in its turn under the same hypotheses, can only answer true when
	// they agree in every element (and, if it tests that too, in length)
	bulkFalseLen := []ssa.Value{}
	bulkMemo := map[*ssa.Call][3]interface{}{}
	bulkOf := func(x *ssa.Call) (field string, whole, lenToo, ok bool) {
		if m, done := bulkMemo[x]; done {
			return m[0].(string), m[1].(bool), m[2].(bool), m[0].(string) != ""
		}
		defer func() { bulkMemo[x] = [3]interface{}{field, whole, lenToo} }()
		f := x.Call.StaticCallee()
		if f == nil {
			return "", false, false, false
		}
		// which two arguments are the two sides of one slice field?
		ai, bi := -1, -1
		for i, a := range x.Call.Args {
			s1, f1 := fieldLoad(a)
			if s1 == 0 || !isSliceField[f1] {
				continue
			}
			for j := i + 1; j < len(x.Call.Args); j++ {
				s2, f2 := fieldLoad(x.Call.Args[j])
				if s2 != 0 && s2 != s1 && f2 == f1 {
					ai, bi, field = i, j, f1
				}
			}
		}
		if ai < 0 {
			return "", false, false, false
		}
		if (f.String() == "bytes.Equal" || f.Name() == "Equal" && f.Pkg != nil && f.Pkg.Pkg.Path() == "slices") && len(x.Call.Args) == 2 {
			return field, true, true, true
		}
		res := f.Signature.Results()
		if !c.inModule(f) || f.Blocks == nil || spec.depth >= 2 || res.Len() != 1 {
			return "", false, false, false
		}
		if bt, isB := res.At(0).Type().Underlying().(*types.Basic); !isB || bt.Kind() != types.Bool {
			return "", false, false, false
		}
		hs := equivSpec{fn: c.short(f), slices: []string{"X"}, helper: f, a: ai, b: bi, paramNorm: map[int]idxNorm{}, depth: spec.depth + 1}
		for k, a := range x.Call.Args {
			if k != ai && k != bi && isInt(a.Type()) {
				if n := norm(a, 0); n.ok {
					hs.paramNorm[k] = n
				}
			}
		}
		scratch := &RuleResult{Rule: "EQUIV"}
		ruleEquiv(c, scratch, hs)
		whole, lenToo = true, true
		for _, fd := range scratch.Findings {
			if strings.Contains(fd.Key, "length not decisive") {
				lenToo = false
			} else {
				whole = false
			}
		}
		if len(scratch.Undecided) > 0 {
			whole, lenToo = false, false
		}
		return field, whole, lenToo, whole || lenToo
	}
	for _, b := range fn.Blocks {
		for _, in := range b.Instrs {
			x, ok := in.(*ssa.Call)
			if !ok {
				continue
			}
			if f, whole, lenToo, ok := bulkOf(x); ok {
				if whole {
					bulkFalse[f] = append(bulkFalse[f], x)
					elemPieces[f] = append(elemPieces[f], piece{desc: "comparison by " + instrDesc(c, x) + " at " + c.instrPos(x), call: x, whole: true})
				}
				if lenToo {
					bulkFalseLen = append(bulkFalseLen, x)
				}
			}
		}
	}
	for _, b := range fn.Blocks {
		iff, ok := b.Instrs[len(b.Instrs)-1].(*ssa.If)
		if !ok {
			continue
		}
		neg, core := condEdges(b, iff.Cond)
		trueEdge, falseEdge := edge{b, b.Succs[0]}, edge{b, b.Succs[1]}
		if neg {
			trueEdge, falseEdge = falseEdge, trueEdge
		}
		switch x := core.(type) {
		case *ssa.BinOp:
			if x.Op != token.EQL && x.Op != token.NEQ {
				continue
			}
			eq := trueEdge
			if x.Op == token.NEQ {
				eq = falseEdge
			}
			// scalars
			s1, f1 := fieldLoad(x.X)
			s2, f2 := fieldLoad(x.Y)
			if s1 != 0 && s2 != 0 && s1 != s2 && f1 == f2 && !isSliceField[f1] {
				scalarCuts[f1] = append(scalarCuts[f1], eq)
				continue
			}
			// lengths
			n1, n2 := norm(x.X, 0), norm(x.Y, 0)
			if n1.ok && n2.ok && n1.rel && n2.rel && n1.off == n2.off {
				if c1, ok := x.X.(*ssa.Call); ok {
					if c2, ok := x.Y.(*ssa.Call); ok {
						a, _ := fieldLoad(c1.Call.Args[0])
						bb, _ := fieldLoad(c2.Call.Args[0])
						if a != 0 && bb != 0 && a != bb {
							lengthCuts = append(lengthCuts, eq)
							continue
						}
					}
				}
			}
			// elements
			e1s, e1f, e1i := elemLoad(x.X)
			e2s, e2f, e2i := elemLoad(x.Y)
			if e1s != 0 && e2s != 0 && e1s != e2s && e1f == e2f && e1i == e2i {
				if lp, ok := loopOver(fn, b, e1i, norm); ok {
					elemPieces[e1f] = append(elemPieces[e1f], piece{desc: fmt.Sprintf("loop at %s over [%s, %s]", c.instrPos(iff), fmtIdx(lp.lo), fmtIdx(lp.hi)), cuts: lp.exits, lo: lp.lo, hi: lp.hi})
				} else if n := norm(e1i, 0); n.ok {
					elemPieces[e1f] = append(elemPieces[e1f], piece{desc: fmt.Sprintf("index %s at %s", fmtIdx(n), c.instrPos(iff)), cuts: []edge{eq}, lo: n, hi: n})
				}
			}
		case *ssa.Call:
			if f, whole, lenToo, ok := bulkOf(x); ok {
				if whole {
					for i := range elemPieces[f] {
						if elemPieces[f][i].call == x {
							elemPieces[f][i].cuts = append(elemPieces[f][i].cuts, trueEdge)
						}
					}
				}
				if lenToo {
					lengthCuts = append(lengthCuts, trueEdge)
				}
			}
		}
	}
	// static infeasibility under "the slices are not empty"
	nonEmptyCuts := func() []edge {
		var out []edge
		for _, b := range fn.Blocks {
			iff, ok := b.Instrs[len(b.Instrs)-1].(*ssa.If)
			if !ok {
				continue
			}
			neg, core := condEdges(b, iff.Cond)
			bo, ok := core.(*ssa.BinOp)
			if !ok {
				continue
			}
			a, bb := norm(bo.X, 0), norm(bo.Y, 0)
			if !a.ok || !bb.ok || a.rel == bb.rel {
				continue
			}
			// normalise to  len + d  OP  0   with len >= 1
			op := bo.Op
			var d int64
			if a.rel {
				d = a.off - bb.off
			} else {
				d = bb.off - a.off
				switch op { // k OP len+..  ==  len+.. OP' k
				case token.LSS:
					op = token.GTR
				case token.GTR:
					op = token.LSS
				case token.LEQ:
					op = token.GEQ
				case token.GEQ:
					op = token.LEQ
				}
			}
			// value = len + d >= 1 + d
			var always, never bool
			switch op {
			case token.LSS: // len+d < 0
				never = 1+d >= 0
			case token.LEQ:
				never = 1+d > 0
			case token.EQL:
				never = 1+d > 0
			case token.NEQ:
				always = 1+d > 0
			case token.GTR:
				always = 1+d > 0
			case token.GEQ:
				always = 1+d >= 0
			}
			tE, fE := edge{b, b.Succs[0]}, edge{b, b.Succs[1]}
			if neg {
				tE, fE = fE, tE
			}
			if never {
				out = append(out, tE)
			}
			if always {
				out = append(out, fE)
			}
		}
		return out
	}
	// may a true answer be produced with these edges removed?
	reachesTrue := func(cuts []edge, falseVals map[ssa.Value]bool) (bool, string) {
		cut := map[edge]bool{}
		for _, e := range cuts {
			cut[e] = true
		}
		seen := map[*ssa.BasicBlock]bool{fn.Blocks[0]: true}
		via := map[*ssa.BasicBlock]map[*ssa.BasicBlock]bool{} // reached block -> preds it was entered from
		stack := []*ssa.BasicBlock{fn.Blocks[0]}
		for len(stack) > 0 {
			b := stack[len(stack)-1]
			stack = stack[:len(stack)-1]
			for _, s := range b.Succs {
				if cut[edge{b, s}] {
					continue
				}
				if via[s] == nil {
					via[s] = map[*ssa.BasicBlock]bool{}
				}
				via[s][b] = true
				if !seen[s] {
					seen[s] = true
					stack = append(stack, s)
				}
			}
		}
		var mayTrue func(v ssa.Value, at *ssa.BasicBlock, depth int) bool
		mayTrue = func(v ssa.Value, at *ssa.BasicBlock, depth int) bool {
			if falseVals[v] {
				return false
			}
			switch x := v.(type) {
			case *ssa.Const:
				return x.Value != nil && x.Value.String() == "true"
			case *ssa.Phi:
				if depth > 4 {
					return true
				}
				for i, e := range x.Edges {
					pred := x.Block().Preds[i]
					if !seen[pred] || !via[x.Block()][pred] {
						continue
					}
					if mayTrue(e, pred, depth+1) {
						return true
					}
				}
				return false
			}
			return true
		}
		for _, b := range fn.Blocks {
			if !seen[b] {
				continue
			}
			if ret, ok := b.Instrs[len(b.Instrs)-1].(*ssa.Return); ok && len(ret.Results) == 1 {
				if mayTrue(ret.Results[0], b, 0) {
					return true, c.instrPos(ret)
				}
			}
		}
		return false, ""
	}
	eqResults := func(fields ...string) map[ssa.Value]bool { // comparison values that are false under the hypothesis
		out := map[ssa.Value]bool{}
		for _, f := range fields {
			for _, v := range bulkFalse[f] {
				out[v] = true
			}
		}
		return out
	}
	// scalars
	for _, f := range spec.scalars {
		r.inst("%s: nodes differing in %s", spec.fn, f)
		scalarVals := map[ssa.Value]bool{}
		for _, b := range fn.Blocks {
			for _, in := range b.Instrs {
				if bo, ok := in.(*ssa.BinOp); ok && bo.Op == token.EQL {
					s1, f1 := fieldLoad(bo.X)
					s2, f2 := fieldLoad(bo.Y)
					if s1 != 0 && s2 != 0 && s1 != s2 && f1 == f && f2 == f {
						scalarVals[bo] = true
					}
				}
			}
		}
		bad, at := reachesTrue(scalarCuts[f], scalarVals)
		r.oblig(!bad)
		if bad {
			r.find(spec.fn+":"+f+" not decisive", at, "%s can answer true for two nodes that differ in %s (%d comparisons of the field found; the true result at %s stays reachable when they all say 'different'): states of different %s would be merged", spec.fn, f, len(scalarCuts[f]), at, f)
		}
	}
	// lengths
	r.inst("%s: nodes with different numbers of links", spec.fn)
	{
		lf := map[ssa.Value]bool{}
		for _, v := range bulkFalseLen {
			lf[v] = true
		}
		bad, at := reachesTrue(lengthCuts, lf)
		r.oblig(!bad)
		if bad {
			r.find(spec.fn+":length not decisive", at, "%s can answer true for two nodes with different numbers of children (no comparison of the lengths or of the whole label slices blocks the true result at %s)", spec.fn, at)
		}
	}
	// elements
	ne := nonEmptyCuts()
	for _, f := range spec.slices {
		r.inst("%s: nodes differing in one element of %s", spec.fn, f)
		ps := elemPieces[f]
		// coverage
		covered, why := false, "no comparison of the elements found"
		var cover []piece
		for _, p := range ps {
			if p.whole {
				covered, cover = true, []piece{p}
				break
			}
		}
		if !covered {
			abs, rel := map[int64]piece{}, map[int64]piece{}
			for _, p := range ps {
				if p.lo == p.hi && p.lo.ok {
					if p.lo.rel {
						rel[p.lo.off] = p
					} else {
						abs[p.lo.off] = p
					}
				}
			}
			for _, p := range ps {
				if p.lo == p.hi || !p.lo.ok || !p.hi.ok || p.lo.rel || !p.hi.rel {
					continue
				}
				okc := true
				cv := []piece{p}
				var missing []string
				for k := int64(0); k < p.lo.off; k++ {
					if q, ok := abs[k]; ok {
						cv = append(cv, q)
					} else {
						okc = false
						missing = append(missing, fmt.Sprint(k))
					}
				}
				for d := p.hi.off + 1; d <= -1; d++ {
					if q, ok := rel[d]; ok {
						cv = append(cv, q)
					} else {
						okc = false
						missing = append(missing, fmtIdx(idxNorm{rel: true, off: d, ok: true}))
					}
				}
				if p.lo.off < 0 || p.hi.off > -1 {
					okc = true // a wider range than the slice: covered (out-of-range indexing is BOUNDS' business)
				}
				if okc {
					covered, cover = true, cv
					break
				}
				sort.Strings(missing)
				why = fmt.Sprintf("%s leaves index %v uncompared", p.desc, missing)
			}
		}
		if !covered {
			r.oblig(false)
			r.find(spec.fn+":"+f+" not compared in full", c.pos(fn.Pos()), "%s does not compare %s of the two nodes over the whole index range: %s; two states that differ only there are merged (a word is lost or a non-word accepted)", spec.fn, f, why)
			continue
		}
		bad := false
		for _, p := range cover {
			cuts := append(append([]edge{}, p.cuts...), ne...)
			if yes, at := reachesTrue(cuts, eqResults(f)); yes {
				bad = true
				r.find(spec.fn+":"+f+" comparison bypassed", at, "%s can answer true although the nodes differ in an element of %s covered by the %s: the true result at %s is reachable without that comparison saying 'equal'", spec.fn, f, p.desc, at)
			}
		}
		r.oblig(!bad)
	}
}

func fmtIdx(n idxNorm) string {
	if !n.ok {
		return "?"
	}
	if n.rel {
		if n.off == 0 {
			return "len"
		}
		return fmt.Sprintf("len%+d", n.off)
	}
	return fmt.Sprint(n.off)
}

type eqEdge struct{ from, to *ssa.BasicBlock }

// loopOver: idx is the index value used by a comparison in block body; it is recognised when it is
// a loop counter (phi, or phi+1 for range loops) of a header that dominates body, moving by one,
// with a constant-or-length start and a bound test in the header.
func loopOver(fn *ssa.Function, body *ssa.BasicBlock, idx ssa.Value, norm func(ssa.Value, int) idxNorm) (out struct {
	lo, hi idxNorm
	exits  []eqEdge
}, ok bool) {
	var phi *ssa.Phi
	shift := int64(0) // idx = phi + shift
	switch x := idx.(type) {
	case *ssa.Phi:
		phi = x
	case *ssa.BinOp:
		if p, isPhi := x.X.(*ssa.Phi); isPhi && x.Op == token.ADD {
			if k, isC := constInt(x.Y); isC {
				phi, shift = p, k
			}
		}
	}
	if phi == nil || len(phi.Edges) != 2 {
		return out, false
	}
	h := phi.Block()
	if !h.Dominates(body) {
		return out, false
	}
	var init ssa.Value
	step := int64(0)
	for i, e := range phi.Edges {
		if bo, isB := e.(*ssa.BinOp); isB && (bo.Op == token.ADD || bo.Op == token.SUB) {
			base := bo.X
			if b2, isB2 := base.(*ssa.BinOp); isB2 && b2 == idx { // i++ written on idx
				base = b2.X
			}
			if base == ssa.Value(phi) || bo.X == idx && shift != 0 {
				if k, isC := constInt(bo.Y); isC {
					if bo.Op == token.SUB {
						k = -k
					}
					if bo.X == idx && shift != 0 {
						// range lowering: next phi value is idx itself (phi+1)
						k = shift
					}
					step = k
					init = phi.Edges[1-i]
					continue
				}
			}
		}
		if e == idx && shift != 0 { // range loops: the back edge carries idx = phi+1
			step = shift
			init = phi.Edges[1-i]
		}
	}
	if init == nil || (step != 1 && step != -1) {
		return out, false
	}
	// the bound test: in the header for three-clause loops, in the block computing idx for range loops
	var iff *ssa.If
	tb := h
	if b, isB := idx.(*ssa.BinOp); isB && shift != 0 {
		tb = b.Block()
	}
	iff, _ = tb.Instrs[len(tb.Instrs)-1].(*ssa.If)
	if iff == nil {
		return out, false
	}
	bo, isB := iff.Cond.(*ssa.BinOp)
	if !isB {
		return out, false
	}
	var bound ssa.Value
	op := bo.Op
	switch {
	case bo.X == idx:
		bound = bo.Y
	case bo.Y == idx:
		bound = bo.X
		switch op {
		case token.LSS:
			op = token.GTR
		case token.GTR:
			op = token.LSS
		case token.LEQ:
			op = token.GEQ
		case token.GEQ:
			op = token.LEQ
		}
	default:
		return out, false
	}
	nb, ni := norm(bound, 0), norm(init, 0)
	if !nb.ok || !ni.ok {
		return out, false
	}
	ni.off += shift
	if step == 1 {
		switch op {
		case token.LSS:
			nb.off--
		case token.LEQ:
		default:
			return out, false
		}
		out.lo, out.hi = ni, nb
	} else {
		switch op {
		case token.GTR:
			nb.off++
		case token.GEQ:
		default:
			return out, false
		}
		out.lo, out.hi = nb, ni
	}
	// the loop's normal exit: the successor of the bound test that does not lead back to it
	for _, s := range tb.Succs {
		if !(s == tb || reachableBlocks(s, nil)[tb]) || !tb.Dominates(s) {
			out.exits = append(out.exits, eqEdge{tb, s})
		} else if s != body && !s.Dominates(body) && !reachableBlocks(s, func(b *ssa.BasicBlock) bool { return b == tb })[body] {
			// a successor inside the loop that cannot reach the comparison: not an exit
		}
	}
	if len(out.exits) == 0 {
		// both successors stay in the loop syntactically (e.g. the exit block loops back in an outer loop): take the one that does not dominate the comparison
		for _, s := range tb.Succs {
			if !s.Dominates(body) && s != body {
				out.exits = append(out.exits, eqEdge{tb, s})
			}
		}
	}
	return out, len(out.exits) > 0
}
