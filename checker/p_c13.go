package main

import (
	"fmt"
	"go/token"
	"go/types"
	"sort"
	"strings"

	"golang.org/x/tools/go/ssa"
)

func init() {
	searcherRO := []string{"(dawg.PatternSearcher).AllowStep", "(dawg.PatternSearcher).AllowWord", "(dawg.PatternSearcher).Chosen",
		"(dawg.AnagramSearcher).AllowStep", "(dawg.AnagramSearcher).AllowWord", "(dawg.AnagramSearcher).Chosen"}
	register(&propDef{
		id:          "C13",
		explanation: "Decides the structural part of the last sentence ('a search leaves the Dawg unchanged ...'): PURE ((*Dawg).Search, with Searcher calls resolved by module-restricted CHA to both implementations, writes nothing reachable from the Dawg), SEARCHER-RO (AllowStep, AllowWord and Chosen of both searchers write nothing reachable from the receiver, including through the counts/currPath slices a value receiver still shares), STEP-ONLY (inside Search the only instructions that may write searcher memory are the interface calls Step and Backstep), BALANCE (on every path to a return each searcher has received as many Backstep as Step calls: a local stack is pushed exactly once per complete Step pass over the searchers, popped exactly once per Backstep pass, nothing else changes it, and every return is guarded by its being empty); NARROW and MASKWIDTH (narrowing integer conversions, and the shift counts of one-bit masks indexed by a position, are proved to fit: a 64-bit mask of blank positions forgets position 64) FIXEDARRAY (no fixed-size scratch array of package dawg is indexed by a counter that is not proved to stay in range), COUNTERWIDTH (no tally kept in an 8/16-bit cell is bumped without a proof that it stays in range) and SORTLESS (the comparator of every sort.Slice call in package dawg indexes the slice being sorted and no other: sorted with a comparator over the unsorted original, equal letters are not adjacent, the anagram searcher's count table gets several entries for one letter, and Backstep returns a letter to the first of them only, so a search does not leave the searcher as it found it) and FRESHROOT (the root a re-initialised builder starts from shares no memory with its previous state, so building the next Dawg cannot edit one that is being searched) and OWN-PATTERN (the searchers' constructors keep a copy of the pattern / letters: the value they return reaches no memory of the caller's slice, so a repeated search matches the same pattern) and STALEPTR (no store goes through the address of a slice element taken before an append to that slice: a search frame's resume position written after the child frame was pushed is lost when the stack grows). Does not decide the result set, its order, the ranks, or that Backstep exactly undoes Step.",
		notDecided:  []string{"that Search returns exactly the matching words in lexicographic order with correct ranks", "that Backstep restores exactly what Step changed (letter accounting)", "that Backstep exactly undoes one Step (BALANCE only counts calls)"},
		assumptions: []string{"searchers passed to Search are the module's PatternSearcher/AnagramSearcher (closed world); a user-defined Searcher is outside the claim"},
		run: func(c *Ctx, tier string) []*RuleResult {
			pure := &RuleResult{Rule: "PURE", Doc: "(*Dawg).Search writes nothing reachable from the Dawg", MinInst: 1}
			search := c.Fn("(*dawg.Dawg).Search")
			noWrites(c, pure, search, []int{0}, "the Dawg")
			ro := &RuleResult{Rule: "SEARCHER-RO", Doc: "the query methods of both searchers write nothing reachable from the receiver", MinInst: len(searcherRO)}
			for _, n := range searcherRO {
				noWrites(c, ro, c.Fn(n), []int{0}, "the searcher")
			}
			so := &RuleResult{Rule: "STEP-ONLY", Doc: "in Search, searcher memory is written only by invoke Step / invoke Backstep", MinInst: 2}
			stepOnly(c, so, search, 1, map[string]bool{"Step": true, "Backstep": true})
			bal := &RuleResult{Rule: "BALANCE", Doc: "every searcher receives exactly as many Backstep as Step calls on every path to a return: a local stack is pushed once per Step pass, popped once per Backstep pass, and every return is guarded by the stack being empty", MinInst: 3}
			ruleBalance(c, bal, "(*dawg.Dawg).Search", "Step", "Backstep")
			searchFiles := filesOf(c, "(*dawg.Dawg).Search", "T:dawg.PatternSearcher", "T:dawg.AnagramSearcher", "dawg.NewPatternSearcher", "dawg.NewAnagramSearcher")
			nw := ruleNarrow(c, searchFiles)
			mw := ruleMaskWidth(c, searchFiles)
			fa := ruleFixedArray(c, "dawg")
			cw := ruleCounterWidth(c, "dawg")
			sl := ruleSortLess(c, "dawg")
			sl.MinInst = 2
			// a Dawg being searched is not edited by a builder that goes on to build the next one
			fr := &RuleResult{Rule: "FRESHROOT", Doc: "the root a (re-)initialised builder starts from shares no memory with its previous state: building the next Dawg cannot edit one that was handed out and is being searched", MinInst: 1}
			ruleFreshRoot(c, fr, "(*dawg.Builder).Initialise", "Dawg")
			op := &RuleResult{Rule: "OWN-PATTERN", Doc: "a searcher keeps its own copy of the pattern / letters it was built from: the value returned by the constructor reaches no memory of the caller's slice, so re-using that buffer cannot change what a later search (or a repeated one) matches", MinInst: 2}
			for _, n := range []string{"dawg.NewPatternSearcher", "dawg.NewAnagramSearcher"} {
				fn := c.Fn(n)
				var slices []int
				for i, p := range fn.Params {
					if _, ok := p.Type().Underlying().(*types.Slice); ok {
						slices = append(slices, i)
					}
				}
				freshResult(c, op, fn, 0, slices, nil, "does not alias the caller's slice")
			}
			return []*RuleResult{pure, ro, so, bal, nw, mw, fa, cw, sl, fr, op, ruleStalePtr(c, "dawg")}
		},
		controls: func(ctl *Ctx) []*RuleResult {
			ro := &RuleResult{Rule: "SEARCHER-RO"}
			for _, n := range []string{"(effctl.T).BadObserverSlice", "(effctl.T).GoodObserver"} {
				noWrites(ctl, ro, ctl.Fn(n), []int{0}, "the searcher")
			}
			so := &RuleResult{Rule: "STEP-ONLY"}
			stepOnly(ctl, so, ctl.Fn("effctl.BadDriver"), 0, map[string]bool{"Step": true})
			stepOnly(ctl, so, ctl.Fn("effctl.GoodDriver"), 0, map[string]bool{"Step": true})
			bal := &RuleResult{Rule: "BALANCE"}
			ruleBalance(ctl, bal, "balctl.BadEarlyReturn", "Step", "Backstep")
			good := &RuleResult{Rule: "BALANCE"}
			ruleBalance(ctl, good, "balctl.GoodWalk", "Step", "Backstep")
			for _, f := range good.Findings {
				f.Key += " (Good)"
				bal.Findings = append(bal.Findings, f)
			}
			bal.Undecided = append(bal.Undecided, good.Undecided...)
			nw := ruleNarrow(ctl, inFiles("balctl.go"))
			mw := ruleMaskWidth(ctl, inFiles("balctl.go"))
			fa := ruleFixedArray(ctl, "balctl")
			cw := ruleCounterWidth(ctl, "livectl")
			fr := &RuleResult{Rule: "FRESHROOT"}
			ruleFreshRoot(ctl, fr, "(*sealctl.B5).BadInitKeepsSlices", "node")
			ruleFreshRoot(ctl, fr, "(*sealctl.B5).GoodInit", "node")
			return []*RuleResult{ro, so, bal, nw, mw, fa, cw, ruleSortLess(ctl, "balctl"), fr, ruleStalePtr(ctl, "balctl")}
		},
	})
}

// stepOnly: every instruction of fn that may write memory rooted at parameter idx is an interface
// call of one of the allowed methods.
func stepOnly(c *Ctx, r *RuleResult, fn *ssa.Function, idx int, allowed map[string]bool) {
	E := c.Eff()
	checkUnknown(c, r, fn)
	n := 0
	for _, b := range fn.Blocks {
		for _, in := range b.Instrs {
			ap, w := rootedAt(E.InstrWrites(fn, in), idx)
			if !w {
				continue
			}
			n++
			ok := false
			if call, isCall := in.(*ssa.Call); isCall && call.Call.IsInvoke() && allowed[call.Call.Method.Name()] {
				ok = true
			}
			r.inst("%s: %s writes %s", c.short(fn), instrDesc(c, in), E.apString(fn, ap))
			r.oblig(ok)
			if !ok {
				r.find(c.short(fn)+":"+instrDesc(c, in)+" writes searcher", c.instrPos(in), "%s: %s may write %s; only Step/Backstep may change a searcher during a search", c.short(fn), instrDesc(c, in), E.apString(fn, ap))
			}
		}
	}
	if n == 0 {
		r.undecided("%s: no instruction writes the searchers at all (Step/Backstep calls lost?)", c.short(fn))
	}
}

// ---------------------------------------------------------------- BALANCE
//
// Every searcher is back in its initial state after Search if (a) Backstep undoes Step (value
// level, not decided) and (b) each searcher receives exactly as many Backstep as Step calls on
// every path to a return. (b) is decided here by exhibiting a local slice T with the invariant
// "steps taken and not yet undone == len(T)": T starts empty, every complete pass of a
// `for range searchers { Step }` loop is adjacent to exactly one one-element append to T, every
// `for range searchers { Backstep }` pass to exactly one T = T[:len(T)-1], nothing else defines T,
// and every return is guarded by len(T) == 0 on the current version of T.

type balEvent struct {
	kind string // "S", "K", "PUSH", "POP", "RET", "ENTRY", "DEF"
	in   ssa.Instruction
	blk  *ssa.BasicBlock
}

func ruleBalance(c *Ctx, r *RuleResult, fnName, stepName, backName string) {
	fn := c.Fn(fnName)
	P := NewProver(c, fn)
	loops := loopsOf(fn)
	// the searchers parameter: a slice of an interface type
	var searchers ssa.Value
	for _, p := range fn.Params {
		if sl, ok := p.Type().Underlying().(*types.Slice); ok {
			if _, isI := sl.Elem().Underlying().(*types.Interface); isI {
				searchers = p
			}
		}
	}
	if searchers == nil {
		r.undecided("%s: no slice-of-interface parameter (searchers) found", fnName)
		return
	}
	// When a closure captures the parameter it lives in a cell; the cell is as good as the
	// parameter when the only store to it anywhere (Search and its closures) is the initial one.
	var cell ssa.Value
	if refs := searchers.Referrers(); refs != nil {
		for _, ref := range *refs {
			if st, ok := ref.(*ssa.Store); ok && st.Val == searchers {
				if a, ok := st.Addr.(*ssa.Alloc); ok && onlyStore(a, st) {
					cell = a
				}
			}
		}
	}
	isSearchers := func(v ssa.Value) bool {
		if v == searchers {
			return true
		}
		if ld, ok := v.(*ssa.UnOp); ok && ld.Op == token.MUL && cell != nil && ld.X == cell {
			return true
		}
		return false
	}
	isLenOfSearchers := func(v ssa.Value) bool {
		if call, ok := v.(*ssa.Call); ok {
			if bi, ok := call.Call.Value.(*ssa.Builtin); ok && bi.Name() == "len" && isSearchers(call.Call.Args[0]) {
				return true
			}
		}
		return P.poly(v).add(P.lenOf(searchers), -1).key() == ""
	}
	innermost := func(b *ssa.BasicBlock) (*ssa.BasicBlock, map[*ssa.BasicBlock]bool) {
		var bh *ssa.BasicBlock
		var bb map[*ssa.BasicBlock]bool
		for h, body := range loops {
			if body[b] && (bb == nil || len(body) < len(bb)) {
				bh, bb = h, body
			}
		}
		return bh, bb
	}
	// 1. Step / Backstep calls sit in full range loops over searchers
	loopKind := map[*ssa.BasicBlock]string{} // header -> "S" / "K"
	for _, b := range fn.Blocks {
		for _, in := range b.Instrs {
			call, ok := in.(*ssa.Call)
			if !ok || !call.Call.IsInvoke() {
				continue
			}
			name := call.Call.Method.Name()
			if name != stepName && name != backName {
				continue
			}
			kind := "S"
			if name == backName {
				kind = "K"
			}
			h, body := innermost(b)
			okLoop := h != nil
			why := "not inside a loop"
			if okLoop {
				// exits only from the header
				for x := range body {
					if x == h {
						continue
					}
					for _, s := range x.Succs {
						if !body[s] {
							okLoop, why = false, "the loop can be left early"
						}
					}
				}
				// header test  idx < len(searchers), idx a unit counter from 0 (or counter+1 from -1)
				iff, isIf := h.Instrs[len(h.Instrs)-1].(*ssa.If)
				var idx ssa.Value
				if isIf {
					if bo, ok := iff.Cond.(*ssa.BinOp); ok && bo.Op == token.LSS && isLenOfSearchers(bo.Y) && body[h.Succs[0]] {
						idx = bo.X
					}
				}
				if idx == nil {
					okLoop, why = false, "the loop test is not index < len(searchers)"
				} else {
					// idx starts at 0 and advances by one
					var ph *ssa.Phi
					off := int64(0)
					switch v := idx.(type) {
					case *ssa.Phi:
						ph = v
					case *ssa.BinOp:
						if p2, ok := v.X.(*ssa.Phi); ok && v.Op == token.ADD {
							if k, ok := constInt(v.Y); ok {
								ph, off = p2, k
							}
						}
					}
					good := false
					if ph != nil && ph.Block() == h {
						if li, ok := unitCounter(P, loops, ph); ok && li.header == h {
							if i0, ok := initOf(ph, body); ok {
								if k, ok := constInt(i0); ok && k+off == 0 {
									good = true
								}
							}
						}
					}
					if !good {
						okLoop, why = false, "the loop does not visit searchers[0], [1], ... in turn"
					}
					// receiver is searchers[idx]
					recvOK := false
					if ld, ok := call.Call.Value.(*ssa.UnOp); ok && ld.Op == token.MUL {
						if ia, ok := ld.X.(*ssa.IndexAddr); ok && isSearchers(ia.X) && ia.Index == idx {
							recvOK = true
						}
					}
					if !recvOK {
						okLoop, why = false, "the receiver is not searchers[index]"
					}
				}
				for _, p := range h.Preds {
					if body[p] && !(b == p || b.Dominates(p)) {
						okLoop, why = false, "the call is skipped on some iterations"
					}
				}
			}
			r.inst("%s: invoke %s inside a full pass over the searchers", fnName, name)
			if !okLoop && (strings.HasPrefix(why, "the loop test is not") || strings.HasPrefix(why, "the receiver is not") || why == "not inside a loop") {
				// the loop was not recognised (e.g. searchers captured by a closure): no verdict
				r.undecided("%s: the loop calling %s is not recognised as a pass over the searchers parameter (%s)", fnName, name, why)
				return
			}
			r.oblig(okLoop)
			if !okLoop {
				r.find(fnName+":"+name+" not applied to every searcher", c.instrPos(call), "%s calls %s in a way that does not give every searcher exactly one call per pass (%s)", fnName, name, why)
				return
			}
			if prev, dup := loopKind[h]; dup && prev != kind {
				r.undecided("%s: one loop calls both %s and %s", fnName, stepName, backName)
				return
			}
			loopKind[h] = kind
		}
	}
	nS, nK := 0, 0
	for _, k := range loopKind {
		if k == "S" {
			nS++
		} else {
			nK++
		}
	}
	if nS == 0 || nK == 0 {
		r.undecided("%s: Step loops %d, Backstep loops %d: nothing to balance", fnName, nS, nK)
		return
	}
	inSK := func(b *ssa.BasicBlock) *ssa.BasicBlock { // header of the S/K loop containing b
		for h := range loopKind {
			if loops[h][b] {
				return h
			}
		}
		return nil
	}
	// 2. candidate tracking slices: webs of slice-typed phis
	tried := 0
	var lastWhy string
	for _, b := range fn.Blocks {
		for _, in := range b.Instrs {
			seed, ok := in.(*ssa.Phi)
			if !ok {
				break
			}
			if _, isSl := seed.Type().Underlying().(*types.Slice); !isSl {
				continue
			}
			web := map[ssa.Value]string{} // value -> PHI / PUSH / POP / INIT
			okWeb := true
			var work []ssa.Value
			work = append(work, seed)
			for len(work) > 0 && okWeb {
				v := work[len(work)-1]
				work = work[:len(work)-1]
				if _, seen := web[v]; seen {
					continue
				}
				switch x := v.(type) {
				case *ssa.Phi:
					web[v] = "PHI"
					work = append(work, x.Edges...)
				case *ssa.Call:
					bi, isB := x.Call.Value.(*ssa.Builtin)
					if !isB || bi.Name() != "append" || len(x.Call.Args) != 2 || P.lenOf(x.Call.Args[1]).add(constP(-1), 1).key() != "" {
						okWeb = false
						break
					}
					web[v] = "PUSH"
					work = append(work, x.Call.Args[0])
				case *ssa.Slice:
					if ln, isK := P.lenOf(x).isConst(); isK && ln == 0 {
						if _, isPtr := x.X.Type().Underlying().(*types.Pointer); isPtr {
							web[v] = "INIT"
							break
						}
					}
					if x.Low == nil && x.High != nil && P.poly(x.High).add(P.lenOf(x.X), -1).add(constP(1), 1).key() == "" {
						web[v] = "POP"
						work = append(work, x.X)
						break
					}
					okWeb = false
				case *ssa.MakeSlice:
					if ln, isK := P.poly(x.Len).isConst(); isK && ln == 0 {
						web[v] = "INIT"
					} else {
						okWeb = false
					}
				case *ssa.Const:
					if x.Value == nil {
						web[v] = "INIT"
					} else {
						okWeb = false
					}
				default:
					okWeb = false
				}
			}
			hasPush, hasPop := false, false
			for _, k := range web {
				if k == "PUSH" {
					hasPush = true
				}
				if k == "POP" {
					hasPop = true
				}
			}
			if !okWeb || !hasPush || !hasPop {
				continue
			}
			tried++
			evAt := map[ssa.Instruction]string{}
			for v, k := range web {
				if in, ok := v.(ssa.Instruction); ok && (k == "PUSH" || k == "POP") {
					evAt[in] = k
				}
			}
			current := func(w ssa.Value, test *ssa.BasicBlock) bool {
				if _, inWeb := web[w]; !inWeb {
					return false
				}
				if win, isIn := w.(ssa.Instruction); isIn {
					// walking back from the test, the first definition of the web met on every path is w itself
					return firstDefIs(test, web, win)
				}
				return true
			}
			if ok, why := balanceWith(c, fn, P, loops, loopKind, inSK, evAt, current); ok {
				r.inst("%s: steps taken and not undone == len(%s): every Step pass pairs with one push, every Backstep pass with one pop, returns only when empty", fnName, valName(seed))
				r.oblig(true)
				return
			} else {
				lastWhy = valName(seed) + ": " + why
			}
		}
	}
	// 2b. a tracking slice kept in a cell because a closure reads it: the events are the stores
	for _, b := range fn.Blocks {
		for _, in := range b.Instrs {
			a, ok := in.(*ssa.Alloc)
			if !ok {
				continue
			}
			if _, isSl := a.Type().Underlying().(*types.Pointer).Elem().Underlying().(*types.Slice); !isSl {
				continue
			}
			evAt, okCell := cellStack(P, a)
			if !okCell {
				continue
			}
			tried++
			current := func(w ssa.Value, test *ssa.BasicBlock) bool {
				ld, ok := w.(*ssa.UnOp)
				if !ok || ld.Op != token.MUL || ld.X != ssa.Value(a) || ld.Block() != test {
					return false
				}
				after := false
				for _, x := range test.Instrs {
					if x == ssa.Instruction(ld) {
						after = true
					} else if st, ok := x.(*ssa.Store); ok && after && st.Addr == ssa.Value(a) {
						return false
					}
				}
				return true
			}
			if ok, why := balanceWith(c, fn, P, loops, loopKind, inSK, evAt, current); ok {
				r.inst("%s: steps taken and not undone == len(%s): every Step pass pairs with one push, every Backstep pass with one pop, returns only when empty", fnName, a.Comment)
				r.oblig(true)
				return
			} else {
				lastWhy = a.Comment + ": " + why
			}
		}
	}
	r.inst("%s: Step/Backstep balance", fnName)
	r.oblig(false)
	if tried == 0 {
		r.Obligations--
		r.undecided("%s: no local slice that is only pushed and popped by one element was found (kept in a captured variable?); the numbers of %s and %s calls cannot be matched by this rule", fnName, stepName, backName)
	} else {
		r.find(fnName+":Step/Backstep not balanced", c.pos(fn.Pos()), "%s: the searchers are not provably back-stepped as often as they were stepped on every path to a return (%s): a searcher can be left mid-word, so reusing it gives different results", fnName, lastWhy)
	}
}

// cellStack classifies every store to the slice cell a as INIT (empty slice), PUSH (append of one
// element to the cell's current value) or POP (the current value without its last element);
// closures capturing the cell may only read it. It fails on any other use.
func cellStack(P *Prover, a *ssa.Alloc) (map[ssa.Instruction]string, bool) {
	refs := a.Referrers()
	if refs == nil {
		return nil, false
	}
	// a load of a that is still current at instruction `at` (same block, no store to a in between)
	curLoad := func(v ssa.Value, at ssa.Instruction) bool {
		ld, ok := v.(*ssa.UnOp)
		if !ok || ld.Op != token.MUL || ld.X != ssa.Value(a) || ld.Block() != at.Block() {
			return false
		}
		seen := false
		for _, x := range at.Block().Instrs {
			if x == ssa.Instruction(ld) {
				seen = true
				continue
			}
			if x == at {
				return seen
			}
			if st, ok := x.(*ssa.Store); ok && seen && st.Addr == ssa.Value(a) {
				return false
			}
		}
		return false
	}
	ev := map[ssa.Instruction]string{}
	push, pop := false, false
	for _, ref := range *refs {
		switch x := ref.(type) {
		case *ssa.UnOp:
			if x.Op != token.MUL {
				return nil, false
			}
		case *ssa.DebugRef:
		case *ssa.MakeClosure:
			fn := x.Fn.(*ssa.Function)
			for i, b := range x.Bindings {
				if b == ssa.Value(a) && !onlyStore(fn.FreeVars[i], nil) {
					return nil, false
				}
			}
		case *ssa.Store:
			if x.Addr != ssa.Value(a) {
				return nil, false
			}
			switch v := x.Val.(type) {
			case *ssa.MakeSlice:
				if ln, isK := P.poly(v.Len).isConst(); !isK || ln != 0 {
					return nil, false
				}
			case *ssa.Const:
				if v.Value != nil {
					return nil, false
				}
			case *ssa.Call:
				bi, isB := v.Call.Value.(*ssa.Builtin)
				if !isB || bi.Name() != "append" || len(v.Call.Args) != 2 || P.lenOf(v.Call.Args[1]).add(constP(-1), 1).key() != "" || !curLoad(v.Call.Args[0], x) {
					return nil, false
				}
				ev[x] = "PUSH"
				push = true
			case *ssa.Slice:
				if ln, isK := P.lenOf(v).isConst(); isK && ln == 0 {
					if _, isPtr := v.X.Type().Underlying().(*types.Pointer); isPtr {
						break // INIT: make([]T, 0)
					}
				}
				if v.Low != nil || v.High == nil || !curLoad(v.X, x) {
					return nil, false
				}
				hi, ok := v.High.(*ssa.BinOp)
				if !ok || hi.Op != token.SUB {
					return nil, false
				}
				if k, isK := constInt(hi.Y); !isK || k != 1 {
					return nil, false
				}
				lc, ok := hi.X.(*ssa.Call)
				if !ok {
					return nil, false
				}
				if bi, isB := lc.Call.Value.(*ssa.Builtin); !isB || bi.Name() != "len" || !curLoad(lc.Call.Args[0], x) {
					return nil, false
				}
				ev[x] = "POP"
				pop = true
			default:
				return nil, false
			}
		default:
			return nil, false
		}
	}
	return ev, push && pop
}

// onlyStore reports whether st is the only store to the cell a, in its function and in every
// closure that captures it (transitively), and the cell's address goes nowhere else.
func onlyStore(a ssa.Value, st *ssa.Store) bool {
	refs := a.Referrers()
	if refs == nil {
		return false
	}
	for _, ref := range *refs {
		switch x := ref.(type) {
		case *ssa.Store:
			if x != st || x.Addr != a {
				return false
			}
		case *ssa.UnOp:
			if x.Op != token.MUL {
				return false
			}
		case *ssa.MakeClosure:
			fn := x.Fn.(*ssa.Function)
			for i, b := range x.Bindings {
				if b == a && !onlyStore(fn.FreeVars[i], nil) {
					return false
				}
			}
		case *ssa.DebugRef:
		default:
			return false
		}
	}
	return true
}

// balanceWith checks the pairing conditions for one tracking web.
func balanceWith(c *Ctx, fn *ssa.Function, P *Prover, loops map[*ssa.BasicBlock]map[*ssa.BasicBlock]bool, loopKind map[*ssa.BasicBlock]string, inSK func(*ssa.BasicBlock) *ssa.BasicBlock, evAt map[ssa.Instruction]string, current func(w ssa.Value, test *ssa.BasicBlock) bool) (bool, string) {
	for in := range evAt {
		if inSK(in.Block()) != nil {
			return false, "the stack is changed inside a Step/Backstep loop"
		}
	}
	// forward: first events after position (b, i)
	var forward func(b *ssa.BasicBlock, i int, seen map[*ssa.BasicBlock]bool, out map[string]bool)
	forward = func(b *ssa.BasicBlock, i int, seen map[*ssa.BasicBlock]bool, out map[string]bool) {
		for k := i; k < len(b.Instrs); k++ {
			in := b.Instrs[k]
			if e, ok := evAt[in]; ok {
				out[e] = true
				return
			}
			if _, ok := in.(*ssa.Return); ok {
				out["RET"] = true
				return
			}
		}
		for _, s := range b.Succs {
			if kind, isL := loopKind[s]; isL && !loops[s][b] {
				out[kind] = true
				continue
			}
			if !seen[s] {
				seen[s] = true
				forward(s, 0, seen, out)
			}
		}
	}
	// backward: last events before position (b, i) ; i = index of the instruction itself
	var backward func(b *ssa.BasicBlock, i int, seen map[*ssa.BasicBlock]bool, out map[string]bool)
	backward = func(b *ssa.BasicBlock, i int, seen map[*ssa.BasicBlock]bool, out map[string]bool) {
		for k := i - 1; k >= 0; k-- {
			if e, ok := evAt[b.Instrs[k]]; ok {
				out[e] = true
				return
			}
		}
		if len(b.Preds) == 0 {
			out["ENTRY"] = true
			return
		}
		for _, p := range b.Preds {
			if kind, isL := loopKind[p]; isL && !loops[p][b] {
				out[kind] = true // b is the exit successor of an S/K loop
				continue
			}
			if !seen[p] {
				seen[p] = true
				backward(p, len(p.Instrs), seen, out)
			}
		}
	}
	only := func(m map[string]bool, k string) bool { return len(m) == 1 && m[k] }
	// S loops <-> PUSH, K loops <-> POP (either order, but consistently adjacent)
	for h, kind := range loopKind {
		partner := "PUSH"
		if kind == "K" {
			partner = "POP"
		}
		var exit *ssa.BasicBlock
		for _, s := range h.Succs {
			if !loops[h][s] {
				exit = s
			}
		}
		after := map[string]bool{}
		forward(exit, 0, map[*ssa.BasicBlock]bool{exit: true}, after)
		before := map[string]bool{}
		for _, p := range h.Preds {
			if !loops[h][p] {
				backward(p, len(p.Instrs), map[*ssa.BasicBlock]bool{p: true}, before)
			}
		}
		if !(only(after, partner) || only(before, partner)) {
			return false, fmt.Sprintf("a pass of %s over the searchers is not adjacent to exactly one %s of the stack (followed by %v, preceded by %v)", map[string]string{"S": "Step", "K": "Backstep"}[kind], map[string]string{"PUSH": "push", "POP": "pop"}[partner], keys(after), keys(before))
		}
	}
	for in, e := range evAt {
		partner := "S"
		if e == "POP" {
			partner = "K"
		}
		idx := 0
		for i, x := range in.Block().Instrs {
			if x == in {
				idx = i
			}
		}
		after := map[string]bool{}
		forward(in.Block(), idx+1, map[*ssa.BasicBlock]bool{}, after)
		before := map[string]bool{}
		backward(in.Block(), idx, map[*ssa.BasicBlock]bool{}, before)
		if !(only(after, partner) || only(before, partner)) {
			return false, fmt.Sprintf("a %s of the stack is not adjacent to exactly one pass of %s (followed by %v, preceded by %v)", strings.ToLower(e), map[string]string{"S": "Step", "K": "Backstep"}[partner], keys(after), keys(before))
		}
	}
	// returns: guarded by len(w) == 0 for the current version w
	for _, b := range fn.Blocks {
		ret, ok := b.Instrs[len(b.Instrs)-1].(*ssa.Return)
		if !ok {
			continue
		}
		before := map[string]bool{}
		backward(b, len(b.Instrs)-1, map[*ssa.BasicBlock]bool{}, before)
		if only(before, "ENTRY") {
			continue // nothing stepped yet
		}
		guarded := false
		for x := b; x != nil && !guarded; x = x.Idom() {
			if len(x.Preds) != 1 {
				continue
			}
			p := x.Preds[0]
			iff, isIf := p.Instrs[len(p.Instrs)-1].(*ssa.If)
			if !isIf {
				continue
			}
			bo, isBo := iff.Cond.(*ssa.BinOp)
			if !isBo {
				continue
			}
			onTrue := p.Succs[0] == x
			if !((bo.Op == token.EQL && onTrue) || (bo.Op == token.NEQ && !onTrue)) {
				continue
			}
			if k, isK := constInt(bo.Y); !isK || k != 0 {
				continue
			}
			lc, isCall := bo.X.(*ssa.Call)
			if !isCall {
				continue
			}
			bi, isB := lc.Call.Value.(*ssa.Builtin)
			if !isB || bi.Name() != "len" {
				continue
			}
			w := lc.Call.Args[0]
			// w must be the current version at the test: no push/pop between its definition and the test,
			// and none between the test and the return
			if !current(w, p) {
				continue
			}
			tail := map[string]bool{}
			backwardUntil(b, len(b.Instrs)-1, p, evAt, tail)
			if len(tail) == 0 {
				guarded = true
			}
		}
		if !guarded {
			return false, fmt.Sprintf("the return at %s is reachable while the stack may be non-empty", c.instrPos(ret))
		}
	}
	return true, ""
}

func keys(m map[string]bool) []string {
	var out []string
	for k := range m {
		out = append(out, k)
	}
	sort.Strings(out)
	return out
}

// firstDefIs: going backwards from the end of block `from`, the first definition of a web value
// encountered on every path is the instruction w.
func firstDefIs(from *ssa.BasicBlock, web map[ssa.Value]string, w ssa.Instruction) bool {
	ok := true
	seen := map[*ssa.BasicBlock]bool{}
	var walk func(b *ssa.BasicBlock)
	walk = func(b *ssa.BasicBlock) {
		if seen[b] || !ok {
			return
		}
		seen[b] = true
		for k := len(b.Instrs) - 1; k >= 0; k-- {
			in := b.Instrs[k]
			if v, isV := in.(ssa.Value); isV {
				if _, inWeb := web[v]; inWeb {
					if in != w {
						// another version defined later than w on this path, unless it is a phi sharing w's block
						if _, isPhi := in.(*ssa.Phi); isPhi && in.Block() == w.Block() {
							continue
						}
						ok = false
					}
					if in == w {
						return
					}
					return
				}
			}
		}
		if len(b.Preds) == 0 {
			ok = false
			return
		}
		for _, p := range b.Preds {
			walk(p)
		}
	}
	walk(from)
	return ok
}

// backwardUntil collects push/pop events met walking back from (b, i) until block `stop` is reached.
func backwardUntil(b *ssa.BasicBlock, i int, stop *ssa.BasicBlock, evAt map[ssa.Instruction]string, out map[string]bool) {
	seen := map[*ssa.BasicBlock]bool{}
	var walk func(b *ssa.BasicBlock, i int)
	walk = func(b *ssa.BasicBlock, i int) {
		for k := i - 1; k >= 0; k-- {
			if e, ok := evAt[b.Instrs[k]]; ok {
				out[e] = true
			}
		}
		if b == stop {
			return
		}
		for _, p := range b.Preds {
			if !seen[p] {
				seen[p] = true
				walk(p, len(p.Instrs))
			}
		}
	}
	walk(b, i)
}

// ruleNarrow: the search keeps positions, link numbers and counts in machine integers; a
// conversion to a narrower integer type is only harmless when the value provably fits. A node has
// up to 256 links and a word any length, so a link number or depth squeezed into a byte wraps for
// exactly the extreme inputs no test contains.
func ruleNarrow(c *Ctx, files func(string) bool) *RuleResult { return ruleNarrowWith(c, files, nil) }

// nonNegativeOrder: the order N() and size M() of a graph reached through the Graph interface are
// not negative (an assumption on implementations, stated in the evidence).
func nonNegativeOrder(P *Prover, fn *ssa.Function) {
	for _, b := range fn.Blocks {
		for _, in := range b.Instrs {
			if call, ok := in.(*ssa.Call); ok && call.Call.IsInvoke() && (call.Call.Method.Name() == "N" || call.Call.Method.Name() == "M") && len(call.Call.Args) == 0 {
				P.global = append(P.global, P.poly(call).scale(-1))
			}
		}
	}
}

func ruleNarrowWith(c *Ctx, files func(string) bool, setup func(P *Prover, fn *ssa.Function)) *RuleResult {
	r := &RuleResult{Rule: "NARROW", Doc: "every conversion of an integer to a narrower integer type in the search and the searchers is of a value proved to fit", MinInst: 0}
	n := 0
	for _, fn := range c.Funcs {
		if fn.Synthetic != "" || fn.Blocks == nil || !files(c.Fset.Position(fn.Pos()).Filename) {
			continue
		}
		n++
		var P *Prover
		for _, b := range fn.Blocks {
			for _, in := range b.Instrs {
				cv, ok := in.(*ssa.Convert)
				if !ok || !isInt(cv.Type()) || !isInt(cv.X.Type()) {
					continue
				}
				if _, isK := cv.X.(*ssa.Const); isK {
					continue
				}
				fb, tb := intBits(cv.X.Type()), intBits(cv.Type())
				if tb >= fb {
					continue
				}
				lo, hi, okR := typeRange(cv.Type())
				if !okR {
					continue
				}
				if P == nil {
					P = NewProver(c, fn)
					if setup != nil {
						setup(P, fn)
					}
				}
				v := P.poly(cv.X)
				src := c.srcAt(cv.Pos())
				if src == "" {
					src = valName(cv)
				}
				r.inst("%s: %s (%d -> %d bits)", c.short(fn), src, fb, tb)
				okLo := P.Prove(constP(lo).add(v, -1), b)
				okHi := P.Prove(v.add(constP(-hi), 1), b)
				r.oblig(okLo && okHi)
				if !(okLo && okHi) {
					r.find(c.short(fn)+":narrowing "+src, c.instrPos(cv), "%s converts %s to a %d-bit integer but the value is not proved to lie in [%d, %d]: it wraps silently for the inputs where it does not", c.short(fn), P.showTerm(v), tb, lo, hi)
				}
			}
		}
	}
	r.inst("%d functions of the search scanned for narrowing conversions", n)
	if n == 0 {
		r.undecided("no search function found")
	}
	return r
}

// ruleMaskWidth: `1 << x` is 0 in Go once x reaches the width of the type - no panic, no wrap-around.
// A position, length or element number used as the shift count of a one-bit mask must therefore be
// proved to stay below the width (a 64-bit mask of "blank positions" silently forgets position 64).
func ruleMaskWidth(c *Ctx, files func(string) bool) *RuleResult {
	r := &RuleResult{Rule: "MASKWIDTH", Doc: "a constant shifted left by a variable count (a bit mask indexed by a position) has its count proved below the width of the type: Go yields 0 beyond it", MinInst: 0}
	n := 0
	for _, fn := range c.Funcs {
		if fn.Synthetic != "" || fn.Blocks == nil || !files(c.Fset.Position(fn.Pos()).Filename) {
			continue
		}
		n++
		var P *Prover
		for _, b := range fn.Blocks {
			for _, in := range b.Instrs {
				sh, ok := in.(*ssa.BinOp)
				if !ok || sh.Op != token.SHL || !isInt(sh.Type()) {
					continue
				}
				if k, isK := constInt(sh.X); !isK || k == 0 {
					continue
				}
				if _, isK := constInt(sh.Y); isK {
					continue
				}
				if P == nil {
					P = NewProver(c, fn)
				}
				w := int64(intBits(sh.Type()))
				cnt := P.poly(sh.Y)
				src := c.srcAt(sh.Pos())
				if src == "" {
					src = valName(sh)
				}
				r.inst("%s: mask %s (%d bits)", c.short(fn), src, w)
				ok2 := P.Prove(cnt.add(constP(-(w-1)), 1), b)
				r.oblig(ok2)
				if !ok2 {
					r.find(c.short(fn)+":mask "+src, c.instrPos(sh), "%s builds a one-bit mask by shifting a constant left by %s, which is not proved to stay below %d: from position %d on the mask is 0 and the position is silently dropped", c.short(fn), P.showTerm(cnt), w, w)
				}
			}
		}
	}
	r.inst("%d functions scanned for position-indexed masks", n)
	return r
}

// ruleFixedArray: an index into a fixed-size array (a scratch buffer sized "large enough") is
// proved to stay below its length: unlike a slice, the array cannot grow with the input, so a
// counter that follows the input (path length, word length, number of children) overruns it.
func ruleFixedArray(c *Ctx, pkgRel string) *RuleResult {
	r := &RuleResult{Rule: "FIXEDARRAY", Doc: "every non-constant index into a fixed-size array is proved in range (a fixed scratch buffer does not grow with the input)", MinInst: 0}
	for _, fn := range c.Funcs {
		p := fnPkg(fn)
		if p == nil || p.Pkg.Path() != c.Mod+"/"+pkgRel || fn.Synthetic != "" || fn.Blocks == nil {
			continue
		}
		var P *Prover
		for _, b := range fn.Blocks {
			for _, in := range b.Instrs {
				ia, ok := in.(*ssa.IndexAddr)
				if !ok {
					continue
				}
				pt, ok := ia.X.Type().Underlying().(*types.Pointer)
				if !ok {
					continue
				}
				arr, ok := pt.Elem().Underlying().(*types.Array)
				if !ok {
					continue
				}
				if _, isK := constInt(ia.Index); isK {
					continue
				}
				// a one-element varargs array and similar compiler temporaries have constant indices; others are judged
				if P == nil {
					P = NewProver(c, fn)
				}
				idx := P.poly(ia.Index)
				src := valName(ia.X) + "[" + P.showTerm(idx) + "]"
				r.inst("%s: %s (array of %d)", c.short(fn), src, arr.Len())
				lo := P.Prove(idx.scale(-1), b)
				hi := P.Prove(idx.add(constP(-(arr.Len()-1)), 1), b)
				r.oblig(lo && hi)
				if !(lo && hi) {
					r.find(c.short(fn)+":fixed array "+valName(ia.X), c.instrPos(ia), "%s indexes the fixed-size array %s (%d elements) with %s, which is not proved to stay in range: the array does not grow with the input", c.short(fn), valName(ia.X), arr.Len(), P.showTerm(idx))
				}
			}
		}
	}
	return r
}

// ruleSortLess: the less function given to sort.Slice / sort.SliceStable is called with positions
// of the slice being sorted *as it is while the sort moves elements around*. A comparator that
// indexes a different slice (the unsorted original of a copy, say) compares stale values: the
// result is not sorted, equal letters are not adjacent, and whatever is derived from adjacency
// (a table of letter counts) has several entries for one letter.
func ruleSortLess(c *Ctx, pkgRel string) *RuleResult {
	r := &RuleResult{Rule: "SORTLESS", Doc: "the comparator of every sort.Slice call indexes the slice being sorted, with its own arguments, and no other slice", MinInst: 0}
	nf := 0
	for _, fn := range c.Funcs {
		p := fnPkg(fn)
		if p == nil || p.Pkg.Path() != c.Mod+"/"+pkgRel || fn.Synthetic != "" || fn.Blocks == nil {
			continue
		}
		nf++
		for _, b := range fn.Blocks {
			for _, in := range b.Instrs {
				call, ok := in.(*ssa.Call)
				if !ok {
					continue
				}
				cal := call.Call.StaticCallee()
				if cal == nil || (cal.String() != "sort.Slice" && cal.String() != "sort.SliceStable") || len(call.Call.Args) != 2 {
					continue
				}
				var sorted ssa.Value
				if mi, ok := call.Call.Args[0].(*ssa.MakeInterface); ok {
					sorted = mi.X
				}
				mc, isClosure := call.Call.Args[1].(*ssa.MakeClosure)
				src := c.srcAt(call.Pos())
				if src == "" {
					src = "sort.Slice"
				}
				if len(src) > 60 {
					src = src[:60] + "..."
				}
				if sorted == nil || !isClosure {
					if f, isFn := call.Call.Args[1].(*ssa.Function); isFn && len(f.FreeVars) == 0 {
						// a comparator without captured state cannot see the slice at all
						r.inst("%s: %s", c.short(fn), src)
						r.oblig(false)
						r.find(c.short(fn)+":comparator does not see the sorted slice", c.instrPos(call), "%s: the comparator passed to %s captures nothing, so it cannot compare elements of the slice being sorted", c.short(fn), cal.String())
						continue
					}
					r.undecided("%s: %s: comparator or sorted slice not recognised", c.short(fn), src)
					continue
				}
				less := mc.Fn.(*ssa.Function)
				r.inst("%s: %s", c.short(fn), src)
				// which free variables stand for the sorted slice? (captured by value, or by reference
				// to the variable it was loaded from)
				isSorted := func(v ssa.Value) bool {
					if v == sorted {
						return true
					}
					if ld, ok := sorted.(*ssa.UnOp); ok && ld.Op == token.MUL && ld.X == v {
						return true
					}
					return false
				}
				fvSorted := map[ssa.Value]bool{}
				for k, bnd := range mc.Bindings {
					if isSorted(bnd) {
						fvSorted[less.FreeVars[k]] = true
					}
				}
				bad := ""
				derivesFromArg := func(v ssa.Value) bool {
					seen := map[ssa.Value]bool{}
					var walk func(v ssa.Value) bool
					walk = func(v ssa.Value) bool {
						if seen[v] {
							return false
						}
						seen[v] = true
						for _, q := range less.Params {
							if v == q {
								return true
							}
						}
						switch x := v.(type) {
						case *ssa.BinOp:
							return walk(x.X) || walk(x.Y)
						case *ssa.Convert:
							return walk(x.X)
						case *ssa.Phi:
							for _, e := range x.Edges {
								if walk(e) {
									return true
								}
							}
						}
						return false
					}
					return walk(v)
				}
				for _, lb := range less.Blocks {
					for _, li := range lb.Instrs {
						var base, idx ssa.Value
						switch x := li.(type) {
						case *ssa.IndexAddr:
							base, idx = x.X, x.Index
						case *ssa.Index:
							base, idx = x.X, x.Index
						default:
							continue
						}
						if !derivesFromArg(idx) {
							continue
						}
						// base: a free variable (by value) or a load of one (by reference)
						root := base
						if ld, ok := root.(*ssa.UnOp); ok && ld.Op == token.MUL {
							root = ld.X
						}
						if _, isFV := root.(*ssa.FreeVar); isFV && !fvSorted[root] {
							bad = root.Name()
						}
					}
				}
				r.oblig(bad == "")
				if bad != "" {
					r.find(c.short(fn)+":comparator indexes "+bad+", not the sorted slice", c.instrPos(call), "%s: the comparator passed to %s indexes %s with its arguments, but the slice being sorted is %s: positions refer to the slice as the sort rearranges it, so the comparison is of stale values and the result is not sorted", c.short(fn), cal.String(), bad, valName(sorted))
				}
			}
		}
	}
	r.inst("%d functions of package %s scanned for sort.Slice comparators", nf, pkgRel)
	return r
}

// ruleStalePtr: `p := &s[i]` followed by `s = append(s, ...)` followed by a store through p: when the
// append reallocates, p still points into the old array and the store is lost (a search frame whose
// resume position is written after the child frame was pushed). Reported when a store through an
// element address of a slice is reachable from an append to that slice that the address computation
// dominates, without the address being computed again in between.
func ruleStalePtr(c *Ctx, pkgRel string) *RuleResult {
	r := &RuleResult{Rule: "STALEPTR", Doc: "no store goes through the address of a slice element that was taken before an append to that slice", MinInst: 1}
	nf := 0
	for _, fn := range c.Funcs {
		p := fnPkg(fn)
		if p == nil || p.Pkg.Path() != c.Mod+"/"+pkgRel || fn.Synthetic != "" || fn.Blocks == nil {
			continue
		}
		nf++
		family := func(v ssa.Value) map[ssa.Value]bool {
			seen := map[ssa.Value]bool{}
			var walk func(v ssa.Value)
			walk = func(v ssa.Value) {
				if v == nil || seen[v] {
					return
				}
				seen[v] = true
				switch x := v.(type) {
				case *ssa.Phi:
					for _, e := range x.Edges {
						walk(e)
					}
				case *ssa.Slice:
					walk(x.X)
				case *ssa.UnOp:
					if x.Op == token.MUL {
						if al, ok := x.X.(*ssa.Alloc); ok {
							walk(al)
						}
					}
				case *ssa.Call:
					if b, ok := x.Call.Value.(*ssa.Builtin); ok && b.Name() == "append" {
						walk(x.Call.Args[0])
					}
				}
			}
			walk(v)
			return seen
		}
		pos := func(in ssa.Instruction) int {
			for i, x := range in.Block().Instrs {
				if x == in {
					return i
				}
			}
			return -1
		}
		var appends []*ssa.Call
		for _, b := range fn.Blocks {
			for _, in := range b.Instrs {
				if call, ok := in.(*ssa.Call); ok {
					if bi, isB := call.Call.Value.(*ssa.Builtin); isB && bi.Name() == "append" {
						appends = append(appends, call)
					}
				}
			}
		}
		for _, b := range fn.Blocks {
			for _, in := range b.Instrs {
				st, ok := in.(*ssa.Store)
				if !ok {
					continue
				}
				// the element address the store goes through
				a := st.Addr
				for {
					if fa, ok := a.(*ssa.FieldAddr); ok {
						a = fa.X
						continue
					}
					break
				}
				ia, ok := a.(*ssa.IndexAddr)
				if !ok {
					continue
				}
				if _, isSlice := ia.X.Type().Underlying().(*types.Slice); !isSlice {
					continue
				}
				fam := family(ia.X)
				for _, ap := range appends {
					if !fam[ap.Call.Args[0]] && !family(ap.Call.Args[0])[ia.X] {
						shared := false
						for v := range family(ap.Call.Args[0]) {
							if fam[v] {
								shared = true
							}
						}
						if !shared {
							continue
						}
					}
					// ia is computed before ap
					before := (ia.Block() == ap.Block() && pos(ia) < pos(ap)) || (ia.Block() != ap.Block() && ia.Block().Dominates(ap.Block()))
					if !before {
						continue
					}
					// st reachable from ap without ia being computed again
					reach := false
					if ap.Block() == st.Block() && pos(ap) < pos(st) {
						reach = true
					} else {
						seen := map[*ssa.BasicBlock]bool{}
						stack := append([]*ssa.BasicBlock{}, ap.Block().Succs...)
						for len(stack) > 0 && !reach {
							x := stack[len(stack)-1]
							stack = stack[:len(stack)-1]
							if seen[x] {
								continue
							}
							seen[x] = true
							if x == st.Block() && (x != ia.Block() || pos(st) < pos(ia)) {
								reach = true
								break
							}
							if x == ia.Block() {
								continue // the address is computed afresh from here on
							}
							stack = append(stack, x.Succs...)
						}
					}
					if !reach {
						continue
					}
					src := c.srcAt(st.Pos())
					if src == "" {
						src = instrDesc(c, st)
					}
					r.inst("%s: %s", c.short(fn), src)
					r.oblig(false)
					r.find(c.short(fn)+":store through an element address taken before an append", c.instrPos(st), "%s: the store at %s goes through the address of an element of %s computed at %s, but %s may have been re-allocated by the append at %s in between: the write lands in the old array", c.short(fn), c.instrPos(st), valName(ia.X), c.instrPos(ia), valName(ia.X), c.instrPos(ap))
					break
				}
			}
		}
	}
	r.inst("%d functions of package %s scanned for stores through stale element addresses", nf, pkgRel)
	return r
}
