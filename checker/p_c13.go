package main

import (
	"golang.org/x/tools/go/ssa"
)

func init() {
	searcherRO := []string{"(dawg.PatternSearcher).AllowStep", "(dawg.PatternSearcher).AllowWord", "(dawg.PatternSearcher).Chosen",
		"(dawg.AnagramSearcher).AllowStep", "(dawg.AnagramSearcher).AllowWord", "(dawg.AnagramSearcher).Chosen"}
	register(&propDef{
		id:          "C13",
		explanation: "Decides the structural part of the last sentence ('a search leaves the Dawg unchanged ...'): PURE ((*Dawg).Search, with Searcher calls resolved by module-restricted CHA to both implementations, writes nothing reachable from the Dawg), SEARCHER-RO (AllowStep, AllowWord and Chosen of both searchers write nothing reachable from the receiver, including through the counts/currPath slices a value receiver still shares), STEP-ONLY (inside Search the only instructions that may write searcher memory are the interface calls Step and Backstep). Does not decide the result set, its order, the ranks, or that Backstep exactly undoes Step.",
		notDecided:  []string{"that Search returns exactly the matching words in lexicographic order with correct ranks", "that Backstep restores exactly what Step changed (letter accounting)", "pairing of Step/Backstep calls in Search"},
		assumptions: []string{"searchers passed to Search are the module's PatternSearcher/AnagramSearcher (closed world); a user-defined Searcher is outside the claim"},
		run: func(c *Ctx, tier string) []*RuleResult {
			pure := &RuleResult{Rule: "PURE", Doc: "(*Dawg).Search writes nothing reachable from the Dawg", MinInst: 1}
			search := c.Fn("(*dawg.Dawg).Search")
			noWrites(c, pure, search, []int{0}, "the Dawg")
			ro := &RuleResult{Rule: "SEARCHER-RO", Doc: "the query methods of both searchers write nothing reachable from the receiver", MinInst: len(searcherRO)}
			for _, n := range searcherRO {
				noWrites(c, ro, c.Fn(n), []int{0}, "the searcher")
			}
			so := &RuleResult{Rule: "STEP-ONLY", Doc: "in Search, searcher memory is written only by invoke Step / invoke Backstep", MinInst: 2}
			stepOnly(c, so, search, 1, map[string]bool{"Step": true, "Backstep": true})
			return []*RuleResult{pure, ro, so}
		},
		controls: func(ctl *Ctx) []*RuleResult {
			ro := &RuleResult{Rule: "SEARCHER-RO"}
			for _, n := range []string{"(effctl.T).BadObserverSlice", "(effctl.T).GoodObserver"} {
				noWrites(ctl, ro, ctl.Fn(n), []int{0}, "the searcher")
			}
			so := &RuleResult{Rule: "STEP-ONLY"}
			stepOnly(ctl, so, ctl.Fn("effctl.BadDriver"), 0, map[string]bool{"Step": true})
			stepOnly(ctl, so, ctl.Fn("effctl.GoodDriver"), 0, map[string]bool{"Step": true})
			return []*RuleResult{ro, so}
		},
	})
}

// stepOnly: every instruction of fn that may write memory rooted at parameter idx is an interface
// call of one of the allowed methods.
func stepOnly(c *Ctx, r *RuleResult, fn *ssa.Function, idx int, allowed map[string]bool) {
	E := c.Eff()
	checkUnknown(c, r, fn)
	n := 0
	for _, b := range fn.Blocks {
		for _, in := range b.Instrs {
			ap, w := rootedAt(E.InstrWrites(fn, in), idx)
			if !w {
				continue
			}
			n++
			ok := false
			if call, isCall := in.(*ssa.Call); isCall && call.Call.IsInvoke() && allowed[call.Call.Method.Name()] {
				ok = true
			}
			r.inst("%s: %s writes %s", c.short(fn), instrDesc(c, in), E.apString(fn, ap))
			r.oblig(ok)
			if !ok {
				r.find(c.short(fn)+":"+instrDesc(c, in)+" writes searcher", c.instrPos(in), "%s: %s may write %s; only Step/Backstep may change a searcher during a search", c.short(fn), instrDesc(c, in), E.apString(fn, ap))
			}
		}
	}
	if n == 0 {
		r.undecided("%s: no instruction writes the searchers at all (Step/Backstep calls lost?)", c.short(fn))
	}
}
