package main

// Rules built on E-PROVE: BOUNDS, TERM, PRECOND (C08), DOMAIN (C20), NONEMPTY (C12).

import (
	"fmt"
	"go/token"
	"go/types"
	"os"
	"strings"

	"golang.org/x/tools/go/ssa"
)

type obligation struct {
	in    ssa.Instruction
	desc  string // line-independent description of the construct
	goals []Poly
	names []string
}

// boundsObligations lists every index / slice obligation of fn.
func boundsObligations(P *Prover, fn *ssa.Function) []obligation {
	var out []obligation
	idx := func(in ssa.Instruction, x ssa.Value, index ssa.Value, ln Poly) {
		i := P.poly(index)
		out = append(out, obligation{in: in,
			desc:  fmt.Sprintf("%s[%s]", valName(x), P.showTerm(i)),
			goals: []Poly{i.scale(-1), i.add(ln, -1).add(constP(1), 1)},
			names: []string{"index >= 0", "index < len"}})
	}
	for _, b := range fn.Blocks {
		for _, in := range b.Instrs {
			switch x := in.(type) {
			case *ssa.Index:
				switch t := x.X.Type().Underlying().(type) {
				case *types.Basic:
					idx(x, x.X, x.Index, P.lenOf(x.X))
				case *types.Array:
					idx(x, x.X, x.Index, constP(t.Len()))
				}
			case *ssa.IndexAddr:
				var ln Poly
				if pt, ok := x.X.Type().Underlying().(*types.Pointer); ok {
					ln = constP(pt.Elem().Underlying().(*types.Array).Len())
				} else {
					ln = P.lenOf(x.X)
				}
				idx(x, x.X, x.Index, ln)
			case *ssa.Slice:
				var ln Poly // capacity bound: for strings and arrays the length; for slices we use len (stricter than cap)
				if pt, ok := x.X.Type().Underlying().(*types.Pointer); ok {
					ln = constP(pt.Elem().Underlying().(*types.Array).Len())
				} else {
					ln = P.lenOf(x.X)
				}
				lo := Poly{}
				if x.Low != nil {
					lo = P.poly(x.Low)
				}
				hi := ln
				if x.High != nil {
					hi = P.poly(x.High)
				}
				los, his := "", ""
				if x.Low != nil {
					los = P.showTerm(lo)
				}
				if x.High != nil {
					his = P.showTerm(hi)
				}
				out = append(out, obligation{in: in, desc: fmt.Sprintf("%s[%s:%s]", valName(x.X), los, his),
					goals: []Poly{lo.scale(-1), lo.add(hi, -1), hi.add(ln, -1)},
					names: []string{"low >= 0", "low <= high", "high <= len"}})
			case *ssa.MakeSlice:
				l := P.poly(x.Len)
				out = append(out, obligation{in: in, desc: fmt.Sprintf("make(%s)", P.showTerm(l)), goals: []Poly{l.scale(-1)}, names: []string{"size >= 0"}})
			case *ssa.BinOp:
				switch x.Op {
				case token.QUO, token.REM:
					if !isInt(x.Type()) {
						continue
					}
					if c, ok := constInt(strip(x.Y)); ok && c != 0 {
						continue
					}
					d := P.poly(x.Y)
					out = append(out, obligation{in: in, desc: fmt.Sprintf("%s %s %s", valName(x.X), x.Op, P.showTerm(d)), goals: []Poly{constP(1).add(d, -1)}, names: []string{"divisor >= 1"}})
				case token.SUB:
					// unsigned subtraction wraps below zero: the difference is then a huge number and every
					// later step reasons about the wrong value (the prover itself reads it as X - Y)
					if !isInt(x.Type()) || !isUnsigned(x.Type()) || isByte(x.Type()) {
						continue
					}
					// judged where the difference is measured bit-wise (k = 64 - LeadingZeros64(n-1)): a
					// wrapped difference has all 64 bits set, the pair width becomes 64 and the value
					// accumulated from a pair overflows int
					toBits := false
					var uses func(v ssa.Value, d int)
					uses = func(v ssa.Value, d int) {
						if d > 2 || v.Referrers() == nil {
							return
						}
						for _, ref := range *v.Referrers() {
							switch y := ref.(type) {
							case *ssa.Convert:
								uses(y, d+1)
							case *ssa.Call:
								if cal := y.Call.StaticCallee(); cal != nil && cal.Pkg != nil && cal.Pkg.Pkg.Path() == "math/bits" {
									toBits = true
								}
							}
						}
					}
					uses(x, 0)
					if !toBits {
						continue
					}
					a, bb := P.poly(x.X), P.poly(x.Y)
					out = append(out, obligation{in: in, desc: fmt.Sprintf("%s - %s", valName(x.X), valName(x.Y)), goals: []Poly{bb.add(a, -1)}, names: []string{"no unsigned wrap (left >= right)"}})
				case token.SHL, token.SHR:
					if isUnsigned(x.Y.Type()) {
						continue
					}
					if c, ok := constInt(strip(x.Y)); ok && c >= 0 {
						continue
					}
					s := P.poly(x.Y)
					out = append(out, obligation{in: in, desc: fmt.Sprintf("%s %s %s", valName(x.X), x.Op, P.showTerm(s)), goals: []Poly{s.scale(-1)}, names: []string{"shift count >= 0"}})
				}
			}
		}
	}
	return out
}

// ruleBounds: every obligation of the listed functions must be discharged.
func ruleBounds(c *Ctx, fns []string, tier string) *RuleResult {
	r := &RuleResult{Rule: "BOUNDS", Doc: "every index, slice, make size, non-constant divisor and signed shift count in the decoder is proved in range by E-PROVE for every input string", MinInst: 10}
	for _, name := range fns {
		fn := c.Fn(name)
		P := NewProver(c, fn)
		P.trace = os.Getenv("MAMBA_TRACE") != ""
		if tier == "thorough" {
			P.Budget, P.DProve, P.DElim = 200000, 8, 8
		}
		for _, ob := range boundsObligations(P, fn) {
			if src := c.srcAt(ob.in.Pos()); src != "" {
				ob.desc = src
			}
			okAll := true
			var failed []string
			for k, g := range ob.goals {
				if P.Prove(g, ob.in.Block()) {
					r.oblig(true)
				} else {
					r.oblig(false)
					okAll = false
					failed = append(failed, ob.names[k])
				}
			}
			r.inst("%s: %s", name, ob.desc)
			if !okAll {
				r.find(name+":"+ob.desc, c.instrPos(ob.in), "%s: cannot prove %s for %s (reachable with a crafted input unless guarded)", name, strings.Join(failed, " and "), ob.desc)
			}
		}
		// explicit panics
		for _, b := range fn.Blocks {
			for _, in := range b.Instrs {
				if p, ok := in.(*ssa.Panic); ok {
					r.inst("%s: explicit panic", name)
					if P.Unreachable(b, nil) {
						r.oblig(true)
					} else {
						r.oblig(false)
						r.find(name+":panic", c.instrPos(p), "%s contains a reachable explicit panic", name)
					}
				}
			}
		}
		r.note("%s: prover search nodes used: %d", name, P.nodes)
	}
	boundsHelpers(c, r, fns, tier)
	return r
}

// boundsHelpers: unexported functions of the same package that the listed functions call
// (directly or through one another) are part of the same operation: their obligations are proved
// locally or, when they only mention the helper's parameters, lifted to every call site.
func boundsHelpers(c *Ctx, r *RuleResult, roots []string, tier string) {
	type site struct {
		caller *ssa.Function
		call   *ssa.Call
	}
	sites := map[*ssa.Function][]site{}
	seen := map[*ssa.Function]bool{}
	var work []*ssa.Function
	for _, n := range roots {
		f := c.Fn(n)
		seen[f] = true
		work = append(work, f)
	}
	var helpers []*ssa.Function
	type closureOf struct{ fn, parent *ssa.Function }
	var closures []closureOf
	for len(work) > 0 {
		f := work[0]
		work = work[1:]
		for _, b := range f.Blocks {
			for _, in := range b.Instrs {
				call, ok := in.(*ssa.Call)
				if !ok {
					continue
				}
				h := call.Call.StaticCallee()
				if h == nil || h.Blocks == nil || h.Pkg == nil || h.Pkg != f.Pkg || h.Signature.Recv() != nil || h.Object() == nil || h.Object().Exported() {
					continue
				}
				sites[h] = append(sites[h], site{f, call})
				if !seen[h] {
					seen[h] = true
					helpers = append(helpers, h)
					work = append(work, h)
				}
			}
		}
		for _, a := range f.AnonFuncs {
			closures = append(closures, closureOf{a, f})
		}
	}
	provers := map[*ssa.Function]*Prover{}
	pr := func(f *ssa.Function) *Prover {
		if provers[f] == nil {
			provers[f] = NewProver(c, f)
			if tier == "thorough" {
				provers[f].Budget, provers[f].DProve, provers[f].DElim = 200000, 8, 8
			}
		}
		return provers[f]
	}
	for _, h := range helpers {
		hname := c.short(h)
		HP := pr(h)
		for _, ob := range boundsObligations(HP, h) {
			if src := c.srcAt(ob.in.Pos()); src != "" {
				ob.desc = src
			}
			r.inst("%s (helper): %s", hname, ob.desc)
			for k, g := range ob.goals {
				if HP.Prove(g, ob.in.Block()) {
					r.oblig(true)
					continue
				}
				// lift: the goal must be expressible over the helper's parameters, then hold at every call
				allOK := true
				where := ""
				for _, st := range sites[h] {
					CP := pr(st.caller)
					t, ok := translatePoly(HP, g, h, CP, st.call.Call.Args)
					if !ok || !CP.Prove(t, st.call.Block()) {
						allOK = false
						where = c.instrPos(st.call)
						break
					}
				}
				r.oblig(allOK)
				if !allOK {
					r.find(hname+":"+ob.desc, c.instrPos(ob.in), "%s: cannot prove %s for %s inside the helper, nor as a precondition at its call site %s", hname, ob.names[k], ob.desc, where)
				}
			}
		}
		for _, b := range h.Blocks {
			for _, in := range b.Instrs {
				if p, ok := in.(*ssa.Panic); ok {
					r.inst("%s (helper): explicit panic", hname)
					ok2 := HP.Unreachable(b, nil)
					r.oblig(ok2)
					if !ok2 {
						r.find(hname+":panic", c.instrPos(p), "%s contains a reachable explicit panic", hname)
					}
				}
			}
		}
	}
	// closures of the decoders and helpers: an obligation not provable inside the closure is lifted to
	// every call of the closure, where parameters become the arguments and captured variables the
	// values they hold there
	for _, cl := range closures {
		a, f := cl.fn, cl.parent
		AP := pr(a)
		obs := boundsObligations(AP, a)
		if len(obs) == 0 {
			continue
		}
		aname := c.short(a)
		// the closure value and its direct calls in the parent
		var mc *ssa.MakeClosure
		var calls []*ssa.Call
		direct := true
		for _, b := range f.Blocks {
			for _, in := range b.Instrs {
				if m, ok := in.(*ssa.MakeClosure); ok && m.Fn == ssa.Value(a) {
					mc = m
				}
			}
		}
		if mc != nil && mc.Referrers() != nil {
			for _, ref := range *mc.Referrers() {
				switch x := ref.(type) {
				case *ssa.Call:
					if x.Call.Value == ssa.Value(mc) {
						calls = append(calls, x)
					} else {
						direct = false
					}
				case *ssa.DebugRef:
				default:
					direct = false
				}
			}
		}
		FP := pr(f)
		free := func(at *ssa.Call) func(fv *ssa.FreeVar) ssa.Value {
			return func(fv *ssa.FreeVar) ssa.Value {
				for k, x := range a.FreeVars {
					if x != fv || k >= len(mc.Bindings) {
						continue
					}
					cell, ok := mc.Bindings[k].(*ssa.Alloc)
					if !ok {
						return nil
					}
					var st *ssa.Store
					for _, ref := range *cell.Referrers() {
						if s, ok := ref.(*ssa.Store); ok && s.Addr == ssa.Value(cell) {
							if st != nil {
								return nil
							}
							st = s
						}
					}
					if st == nil || !onlyStore(cell, st) || !(st.Block() == at.Block() || st.Block().Dominates(at.Block())) {
						return nil
					}
					return st.Val
				}
				return nil
			}
		}
		for _, ob := range obs {
			if src := c.srcAt(ob.in.Pos()); src != "" {
				ob.desc = src
			}
			r.inst("%s (closure): %s", aname, ob.desc)
			for k, g := range ob.goals {
				if AP.Prove(g, ob.in.Block()) {
					r.oblig(true)
					continue
				}
				if mc == nil || !direct || len(calls) == 0 {
					r.undecided("%s: %s needs %s, which is not provable inside the closure, and the closure is not only called directly (stored or passed on): not decided", aname, ob.desc, ob.names[k])
					continue
				}
				allOK := true
				where := ""
				for _, call := range calls {
					t, ok := translatePolyX(AP, g, a, FP, call.Call.Args, free(call))
					if !ok || !FP.Prove(t, call.Block()) {
						allOK = false
						where = c.instrPos(call)
						break
					}
				}
				r.oblig(allOK)
				if !allOK {
					r.find(aname+":"+ob.desc, c.instrPos(ob.in), "%s: cannot prove %s for %s inside the closure, nor at its call %s with the captured variables' values there", aname, ob.names[k], ob.desc, where)
				}
			}
		}
		for _, b := range a.Blocks {
			for _, in := range b.Instrs {
				if p, ok := in.(*ssa.Panic); ok {
					r.inst("%s (closure): explicit panic", aname)
					ok2 := AP.Unreachable(b, nil)
					r.oblig(ok2)
					if !ok2 {
						r.find(aname+":panic", c.instrPos(p), "%s contains a reachable explicit panic", aname)
					}
				}
			}
		}
	}
}

// loopsOf returns the natural loops of fn: header -> set of blocks.
func loopsOf(fn *ssa.Function) map[*ssa.BasicBlock]map[*ssa.BasicBlock]bool {
	loops := map[*ssa.BasicBlock]map[*ssa.BasicBlock]bool{}
	for _, b := range fn.Blocks {
		for _, s := range b.Succs {
			if s.Dominates(b) { // back edge b -> s
				body := loops[s]
				if body == nil {
					body = map[*ssa.BasicBlock]bool{s: true}
					loops[s] = body
				}
				stack := []*ssa.BasicBlock{b}
				for len(stack) > 0 {
					x := stack[len(stack)-1]
					stack = stack[:len(stack)-1]
					if body[x] {
						continue
					}
					body[x] = true
					stack = append(stack, x.Preds...)
				}
			}
		}
	}
	return loops
}

// reducible checks that every cycle of fn goes through a back edge to a dominating header.
func reducible(fn *ssa.Function) bool {
	// remove back edges (to dominators) and check the rest is acyclic
	state := map[*ssa.BasicBlock]int{}
	var dfs func(b *ssa.BasicBlock) bool
	dfs = func(b *ssa.BasicBlock) bool {
		state[b] = 1
		for _, s := range b.Succs {
			if s.Dominates(b) {
				continue
			}
			if state[s] == 1 {
				return false
			}
			if state[s] == 0 && !dfs(s) {
				return false
			}
		}
		state[b] = 2
		return true
	}
	return len(fn.Blocks) == 0 || dfs(fn.Blocks[0])
}

// ruleTerm: every loop has a ranking function: an integer phi v at the header and a loop-invariant
// bound B such that (1) every back edge carries v' >= v + 1 and (2) every back edge is taken only
// under v <= B (proved at the back-edge source), so B - v is a non-negative, strictly decreasing
// integer; or symmetrically decreasing.
func ruleTerm(c *Ctx, fns []string) *RuleResult {
	r := &RuleResult{Rule: "TERM", Doc: "every loop of the decoder has a strictly monotone integer counter that is bounded by a loop-invariant value whenever the loop goes round again (ranking function B - counter)", MinInst: 3}
	// the decoders, the unexported same-package helpers they call (transitively) and all their closures
	var scope []*ssa.Function
	seenFn := map[*ssa.Function]bool{}
	var addFn func(f *ssa.Function)
	addFn = func(f *ssa.Function) {
		if f == nil || seenFn[f] || f.Blocks == nil {
			return
		}
		seenFn[f] = true
		scope = append(scope, f)
		for _, a := range f.AnonFuncs {
			addFn(a)
		}
		for _, b := range f.Blocks {
			for _, in := range b.Instrs {
				if call, ok := in.(*ssa.Call); ok {
					h := call.Call.StaticCallee()
					if h != nil && h.Pkg != nil && h.Pkg == f.Pkg && h.Signature.Recv() == nil && h.Object() != nil && !h.Object().Exported() {
						addFn(h)
					}
				}
			}
		}
	}
	for _, name := range fns {
		addFn(c.Fn(name))
	}
	for _, fn := range scope {
		name := c.short(fn)
		if !reducible(fn) {
			r.inst("%s: control flow", name)
			r.oblig(false)
			r.find(name+":irreducible control flow", c.pos(fn.Pos()), "%s has irreducible control flow; termination not decided", name)
			continue
		}
		// recursion
		for _, b := range fn.Blocks {
			for _, in := range b.Instrs {
				if call, ok := in.(*ssa.Call); ok && call.Call.StaticCallee() == fn {
					r.find(name+":recursion", c.instrPos(in), "%s calls itself; termination not decided", name)
				}
			}
		}
		P := NewProver(c, fn)
		loops := loopsOf(fn)
		for _, h := range fn.Blocks {
			body := loops[h]
			if body == nil {
				continue
			}
			desc := fmt.Sprintf("%s: loop at block %s", name, h.Comment)
			r.inst("%s", desc)
			ok := false
			var why []string
			for _, in := range h.Instrs {
				ph, isPhi := in.(*ssa.Phi)
				if !isPhi {
					break
				}
				if !isInt(ph.Type()) {
					continue
				}
				for _, dir := range []int64{1, -1} {
					if good, bound := termCandidate(P, h, body, ph, dir); good {
						ok = true
						r.note("%s: counter %s (%+d per iteration), bound %s", desc, valName(ph), dir, bound)
						break
					}
				}
				if ok {
					break
				}
				why = append(why, valName(ph))
			}
			r.oblig(ok)
			if !ok {
				r.find(name+":loop "+h.Comment, c.instrPos(h.Instrs[0]), "%s: no strictly monotone bounded counter found for the loop at %s (candidates tried: %v); the loop may not terminate for some input", name, h.Comment, why)
			}
		}
	}
	return r
}

func termCandidate(P *Prover, h *ssa.BasicBlock, body map[*ssa.BasicBlock]bool, ph *ssa.Phi, dir int64) (bool, string) {
	v := P.poly(ph)
	// (1) strict progress on every back edge
	var backs []int
	for i, pred := range h.Preds {
		if body[pred] && h.Dominates(pred) {
			backs = append(backs, i)
		}
	}
	if len(backs) == 0 {
		return false, ""
	}
	for _, i := range backs {
		e := P.poly(ph.Edges[i])
		// dir=+1: v + 1 - e <= 0 ; dir=-1: e + 1 - v <= 0
		var g Poly
		if dir > 0 {
			g = v.add(constP(1), 1).add(e, -1)
		} else {
			g = e.add(constP(1), 1).add(v, -1)
		}
		if P.trace {
			fmt.Printf("TERM progress goal %s at b%d\n", P.show(g), h.Preds[i].Index)
		}
		if !P.ProveWith(g, h.Preds[i], P.edgeFacts(h.Preds[i], h)) {
			if P.trace {
				fmt.Printf("TERM progress FAILED budget left %d\n", P.budget)
			}
			return false, ""
		}
	}
	// (2) a loop-invariant bound on every back edge: candidates are the other sides of comparisons
	// against values defined outside the loop, found among the conditions inside the loop body.
	var bounds []Poly
	seen := map[string]bool{}
	addBound := func(p Poly) {
		if seen[p.key()] {
			return
		}
		inv := true
		P.atomsOf(p, func(a *Atom) {
			if !atomInvariant(P, a, body) {
				inv = false
			}
		})
		if inv {
			seen[p.key()] = true
			bounds = append(bounds, p)
		}
	}
	for b := range body {
		if len(b.Instrs) == 0 {
			continue
		}
		if iff, ok := b.Instrs[len(b.Instrs)-1].(*ssa.If); ok {
			if bo, ok := iff.Cond.(*ssa.BinOp); ok && isInt(bo.X.Type()) {
				addBound(P.poly(bo.X))
				addBound(P.poly(bo.Y))
			}
		}
	}
	for _, bnd := range bounds {
		all := true
		for _, i := range backs {
			// ranking function |B - v| : the current value is on the right side of the bound whenever
			// the loop goes round again, and (1) moves it strictly towards the bound
			var g Poly
			if dir > 0 {
				g = v.add(bnd, -1) // v <= B
			} else {
				g = bnd.add(v, -1) // v >= B
			}
			if !P.ProveWith(g, h.Preds[i], P.edgeFacts(h.Preds[i], h)) {
				all = false
				break
			}
		}
		if all {
			return true, P.showTerm(bnd)
		}
	}
	return false, ""
}

func atomInvariant(P *Prover, a *Atom, body map[*ssa.BasicBlock]bool) bool {
	switch a.kind {
	case aVal, aLen, aNil, aStr:
		if in, ok := a.val.(ssa.Instruction); ok && in.Block() != nil && body[in.Block()] {
			return false
		}
		if a.kind == aStr {
			inv := true
			P.atomsOf(a.inner, func(x *Atom) {
				if !atomInvariant(P, x, body) {
					inv = false
				}
			})
			return inv
		}
		return true
	case aDiv, aRem:
		inv := true
		P.atomsOf(a.inner, func(x *Atom) {
			if !atomInvariant(P, x, body) {
				inv = false
			}
		})
		return inv
	}
	return false
}

// ruleDomain (C20): every call of the callback parameter has arguments (a, b) with 0 <= b < a < n.
// domainWalk checks every call of the callback value cb inside fn and follows cb into same-module
// helpers it is handed to. below(i, b) proves i < n at block b of fn.
func domainWalk(c *Ctx, r *RuleResult, fn *ssa.Function, P *Prover, cb ssa.Value, cbName, nName string, below func(i Poly, b *ssa.BasicBlock) bool, depth int) {
	fnName := c.short(fn)
	for _, b := range fn.Blocks {
		for _, in := range b.Instrs {
			call, ok := in.(*ssa.Call)
			if !ok || call.Call.Value != cb {
				continue
			}
			i, j := P.poly(call.Call.Args[0]), P.poly(call.Call.Args[1])
			desc := fmt.Sprintf("%s(%s, %s)", cbName, P.showTerm(i), P.showTerm(j))
			r.inst("%s: %s", fnName, desc)
			g1 := P.Prove(j.scale(-1), b)
			g2 := P.Prove(j.add(i, -1).add(constP(1), 1), b)
			g3 := below(i, b)
			r.oblig(g1)
			r.oblig(g2)
			r.oblig(g3)
			if !(g1 && g2 && g3) {
				r.find(fnName+":"+desc, c.instrPos(in), "%s calls %s outside 0 <= j < i < %s (j>=0:%v j<i:%v i<%s:%v)", fnName, desc, nName, g1, g2, nName, g3)
			}
		}
	}
	// where else the callback value goes
	refs := cb.Referrers()
	if refs == nil {
		return
	}
	for _, ref := range *refs {
		switch x := ref.(type) {
		case *ssa.Call:
			if x.Call.Value == cb {
				continue
			}
			callee := x.Call.StaticCallee()
			if callee == nil || !c.inModule(callee) || len(callee.Blocks) == 0 || depth >= 3 || callee.Signature.Recv() != nil && len(callee.Params) != len(x.Call.Args) {
				r.undecided("%s hands %s to %s, which this rule cannot follow; its call domain is not decided", fnName, cbName, x.Call.Value.Name())
				continue
			}
			Q := NewProver(c, callee)
			// integer parameters of the helper whose argument is provably <= n at the call
			var bounded, strict []ssa.Value
			var cbIn []ssa.Value
			for k, a := range x.Call.Args {
				if k >= len(callee.Params) {
					break
				}
				if a == cb {
					cbIn = append(cbIn, callee.Params[k])
					continue
				}
				if isInt(a.Type()) && below(P.poly(a).add(constP(-1), 1), x.Block()) {
					bounded = append(bounded, callee.Params[k])
				}
				if isInt(a.Type()) && below(P.poly(a), x.Block()) {
					strict = append(strict, callee.Params[k]) // the argument itself is a valid row: < n
				}
			}
			for _, cp := range cbIn {
				domainWalk(c, r, callee, Q, cp, cp.Name(), nName, func(i Poly, b *ssa.BasicBlock) bool {
					for _, bp := range bounded {
						if Q.Prove(i.add(Q.poly(bp), -1).add(constP(1), 1), b) {
							return true
						}
					}
					for _, sp := range strict {
						if Q.Prove(i.add(Q.poly(sp), -1), b) {
							return true
						}
					}
					return false
				}, depth+1)
			}
		case *ssa.DebugRef:
		default:
			r.undecided("%s uses %s other than by calling it or handing it to a helper (stored or captured); its call domain is not decided", fnName, cbName)
		}
	}
}

func ruleDomain(c *Ctx, fnName, cbParam, nParam string) *RuleResult {
	r := &RuleResult{Rule: "DOMAIN", Doc: "every call of the weight callback has arguments (i, j) with 0 <= j < i < n", MinInst: 1}
	fn := c.Fn(fnName)
	P := NewProver(c, fn)
	var n, cb ssa.Value
	for _, p := range fn.Params {
		if p.Name() == nParam {
			n = p
		}
		if p.Name() == cbParam {
			cb = p
		}
	}
	if n == nil || cb == nil {
		failf("%s: parameters %s / %s not found", fnName, cbParam, nParam)
	}
	domainWalk(c, r, fn, P, cb, cbParam, nParam, func(i Poly, b *ssa.BasicBlock) bool {
		return P.Prove(i.add(P.poly(n), -1).add(constP(1), 1), b)
	}, 0)
	return r
}
