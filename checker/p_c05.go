package main

// C05 / C06: COUPLE (cached counts are updated with adjacency), FRESH / PURE (copies share no
// state), LITERAL (no graph literal leaves its counts out), TRI (packed-triangle discipline).

import (
	"go/ast"
	"go/token"
	"go/types"
	"path/filepath"
	"strings"

	"golang.org/x/tools/go/ssa"
)

// ---------------------------------------------------------------- LITERAL

func ruleLiteral(c *Ctx) *RuleResult {
	r := &RuleResult{Rule: "LITERAL", Doc: "every DenseGraph/SparseGraph composite literal that sets the adjacency field also sets NumberOfVertices, NumberOfEdges and DegreeSequence (a missing field is the zero value, wrong for any graph with an edge)", MinInst: 6}
	adj := map[string]string{"DenseGraph": "Edges", "SparseGraph": "Neighbourhoods"}
	need := []string{"NumberOfVertices", "NumberOfEdges", "DegreeSequence"}
	for _, p := range c.modulePackages() {
		for _, f := range p.Syntax {
			var curFn string
			ast.Inspect(f, func(n ast.Node) bool {
				if fd, ok := n.(*ast.FuncDecl); ok {
					curFn = fd.Name.Name
					if fd.Recv != nil && len(fd.Recv.List) == 1 {
						t := fd.Recv.List[0].Type
						if s, ok := t.(*ast.StarExpr); ok {
							t = s.X
						}
						if id, ok := t.(*ast.Ident); ok {
							curFn = id.Name + "." + curFn
						}
					}
				}
				cl, ok := n.(*ast.CompositeLit)
				if !ok {
					return true
				}
				tv, ok := p.TypesInfo.Types[cl]
				if !ok {
					return true
				}
				nt, ok := tv.Type.(*types.Named)
				if !ok || nt.Obj().Pkg() == nil || nt.Obj().Pkg().Path() != c.Mod+"/graph" {
					return true
				}
				af, isGraph := adj[nt.Obj().Name()]
				if !isGraph {
					return true
				}
				set := map[string]bool{}
				keyed := true
				for _, e := range cl.Elts {
					kv, ok := e.(*ast.KeyValueExpr)
					if !ok {
						keyed = false
						continue
					}
					if id, ok := kv.Key.(*ast.Ident); ok {
						set[id.Name] = true
					}
				}
				fn := p.Name + "." + curFn
				if !keyed {
					st := nt.Underlying().(*types.Struct)
					if len(cl.Elts) == st.NumFields() {
						r.inst("%s: positional %s literal (all fields)", fn, nt.Obj().Name())
						r.oblig(true)
						return true
					}
				}
				if !set[af] {
					r.inst("%s: %s literal without adjacency (empty graph)", fn, nt.Obj().Name())
					r.oblig(true)
					return true
				}
				var missing []string
				for _, m := range need {
					if !set[m] {
						missing = append(missing, m)
					}
				}
				r.inst("%s: %s literal with %s", fn, nt.Obj().Name(), af)
				r.oblig(len(missing) == 0)
				if len(missing) > 0 {
					r.find(fn+":"+nt.Obj().Name()+" literal lacks "+strings.Join(missing, ","), c.pos(cl.Pos()), "%s builds a %s with %s but leaves out %s: M()/Degrees() report an edgeless graph while IsEdge sees edges", fn, nt.Obj().Name(), af, strings.Join(missing, ", "))
				}
				return true
			})
		}
	}
	return r
}

// ---------------------------------------------------------------- COUPLE

const (
	catAdj = 1 << iota
	catCnt
	catDeg
)

// graphStructs: the two editable representations and their adjacency fields.
func graphTypes(c *Ctx) map[string]string {
	return map[string]string{"DenseGraph": "Edges", "SparseGraph": "Neighbourhoods"}
}

// catOf classifies a written access path of fn relative to a graph struct.
func (E *Eff) catOfLoc(c *Ctx, l loc) int {
	isGraph := func(t types.Type) (string, bool) {
		if t == nil {
			return "", false
		}
		if p, ok := t.Underlying().(*types.Pointer); ok {
			t = p.Elem()
		}
		n, ok := t.(*types.Named)
		if !ok || n.Obj().Pkg() == nil || n.Obj().Pkg().Path() != c.Mod+"/graph" {
			return "", false
		}
		af, ok := graphTypes(c)[n.Obj().Name()]
		return af, ok
	}
	o := l.o
	// directly a field of a graph struct
	if af, ok := isGraph(o.typ); ok {
		head := l.p
		if i := strings.Index(head, "."); i >= 0 {
			head = head[:i]
		}
		switch head {
		case af:
			return catAdj
		case "NumberOfEdges":
			return catCnt
		case "DegreeSequence":
			return catDeg
		}
		return 0
	}
	// memory reached through a field of a graph struct
	for a := o; a.parent != nil; a = a.parent {
		if af, ok := isGraph(a.parent.typ); ok {
			switch a.slot {
			case af:
				return catAdj
			case "DegreeSequence":
				return catDeg
			}
			return 0
		}
	}
	return 0
}

func ruleCouple(c *Ctx, pkgs map[string]bool) *RuleResult {
	r := &RuleResult{Rule: "COUPLE", Doc: "on every entry-to-return path through an instruction that directly mutates adjacency storage of a graph reached from a parameter, NumberOfEdges and DegreeSequence of that graph are also written (directly or by a callee); the four single-edge methods update both endpoint degrees and the edge count with the sign matching the adjacency change", MinInst: 6}
	E := c.Eff()
	for _, fn := range c.Funcs {
		p := fnPkg(fn)
		if p == nil || !pkgs[p.Pkg.Path()] || fn.Synthetic != "" {
			continue
		}
		// the obligation is on operations visible from outside: an unexported helper that only
		// touches the adjacency array is judged at the call sites inside exported functions
		if fn.Parent() != nil || fn.Object() == nil || !fn.Object().Exported() {
			continue
		}
		f := E.fas[fn]
		type site struct {
			in  ssa.Instruction
			pos ipos
			cat int
			dir bool // a direct mutation (store / copy / append / sortints helper), not a call to a graph method
		}
		var sites []site
		for _, b := range fn.Blocks {
			for i, in := range b.Instrs {
				cat := 0
				for l := range f.iw[in] {
					if l.o.root < 0 || l.o.root >= rFree {
						continue
					}
					cat |= E.catOfLoc(c, l)
				}
				if cat == 0 {
					continue
				}
				direct := true
				if call, ok := in.(*ssa.Call); ok {
					if cal := call.Call.StaticCallee(); cal != nil && c.inModule(cal) {
						cp := fnPkg(cal)
						// an exported operation of the graph package keeps its own books; an unexported
						// helper is part of the caller's operation
						if cp != nil && cp.Pkg.Path() == c.Mod+"/graph" && cal.Object() != nil && cal.Object().Exported() {
							direct = false
						}
					}
					if call.Call.IsInvoke() {
						direct = false
					}
				}
				sites = append(sites, site{in, ipos{b, i}, cat, direct})
			}
		}
		hasAdj := false
		for _, s := range sites {
			if s.cat&catAdj != 0 && s.dir {
				hasAdj = true
			}
		}
		if !hasAdj {
			continue
		}
		name := c.short(fn)
		// returns
		var rets []ipos
		for _, b := range fn.Blocks {
			if _, ok := b.Instrs[len(b.Instrs)-1].(*ssa.Return); ok {
				rets = append(rets, ipos{b, len(b.Instrs) - 1})
			}
		}
		entry := ipos{fn.Blocks[0], -1}
		for _, s := range sites {
			if s.cat&catAdj == 0 || !s.dir {
				continue
			}
			desc := c.srcAt(s.in.Pos())
			if desc == "" {
				desc = instrDesc(c, s.in)
			}
			r.inst("%s: adjacency mutation %s", name, desc)
			for _, want := range []struct {
				cat  int
				what string
			}{{catCnt, "NumberOfEdges"}, {catDeg, "DegreeSequence"}} {
				if s.cat&want.cat != 0 {
					r.oblig(true)
					continue
				}
				var cut []ipos
				for _, o := range sites {
					if o.cat&want.cat != 0 {
						cut = append(cut, o.pos)
					}
				}
				before := reachAvoiding(entry, s.pos, cut)
				after := false
				for _, rt := range rets {
					if reachAvoiding(s.pos, rt, cut) {
						after = true
					}
				}
				ok := !(before && after)
				r.oblig(ok)
				if !ok {
					key := name + ":adjacency mutated without " + want.what
					dup := false
					for _, f := range r.Findings {
						if f.Key == r.Rule+":"+key {
							dup = true
						}
					}
					if !dup {
						r.find(key, c.instrPos(s.in), "%s changes adjacency (first at %s) on a path that never writes %s: the cached %s disagrees with the adjacency afterwards", name, desc, want.what, want.what)
					}
				}
			}
		}
	}
	return r
}

// reachAvoiding: can control flow from just after `from` reach `to` without executing any instruction in cut?
func reachAvoiding(from, to ipos, cut []ipos) bool {
	blocked := func(b *ssa.BasicBlock, lo, hi int) bool { // any cut instr with lo < i < hi in block b
		for _, k := range cut {
			if k.b == b && k.i > lo && k.i < hi {
				return true
			}
		}
		return false
	}
	if from.b == to.b && from.i < to.i && !blocked(from.b, from.i, to.i) {
		return true
	}
	if blocked(from.b, from.i, len(from.b.Instrs)) {
		return false
	}
	seen := map[*ssa.BasicBlock]bool{}
	stack := append([]*ssa.BasicBlock{}, from.b.Succs...)
	for len(stack) > 0 {
		b := stack[len(stack)-1]
		stack = stack[:len(stack)-1]
		if seen[b] {
			continue
		}
		seen[b] = true
		if b == to.b && !blocked(b, -1, to.i) {
			return true
		}
		if blocked(b, -1, len(b.Instrs)) {
			continue
		}
		stack = append(stack, b.Succs...)
	}
	return false
}

// ruleEdgeSign: exact rule for the single-edge methods.
func ruleEdgeSign(c *Ctx, r *RuleResult, fnName string, add bool) {
	fn := c.Fn(fnName)
	P := NewProver(c, fn)
	recv := fn.Params[0]
	pi, pj := ssa.Value(fn.Params[1]), ssa.Value(fn.Params[2])
	fieldOf := func(addr ssa.Value) (string, ssa.Value) { // field name and index (for element addresses)
		switch a := addr.(type) {
		case *ssa.FieldAddr:
			if a.X == ssa.Value(recv) {
				st := a.X.Type().Underlying().(*types.Pointer).Elem().Underlying().(*types.Struct)
				return st.Field(a.Field).Name(), nil
			}
		case *ssa.IndexAddr:
			if ld, ok := a.X.(*ssa.UnOp); ok && ld.Op == token.MUL {
				if fa, ok := ld.X.(*ssa.FieldAddr); ok && fa.X == ssa.Value(recv) {
					st := fa.X.Type().Underlying().(*types.Pointer).Elem().Underlying().(*types.Struct)
					return st.Field(fa.Field).Name(), a.Index
				}
			}
		}
		return "", nil
	}
	wantSign := token.SUB
	if add {
		wantSign = token.ADD
	}
	cnt, degI, degJ, adjN := 0, 0, 0, 0
	okSigns := true
	for _, b := range fn.Blocks {
		for _, in := range b.Instrs {
			switch x := in.(type) {
			case *ssa.Store:
				field, idx := fieldOf(x.Addr)
				switch field {
				case "NumberOfEdges", "DegreeSequence":
					bo, ok := x.Val.(*ssa.BinOp)
					one := false
					if ok {
						k, isK := constInt(bo.Y)
						one = isK && k == 1
					}
					if !ok || !one || bo.Op != wantSign {
						okSigns = false
						r.find(fnName+":"+field+" update has the wrong sign", c.instrPos(x), "%s updates %s by something other than %s1", fnName, field, map[bool]string{true: "+", false: "-"}[add])
						continue
					}
					if field == "NumberOfEdges" {
						cnt++
					} else if idx == pi {
						degI++
					} else if idx == pj {
						degJ++
					} else {
						okSigns = false
						r.find(fnName+":DegreeSequence updated at a foreign index", c.instrPos(x), "%s updates DegreeSequence[%s], which is neither endpoint", fnName, P.showTerm(P.poly(idx)))
					}
				case "Edges":
					adjN++
					k, isK := constInt(x.Val)
					want := int64(0)
					if add {
						want = 1
					}
					if !isK || k != want {
						okSigns = false
						r.find(fnName+":adjacency byte", c.instrPos(x), "%s stores %s into the adjacency array; %s must store %d", fnName, valName(x.Val), fnName, want)
					}
				}
			case *ssa.Call:
				if cal := x.Call.StaticCallee(); cal != nil && c.inModule(cal) && (cal.Object() == nil || !cal.Object().Exported()) {
					// an unexported helper that writes the adjacency storage on behalf of this method
					writesAdj := false
					for l := range c.Eff().fas[fn].iw[x] {
						if l.o.root == 0 && c.Eff().catOfLoc(c, l)&catAdj != 0 {
							writesAdj = true
						}
					}
					if writesAdj {
						adjN += 2
						want := int64(0)
						if add {
							want = 1
						}
						seenWant, seenOther := false, false
						for _, a := range x.Call.Args {
							if k, ok := constInt(a); ok && isByte(a.Type()) {
								if k == want {
									seenWant = true
								} else {
									seenOther = true
								}
							}
						}
						if seenOther && !seenWant {
							okSigns = false
							r.find(fnName+":adjacency byte", c.instrPos(x), "%s passes the wrong adjacency value to %s; it must store %d", fnName, c.short(cal), want)
						}
						continue
					}
				}
				// an unexported helper of the same graph that does the bookkeeping: adjustCounts(i, j, +1)
				if cal := x.Call.StaticCallee(); cal != nil && c.inModule(cal) && cal.Blocks != nil && len(x.Call.Args) > 0 && x.Call.Args[0] == ssa.Value(recv) && len(cal.Params) == len(x.Call.Args) {
					argOf := func(v ssa.Value) ssa.Value { // the caller's value of a callee parameter
						for k, p := range cal.Params {
							if ssa.Value(p) == v {
								return x.Call.Args[k]
							}
						}
						return nil
					}
					for _, cb := range cal.Blocks {
						for _, cin := range cb.Instrs {
							st, ok := cin.(*ssa.Store)
							if !ok {
								continue
							}
							field, idx := "", ssa.Value(nil)
							switch a := st.Addr.(type) {
							case *ssa.FieldAddr:
								if a.X == ssa.Value(cal.Params[0]) {
									field = a.X.Type().Underlying().(*types.Pointer).Elem().Underlying().(*types.Struct).Field(a.Field).Name()
								}
							case *ssa.IndexAddr:
								if ld, ok := a.X.(*ssa.UnOp); ok && ld.Op == token.MUL {
									if fa, ok := ld.X.(*ssa.FieldAddr); ok && fa.X == ssa.Value(cal.Params[0]) {
										field = fa.X.Type().Underlying().(*types.Pointer).Elem().Underlying().(*types.Struct).Field(fa.Field).Name()
										idx = a.Index
									}
								}
							}
							if field != "NumberOfEdges" && field != "DegreeSequence" {
								continue
							}
							bo, ok := st.Val.(*ssa.BinOp)
							sign := 0
							if ok && (bo.Op == token.ADD || bo.Op == token.SUB) {
								amount := bo.Y
								if a := argOf(amount); a != nil {
									amount = a
								}
								if k, isK := constInt(amount); isK && (k == 1 || k == -1) {
									sign = int(k)
									if bo.Op == token.SUB {
										sign = -sign
									}
								}
							}
							want := -1
							if add {
								want = 1
							}
							if sign != want {
								okSigns = false
								r.find(fnName+":"+field+" update has the wrong sign", c.instrPos(x), "%s updates %s through %s by something other than %s1", fnName, field, c.short(cal), map[bool]string{true: "+", false: "-"}[add])
								continue
							}
							if field == "NumberOfEdges" {
								cnt++
							} else if a := argOf(idx); a == pi {
								degI++
							} else if a == pj {
								degJ++
							} else {
								okSigns = false
								r.find(fnName+":DegreeSequence updated at a foreign index", c.instrPos(x), "%s updates DegreeSequence through %s at an index that is neither endpoint", fnName, c.short(cal))
							}
						}
					}
				}
				if cal := x.Call.StaticCallee(); cal != nil && len(x.Call.Args) > 0 {
					field, _ := fieldOf(x.Call.Args[0])
					if field == "Neighbourhoods" {
						adjN++
						want := "Remove"
						if add {
							want = "Add"
						}
						if cal.Name() != want {
							okSigns = false
							r.find(fnName+":adjacency call", c.instrPos(x), "%s calls %s on a neighbour list; it must call %s", fnName, cal.Name(), want)
						}
					}
				}
			}
		}
	}
	r.inst("%s: edge count %+d once, both endpoint degrees once, %d adjacency updates", fnName, map[bool]int{true: 1, false: -1}[add], adjN)
	ok := okSigns && cnt == 1 && degI == 1 && degJ == 1 && adjN >= 2
	r.oblig(ok)
	if okSigns && !(cnt == 1 && degI == 1 && degJ == 1 && adjN >= 2) {
		r.find(fnName+":update counts", c.pos(fn.Pos()), "%s performs %d edge-count updates, %d/%d degree updates of its endpoints and %d adjacency updates; expected 1, 1/1 and 2", fnName, cnt, degI, degJ, adjN)
	}
}

func inFiles(names ...string) func(string) bool {
	return func(file string) bool {
		base := filepath.Base(file)
		for _, n := range names {
			if base == n {
				return true
			}
		}
		return false
	}
}

func init() {
	copies := []string{"(*graph.DenseGraph).Copy", "(*graph.DenseGraph).InducedSubgraph", "(graph.SparseGraph).Copy", "(graph.SparseGraph).InducedSubgraph"}
	register(&propDef{
		id:          "C05",
		explanation: "Decides three structural clauses of the editable graphs: COUPLE (in every function of package graph that directly mutates adjacency storage reached from a parameter, every path through the mutation also writes NumberOfEdges and DegreeSequence of that graph; AddEdge/RemoveEdge of both representations update the count once, each endpoint's degree once, with the sign of the adjacency change), FRESH/PURE (Copy and InducedSubgraph of both representations return memory that reaches neither receiver nor argument, and write nothing reachable from them), EDGEBYTE (a byte read from an existing graph's adjacency storage is only ever tested against zero, never used numerically, since any non-zero byte is an edge), ROWS (every neighbour list stored into a SparseGraph table owns its backing array: no window into an array shared with other rows), MAKECAP (where an edit method allocates with a capacity computed separately from the length - a growth policy - length <= capacity is proved), REGROW (storage that an edit method grows back in place into spare capacity - a slice expression guarded by a cap test - is visibly initialised up to its new length by a sweep, copy or clear: the spare capacity holds whatever an earlier RemoveVertex/RemoveEdge left there), ROWDEG (where SparseGraph.AddVertex appends a row to Neighbourhoods and a number to DegreeSequence, the number is proved equal to the length of that row: a degree taken from the raw argument disagrees with the de-duplicated row), MAKEAPPEND (no edit method appends the old storage to a slice freshly made with a non-zero length that nothing filled in - make([]byte, size, 2*size) where make([]byte, 0, 2*size) is meant: the adjacency reads as all zero), TRI (every element index into DenseGraph.Edges in graph_dense.go is a lower-triangle cell J(J-1)/2+I with 0<=I<J proved by E-PROVE where the operands are locally controlled, a running index over a J/I nest, or a linear sweep). Does not decide agreement with the adjacency-set model under arbitrary histories.",
		notDecided:  []string{"that observers agree with an adjacency-set model after every edit history (e.g. the compaction arithmetic of dense RemoveVertex, duplicate neighbours passed to AddVertex)", "dense/sparse agreement", "InducedSubgraph(V) maps vertex i to V[i]"},
		assumptions: []string{"vertex numbers passed as parameters are non-negative (callers' contract)", "neighbour lists / codes loaded from memory satisfy their range preconditions (recorded in the evidence, not judged)"},
		run: func(c *Ctx, tier string) []*RuleResult {
			cp := ruleCouple(c, map[string]bool{c.Mod + "/graph": true})
			ruleEdgeSign(c, cp, "(*graph.DenseGraph).AddEdge", true)
			ruleEdgeSign(c, cp, "(*graph.DenseGraph).RemoveEdge", false)
			ruleEdgeSign(c, cp, "(*graph.SparseGraph).AddEdge", true)
			ruleEdgeSign(c, cp, "(*graph.SparseGraph).RemoveEdge", false)
			fr := &RuleResult{Rule: "FRESH", Doc: "Copy / InducedSubgraph results reach no receiver or argument memory and the functions write nothing reachable from them", MinInst: 8}
			for _, n := range copies {
				fn := c.Fn(n)
				freshResult(c, fr, fn, 0, nil, nil, "is a deep copy")
				noWrites(c, fr, fn, nil, "its receiver and arguments")
			}
			tri := ruleTriX(c, filesOf(c, "graph.NewDense", "T:graph.DenseGraph"), "TRI", true)
			tri.MinInst = 5
			// an edit method that allocates with a separate capacity (a growth policy) must not ask for less
			// capacity than length: make panics for exactly those sizes
			mcap := ruleMakeCapAny(c, filesOf(c, "graph.NewDense", "graph.NewSparse", "T:graph.DenseGraph", "T:graph.SparseGraph"))
			rd := ruleRowDeg(c, "graph", "SparseGraph", "Neighbourhoods", "DegreeSequence")
			ma := ruleMakeAppend(c, filesOf(c, "graph.NewDense", "graph.NewSparse", "T:graph.DenseGraph", "T:graph.SparseGraph"))
			return []*RuleResult{cp, fr, tri, ruleRows(c), ruleEdgeByte(c, "graph"), ruleRegrow(c, "graph"), mcap, rd, ma, irreflexiveEditable(c)}
		},
		controls: func(ctl *Ctx) []*RuleResult {
			cp := ruleCouple(ctl, map[string]bool{"ctl/graph": true})
			es := &RuleResult{Rule: "COUPLE"}
			ruleEdgeSign(ctl, es, "(*graph.DenseGraph).BadAddEdgeOneDegree", true)
			fr := &RuleResult{Rule: "FRESH"}
			freshResult(ctl, fr, ctl.Fn("(*graph.DenseGraph).BadShallowCopy"), 0, nil, nil, "is a deep copy")
			freshResult(ctl, fr, ctl.Fn("(*graph.DenseGraph).GoodCopy"), 0, nil, nil, "is a deep copy")
			tri := ruleTri(ctl, func(string) bool { return true }, "TRI")
			lit := ruleLiteral(ctl)
			return []*RuleResult{cp, es, fr, tri, lit, ruleRows(ctl), ruleEdgeByte(ctl, "graph"), ruleRegrow(ctl, "graph"), ruleRowDeg(ctl, "rowctl", "SparseGraph", "Neighbourhoods", "DegreeSequence"), ruleMakeAppend(ctl, func(f string) bool { return filepath.Base(f) == "partctl.go" }), ruleIrreflexive(ctl, "graph")}
		},
	})
	register(&propDef{
		id:          "C06",
		explanation: "Decides: FRESH (the graphs returned by NewDense and NewSparse reach no memory of the caller's edges / neighbourhoods slices, and the InducedSubgraph view none of the caller's V, so later writes by the caller cannot change them), PARTIAL (in every exported function of package graph, under non-negative integer parameters, each make size written in terms of the parameters is proved non-negative and each non-constant divisor non-zero: the smallest sizes are accepted arguments), LITERAL (every DenseGraph/SparseGraph composite literal in the module that sets the adjacency field also sets NumberOfVertices, NumberOfEdges and DegreeSequence), EDGEBYTE (transformations and encoders never use the numeric value of an input graph's adjacency byte), VIEW (the methods of the live complement / induced-subgraph views write nothing reachable from the view: no cache to go stale), OWNER (no function other than SparseGraph's own edit methods writes the fields of an existing SparseGraph, whether received as a parameter or obtained from a constructor call, so decoders cannot bypass the row invariants; likewise for DenseGraph: only its edit methods and the search iterator, which owns the graph it extends in place, write an existing DenseGraph, so a generator that sets adjacency bytes and bumps the counts of a graph another constructor returned is reported), TRI (every hand-written index into packed-triangle storage in the generators, transformations, decoders and the search is a lower-triangle cell: closed form with 0<=I<J proved for all accepted parameter values when the operands are locally controlled, running index, or linear sweep), DEGSYNC (an edge recorded at cell (I,J) is counted into the returned degree sequence at exactly the entries I and J), COUNTS (hand-filled NumberOfEdges >= 0 and degrees within [0,n-1] for every accepted argument), IRREFLEXIVE (no IsEdge implementation can be true for i == j), REGROW (graph storage grown in place into spare capacity is initialised up to its new length), and classifies each constructor as counted-by-construction or hand-filled. Does not decide that each named family has exactly the edges of its definition.",
		notDecided:  []string{"that each named family has exactly the edges its definition prescribes", "full agreement of hand-filled counts with adjacency (CompleteGraph, CompletePartiteGraph, Path, Star, Cycle, ComplementDense): only their range (COUNTS) and the pairing of counted edges (DEGSYNC) are decided"},
		assumptions: []string{"vertex numbers passed as parameters are non-negative", "data-derived operands (Pruefer code elements, Multicode bytes, neighbour lists, part sizes) satisfy their range preconditions (recorded, not judged)"},
		run: func(c *Ctx, tier string) []*RuleResult {
			fr := &RuleResult{Rule: "FRESH", Doc: "NewDense / NewSparse keep no caller memory; the InducedSubgraph view keeps no memory of V", MinInst: 5}
			nd := c.Fn("graph.NewDense")
			freshResult(c, fr, nd, 0, nil, nil, "does not alias the caller's slices")
			ns := c.Fn("graph.NewSparse")
			freshResult(c, fr, ns, 0, nil, nil, "does not alias the caller's slices")
			noWrites(c, fr, nd, nil, "its arguments")
			noWrites(c, fr, ns, nil, "its arguments")
			denseFiles := filesOf(c, "graph.NewDense", "T:graph.DenseGraph")
			tri := ruleTri(c, func(file string) bool { return !denseFiles(file) }, "TRI")
			tri.MinInst = 8
			own := ruleOwner(c, "graph", "SparseGraph", []string{"(*graph.SparseGraph).AddVertex", "(*graph.SparseGraph).RemoveVertex", "(*graph.SparseGraph).AddEdge", "(*graph.SparseGraph).RemoveEdge"})
			own.MinInst = 4
			// the same for DenseGraph; the search iterator owns the preallocated graph it edits in place
			od := ruleOwner(c, "graph", "DenseGraph", []string{"(*graph.DenseGraph).AddVertex", "(*graph.DenseGraph).RemoveVertex", "(*graph.DenseGraph).AddEdge", "(*graph.DenseGraph).RemoveEdge", "(*graph/search.GraphIterator).Next", "graph/search.WithPruning", "graph/search.Load"})
			od.MinInst = 4
			own.Findings = append(own.Findings, od.Findings...)
			own.Undecided = append(own.Undecided, od.Undecided...)
			own.Instances = append(own.Instances, od.Instances...)
			own.Obligations += od.Obligations
			own.Discharged += od.Discharged
			vw := &RuleResult{Rule: "VIEW", Doc: "the live views (complement, inducedSubgraph) derive every observer from the underlying graph on every call: their methods write nothing reachable from the view, so no cached answer can go stale when the underlying graph is edited", MinInst: 10}
			for _, n := range []string{"N", "M", "IsEdge", "Neighbours", "Degrees"} {
				for _, t := range []string{"complement", "inducedSubgraph"} {
					fn := c.FnOpt("(graph." + t + ")." + n)
					if fn == nil {
						fn = c.Fn("(*graph." + t + ")." + n)
					}
					noWrites(c, vw, fn, []int{0}, "the view")
				}
			}
			all := func(string) bool { return true }
			// the view returned by InducedSubgraph keeps the graph it views, by design, but not the caller's V
			freshResult(c, fr, c.Fn("graph.InducedSubgraph"), 0, []int{1}, nil, "keeps no memory of V (it views g, by design)")
			pt := rulePartial(c, func(f string) bool { return filepath.Base(filepath.Dir(f)) == "graph" }, true)
			pt.MinInst = 20
			// the text decoders construct graphs too: a negative shift count (converted to uint) reads
			// every later pair as b = 0, x = 0 and the graph is not the one the string defines
			decOnly := map[*ssa.Function]bool{}
			for _, n := range []string{"graph.Graph6Decode", "graph.Sparse6Decode"} {
				for _, f := range codecScope(c.Fn(n)) {
					decOnly[f] = true
				}
			}
			dsc := ruleSignConvIn(c, "graph", decOnly, "as a shift count or an index it is huge, and a shift by it yields 0")
			dsc.Doc = "in the decoders no signed value is converted to an unsigned type unless it is proved not to be negative"
			dsc.MinInst = 1
			return []*RuleResult{pt, dsc, fr, ruleLiteral(c), tri, own, ruleEdgeByte(c, "graph"), vw, ruleRows(c), ruleDegSync(c, all), ruleCounts(c, all), ruleIrreflexive(c, "graph"), ruleRegrow(c, "graph"), ruleSubword(c, func(f string) bool { return strings.HasSuffix(filepath.Dir(f), "/graph") }), ruleRetainHelpers(c), ruleCtorClass(c)}
		},
		controls: func(ctl *Ctx) []*RuleResult {
			fr := &RuleResult{Rule: "FRESH"}
			freshResult(ctl, fr, ctl.Fn("effctl.BadFresh"), 0, nil, nil, "does not alias the caller's slices")
			freshResult(ctl, fr, ctl.Fn("effctl.GoodFresh"), 0, nil, nil, "does not alias the caller's slices")
			for _, n := range []string{"GoodCopy", "BadCopyOneField", "BadCopyReadFirst"} {
				freshResult(ctl, fr, ctl.Fn("(*effctl.D2)."+n), 0, nil, nil, "does not alias the receiver's slices")
			}
			all := func(string) bool { return true }
			pt := rulePartial(ctl, func(f string) bool { return filepath.Base(f) == "partctl.go" }, true)
			return []*RuleResult{fr, ruleLiteral(ctl), ruleTri(ctl, all, "TRI"), ruleDegSync(ctl, all), ruleCounts(ctl, all), ruleIrreflexive(ctl, "graph"), pt}
		},
	})
}

// ruleCtorClass: informational classification of constructors (reported, never failing).
func ruleCtorClass(c *Ctx) *RuleResult {
	r := &RuleResult{Rule: "CTOR-CLASS", Doc: "classification of exported constructors: counted by construction (NewDense(n,nil)+AddEdge or NewDense(n, edges), whose counts are recomputed) vs hand-filled (counts written separately from Edges; agreement is a value question, not decided)", MinInst: 10}
	nd := c.FnOpt("graph.NewDense")
	for _, fn := range c.Funcs {
		p := fnPkg(fn)
		if p == nil || p.Pkg.Path() != c.Mod+"/graph" || fn.Synthetic != "" || fn.Parent() != nil || fn.Signature.Recv() != nil || fn.Object() == nil || !fn.Object().Exported() {
			continue
		}
		res := fn.Signature.Results()
		if res.Len() == 0 || !strings.Contains(res.At(0).Type().String(), "DenseGraph") {
			continue
		}
		lit, viaNew := false, false
		for _, b := range fn.Blocks {
			for _, in := range b.Instrs {
				if al, ok := in.(*ssa.Alloc); ok && al.Comment == "complit" && strings.Contains(al.Type().String(), "DenseGraph") {
					lit = true
				}
				if call, ok := in.(*ssa.Call); ok && nd != nil && call.Call.StaticCallee() == nd {
					viaNew = true
				}
			}
		}
		switch {
		case lit:
			r.inst("%s: hand-filled (struct literal with separately computed counts)", c.short(fn))
		case viaNew:
			r.inst("%s: counted by construction (NewDense)", c.short(fn))
		default:
			r.inst("%s: delegates to another constructor", c.short(fn))
		}
		r.oblig(true)
	}
	return r
}

// ruleRows: each neighbour list stored into a SparseGraph's Neighbourhoods must own its backing
// array: the stored slice must not be carved (s[a:b] without a capacity limit) out of an array
// that was allocated outside the loop iteration storing it, because AddVertex appends to rows in place.
func ruleRows(c *Ctx) *RuleResult {
	r := &RuleResult{Rule: "ROWS", Doc: "every slice stored as a row of a [](sorted) neighbour-list table is a whole allocation of its own (or is capacity-limited), not a window into an array shared with other rows: rows are later extended with append", MinInst: 3}
	loopsCache := map[*ssa.Function]map[*ssa.BasicBlock]map[*ssa.BasicBlock]bool{}
	// the table type of SparseGraph.Neighbourhoods
	var tableT types.Type
	if so := c.Pkg("graph").Types.Scope().Lookup("SparseGraph"); so != nil {
		if st, ok := so.Type().Underlying().(*types.Struct); ok {
			for i := 0; i < st.NumFields(); i++ {
				if st.Field(i).Name() == "Neighbourhoods" {
					tableT = st.Field(i).Type()
				}
			}
		}
	}
	if tableT == nil {
		failf("graph.SparseGraph.Neighbourhoods not found")
	}
	rowT := func(t types.Type) bool { return types.Identical(t, tableT) }
	E := c.Eff()
	sparseT := c.Pkg("graph").Types.Scope().Lookup("SparseGraph").Type()
	for _, fn := range c.Funcs {
		p := fnPkg(fn)
		if p == nil || p.Pkg.Path() != c.Mod+"/graph" || fn.Synthetic != "" {
			continue
		}
		// (b) a row must not be memory the caller handed in (other than the graph itself): the edit
		// methods relabel and shrink rows in place
		f := E.fas[fn]
		rowVals := map[ssa.Value]ssa.Instruction{}
		for _, b := range fn.Blocks {
			for _, in := range b.Instrs {
				st, ok := in.(*ssa.Store)
				if !ok {
					continue
				}
				ia, ok := st.Addr.(*ssa.IndexAddr)
				if !ok {
					continue
				}
				if rowT(ia.X.Type()) {
					rowVals[st.Val] = in
					continue
				}
				// the one-element array of a variadic append(table, row)
				if al, ok := ia.X.(*ssa.Alloc); ok && al.Referrers() != nil {
					for _, ref := range *al.Referrers() {
						if sl, ok := ref.(*ssa.Slice); ok && rowT(sl.Type()) {
							rowVals[st.Val] = in
						}
					}
				}
			}
		}
		for v, in := range rowVals {
			for l := range f.P(v) {
				if l.o.root < 0 || l.o.root >= rFree || l.o.root >= len(fn.Params) {
					continue
				}
				pt := fn.Params[l.o.root].Type()
				if pp, ok := pt.Underlying().(*types.Pointer); ok {
					pt = pp.Elem()
				}
				if types.Identical(pt, sparseT) {
					continue // rows moved within, or copied from, the graph itself: FRESH and COUPLE judge those
				}
				desc := c.srcAt(in.Pos())
				if desc == "" {
					desc = valName(v)
				}
				r.inst("%s: row %s", c.short(fn), desc)
				r.oblig(false)
				r.find(c.short(fn)+":row is caller memory", c.instrPos(in), "%s stores as a row of the neighbour table a slice that may be the caller's own (%s): RemoveVertex and RemoveEdge later rewrite rows in place, so the caller's slice and every graph sharing it change", c.short(fn), E.apString(fn, f.apOf(l)))
				break
			}
		}
		// (c) a row is not a verbatim copy of a caller-supplied list either: the caller's list is in any
		// order and may repeat, and IsEdge searches rows by bisection - rows built from an argument go
		// through sortints.NewSortedInts
		for v, in := range rowVals {
			w := v
			for {
				if ct, ok := w.(*ssa.ChangeType); ok {
					w = ct.X
					continue
				}
				if sl, ok := w.(*ssa.Slice); ok {
					w = sl.X
					continue
				}
				break
			}
			mk, isMake := w.(*ssa.MakeSlice)
			if !isMake || mk.Referrers() == nil {
				continue
			}
			for _, ref := range *mk.Referrers() {
				call, ok := ref.(*ssa.Call)
				if !ok {
					continue
				}
				bi, isB := call.Call.Value.(*ssa.Builtin)
				if !isB || bi.Name() != "copy" || len(call.Call.Args) != 2 || call.Call.Args[0] != ssa.Value(mk) {
					continue
				}
				for l := range f.P(call.Call.Args[1]) {
					if l.o.root < 0 || l.o.root >= rFree || l.o.root >= len(fn.Params) {
						continue
					}
					pt := fn.Params[l.o.root].Type()
					if pp, ok := pt.Underlying().(*types.Pointer); ok {
						pt = pp.Elem()
					}
					if types.Identical(pt, sparseT) {
						continue
					}
					desc := c.srcAt(call.Pos())
					if desc == "" {
						desc = "copy"
					}
					r.inst("%s: row filled by %s", c.short(fn), desc)
					r.oblig(false)
					r.find(c.short(fn)+":row copied verbatim from an argument", c.instrPos(in), "%s stores as a row of the neighbour table a verbatim copy of caller-supplied data (%s from %s): the caller's list may be in any order and may repeat, while IsEdge bisects rows and M counts their lengths; rows built from an argument go through sortints.NewSortedInts", c.short(fn), desc, E.apString(fn, f.apOf(l)))
					break
				}
			}
		}
		for _, b := range fn.Blocks {
			for _, in := range b.Instrs {
				st, ok := in.(*ssa.Store)
				if !ok {
					continue
				}
				ia, ok := st.Addr.(*ssa.IndexAddr)
				if !ok || !rowT(ia.X.Type()) {
					continue
				}
				desc := c.srcAt(ia.Pos())
				if desc == "" {
					desc = valName(ia)
				}
				name := c.short(fn)
				v := st.Val
				for {
					if ct, ok := v.(*ssa.ChangeType); ok {
						v = ct.X
						continue
					}
					break
				}
				sl, isSlice := v.(*ssa.Slice)
				if !isSlice || sl.Max != nil {
					r.inst("%s: row %s = %s", name, desc, valName(v))
					r.oblig(true)
					continue
				}
				// a window s[a:b]: fine only if it is the whole of an array allocated in this very iteration
				base := sl.X
				var allocAt *ssa.BasicBlock
				switch a := base.(type) {
				case *ssa.MakeSlice:
					allocAt = a.Block()
				case *ssa.Alloc: // make([]T, const) and slice literals are an array allocation plus a[:]
					allocAt = a.Block()
				}
				loops := loopsCache[fn]
				if loops == nil {
					loops = loopsOf(fn)
					loopsCache[fn] = loops
				}
				sameIter := false
				if allocAt != nil {
					sameIter = true
					for _, body := range loops {
						if body[b] && !body[allocAt] {
							sameIter = false
						}
					}
				}
				// re-slicing the row's own previous value (g.Neighbourhoods[v] = g.Neighbourhoods[v][:k]) keeps ownership
				if ld, ok := base.(*ssa.UnOp); ok {
					if ia2, ok := ld.X.(*ssa.IndexAddr); ok && rowT(ia2.X.Type()) {
						sameIter = true
					}
				}
				r.inst("%s: row %s = window %s", name, desc, c.srcAt(sl.Pos()))
				r.oblig(sameIter)
				if !sameIter {
					r.find(name+":row "+desc+" shares its array", c.instrPos(st), "%s stores %s, a window of an array that other rows are carved from as well, with spare capacity behind it: a later append to this row (AddVertex) overwrites the next row", name, c.srcAt(sl.Pos()))
				}
			}
		}
	}
	return r
}

// ruleOwner: an existing value of the struct type (received as a parameter, or obtained from a
// module call in the same function) has its fields written only inside the listed methods; any
// other function must change it by calling them.
func ruleOwner(c *Ctx, pkgRel, typeName string, methods []string) *RuleResult {
	r := &RuleResult{Rule: "OWNER", Doc: "only the representation's own edit methods write the fields of an existing " + typeName + " (a parameter or the result of a constructor call): they alone keep rows sorted, duplicate-free, loop-free and symmetric, so decoders and transformations must go through them", MinInst: len(methods)}
	E := c.Eff()
	T := c.Pkg(pkgRel).Types.Scope().Lookup(typeName).Type()
	allowed := map[*ssa.Function]bool{}
	allowNames := map[string]bool{}
	for _, m := range methods {
		allowed[c.Fn(m)] = true
		allowNames[m] = true
	}
	// unexported helpers used only by the edit methods count as part of them
	for _, fn := range c.Funcs {
		if !allowed[fn] && fn.Synthetic == "" {
			if ok, _ := derivedAllowed(c, fn, allowNames, map[*ssa.Function]bool{}); ok {
				allowed[fn] = true
			}
		}
	}
	isT := func(t types.Type) bool {
		if t == nil {
			return false
		}
		if p, ok := t.Underlying().(*types.Pointer); ok {
			t = p.Elem()
		}
		return types.Identical(t, T)
	}
	for _, fn := range c.Funcs {
		if fn.Synthetic != "" {
			continue
		}
		f := E.fas[fn]
		// objects of the type that exist before / outside this function's own construction
		target := map[*obj]bool{}
		for _, o := range f.objs {
			if o.root >= 0 && o.root < rFree {
				for a := o; a != nil; a = a.parent {
					if isT(a.typ) {
						target[o] = true
					}
				}
			}
		}
		for v, so := range f.site {
			if call, ok := v.(*ssa.Call); ok {
				if cal := call.Call.StaticCallee(); cal != nil && c.inModule(cal) && isT(call.Type()) {
					target[so] = true
				}
			}
		}
		if len(target) == 0 {
			continue
		}
		name := c.short(fn)
		if allowed[fn] {
			r.inst("%s: edit method (may write)", name)
			r.oblig(true)
			continue
		}
		bad := ""
		var badIn ssa.Instruction
		for _, b := range fn.Blocks {
			for _, in := range b.Instrs {
				if call, ok := in.(*ssa.Call); ok {
					if cal := call.Call.StaticCallee(); cal != nil && allowed[cal] {
						continue
					}
					// a named module function that is handed the graph is judged on its own body by
					// this same rule (the graph is one of its parameters): a generator whose loop
					// moved into a helper that calls AddEdge writes nothing itself
					if cal := call.Call.StaticCallee(); cal != nil && c.inModule(cal) && cal.Blocks != nil && cal.Parent() == nil && cal.Synthetic == "" {
						continue
					}
					if call.Call.IsInvoke() {
						continue // through the EditableGraph interface: resolved to the edit methods
					}
				}
				for l := range f.iw[in] {
					if target[l.o] {
						bad = l.p
						badIn = in
					}
				}
			}
		}
		if bad == "" && badIn == nil {
			continue
		}
		r.inst("%s: writes %s fields directly", name, typeName)
		r.oblig(false)
		r.find(name+":writes "+typeName+" directly", c.instrPos(badIn), "%s writes a field of an existing %s (%s) itself instead of going through %v: the rows' invariants (sorted, duplicate-free, loop-free, symmetric) and the cached counts are only maintained by those methods", name, typeName, instrDesc(c, badIn), methods)
	}
	return r
}

// filesOf: the files that hold the named functions, or the methods of the named types ("T:" +
// package-relative type, e.g. "T:graph.DenseGraph"), as they are today: a scope that follows
// renamed and split files because it is anchored in symbols.
func filesOf(c *Ctx, anchors ...string) func(string) bool {
	files := map[string]bool{}
	for _, a := range anchors {
		if strings.HasPrefix(a, "T:") {
			want := strings.TrimPrefix(a, "T:")
			for _, fn := range c.Funcs {
				if fn.Synthetic != "" || fn.Signature.Recv() == nil {
					continue
				}
				rt := fn.Signature.Recv().Type()
				if p, ok := rt.Underlying().(*types.Pointer); ok {
					rt = p.Elem()
				}
				if n, ok := rt.(*types.Named); ok && n.Obj().Pkg() != nil && strings.TrimPrefix(n.Obj().Pkg().Path(), c.Mod+"/")+"."+n.Obj().Name() == want {
					files[c.Fset.Position(fn.Pos()).Filename] = true
				}
			}
			continue
		}
		if fn := c.FnOpt(a); fn != nil {
			files[c.Fset.Position(fn.Pos()).Filename] = true
		}
	}
	return func(file string) bool { return files[file] }
}

// ruleRowDeg: where one function appends a neighbour list to the row table of a graph and a number
// to its degree sequence (a vertex is added), the number is the length of that very list. A degree
// taken from another slice - the raw argument, say, when the stored row was de-duplicated - makes
// Degrees() disagree with Neighbours() for the new vertex.
func ruleRowDeg(c *Ctx, pkgRel, typ, rowField, degField string) *RuleResult {
	r := &RuleResult{Rule: "ROWDEG", Doc: "a degree appended to " + degField + " together with a row appended to " + rowField + " is the length of that row", MinInst: 1}
	// the single value appended by  append(<recv>.<field>, v)
	appended := func(call *ssa.Call, field string) (recv ssa.Value, v ssa.Value, ok bool) {
		b, isB := call.Call.Value.(*ssa.Builtin)
		if !isB || b.Name() != "append" || len(call.Call.Args) != 2 {
			return nil, nil, false
		}
		ld, isLd := call.Call.Args[0].(*ssa.UnOp)
		if !isLd || ld.Op != token.MUL {
			return nil, nil, false
		}
		fa, isFa := ld.X.(*ssa.FieldAddr)
		if !isFa {
			return nil, nil, false
		}
		pt, isPt := fa.X.Type().Underlying().(*types.Pointer)
		if !isPt {
			return nil, nil, false
		}
		st, isSt := pt.Elem().Underlying().(*types.Struct)
		if !isSt || st.Field(fa.Field).Name() != field {
			return nil, nil, false
		}
		n, isN := pt.Elem().(*types.Named)
		if !isN || n.Obj().Name() != typ {
			return nil, nil, false
		}
		// varargs: slice of a one-element array allocated for the call
		sl, isSl := call.Call.Args[1].(*ssa.Slice)
		if !isSl {
			return nil, nil, false
		}
		al, isAl := sl.X.(*ssa.Alloc)
		if !isAl {
			return nil, nil, false
		}
		at, isAt := al.Type().Underlying().(*types.Pointer).Elem().Underlying().(*types.Array)
		if !isAt || at.Len() != 1 {
			return nil, nil, false
		}
		for _, ref := range *al.Referrers() {
			if ia, isIa := ref.(*ssa.IndexAddr); isIa {
				for _, r2 := range *ia.Referrers() {
					if s, isS := r2.(*ssa.Store); isS && s.Addr == ia {
						return fa.X, s.Val, true
					}
				}
			}
		}
		return nil, nil, false
	}
	for _, fn := range c.Funcs {
		p := fnPkg(fn)
		if p == nil || p.Pkg.Path() != c.Mod+"/"+pkgRel || fn.Synthetic != "" || fn.Blocks == nil {
			continue
		}
		type app struct {
			call *ssa.Call
			recv ssa.Value
			v    ssa.Value
		}
		var rows, degs []app
		for _, b := range fn.Blocks {
			for _, in := range b.Instrs {
				if call, ok := in.(*ssa.Call); ok {
					if rv, v, ok := appended(call, rowField); ok {
						rows = append(rows, app{call, rv, v})
					}
					if rv, v, ok := appended(call, degField); ok {
						degs = append(degs, app{call, rv, v})
					}
				}
			}
		}
		if len(rows) == 0 || len(degs) == 0 {
			continue
		}
		P := NewProver(c, fn)
		for _, d := range degs {
			for _, row := range rows {
				if row.recv != d.recv {
					continue
				}
				src := c.srcAt(d.call.Pos())
				if src == "" {
					src = valName(d.v)
				}
				r.inst("%s: %s is the length of the row appended to %s", c.short(fn), src, rowField)
				diff := P.poly(d.v).add(P.lenOf(row.v), -1)
				same := diff.key() == "" || (P.Prove(diff, d.call.Block()) && P.Prove(diff.scale(-1), d.call.Block()))
				r.oblig(same)
				if !same {
					r.find(c.short(fn)+":degree of the new vertex is not the length of its row", c.instrPos(d.call), "%s appends the row %s to %s but the degree %s to %s, which is not proved equal to the length of that row: Degrees() and Neighbours() disagree for the new vertex whenever the two differ", c.short(fn), valName(row.v), rowField, P.showTerm(P.poly(d.v)), degField)
				}
			}
		}
	}
	return r
}

// irreflexiveEditable: IRREFLEXIVE for the two editable graph types only - C05 is about DenseGraph and
// SparseGraph; the views and derived graphs are judged under C06.
func irreflexiveEditable(c *Ctx) *RuleResult {
	r := ruleIrreflexive(c, "graph", "DenseGraph", "SparseGraph")
	r.MinInst = 2
	return r
}
