package main

import (
	"fmt"
	"os"
	"path/filepath"
	"sort"
	"strings"
	"time"
)

// propDef describes how one property is decided.
type propDef struct {
	id          string
	explanation string
	notDecided  []string
	assumptions []string
	run         func(c *Ctx, tier string) []*RuleResult
	controls    func(ctl *Ctx) []*RuleResult
}

var commonTrusted = []string{
	"go/packages + go/types + go/ssa of golang.org/x/tools v0.29.0 represent the program faithfully",
	"the module uses no unsafe, reflect, cgo or assembly (checked at load)",
	"closed world for interface calls: Graph/EditableGraph/Searcher/sort.Interface/heap.Interface resolve to the module's own implementations (module-restricted CHA)",
	"user-supplied function values (prune, preprune, weights, less, f, t) do not touch analysed state",
	"standard-library effect table in checker/eff.go (stdTable)",
}

var props = map[string]*propDef{}

func register(p *propDef) { props[p.id] = p }

func ctlDir() string {
	if d := os.Getenv("MAMBACHECK_CTL"); d != "" {
		return d
	}
	exe, err := os.Executable()
	if err == nil {
		d := filepath.Join(filepath.Dir(filepath.Dir(exe)), "testdata", "ctl")
		if _, err := os.Stat(d); err == nil {
			return d
		}
	}
	return filepath.Join(verifDir(), "checker", "testdata", "ctl")
}

// checkControls verifies that each rule fires on its seeded-bad control functions (names
// containing "Bad") and stays silent on the good ones (names containing "Good").
func checkControls(rs []*RuleResult) []string {
	var broken []string
	for _, r := range rs {
		bad, good := 0, 0
		for _, f := range r.Findings {
			if strings.Contains(f.Key, "Good") || strings.Contains(f.Key, "good") {
				good++
				broken = append(broken, fmt.Sprintf("positive control: rule %s fired on a control that satisfies it: %s", r.Rule, f.Key))
			} else {
				bad++
			}
		}
		for _, u := range r.Undecided {
			broken = append(broken, fmt.Sprintf("positive control: rule %s undecided on control: %s", r.Rule, u))
		}
		if bad == 0 {
			broken = append(broken, fmt.Sprintf("positive control: rule %s did not fire on its seeded violation", r.Rule))
		}
		_ = good
	}
	return broken
}

// runAll (development aid for the corpus tools, not a registered command): every claimed property's
// quick check in one process, sharing the loaded programs. Prints "EXIT <id> <code>" per property.
func runAll() int {
	var ids []string
	for id := range props {
		ids = append(ids, id)
	}
	sort.Strings(ids)
	ctl := loadProgram(ctlDir(), "ctl", 1)
	c := loadProgram(repoDir(), mambaMod, 9)
	worst := 0
	for _, id := range ids {
		code := 2
		func() {
			defer func() {
				if r := recover(); r != nil {
					if af, ok := r.(analysisFailure); ok {
						fmt.Println("ANALYSIS-FAILURE:", af.msg)
						return
					}
					panic(r)
				}
			}()
			p := props[id]
			o := &propOutcome{prop: id, tier: "quick", start: time.Now(), explanation: p.explanation, notDecided: p.notDecided, assumptions: p.assumptions, trusted: commonTrusted}
			if p.controls != nil {
				o.controls = p.controls(ctl)
				o.broken = append(o.broken, checkControls(o.controls)...)
			}
			o.ctx = c
			o.results = p.run(c, "quick")
			code = o.finish()
		}()
		fmt.Printf("EXIT %s %d\n", id, code)
		if code > worst {
			worst = code
		}
	}
	return worst
}

func runProperty(id, tier string, rest []string) int {
	p := props[id]
	if p == nil {
		failf("unknown or unclaimed property %s", id)
	}
	if tier != "quick" && tier != "thorough" && tier != "--replay" {
		failf("tier must be quick or thorough")
	}
	if tier == "--replay" {
		tier = "quick"
	}
	o := &propOutcome{prop: id, tier: tier, start: time.Now(), explanation: p.explanation, notDecided: p.notDecided, assumptions: p.assumptions, trusted: commonTrusted}
	if p.controls != nil {
		ctl := loadProgram(ctlDir(), "ctl", 1)
		o.controls = p.controls(ctl)
		o.broken = append(o.broken, checkControls(o.controls)...)
	}
	c := loadProgram(repoDir(), mambaMod, 9)
	o.ctx = c
	o.results = p.run(c, tier)
	if tier == "thorough" {
		o.selftest = runSelfTest(id, c)
		if o.selftest != nil {
			if b, ok := o.selftest["selftest_broken"].([]string); ok {
				o.broken = append(o.broken, b...)
			}
		}
	}
	return o.finish()
}
