package main

// E-EFF: interprocedural, field-sensitive, flow-insensitive may-write / may-alias
// summaries over go/ssa. See DESIGN.md §1 and §6.
//
// Memory model. An abstract object is an allocation site of the function under
// analysis, or a piece of caller memory reached from a parameter, free variable
// or global ("root" objects and their lazily materialised "children"). A location
// is (object, inline path): struct fields and array/slice elements are inline
// paths ("Edges", "[*]", "[*].count"); following a pointer, slice, map, interface
// or func value stored in a slot leads to another object. Struct- and array-typed
// SSA values are represented by the locations they were read from (lazy copy),
// which is sound for a flow-insensitive may-analysis.

import (
	"fmt"
	"go/token"
	"go/types"
	"sort"
	"strings"

	"golang.org/x/tools/go/ssa"
)

const (
	rFree   = 1000
	rGlobal = 2000
	rFresh  = 3000
	opaque  = "<state>" // pseudo path: opaque internal state of a library object
	maxDeep = 6
)

type loc struct {
	o *obj
	p string
}
type locset map[loc]bool

type obj struct {
	id      int
	root    int // >=0: rooted in caller memory (param / free / global); -1: local allocation
	parent  *obj
	slot    string     // slot of parent whose pointee this object is
	typ     types.Type // type of the reference leading here (for type-based collapsing)
	depth   int
	lazy    bool // contents exist that this function did not create (caller memory, decoded data)
	name    string
	content map[string]locset
	written map[string]bool
	closure *ssa.MakeClosure
	kids    map[string]*obj
}

// AP is an access path in a summary: start at Root, follow the slots in Derefs,
// then the inline path At inside the object reached.
type AP struct {
	Root   int
	Derefs []step
	At     string
}
type step struct {
	slot string
	typ  types.Type
}

func (a AP) key() string {
	var sb strings.Builder
	fmt.Fprintf(&sb, "%d", a.Root)
	for _, d := range a.Derefs {
		sb.WriteString("→" + d.slot)
	}
	sb.WriteString("@" + a.At)
	return sb.String()
}

type storeEdge struct{ dst, src AP }

type Summary struct {
	Writes  map[string]AP
	Ret     []map[string]AP // per result index
	Stores  map[string]storeEdge
	Unknown map[string]bool // unsummarised callees, go statements, selects
	Lazy    bool            // the fresh result contains decoded/unknown data
}

func newSummary(nres int) *Summary {
	s := &Summary{Writes: map[string]AP{}, Stores: map[string]storeEdge{}, Unknown: map[string]bool{}}
	s.Ret = make([]map[string]AP, nres)
	for i := range s.Ret {
		s.Ret[i] = map[string]AP{}
	}
	return s
}

func (s *Summary) size() int {
	n := len(s.Writes) + len(s.Stores) + len(s.Unknown)
	for _, r := range s.Ret {
		n += len(r)
	}
	if s.Lazy {
		n++
	}
	return n
}

// Eff holds the whole-program result.
type Eff struct {
	c       *Ctx
	sums    map[*ssa.Function]*Summary
	fas     map[*ssa.Function]*fa
	globals []*ssa.Global
	gidx    map[*ssa.Global]int
	impl    map[string][]*ssa.Function // method name -> declared module methods
	rounds  int
	// external callbacks (calls through function values that are not visible closures)
	Callbacks map[string]bool
}

type fa struct {
	E      *Eff
	fn     *ssa.Function
	objs   []*obj
	site   map[ssa.Value]*obj
	roots  map[int]*obj
	pts    map[ssa.Value]locset
	tup    map[ssa.Value]map[int]locset
	ret    []locset
	sum    *Summary
	chg    bool
	iw     map[ssa.Instruction]locset // locations written by each instruction (final pass)
	record bool
	anon   *obj
}

// ---------------------------------------------------------------- types

func pointerLike(t types.Type) bool {
	switch u := t.Underlying().(type) {
	case *types.Pointer, *types.Slice, *types.Map, *types.Chan, *types.Signature, *types.Interface:
		return true
	case *types.Struct:
		for i := 0; i < u.NumFields(); i++ {
			if pointerLike(u.Field(i).Type()) {
				return true
			}
		}
	case *types.Array:
		return pointerLike(u.Elem())
	case *types.Tuple:
		for i := 0; i < u.Len(); i++ {
			if pointerLike(u.At(i).Type()) {
				return true
			}
		}
	}
	return false
}

func isAggregate(t types.Type) bool {
	switch t.Underlying().(type) {
	case *types.Struct, *types.Array:
		return true
	}
	return false
}

func join(p, q string) string {
	if p == "" {
		return q
	}
	if q == "" {
		return p
	}
	return p + "." + q
}

// leafSlots lists the pointer-carrying leaf slots of an aggregate type with their types.
func leafSlots(t types.Type, prefix string, out *[]step) {
	switch u := t.Underlying().(type) {
	case *types.Struct:
		for i := 0; i < u.NumFields(); i++ {
			f := u.Field(i)
			if !pointerLike(f.Type()) {
				continue
			}
			leafSlots(f.Type(), join(prefix, f.Name()), out)
		}
	case *types.Array:
		if pointerLike(u.Elem()) {
			leafSlots(u.Elem(), join(prefix, "[*]"), out)
		}
	default:
		if pointerLike(t) {
			*out = append(*out, step{prefix, t})
		}
	}
}

// ---------------------------------------------------------------- objects

func (f *fa) newObj(root int, name string, typ types.Type) *obj {
	o := &obj{id: len(f.objs), root: root, name: name, typ: typ, content: map[string]locset{}, written: map[string]bool{}, kids: map[string]*obj{}}
	f.objs = append(f.objs, o)
	return o
}

func (f *fa) rootObj(root int, name string, typ types.Type) *obj {
	if o, ok := f.roots[root]; ok {
		return o
	}
	o := f.newObj(root, name, typ)
	o.lazy = true
	f.roots[root] = o
	return o
}

func (f *fa) siteObj(v ssa.Value, name string, typ types.Type) *obj {
	if o, ok := f.site[v]; ok {
		return o
	}
	o := f.newObj(-1, name, typ)
	f.site[v] = o
	return o
}

// child materialises the pointee of slot path p of a lazy object.
func (f *fa) child(o *obj, p string, typ types.Type) *obj {
	if k, ok := o.kids[p]; ok {
		return k
	}
	if typ != nil {
		for a := o; a != nil; a = a.parent {
			if a.typ != nil && types.Identical(a.typ, typ) {
				o.kids[p] = a
				return a
			}
		}
	}
	if o.depth >= maxDeep {
		o.kids[p] = o
		return o
	}
	k := f.newObj(o.root, o.name+"."+p, typ)
	k.parent, k.slot, k.depth, k.lazy = o, p, o.depth+1, true
	o.kids[p] = k
	f.chg = true
	return k
}

// contentOf returns what is stored in slot p of o; typ is the static type of the slot (may be nil).
func (f *fa) contentOf(o *obj, p string, typ types.Type) locset {
	res := locset{}
	for l := range o.content[p] {
		res[l] = true
	}
	if o.lazy && p != opaque && !strings.HasPrefix(p, "$") {
		if typ == nil || pointerLike(typ) {
			res[loc{f.child(o, p, typ), ""}] = true
		}
	}
	return res
}

func (f *fa) addContent(o *obj, p string, src locset) {
	if len(src) == 0 {
		return
	}
	m := o.content[p]
	if m == nil {
		m = locset{}
		o.content[p] = m
	}
	for l := range src {
		if !m[l] {
			m[l] = true
			f.chg = true
		}
	}
}

func (f *fa) markWritten(in ssa.Instruction, ls locset, sub string) {
	for l := range ls {
		p := join(l.p, sub)
		if !l.o.written[p] {
			l.o.written[p] = true
			f.chg = true
		}
		if f.record && in != nil {
			m := f.iw[in]
			if m == nil {
				m = locset{}
				f.iw[in] = m
			}
			m[loc{l.o, p}] = true
		}
	}
}

// reachObjs returns every object reachable from ls through explicit contents
// (children of lazy objects included when already materialised).
func (f *fa) reachObjs(ls locset) map[*obj]bool { return f.reachObjsSkip(ls, "") }

func (f *fa) reachObjsSkip(ls locset, skip string) map[*obj]bool {
	out := map[*obj]bool{}
	var stack []*obj
	push := func(o *obj) {
		if !out[o] {
			out[o] = true
			stack = append(stack, o)
		}
	}
	for l := range ls {
		push(l.o)
	}
	for len(stack) > 0 {
		o := stack[len(stack)-1]
		stack = stack[:len(stack)-1]
		for p, m := range o.content {
			if skip != "" && p == skip {
				continue
			}
			for l := range m {
				push(l.o)
			}
		}
		for _, k := range o.kids {
			push(k)
		}
	}
	return out
}

// ---------------------------------------------------------------- values

func (f *fa) P(v ssa.Value) locset {
	switch x := v.(type) {
	case *ssa.Global:
		gi, ok := f.E.gidx[x]
		if !ok {
			gi = len(f.E.globals)
			f.E.gidx[x] = gi
			f.E.globals = append(f.E.globals, x)
		}
		return locset{loc{f.rootObj(rGlobal+gi, "global "+x.Name(), x.Type()), ""}: true}
	case *ssa.Const, *ssa.Function, *ssa.Builtin:
		return nil
	case *ssa.Parameter:
		if !pointerLike(x.Type()) {
			return nil
		}
		for i, p := range f.fn.Params {
			if p == x {
				return locset{loc{f.rootObj(i, "P"+fmt.Sprint(i)+":"+p.Name(), p.Type()), ""}: true}
			}
		}
	case *ssa.FreeVar:
		for i, p := range f.fn.FreeVars {
			if p == x {
				return locset{loc{f.rootObj(rFree+i, "free:"+p.Name(), p.Type()), ""}: true}
			}
		}
	}
	return f.pts[v]
}

func (f *fa) add(v ssa.Value, ls locset) {
	if len(ls) == 0 {
		return
	}
	m := f.pts[v]
	if m == nil {
		m = locset{}
		f.pts[v] = m
	}
	for l := range ls {
		if !m[l] {
			m[l] = true
			f.chg = true
		}
	}
}

func (f *fa) addTup(v ssa.Value, i int, ls locset) {
	if len(ls) == 0 {
		return
	}
	t := f.tup[v]
	if t == nil {
		t = map[int]locset{}
		f.tup[v] = t
	}
	m := t[i]
	if m == nil {
		m = locset{}
		t[i] = m
	}
	for l := range ls {
		if !m[l] {
			m[l] = true
			f.chg = true
		}
	}
}

func shift(ls locset, sub string) locset {
	out := locset{}
	for l := range ls {
		out[loc{l.o, join(l.p, sub)}] = true
	}
	return out
}

// readSlot: the value of static type t stored at locations ls.
func (f *fa) readSlot(ls locset, t types.Type) locset {
	if !pointerLike(t) {
		return nil
	}
	if isAggregate(t) {
		return ls // lazy copy
	}
	out := locset{}
	for l := range ls {
		for c := range f.contentOf(l.o, l.p, t) {
			out[c] = true
		}
	}
	return out
}

// writeSlot: store a value of static type t (points-to set val) into locations dst.
func (f *fa) writeSlot(dst locset, t types.Type, val locset) {
	f.writeSlotSkip(dst, t, val, nil)
}

// writeSlotSkip: as writeSlot, leaving out the top-level fields in skip (fields of a local struct
// that are overwritten, unread, right after the whole-struct store: see killedFields).
func (f *fa) writeSlotSkip(dst locset, t types.Type, val locset, skip map[string]bool) {
	if !pointerLike(t) {
		return
	}
	if isAggregate(t) {
		var leaves []step
		leafSlots(t, "", &leaves)
		for d := range dst {
			for s := range val {
				if d == s {
					continue
				}
				for _, lf := range leaves {
					if len(skip) > 0 {
						top := lf.slot
						if i := strings.IndexAny(top[1:], ".["); i >= 0 {
							top = top[:i+1]
						}
						if skip[strings.TrimPrefix(top, ".")] {
							continue
						}
					}
					f.addContent(d.o, join(d.p, lf.slot), f.contentOf(s.o, join(s.p, lf.slot), lf.typ))
				}
			}
		}
		return
	}
	for d := range dst {
		f.addContent(d.o, d.p, val)
	}
}

// ---------------------------------------------------------------- calls

func (f *fa) resolve(ap AP, call ssa.Value, args []locset, free []locset) locset {
	var cur locset
	switch {
	case ap.Root >= rFresh:
		if call == nil {
			if f.anon == nil {
				f.anon = f.newObj(-1, "fresh@callback", nil)
			}
			cur = locset{loc{f.anon, ""}: true}
		} else {
			cur = locset{loc{f.siteObj(call, "fresh@"+call.Name(), nil), ""}: true}
		}
	case ap.Root >= rGlobal:
		g := f.E.globals[ap.Root-rGlobal]
		cur = f.P(g)
	case ap.Root >= rFree:
		if ap.Root-rFree < len(free) {
			cur = free[ap.Root-rFree]
		}
	default:
		if ap.Root < len(args) {
			cur = args[ap.Root]
		}
	}
	for _, d := range ap.Derefs {
		next := locset{}
		for l := range cur {
			for c := range f.contentOf(l.o, join(l.p, d.slot), d.typ) {
				next[c] = true
			}
		}
		cur = next
	}
	return shift(cur, ap.At)
}

func (f *fa) applySummary(in ssa.Instruction, call ssa.Value, s *Summary, args []locset, free []locset) {
	if s == nil {
		return
	}
	for _, w := range s.Writes {
		f.markWritten(in, f.resolve(w, call, args, free), "")
	}
	for _, e := range s.Stores {
		src := f.resolve(e.src, call, args, free)
		for d := range f.resolve(e.dst, call, args, free) {
			f.addContent(d.o, d.p, src)
		}
	}
	if call != nil {
		if s.Lazy {
			o := f.siteObj(call, "fresh@"+call.Name(), nil)
			if !o.lazy {
				o.lazy = true
				f.chg = true
			}
		}
		if tt, ok := call.Type().(*types.Tuple); ok {
			for i := 0; i < tt.Len() && i < len(s.Ret); i++ {
				for _, ap := range s.Ret[i] {
					f.addTup(call, i, f.resolve(ap, call, args, free))
				}
			}
		} else if len(s.Ret) > 0 && pointerLike(call.Type()) {
			for _, ap := range s.Ret[0] {
				f.add(call, f.resolve(ap, call, args, free))
			}
		}
	}
	for u := range s.Unknown {
		if !f.sum.Unknown[u] {
			f.sum.Unknown[u] = true
			f.chg = true
		}
	}
}

func (f *fa) closureFree(o *obj, mc *ssa.MakeClosure) []locset {
	var free []locset
	for i := range mc.Bindings {
		free = append(free, f.contentOf(o, fmt.Sprintf("$%d", i), nil))
	}
	return free
}

// callValue applies every closure visible in ls (a func value) with the given args.
func (f *fa) callValue(in ssa.Instruction, call ssa.Value, ls locset, args []locset) bool {
	seen := false
	for l := range ls {
		if l.o.closure != nil {
			seen = true
			fn := l.o.closure.Fn.(*ssa.Function)
			f.applySummary(in, call, f.E.sums[fn], args, f.closureFree(l.o, l.o.closure))
		}
	}
	return seen
}

func (f *fa) implementers(c *ssa.CallCommon) []*ssa.Function {
	iface, _ := c.Value.Type().Underlying().(*types.Interface)
	var out []*ssa.Function
	for _, m := range f.E.impl[c.Method.Name()] {
		rt := m.Signature.Recv().Type()
		if iface != nil {
			ok := types.Implements(rt, iface)
			if !ok {
				if _, isPtr := rt.(*types.Pointer); !isPtr {
					ok = types.Implements(types.NewPointer(rt), iface)
				}
			}
			if !ok {
				continue
			}
		}
		out = append(out, m)
	}
	return out
}

func (f *fa) call(in ssa.Instruction, v ssa.Value, c *ssa.CallCommon) {
	var args []locset
	for _, a := range c.Args {
		args = append(args, f.P(a))
	}
	if c.IsInvoke() {
		all := append([]locset{f.P(c.Value)}, args...)
		targets := f.implementers(c)
		if len(targets) == 0 {
			f.stdInvoke(in, v, c, all)
			return
		}
		for _, t := range targets {
			f.applySummary(in, v, f.E.sums[t], all, nil)
		}
		return
	}
	switch callee := c.Value.(type) {
	case *ssa.Builtin:
		f.builtin(in, v, callee.Name(), c, args)
		return
	case *ssa.Function:
		if f.E.c.inModule(callee) {
			if callee.Blocks == nil {
				f.unknown("bodyless module function " + callee.String())
				return
			}
			f.applySummary(in, v, f.E.sums[callee], args, nil)
			return
		}
		f.stdCall(in, v, callee.String(), c, args)
		return
	case *ssa.MakeClosure:
		fn := callee.Fn.(*ssa.Function)
		var free []locset
		for _, b := range callee.Bindings {
			free = append(free, f.P(b))
		}
		f.applySummary(in, v, f.E.sums[fn], args, free)
		return
	}
	// dynamic call through a function value
	if !f.callValue(in, v, f.P(c.Value), args) {
		f.E.Callbacks[f.E.c.short(f.fn)+": call through "+c.Value.Name()+" ("+types.TypeString(c.Value.Type(), nil)+")"] = true
		// an external callback: assumed not to touch analysed state; its result is unknown caller data
		if v != nil && pointerLike(v.Type()) {
			o := f.siteObj(v, "callback-result@"+v.Name(), v.Type())
			o.lazy = true
			f.add(v, locset{loc{o, ""}: true})
		}
	}
}

func (f *fa) unknown(what string) {
	if !f.sum.Unknown[what] {
		f.sum.Unknown[what] = true
		f.chg = true
	}
}

func (f *fa) fresh(v ssa.Value, name string) locset {
	return locset{loc{f.siteObj(v, name, nil), ""}: true}
}

func (f *fa) builtin(in ssa.Instruction, v ssa.Value, name string, c *ssa.CallCommon, args []locset) {
	switch name {
	case "append":
		if v == nil {
			return
		}
		res := locset{}
		for l := range args[0] {
			res[l] = true
		}
		fo := f.siteObj(v, "append@"+v.Name(), v.Type())
		res[loc{fo, ""}] = true
		f.add(v, res)
		// may write in place into spare capacity
		f.markWritten(in, args[0], "[*]")
		st, _ := c.Args[0].Type().Underlying().(*types.Slice)
		if st != nil && pointerLike(st.Elem()) {
			// old elements are carried into the fresh array; new elements into all
			f.writeSlot(locset{loc{fo, "[*]"}: true}, st.Elem(), f.readSlot(shift(args[0], "[*]"), st.Elem()))
			if len(args) > 1 {
				f.writeSlot(shift(res, "[*]"), st.Elem(), f.readSlot(shift(args[1], "[*]"), st.Elem()))
			}
		}
	case "copy":
		f.markWritten(in, args[0], "[*]")
		if st, ok := c.Args[0].Type().Underlying().(*types.Slice); ok && pointerLike(st.Elem()) {
			f.writeSlot(shift(args[0], "[*]"), st.Elem(), f.readSlot(shift(args[1], "[*]"), st.Elem()))
		}
	case "delete", "clear":
		f.markWritten(in, args[0], "[*]")
	case "close":
		f.markWritten(in, args[0], opaque)
	case "ssa:wrapnilchk":
		if v != nil {
			f.add(v, args[0])
		}
	case "len", "cap", "panic", "print", "println", "recover", "min", "max", "real", "imag", "complex":
	default:
		f.unknown("builtin " + name)
	}
}

// deepOpaque marks the opaque state of everything reachable from ls as written.
func (f *fa) deepOpaque(in ssa.Instruction, ls locset) {
	for o := range f.reachObjsSkip(ls, "<ro>") {
		f.markWritten(in, locset{loc{o, ""}: true}, opaque)
	}
	// a library object rooted in caller memory may wrap further caller memory we cannot see
	for l := range ls {
		f.markWritten(in, locset{l: true}, opaque)
	}
}

type stdEffect struct {
	pure      bool
	fresh     bool  // result is a fresh library object
	retain    []int // args kept inside the fresh result (and written when the result is)
	retainRO  []int // args kept inside the fresh result and only ever read through it
	writeElem []int // args whose elements are written
	writeDeep []int // args whose whole reachable state is (opaquely) written
	decode    []int // args filled with unknown data
	callsArg  []int // closures / interface methods of these args are invoked
	retArg    []int // result may alias these args
}

var stdTable = map[string]stdEffect{
	"sort.Ints":                       {writeElem: []int{0}},
	"sort.SearchInts":                 {pure: true},
	"sort.Search":                     {callsArg: []int{1}},
	"sort.Slice":                      {writeElem: []int{0}, callsArg: []int{1}},
	"sort.Sort":                       {callsArg: []int{0}},
	"sort.Stable":                     {callsArg: []int{0}},
	"container/heap.Init":             {callsArg: []int{0}},
	"container/heap.Push":             {callsArg: []int{0}},
	"container/heap.Pop":              {callsArg: []int{0}},
	"container/heap.Fix":              {callsArg: []int{0}},
	"container/heap.Remove":           {callsArg: []int{0}},
	"bytes.Compare":                   {pure: true},
	"bytes.Equal":                     {pure: true},
	"bytes.NewReader":                 {fresh: true, retainRO: []int{0}},
	"(*bytes.Reader).ReadByte":        {writeDeep: []int{0}},
	"errors.New":                      {fresh: true},
	"fmt.Errorf":                      {fresh: true},
	"fmt.Sprintf":                     {pure: true},
	"fmt.Sprint":                      {pure: true},
	"fmt.Println":                     {pure: true},
	"fmt.Printf":                      {pure: true},
	"fmt.Fprintf":                     {writeDeep: []int{0}},
	"fmt.Fprint":                      {writeDeep: []int{0}},
	"fmt.Fprintln":                    {writeDeep: []int{0}},
	"io.WriteString":                  {writeDeep: []int{0}},
	"io.ReadFull":                     {writeDeep: []int{0}, writeElem: []int{1}},
	"strings.HasPrefix":               {pure: true},
	"(*strings.Builder).WriteString":  {writeDeep: []int{0}},
	"(*strings.Builder).String":       {pure: true},
	"math.Sqrt":                       {pure: true},
	"math/bits.LeadingZeros64":        {pure: true},
	"math/bits.TrailingZeros":         {pure: true},
	"math/bits.TrailingZeros64":       {pure: true},
	"math/bits.Len64":                 {pure: true},
	"math/bits.Len":                   {pure: true},
	"math/bits.OnesCount":             {pure: true},
	"math/bits.OnesCount64":           {pure: true},
	"math/bits.Mul64":                 {pure: true},
	"math/bits.Div64":                 {pure: true},
	"math/bits.Add64":                 {pure: true},
	"math/rand.NewSource":             {fresh: true},
	"math/rand.New":                   {fresh: true, retain: []int{0}},
	"(*math/rand.Rand).Float64":       {writeDeep: []int{0}},
	"(*math/rand.Rand).Intn":          {writeDeep: []int{0}},
	"container/list.New":              {fresh: true},
	"(*container/list.List).Len":      {pure: true},
	"(*container/list.List).Front":    {retArg: []int{0}},
	"(*container/list.List).PushBack": {writeDeep: []int{0}, retArg: []int{0}},
	"(*container/list.List).Remove":   {writeDeep: []int{0}},
	"encoding/gob.NewEncoder":         {fresh: true, retain: []int{0}},
	"encoding/gob.NewDecoder":         {fresh: true, retain: []int{0}},
	"(*encoding/gob.Encoder).Encode":  {writeDeep: []int{0}},
	"(*encoding/gob.Decoder).Decode":  {writeDeep: []int{0}, decode: []int{1}},
	"text/tabwriter.NewWriter":        {fresh: true, retain: []int{0}},
	"(*text/tabwriter.Writer).Flush":  {writeDeep: []int{0}},
	"(*text/tabwriter.Writer).Write":  {writeDeep: []int{0}},
	"(*text/tabwriter.Writer).Init":   {writeDeep: []int{0}, retArg: []int{0}},
	"bufio.NewWriter":                 {fresh: true, retain: []int{0}},
	"bufio.NewWriterSize":             {fresh: true, retain: []int{0}},
	"(*bufio.Writer).WriteString":     {writeDeep: []int{0}},
	"(*bufio.Writer).Write":           {writeDeep: []int{0}},
	"(*bufio.Writer).WriteByte":       {writeDeep: []int{0}},
	"(*bufio.Writer).Flush":           {writeDeep: []int{0}},
	"bufio.NewReader":                 {fresh: true, retain: []int{0}},
	"(*bufio.Reader).ReadByte":        {writeDeep: []int{0}},
	"(*bytes.Buffer).Write":           {writeDeep: []int{0}},
	"(*bytes.Buffer).WriteByte":       {writeDeep: []int{0}},
	"(*bytes.Buffer).WriteString":     {writeDeep: []int{0}},
	"(*bytes.Buffer).Bytes":           {retArg: []int{0}},
	"(*bytes.Buffer).String":          {pure: true},
	"(*bytes.Buffer).Len":             {pure: true},
	"(*sync.Mutex).Lock":              {writeDeep: []int{0}},
	"(*sync.Mutex).Unlock":            {writeDeep: []int{0}},
	"(*sync.RWMutex).Lock":            {writeDeep: []int{0}},
	"(*sync.RWMutex).Unlock":          {writeDeep: []int{0}},
	"(*sync.RWMutex).RLock":           {writeDeep: []int{0}},
	"(*sync.RWMutex).RUnlock":         {writeDeep: []int{0}},
	"(*sync.Pool).Get":                {writeDeep: []int{0}, retArg: []int{0}},
	"(*sync.Pool).Put":                {writeDeep: []int{0}},
	"(*sync.Once).Do":                 {writeDeep: []int{0}, callsArg: []int{1}},
	"unicode/utf8.RuneLen":            {pure: true},
	// encoding/binary: the byte orders are stateless values; Put* fill the slice they are given
	"(encoding/binary.bigEndian).PutUint16":       {writeElem: []int{1}},
	"(encoding/binary.bigEndian).PutUint32":       {writeElem: []int{1}},
	"(encoding/binary.bigEndian).PutUint64":       {writeElem: []int{1}},
	"(encoding/binary.littleEndian).PutUint16":    {writeElem: []int{1}},
	"(encoding/binary.littleEndian).PutUint32":    {writeElem: []int{1}},
	"(encoding/binary.littleEndian).PutUint64":    {writeElem: []int{1}},
	"(encoding/binary.bigEndian).Uint16":          {pure: true},
	"(encoding/binary.bigEndian).Uint32":          {pure: true},
	"(encoding/binary.bigEndian).Uint64":          {pure: true},
	"(encoding/binary.littleEndian).Uint16":       {pure: true},
	"(encoding/binary.littleEndian).Uint32":       {pure: true},
	"(encoding/binary.littleEndian).Uint64":       {pure: true},
	"(encoding/binary.bigEndian).AppendUint64":    {retArg: []int{1}, writeElem: []int{1}},
	"(encoding/binary.littleEndian).AppendUint64": {retArg: []int{1}, writeElem: []int{1}},
	"encoding/binary.PutUvarint":                  {writeElem: []int{0}},
	"encoding/binary.PutVarint":                   {writeElem: []int{0}},
	"encoding/binary.Uvarint":                     {pure: true},
	"encoding/binary.Varint":                      {pure: true},
	"encoding/binary.AppendUvarint":               {retArg: []int{0}, writeElem: []int{0}},
	"strconv.Itoa":                                {pure: true},
}

// statelessPkgs: standard packages whose package-level functions keep no state and never write
// through their arguments (documented contract); a pointer-like result may share memory with any
// pointer-like argument (bytes.TrimSpace, strings.Fields ...) or be fresh.
var statelessPkgs = map[string]bool{
	"math": true, "math/bits": true, "math/cmplx": true, "unicode": true, "unicode/utf8": true, "unicode/utf16": true,
	"strings": true, "bytes": true, "strconv": true, "cmp": true,
}

// autoStd derives the effect of a package-level function of a stateless package from its signature.
func autoStd(c *ssa.CallCommon) (stdEffect, bool) {
	callee := c.StaticCallee()
	if callee == nil || callee.Pkg == nil || callee.Signature.Recv() != nil || !statelessPkgs[callee.Pkg.Pkg.Path()] {
		return stdEffect{}, false
	}
	name := callee.Name()
	var e stdEffect
	if callee.Pkg.Pkg.Path() == "strconv" && strings.HasPrefix(name, "Append") {
		e.writeElem = []int{0}
	}
	ps := callee.Signature.Params()
	for i := 0; i < ps.Len(); i++ {
		t := ps.At(i).Type()
		if _, isFn := t.Underlying().(*types.Signature); isFn {
			e.callsArg = append(e.callsArg, i)
		} else if pointerLike(t) {
			if _, isPtr := t.Underlying().(*types.Pointer); isPtr {
				return stdEffect{}, false // an out parameter: not derived
			}
			e.retArg = append(e.retArg, i)
		}
	}
	e.fresh = true
	if rs := callee.Signature.Results(); rs.Len() > 1 {
		for i := 0; i < rs.Len(); i++ {
			if b, isB := rs.At(i).Type().Underlying().(*types.Basic); pointerLike(rs.At(i).Type()) && !(isB && b.Kind() == types.String) && rs.At(i).Type().String() != "error" {
				return stdEffect{}, false // pointer-like members of a result tuple are not modelled
			}
		}
	}
	if len(e.callsArg) == 0 && len(e.writeElem) == 0 {
		rs := callee.Signature.Results()
		ptrRes := false
		for i := 0; i < rs.Len(); i++ {
			if pointerLike(rs.At(i).Type()) {
				ptrRes = true
			}
		}
		if !ptrRes {
			return stdEffect{pure: true}, true
		}
	}
	return e, true
}

// selfContained: standard types whose methods touch nothing but the receiver, what the receiver was
// built around (bufio/tabwriter wrappers: kept as the receiver's inner state) and their arguments.
var selfContained = map[string]bool{
	"bytes.Reader": true, "bytes.Buffer": true, "strings.Reader": true, "strings.Builder": true,
	"bufio.Reader": true, "bufio.Writer": true, "bufio.Scanner": true, "text/tabwriter.Writer": true,
}

// autoStdMethod derives the effect of a method of a self-contained standard type from its
// signature: it may write the whole state of the receiver; a []byte parameter of a Read* method is
// filled; interface and function parameters may be called; a pointer-like result may point into
// the receiver.
func autoStdMethod(c *ssa.CallCommon) (stdEffect, bool) {
	callee := c.StaticCallee()
	if callee == nil || callee.Signature.Recv() == nil {
		return stdEffect{}, false
	}
	rt := callee.Signature.Recv().Type()
	if p, ok := rt.Underlying().(*types.Pointer); ok {
		rt = p.Elem()
	}
	n, ok := rt.(*types.Named)
	if !ok || n.Obj().Pkg() == nil || !selfContained[n.Obj().Pkg().Path()+"."+n.Obj().Name()] {
		return stdEffect{}, false
	}
	e := stdEffect{writeDeep: []int{0}}
	ps := callee.Signature.Params()
	for i := 0; i < ps.Len(); i++ {
		t := ps.At(i).Type()
		switch u := t.Underlying().(type) {
		case *types.Signature, *types.Interface:
			e.callsArg = append(e.callsArg, i+1)
		case *types.Slice:
			if strings.HasPrefix(callee.Name(), "Read") {
				e.decode = append(e.decode, i+1)
			}
			_ = u
		case *types.Pointer:
			return stdEffect{}, false
		}
	}
	rs := callee.Signature.Results()
	for i := 0; i < rs.Len(); i++ {
		if pointerLike(rs.At(i).Type()) && rs.At(i).Type().String() != "error" {
			if rs.Len() > 1 {
				if b, isB := rs.At(i).Type().Underlying().(*types.Basic); !(isB && b.Kind() == types.String) {
					if _, isSl := rs.At(i).Type().Underlying().(*types.Slice); !isSl {
						return stdEffect{}, false
					}
				}
			}
			e.retArg = []int{0}
		}
	}
	return e, true
}

func (f *fa) stdCall(in ssa.Instruction, v ssa.Value, name string, c *ssa.CallCommon, args []locset) {
	e, ok := stdTable[name]
	if !ok {
		e, ok = autoStd(c)
	}
	if !ok {
		e, ok = autoStdMethod(c)
	}
	if !ok {
		f.unknown("external callee " + name)
		return
	}
	if e.fresh && v != nil && pointerLike(v.Type()) {
		o := f.siteObj(v, "fresh@"+name, nil)
		for _, k := range e.retain {
			f.addContent(o, "<inner>", args[k])
		}
		for _, k := range e.retainRO {
			f.addContent(o, "<ro>", args[k])
		}
		f.add(v, locset{loc{o, ""}: true})
	}
	for _, k := range e.writeElem {
		f.markWritten(in, args[k], "[*]")
	}
	for _, k := range e.writeDeep {
		f.deepOpaque(in, args[k])
	}
	for _, k := range e.decode {
		for o := range f.reachObjs(args[k]) {
			if !o.lazy {
				o.lazy = true
				f.chg = true
			}
			f.markWritten(in, locset{loc{o, ""}: true}, "")
		}
	}
	for _, k := range e.retArg {
		if v != nil && pointerLike(v.Type()) {
			f.add(v, args[k])
		}
	}
	for _, k := range e.callsArg {
		f.callThrough(in, v, args[k], c.Args[k], args)
	}
}

// forwardedStore: ld reads a field (or the whole cell) of a local allocation and, going backwards in
// the same block, the nearest instruction that can have written that memory is a store to exactly
// that field of that allocation. Calls (other than builtins) and stores through anything that is
// not visibly another allocation end the search.
func forwardedStore(ld *ssa.UnOp) ssa.Value {
	rootOf := func(addr ssa.Value) (ssa.Value, int, bool) { // allocation, field index (-1 = whole), ok
		switch a := addr.(type) {
		case *ssa.Alloc:
			return a, -1, true
		case *ssa.FieldAddr:
			if al, ok := a.X.(*ssa.Alloc); ok {
				return al, a.Field, true
			}
		}
		return nil, 0, false
	}
	al, field, ok := rootOf(ld.X)
	if !ok || field < 0 {
		return nil
	}
	instrs := ld.Block().Instrs
	at := -1
	for i, in := range instrs {
		if in == ssa.Instruction(ld) {
			at = i
		}
	}
	for i := at - 1; i >= 0; i-- {
		switch x := instrs[i].(type) {
		case *ssa.Store:
			a2, f2, ok2 := rootOf(x.Addr)
			if ok2 && a2 == al {
				if f2 == field {
					return x.Val
				}
				if f2 < 0 {
					return nil // whole-struct store
				}
				continue // another field of the same struct
			}
			// a store into some other local allocation cannot touch this one
			base := x.Addr
			for {
				switch b := base.(type) {
				case *ssa.FieldAddr:
					base = b.X
					continue
				case *ssa.IndexAddr:
					base = b.X
					continue
				}
				break
			}
			if _, isAlloc := base.(*ssa.Alloc); isAlloc && base != ssa.Value(al) {
				continue
			}
			if _, isMk := base.(*ssa.MakeSlice); isMk {
				continue
			}
			return nil
		case *ssa.Call:
			if _, isB := x.Call.Value.(*ssa.Builtin); isB {
				continue
			}
			return nil
		case *ssa.Go, *ssa.Defer, *ssa.Send, *ssa.MapUpdate, *ssa.Select:
			return nil
		}
	}
	return nil
}

// killedFields: st stores a whole struct into a local allocation ("c := *g"). The fields that the
// same block then assigns before anything can have read them never hold the copied value; their
// names are returned so that the copy leaves them out.
func killedFields(st *ssa.Store) map[string]bool {
	al, ok := st.Addr.(*ssa.Alloc)
	if !ok {
		return nil
	}
	sty, ok := al.Type().Underlying().(*types.Pointer).Elem().Underlying().(*types.Struct)
	if !ok {
		return nil
	}
	var killed map[string]bool
	read := map[int]bool{}
	instrs := st.Block().Instrs
	at := -1
	for i, in := range instrs {
		if in == ssa.Instruction(st) {
			at = i
		}
	}
	for _, in := range instrs[at+1:] {
		switch x := in.(type) {
		case *ssa.FieldAddr:
			if x.X != ssa.Value(al) {
				continue
			}
			for _, r := range *x.Referrers() {
				switch r := r.(type) {
				case *ssa.Store:
					if r.Addr != ssa.Value(x) {
						read[x.Field] = true
					}
				case *ssa.UnOp, *ssa.DebugRef:
				default:
					read[x.Field] = true // the field's address goes somewhere
				}
			}
		case *ssa.UnOp:
			if x.Op != token.MUL {
				continue
			}
			if fa, ok := x.X.(*ssa.FieldAddr); ok && fa.X == ssa.Value(al) {
				read[fa.Field] = true
			} else if x.X == ssa.Value(al) {
				return killed
			} else {
				base := x.X
				for {
					switch b := base.(type) {
					case *ssa.FieldAddr:
						base = b.X
						continue
					case *ssa.IndexAddr:
						base = b.X
						continue
					}
					break
				}
				switch base.(type) {
				case *ssa.Alloc, *ssa.Parameter, *ssa.FreeVar, *ssa.Global, *ssa.MakeSlice:
					// fixed before the struct existed, or another allocation
				default:
					return killed // a load through something that may alias the struct
				}
			}
		case *ssa.Store:
			if fa, ok := x.Addr.(*ssa.FieldAddr); ok && fa.X == ssa.Value(al) {
				if !read[fa.Field] {
					if killed == nil {
						killed = map[string]bool{}
					}
					killed[sty.Field(fa.Field).Name()] = true
				}
			} else if x.Addr == ssa.Value(al) {
				return killed
			}
		case *ssa.Call:
			if _, isB := x.Call.Value.(*ssa.Builtin); !isB {
				return killed
			}
		case *ssa.Go, *ssa.Defer, *ssa.Select, *ssa.MakeClosure, *ssa.MakeInterface:
			return killed
		}
	}
	return killed
}

// stdInvoke: interface method call with no module implementer (io.Writer.Write, error.Error ...).
func (f *fa) stdInvoke(in ssa.Instruction, v ssa.Value, c *ssa.CallCommon, all []locset) {
	name := c.Method.FullName()
	switch name {
	case "(error).Error", "(fmt.Stringer).String":
		return
	}
	// the inspection methods of error values asked for through an anonymous interface
	// (err.(interface{ Temporary() bool })): no arguments, a plain result, by convention pure
	if c.Method.Pkg() == nil || c.Method.Exported() {
		if sig, ok := c.Method.Type().(*types.Signature); ok && sig.Params().Len() == 0 && sig.Results().Len() == 1 {
			switch c.Method.Name() {
			case "Temporary", "Timeout", "Unwrap":
				if _, anon := c.Value.Type().(*types.Interface); anon {
					return
				}
			}
		}
	}
	switch name {
	case "(io.Writer).Write", "(io.Reader).Read", "(io.ByteReader).ReadByte":
		f.deepOpaque(in, all[0])
		if name == "(io.Reader).Read" {
			f.markWritten(in, all[1], "[*]")
		}
		return
	}
	f.unknown("invoke " + name)
}

// callThrough models "the library calls the closure or the methods of this value".
func (f *fa) callThrough(in ssa.Instruction, v ssa.Value, ls locset, arg ssa.Value, args []locset) {
	f.callValue(in, nil, ls, nil)
	t := arg.Type()
	if mi, ok := arg.(*ssa.MakeInterface); ok {
		t = mi.X.Type()
	}
	if _, isIface := t.Underlying().(*types.Interface); isIface {
		return
	}
	ms := f.E.c.Prog.MethodSets.MethodSet(t)
	for i := 0; i < ms.Len(); i++ {
		m := f.E.c.Prog.MethodValue(ms.At(i))
		if m == nil {
			continue
		}
		decl := f.E.declared(m)
		if decl == nil {
			continue
		}
		// receiver is the boxed value; other pointer-like parameters receive any other argument of the library call
		margs := []locset{ls}
		for k := 1; k < len(decl.Params); k++ {
			u := locset{}
			for j, a := range args {
				if j == 0 {
					continue
				}
				for l := range a {
					u[l] = true
				}
			}
			margs = append(margs, u)
		}
		var res ssa.Value
		if v != nil && pointerLike(v.Type()) {
			res = v
		}
		f.applySummary(in, res, f.E.sums[decl], margs, nil)
	}
}

// declared maps a (possibly synthetic wrapper) method to the declared module method.
func (E *Eff) declared(m *ssa.Function) *ssa.Function {
	if m.Synthetic == "" {
		if E.c.inModule(m) {
			return m
		}
		return nil
	}
	for _, d := range E.impl[m.Name()] {
		rt := d.Signature.Recv().Type()
		mt := m.Signature.Recv()
		if mt == nil {
			continue
		}
		a, b := rt, mt.Type()
		if p, ok := a.(*types.Pointer); ok {
			a = p.Elem()
		}
		if p, ok := b.(*types.Pointer); ok {
			b = p.Elem()
		}
		if types.Identical(a, b) {
			return d
		}
	}
	return nil
}

// ---------------------------------------------------------------- transfer

func (f *fa) step(in ssa.Instruction) {
	switch x := in.(type) {
	case *ssa.Alloc:
		f.add(x, locset{loc{f.siteObj(x, "alloc:"+x.Comment, x.Type()), ""}: true})
	case *ssa.MakeSlice:
		f.add(x, locset{loc{f.siteObj(x, "makeslice@"+x.Name(), x.Type()), ""}: true})
	case *ssa.MakeMap:
		f.add(x, locset{loc{f.siteObj(x, "makemap@"+x.Name(), x.Type()), ""}: true})
	case *ssa.MakeChan:
		f.add(x, locset{loc{f.siteObj(x, "makechan@"+x.Name(), x.Type()), ""}: true})
	case *ssa.MakeClosure:
		o := f.siteObj(x, "closure@"+x.Name(), nil)
		o.closure = x
		for i, b := range x.Bindings {
			f.addContent(o, fmt.Sprintf("$%d", i), f.P(b))
		}
		f.add(x, locset{loc{o, ""}: true})
	case *ssa.MakeInterface:
		if pointerLike(x.X.Type()) {
			f.add(x, f.P(x.X))
		}
	case *ssa.FieldAddr:
		st := x.X.Type().Underlying().(*types.Pointer).Elem().Underlying().(*types.Struct)
		f.add(x, shift(f.P(x.X), st.Field(x.Field).Name()))
	case *ssa.Field:
		st := x.X.Type().Underlying().(*types.Struct)
		f.add(x, f.readSlot(shift(f.P(x.X), st.Field(x.Field).Name()), x.Type()))
	case *ssa.IndexAddr:
		f.add(x, shift(f.P(x.X), "[*]"))
	case *ssa.Index:
		if _, isArr := x.X.Type().Underlying().(*types.Array); isArr {
			f.add(x, f.readSlot(shift(f.P(x.X), "[*]"), x.Type()))
		}
	case *ssa.Slice:
		f.add(x, f.P(x.X))
	case *ssa.ChangeType:
		f.add(x, f.P(x.X))
	case *ssa.ChangeInterface:
		f.add(x, f.P(x.X))
	case *ssa.SliceToArrayPointer:
		f.add(x, f.P(x.X))
	case *ssa.Convert:
		if pointerLike(x.Type()) {
			if b, ok := x.X.Type().Underlying().(*types.Basic); ok && b.Info()&types.IsString != 0 {
				f.add(x, f.fresh(x, "conv@"+x.Name()))
			} else {
				f.add(x, f.P(x.X))
			}
		}
	case *ssa.TypeAssert:
		if x.CommaOk {
			f.addTup(x, 0, f.P(x.X))
		} else if pointerLike(x.Type()) {
			f.add(x, f.P(x.X))
		}
	case *ssa.Extract:
		if pointerLike(x.Type()) {
			if t := f.tup[x.Tuple]; t != nil {
				f.add(x, t[x.Index])
			}
		}
	case *ssa.Phi:
		for _, e := range x.Edges {
			f.add(x, f.P(e))
		}
	case *ssa.Select:
		f.unknown("select statement")
	case *ssa.UnOp:
		switch x.Op {
		case token.MUL:
			if sv := forwardedStore(x); sv != nil {
				// the field of a local struct that was assigned just above in the same block: the
				// load sees that value, not whatever an earlier whole-struct copy put there
				f.add(x, f.P(sv))
			} else {
				f.add(x, f.readSlot(f.P(x.X), x.Type()))
			}
		case token.ARROW:
			et := x.X.Type().Underlying().(*types.Chan).Elem()
			if x.CommaOk {
				f.addTup(x, 0, f.readSlot(shift(f.P(x.X), "[*]"), et))
			} else {
				f.add(x, f.readSlot(shift(f.P(x.X), "[*]"), et))
			}
			f.markWritten(in, f.P(x.X), opaque)
		}
	case *ssa.Lookup:
		if mt, ok := x.X.Type().Underlying().(*types.Map); ok {
			r := f.readSlot(shift(f.P(x.X), "[*]"), mt.Elem())
			if x.CommaOk {
				f.addTup(x, 0, r)
			} else {
				f.add(x, r)
			}
		}
	case *ssa.Range:
		f.add(x, f.P(x.X))
	case *ssa.Next:
		if !x.IsString {
			if r, ok := x.Iter.(*ssa.Range); ok {
				if mt, ok := r.X.Type().Underlying().(*types.Map); ok {
					f.addTup(x, 1, f.readSlot(shift(f.P(r.X), "[k]"), mt.Key()))
					f.addTup(x, 2, f.readSlot(shift(f.P(r.X), "[*]"), mt.Elem()))
				}
			}
		}
	case *ssa.Store:
		tg := f.P(x.Addr)
		f.markWritten(in, tg, "")
		f.writeSlotSkip(tg, x.Val.Type(), f.P(x.Val), killedFields(x))
	case *ssa.MapUpdate:
		tg := f.P(x.Map)
		f.markWritten(in, tg, "[*]")
		f.writeSlot(shift(tg, "[*]"), x.Value.Type(), f.P(x.Value))
		f.writeSlot(shift(tg, "[k]"), x.Key.Type(), f.P(x.Key))
	case *ssa.Send:
		tg := f.P(x.Chan)
		f.markWritten(in, tg, opaque)
		f.writeSlot(shift(tg, "[*]"), x.X.Type(), f.P(x.X))
	case *ssa.Call:
		f.call(in, x, &x.Call)
	case *ssa.Go:
		f.call(in, nil, &x.Call)
		f.unknown("go statement")
	case *ssa.Defer:
		f.call(in, nil, &x.Call)
	case *ssa.Return:
		for i, r := range x.Results {
			for l := range f.P(r) {
				if !f.ret[i][l] {
					f.ret[i][l] = true
					f.chg = true
				}
			}
		}
	}
}

func (f *fa) run() {
	for iter := 0; iter < 100; iter++ {
		f.chg = false
		for _, b := range f.fn.Blocks {
			for _, in := range b.Instrs {
				f.step(in)
			}
		}
		if !f.chg {
			break
		}
	}
	f.record = true
	f.iw = map[ssa.Instruction]locset{}
	for _, b := range f.fn.Blocks {
		for _, in := range b.Instrs {
			f.step(in)
		}
	}
	f.record = false
	f.extract()
}

// apOf converts a location into a summary access path.
func (f *fa) apOf(l loc) AP {
	o := l.o
	if o.root < 0 {
		return AP{Root: rFresh, At: l.p}
	}
	var ds []step
	for a := o; a.parent != nil; a = a.parent {
		ds = append([]step{{a.slot, a.typ}}, ds...)
	}
	return AP{Root: o.root, Derefs: ds, At: l.p}
}

func (f *fa) extract() {
	s := f.sum
	for _, o := range f.objs {
		if o.root < 0 {
			continue
		}
		for p := range o.written {
			ap := f.apOf(loc{o, p})
			s.Writes[ap.key()] = ap
		}
	}
	// escaping local objects: reachable from results or from caller memory
	seeds := locset{}
	for i := range f.ret {
		for l := range f.ret[i] {
			ap := f.apOf(l)
			s.Ret[i][ap.key()] = ap
			seeds[l] = true
		}
	}
	for _, o := range f.objs {
		if o.root >= 0 {
			for _, m := range o.content {
				for l := range m {
					seeds[l] = true
				}
			}
		}
	}
	esc := f.reachObjs(seeds)
	for _, o := range f.objs {
		if o.root < 0 && !esc[o] {
			continue
		}
		if o.root < 0 && o.lazy {
			s.Lazy = true
		}
		for p, m := range o.content {
			for l := range m {
				e := storeEdge{f.apOf(loc{o, p}), f.apOf(l)}
				s.Stores[e.dst.key()+"<="+e.src.key()] = e
			}
		}
	}
}

// ---------------------------------------------------------------- driver

func (c *Ctx) Eff() *Eff {
	if c.eff != nil {
		return c.eff
	}
	E := &Eff{c: c, sums: map[*ssa.Function]*Summary{}, fas: map[*ssa.Function]*fa{}, gidx: map[*ssa.Global]int{}, impl: map[string][]*ssa.Function{}, Callbacks: map[string]bool{}}
	for _, fn := range c.Funcs {
		if fn.Signature.Recv() != nil && fn.Synthetic == "" {
			E.impl[fn.Name()] = append(E.impl[fn.Name()], fn)
		}
		E.sums[fn] = newSummary(fn.Signature.Results().Len())
	}
	for round := 0; round < 60; round++ {
		changed := false
		for _, fn := range c.Funcs {
			f := E.analyse(fn)
			if f.sum.size() != E.sums[fn].size() {
				changed = true
			}
			E.sums[fn] = f.sum
			E.fas[fn] = f
		}
		E.rounds = round + 1
		if !changed {
			break
		}
	}
	c.eff = E
	return E
}

func (E *Eff) analyse(fn *ssa.Function) *fa {
	f := &fa{E: E, fn: fn, site: map[ssa.Value]*obj{}, roots: map[int]*obj{}, pts: map[ssa.Value]locset{}, tup: map[ssa.Value]map[int]locset{}, sum: newSummary(fn.Signature.Results().Len())}
	f.ret = make([]locset, fn.Signature.Results().Len())
	for i := range f.ret {
		f.ret[i] = locset{}
	}
	f.run()
	return f
}

// ---------------------------------------------------------------- queries

// rootName renders the root of an access path for messages.
func (E *Eff) rootName(fn *ssa.Function, r int) string {
	switch {
	case r >= rFresh:
		return "fresh"
	case r >= rGlobal:
		return "global " + E.globals[r-rGlobal].Name()
	case r >= rFree:
		if r-rFree < len(fn.FreeVars) {
			return "captured " + fn.FreeVars[r-rFree].Name()
		}
		return "captured?"
	default:
		if r < len(fn.Params) {
			return fn.Params[r].Name()
		}
		return fmt.Sprintf("param%d", r)
	}
}

func (E *Eff) apString(fn *ssa.Function, a AP) string {
	s := E.rootName(fn, a.Root)
	for _, d := range a.Derefs {
		if d.slot == "" {
			s = "(*" + s + ")"
		} else {
			s += "." + d.slot
		}
	}
	if a.At != "" {
		s += "." + a.At
	}
	return s
}

// WritesOf lists the caller-visible locations fn may write, rendered, sorted.
func (E *Eff) WritesOf(fn *ssa.Function) []AP {
	s := E.sums[fn]
	var ks []string
	for k := range s.Writes {
		ks = append(ks, k)
	}
	sort.Strings(ks)
	var out []AP
	for _, k := range ks {
		out = append(out, s.Writes[k])
	}
	return out
}

// RetReach lists the caller-memory roots (param / free / global) reachable from result i
// of fn, each with one example path, by walking the final object graph.
func (E *Eff) RetReach(fn *ssa.Function, i int) map[int]string {
	f := E.fas[fn]
	out := map[int]string{}
	if i >= len(f.ret) {
		return out
	}
	type item struct {
		o    *obj
		path string
	}
	seen := map[*obj]bool{}
	var stack []item
	for l := range f.ret[i] {
		if !seen[l.o] {
			seen[l.o] = true
			stack = append(stack, item{l.o, "result"})
		}
	}
	for len(stack) > 0 {
		it := stack[len(stack)-1]
		stack = stack[:len(stack)-1]
		if it.o.root >= 0 {
			if _, ok := out[it.o.root]; !ok {
				out[it.o.root] = it.path + " -> " + E.apString(fn, f.apOf(loc{it.o, ""}))
			}
			continue // whatever is below caller memory is caller memory
		}
		for p, m := range it.o.content {
			for l := range m {
				if !seen[l.o] {
					seen[l.o] = true
					stack = append(stack, item{l.o, it.path + "." + p})
				}
			}
		}
	}
	return out
}

// InstrWrites gives, for an instruction of fn, the caller-visible access paths it may write.
func (E *Eff) InstrWrites(fn *ssa.Function, in ssa.Instruction) []AP {
	f := E.fas[fn]
	var out []AP
	seen := map[string]bool{}
	for l := range f.iw[in] {
		if l.o.root < 0 {
			continue
		}
		ap := f.apOf(l)
		if !seen[ap.key()] {
			seen[ap.key()] = true
			out = append(out, ap)
		}
	}
	sort.Slice(out, func(i, j int) bool { return out[i].key() < out[j].key() })
	return out
}

// UnknownOf lists unsummarised effects of fn (transitively), sorted.
func (E *Eff) UnknownOf(fn *ssa.Function) []string {
	var out []string
	for u := range E.sums[fn].Unknown {
		out = append(out, u)
	}
	sort.Strings(out)
	return out
}
