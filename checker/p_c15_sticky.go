package main

// STICKY (C15): "... and then reports exhaustion on every further call". Decided structurally per
// `return false` of an iterator's Next:
//   (A) no instruction on any path from the entry to that return may write memory of the iterator
//       (E-EFF): the call was a pure function of the state and left it alone, so the next call
//       takes the same path and answers false again; or
//   (B) every path to that return stores a constant into a field of the iterator (a done mark, found
//       in the code, not undone afterwards), and Next honours it: with the edges removed on which
//       a test of that field establishes the mark is absent, no write to the iterator is reachable
//       from the entry and every reachable return is `false`.
// A `return false` after state writes with no such mark is reported: the next call continues from
// whatever the exhausting call left behind (the first object again, a half-updated state).
// Iterators whose exhausting call advances a counter to the value the entry test looks for
// (stability by value, not by shape) are listed in stickyByValue and not judged.

import (
	"fmt"
	"go/token"
	"sort"

	"golang.org/x/tools/go/ssa"
)

// not judged, with the reason (confirmed by reading)
var stickyByValue = map[string]string{
	"(*itertools.PermutationIterator).Next":             "the exhausting call leaves i == n (counters reset on the way), which is what the entry test looks for: stable by value",
	"(*itertools.PermutationsByPatternIterator).Next":   "exhaustion is reached by popping the partial permutation down to nothing, and an empty one is what the re-entry test finds: stable by value",
	"(*itertools.RestrictedPrefixProductIterator).Next": "the exhausting call pops the state down to its first entry, which stays at its maximum, so the next call fails the same test: stable by value",
}

func ruleSticky(c *Ctx, pkgRel string, byValue map[string]string) *RuleResult {
	r := &RuleResult{Rule: "STICKY", Doc: "every `return false` of an iterator's Next either follows no write to the iterator on any path, or follows a done mark that Next tests on entry before touching anything", MinInst: 1}
	E := c.Eff()
	var fns []*ssa.Function
	for _, fn := range c.Funcs {
		p := fnPkg(fn)
		if p == nil || p.Pkg.Path() != c.Mod+"/"+pkgRel || fn.Synthetic != "" || fn.Blocks == nil || fn.Name() != "Next" || fn.Signature.Recv() == nil {
			continue
		}
		res := fn.Signature.Results()
		if res.Len() != 1 || res.At(0).Type().String() != "bool" {
			continue
		}
		fns = append(fns, fn)
	}
	sort.Slice(fns, func(i, j int) bool { return c.short(fns[i]) < c.short(fns[j]) })
	for _, fn := range fns {
		name := c.short(fn)
		if why, ok := byValue[name]; ok {
			r.note("%s is not judged: %s", name, why)
			continue
		}
		if !checkUnknown(c, r, fn) {
			continue
		}
		recv := fn.Params[0]
		mayBeFalse := func(v ssa.Value) (bool, bool) { // (may be false, decided)
			switch x := v.(type) {
			case *ssa.Const:
				return x.Value != nil && x.Value.ExactString() == "false", true
			case *ssa.Phi:
				any := false
				for _, e := range x.Edges {
					k, ok := e.(*ssa.Const)
					if !ok {
						return true, false
					}
					if k.Value != nil && k.Value.ExactString() == "false" {
						any = true
					}
				}
				return any, true
			}
			return true, false
		}
		writesIn := func(b *ssa.BasicBlock) []ssa.Instruction {
			var out []ssa.Instruction
			for _, in := range b.Instrs {
				if _, w := rootedAt(E.InstrWrites(fn, in), 0); w {
					out = append(out, in)
				}
			}
			return out
		}
		// candidate marks: constant stores into receiver fields
		type markT = sealMark
		cands := map[markT]bool{}
		for _, b := range fn.Blocks {
			for _, in := range b.Instrs {
				if st, ok := in.(*ssa.Store); ok {
					if f, ok := fieldOfAddr(st.Addr, recv); ok {
						if k, isK := constKey(st.Val); isK {
							cands[markT{f, k}] = true
						}
					}
				}
			}
		}
		var marks []markT
		for m := range cands {
			marks = append(marks, m)
		}
		sort.Slice(marks, func(i, j int) bool { return marks[i].field+marks[i].val < marks[j].field+marks[j].val })
		// is a mark honoured by Next? (independent of the return site)
		honoured := map[markT]bool{}
		for _, m := range marks {
			gates := map[cfgEdge]bool{}
			for _, b := range fn.Blocks {
				if iff, ok := b.Instrs[len(b.Instrs)-1].(*ssa.If); ok {
					for ei, truth := range []bool{true, false} {
						if markAbsentOn(iff.Cond, truth, recv, m) {
							gates[cfgEdge{b, b.Succs[ei]}] = true
						}
					}
				}
			}
			if len(gates) == 0 {
				continue
			}
			seen := map[*ssa.BasicBlock]bool{fn.Blocks[0]: true}
			stack := []*ssa.BasicBlock{fn.Blocks[0]}
			for len(stack) > 0 {
				b := stack[len(stack)-1]
				stack = stack[:len(stack)-1]
				for _, s := range b.Succs {
					if gates[cfgEdge{b, s}] || seen[s] {
						continue
					}
					seen[s] = true
					stack = append(stack, s)
				}
			}
			ok := true
			for b := range seen {
				if len(writesIn(b)) > 0 {
					ok = false
				}
				if ret, isRet := b.Instrs[len(b.Instrs)-1].(*ssa.Return); isRet {
					if k, isK := constKey(ret.Results[0]); !isK || k != "false" {
						ok = false
					}
				}
			}
			honoured[m] = ok
		}
		for _, b := range fn.Blocks {
			ret, ok := b.Instrs[len(b.Instrs)-1].(*ssa.Return)
			if !ok {
				continue
			}
			mf, decided := mayBeFalse(ret.Results[0])
			if !decided {
				// `return b.k == -1` after `b.k--`: whether that is false again next time is a matter of values
				r.note("%s: the value returned at %s is computed, not a constant: stability there is value-level and not judged", name, c.instrPos(ret))
				continue
			}
			if !mf {
				continue
			}
			site := c.instrPos(ret)
			r.inst("%s: return false at %s is stable", name, site)
			// (A) blocks on a path to this return
			canReach := map[*ssa.BasicBlock]bool{b: true}
			stack := []*ssa.BasicBlock{b}
			for len(stack) > 0 {
				x := stack[len(stack)-1]
				stack = stack[:len(stack)-1]
				for _, p := range x.Preds {
					if !canReach[p] {
						canReach[p] = true
						stack = append(stack, p)
					}
				}
			}
			var ws []ssa.Instruction
			for _, x := range fn.Blocks {
				if !canReach[x] {
					continue
				}
				for _, w := range writesIn(x) {
					// a helper that reports whether it changed anything: `if step(...) { return true }`.
					// When every path from the call to this return leaves the test of its result on the
					// "false" side, and the helper writes nothing before any of its own `return false`,
					// the call wrote nothing on the way here.
					if call, isCall := w.(*ssa.Call); isCall && quietWhenFalse(c, E, call) && onlyViaFalse(x, call, b) {
						continue
					}
					ws = append(ws, w)
				}
			}
			if len(ws) == 0 {
				r.oblig(true)
				continue
			}
			// (B) a mark stored on every path to this return (and not undone), honoured by Next
			okB := false
			for _, m := range marks {
				if !honoured[m] {
					continue
				}
				in := map[*ssa.BasicBlock]bool{fn.Blocks[0]: true}
				out := map[*ssa.BasicBlock]bool{}
				transfer := func(x *ssa.BasicBlock, s bool) bool {
					for _, ins := range x.Instrs {
						if st, ok := ins.(*ssa.Store); ok {
							if f, ok := fieldOfAddr(st.Addr, recv); ok && f == m.field {
								k, isK := constKey(st.Val)
								s = !(isK && k == m.val)
							}
						} else if _, w := rootedAt(E.InstrWrites(fn, ins), 0); w {
							// a call that may rewrite the field (a reset helper) undoes the mark
							if call, isCall := ins.(*ssa.Call); isCall {
								for _, ap := range E.InstrWrites(fn, call) {
									if ap.Root == 0 && len(ap.Derefs) == 0 && (ap.At == m.field || ap.At == "") {
										s = true
									}
								}
							}
						}
					}
					return s
				}
				for changed := true; changed; {
					changed = false
					for _, x := range fn.Blocks {
						o := false
						if in[x] {
							o = transfer(x, true)
						}
						if o != out[x] {
							out[x] = o
							changed = true
						}
						if o {
							for _, s := range x.Succs {
								if !in[s] {
									in[s] = true
									changed = true
								}
							}
						}
					}
				}
				if !(in[b] && transfer(b, true)) {
					okB = true
					break
				}
			}
			r.oblig(okB)
			if !okB {
				w0 := ws[0]
				r.find(name+":return false after state writes", site, "%s returns false at %s after it may have modified the iterator (%s at %s, %d write site(s) on the paths there) and records no done mark that Next tests on entry: a further call continues from the modified state instead of reporting exhaustion again", name, site, instrDesc(c, w0), c.instrPos(w0), len(ws))
			}
		}
	}
	r.inst(fmt.Sprintf("%d iterators of package %s examined", len(fns), pkgRel))
	return r
}

// quietWhenFalse: the callee is a module function with a single boolean result, all of whose returns
// are constants, and no instruction on any path to one of its `return false` may write memory
// reachable from its parameters.
func quietWhenFalse(c *Ctx, E *Eff, call *ssa.Call) bool {
	f := call.Call.StaticCallee()
	if f == nil || !c.inModule(f) || f.Blocks == nil {
		return false
	}
	res := f.Signature.Results()
	if res.Len() != 1 || res.At(0).Type().String() != "bool" {
		return false
	}
	for _, u := range E.UnknownOf(f) {
		_ = u
		return false
	}
	for _, b := range f.Blocks {
		ret, ok := b.Instrs[len(b.Instrs)-1].(*ssa.Return)
		if !ok {
			continue
		}
		k, isK := constKey(ret.Results[0])
		if !isK {
			return false
		}
		if k != "false" {
			continue
		}
		canReach := map[*ssa.BasicBlock]bool{b: true}
		stack := []*ssa.BasicBlock{b}
		for len(stack) > 0 {
			x := stack[len(stack)-1]
			stack = stack[:len(stack)-1]
			for _, p := range x.Preds {
				if !canReach[p] {
					canReach[p] = true
					stack = append(stack, p)
				}
			}
		}
		for _, x := range f.Blocks {
			if !canReach[x] {
				continue
			}
			for _, in := range x.Instrs {
				for _, ap := range E.InstrWrites(f, in) {
					if ap.Root >= 0 && ap.Root < rFree {
						return false
					}
				}
			}
		}
	}
	return true
}

// onlyViaFalse: block x ends in a test of the call's result and the return block ret is not reachable
// from the side of that test on which the result is true.
func onlyViaFalse(x *ssa.BasicBlock, call *ssa.Call, ret *ssa.BasicBlock) bool {
	iff, ok := x.Instrs[len(x.Instrs)-1].(*ssa.If)
	if !ok {
		return false
	}
	cond, trueSide := iff.Cond, 0
	for {
		if u, isNot := cond.(*ssa.UnOp); isNot && u.Op == token.NOT {
			cond, trueSide = u.X, 1-trueSide
			continue
		}
		break
	}
	if cond != ssa.Value(call) {
		return false
	}
	seen := map[*ssa.BasicBlock]bool{}
	stack := []*ssa.BasicBlock{x.Succs[trueSide]}
	seen[x.Succs[trueSide]] = true
	for len(stack) > 0 {
		y := stack[len(stack)-1]
		stack = stack[:len(stack)-1]
		if y == ret {
			return false
		}
		for _, s := range y.Succs {
			if !seen[s] {
				seen[s] = true
				stack = append(stack, s)
			}
		}
	}
	return true
}
