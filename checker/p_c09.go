package main

import (
	"fmt"
	"go/token"
	"golang.org/x/tools/go/ssa"
)

// ruleLive (C09): a witness slice that a function allocates and returns must be written by at
// least one statically reachable instruction, and must not be allocated with a provably zero length.
func ruleLive(c *Ctx, r *RuleResult, fnName string) {
	fn := c.Fn(fnName)
	E := c.Eff()
	f := E.fas[fn]
	P := NewProver(c, fn)
	// local slice objects returned by fn
	returned := map[*obj]int{}
	for i := range f.ret {
		for l := range f.ret[i] {
			if l.o.root < 0 && l.p == "" {
				returned[l.o] = i
			}
		}
	}
	n := 0
	for _, b := range fn.Blocks {
		for _, in := range b.Instrs {
			mk, ok := in.(*ssa.MakeSlice)
			if !ok {
				continue
			}
			o := f.site[mk]
			if o == nil {
				continue
			}
			ri, isRet := returned[o]
			if !isRet {
				continue
			}
			n++
			desc := c.srcAt(mk.Pos())
			if desc == "" {
				desc = valName(mk)
			}
			r.inst("%s: returned witness %s (result %d)", fnName, desc, ri)
			// (a) allocated with a provably zero length
			ln := P.poly(mk.Len)
			zero := P.Prove(ln, b)
			// (b) every writer statically dead
			writers, live := 0, 0
			for _, b2 := range fn.Blocks {
				for _, in2 := range b2.Instrs {
					hit := false
					for l := range f.iw[in2] {
						if l.o == o {
							hit = true
						}
					}
					if !hit {
						continue
					}
					writers++
					if !P.Unreachable(b2, nil) {
						live++
					}
				}
			}
			ok2 := !zero && (writers == 0 || live > 0)
			r.oblig(ok2)
			if zero {
				r.find(fnName+":witness "+desc+" always empty", c.instrPos(mk), "%s returns a witness allocated with length %s, which is provably 0: the witness is empty for every input", fnName, P.showTerm(ln))
			} else if writers > 0 && live == 0 {
				r.find(fnName+":witness "+desc+" never written", c.instrPos(mk), "%s returns a witness whose %d populating stores are all statically unreachable: it is all zeroes for every input", fnName, writers)
			}
		}
	}
	if n == 0 {
		r.note("%s returns no slice it allocates itself (witness comes from a callee)", fnName)
	}
}

// ruleEmit (C09): a slice that the enumeration hands to its consumer through the result channel
// must never be written again. Statically: every instruction that may write the backing array of a
// sent slice (E-EFF) addresses it through the SSA value of the allocation made in the current
// iteration (make, or append/reslice of such a value) - a name that can only denote the newest
// array - and no such write is reachable from a send without passing through that allocation again.
// A write through a slice read back from memory (a work stack, a field) or carried round a loop
// may hit an array that was already sent: the consumer then sees a clique change under its hands.
func ruleEmit(c *Ctx, r *RuleResult, fnName string) {
	fn := c.Fn(fnName)
	E := c.Eff()
	f := E.fas[fn]
	where := map[ssa.Instruction]ipos{}
	for _, b := range fn.Blocks {
		for i, in := range b.Instrs {
			where[in] = ipos{b, i}
		}
	}
	// freshRoot: the allocation instruction a value is derived from without passing through memory or a phi
	var freshRoot func(v ssa.Value, depth int) ssa.Instruction
	freshRoot = func(v ssa.Value, depth int) ssa.Instruction {
		if depth > 8 {
			return nil
		}
		switch x := v.(type) {
		case *ssa.MakeSlice:
			return x
		case *ssa.Alloc:
			return x
		case *ssa.Slice:
			return freshRoot(x.X, depth+1)
		case *ssa.ChangeType:
			return freshRoot(x.X, depth+1)
		case *ssa.Call:
			if b, ok := x.Call.Value.(*ssa.Builtin); ok && b.Name() == "append" {
				return freshRoot(x.Call.Args[0], depth+1)
			}
		}
		return nil
	}
	baseOf := func(addr ssa.Value) ssa.Value {
		for {
			switch x := addr.(type) {
			case *ssa.IndexAddr:
				addr = x.X
				continue
			case *ssa.FieldAddr:
				addr = x.X
				continue
			}
			return addr
		}
	}
	var sends []*ssa.Send
	sent := map[*obj]bool{}
	for _, b := range fn.Blocks {
		for _, in := range b.Instrs {
			sd, ok := in.(*ssa.Send)
			if !ok {
				continue
			}
			if _, isParam := sd.Chan.(*ssa.Parameter); !isParam {
				continue
			}
			sends = append(sends, sd)
			n := 0
			for l := range f.P(sd.X) {
				if l.p == "" && !sent[l.o] {
					sent[l.o] = true
					n++
				}
			}
			r.inst("%s: send %s: %d backing arrays may be handed out", fnName, c.srcAt(sd.Pos()), len(f.P(sd.X)))
		}
	}
	if len(sends) == 0 {
		r.undecided("%s: no send on a channel parameter found", fnName)
		return
	}
	for _, b := range fn.Blocks {
		for _, in := range b.Instrs {
			hit := false
			for l := range f.iw[in] {
				if sent[l.o] && l.o.root < 0 {
					hit = true
				}
			}
			if !hit {
				continue
			}
			var base ssa.Value
			switch x := in.(type) {
			case *ssa.Store:
				base = baseOf(x.Addr)
			case *ssa.Call:
				if bi, ok := x.Call.Value.(*ssa.Builtin); ok && (bi.Name() == "copy" || bi.Name() == "append") {
					base = x.Call.Args[0]
				}
			}
			desc := c.srcAt(in.Pos())
			if desc == "" {
				desc = in.String()
			}
			r.inst("%s: write %s", fnName, desc)
			var root ssa.Instruction
			if base != nil {
				root = freshRoot(base, 0)
			}
			if root == nil {
				r.oblig(false)
				r.find(fnName+":write to a sent slice:"+desc, c.instrPos(in), "%s: %s may write the backing array of a slice that was already sent on the result channel (it reaches it through memory, a loop-carried value or a callee, not through this iteration's own allocation): a clique the consumer holds can change", fnName, desc)
				continue
			}
			ok := true
			for _, sd := range sends {
				if reaches(where[sd], where[in], where[root]) {
					ok = false
					r.find(fnName+":write after send:"+desc, c.instrPos(in), "%s: %s can execute after the send at %s without a new allocation in between", fnName, desc, c.instrPos(sd))
				}
			}
			r.oblig(ok)
		}
	}
}

func init() {
	fns := []string{"graph.ChromaticIndex", "graph.ChromaticNumber", "graph.dfsDsatur", "graph.GreedyColor", "graph.IsKColorable", "graph.Degeneracy"}
	register(&propDef{
		id:          "C09",
		explanation: "Decides one narrow structural clause of 'come with valid witnesses': LIVE (a witness slice that ChromaticIndex, dfsDsatur/ChromaticNumber, GreedyColor, IsKColorable or Degeneracy allocates and returns is not allocated with a provably zero length, and at least one of the stores that populate it is statically reachable under E-PROVE's dominating-edge facts), plus READONLY (none of the C09 functions writes its graph argument) and EMIT (no write can reach the backing array of a clique AllMaximalCliques has already sent: writes go through the current iteration's own allocation only) and EDGEBYTE (no function of package graph - in particular no dense fast path of a colouring or clique function - uses the numeric value of an adjacency byte: any non-zero byte is an edge, so a test `== 1` gives different answers for the same graph held differently) and COUNTERWIDTH (no tally kept in an 8/16-bit slice element or field - DSATUR's per-colour neighbour counts, say - is incremented without a proof that it stays in range: a uint8 count forgets the 256th neighbour) and NARROW (every conversion of an integer to a narrower type in the clique / colouring files is of a value proved to fit: ChromaticIndex's byte(colour+1) turns colour 256 into 0, the 'no edge' marker - a known finding, see known_findings.txt). Optimality, exactness and properness of the witnesses are value-level and not decided.",
		notDecided:  []string{"that CliqueNumber/IndependenceNumber/ChromaticNumber/ChromaticIndex/Degeneracy return the true optimum", "that the returned colouring is proper and uses exactly that many colours; that each maximal clique is reported once", "ChromaticPolynomial values; GreedyColor first-fit; invariance under relabelling and representation"},
		assumptions: []string{"a witness whose every populating store is dead, or whose length is provably 0, is wrong for every non-empty input"},
		run: func(c *Ctx, tier string) []*RuleResult {
			lv := &RuleResult{Rule: "LIVE", Doc: "returned witness slices are allocated with a length not provably 0 and have a reachable populating store", MinInst: 3}
			for _, n := range fns {
				if c.helperGone(n) {
					lv.note("%s no longer exists: judged through its callers", n)
					continue
				}
				ruleLive(c, lv, n)
			}
			ro := &RuleResult{Rule: "READONLY", Doc: "the invariant functions do not modify the graph they are given (ChromaticPolynomial deletes and contracts edges of copies only)", MinInst: 9}
			for _, n := range []string{"graph.CliqueNumber", "graph.IndependenceNumber", "graph.AllMaximalCliques", "graph.ChromaticNumber", "graph.IsKColorable", "graph.ChromaticIndex", "graph.GreedyColor", "graph.IsProperColouring", "graph.Degeneracy", "graph.ChromaticPolynomial"} {
				noWrites(c, ro, c.Fn(n), []int{0}, "its graph argument")
			}
			em := &RuleResult{Rule: "EMIT", Doc: "a clique sent on the result channel is never written again: every write that may reach a sent backing array goes through the current iteration's own allocation and cannot follow a send without a new allocation", MinInst: 1}
			ruleEmit(c, em, "graph.AllMaximalCliques")
			// the C09 functions must give the same answer for every representation of the same graph: a
			// dense graph's adjacency bytes count as edges whenever they are non-zero
			eb := ruleEdgeByte(c, "graph")
			cw := ruleCounterWidth(c, "graph")
			// a colour converted to a narrower type must be proved to fit: colour 256 as a byte is 0, "no edge"
			nw := ruleNarrowWith(c, filesOf(c, "graph.ChromaticIndex", "graph.ChromaticNumber", "graph.GreedyColor", "graph.IsKColorable", "graph.CliqueNumber", "graph.Degeneracy"), nonNegativeOrder)
			nw.Doc = "every conversion of an integer to a narrower integer type in the clique / colouring files is of a value proved to fit"
			nw.MinInst = 1
			return []*RuleResult{lv, ro, em, eb, cw, nw}
		},
		controls: func(ctl *Ctx) []*RuleResult {
			lv := &RuleResult{Rule: "LIVE"}
			ruleLive(ctl, lv, "livectl.BadDeadLoop")
			ruleLive(ctl, lv, "livectl.GoodWitness")
			em := &RuleResult{Rule: "EMIT"}
			ruleEmit(ctl, em, "livectl.BadEmitAppend")
			ruleEmit(ctl, em, "livectl.GoodEmit")
			em2 := &RuleResult{Rule: "EMIT"}
			ruleEmit(ctl, em2, "livectl.BadEmitReuse")
			cwc := ruleCounterWidth(ctl, "livectl")
			return []*RuleResult{lv, em, em2, cwc, ruleNarrow(ctl, inFiles("balctl.go"))}
		},
	})
}

// ruleCounterWidth: a counter kept in a memory cell (slice element or field) of an 8- or 16-bit
// integer type and bumped by a constant wraps silently once the count passes the type's range
// (a uint8 tally of coloured neighbours forgets the 256th): such an update must be of a value proved
// to stay in range, or the cell must be wider.
func ruleCounterWidth(c *Ctx, pkgRel string) *RuleResult {
	r := &RuleResult{Rule: "COUNTERWIDTH", Doc: "no counter kept in a slice element or field of an 8/16-bit integer type is incremented without a proof that it stays in range", MinInst: 0}
	for _, fn := range c.Funcs {
		p := fnPkg(fn)
		if p == nil || p.Pkg.Path() != c.Mod+"/"+pkgRel || fn.Synthetic != "" || fn.Blocks == nil {
			continue
		}
		var P *Prover
		for _, b := range fn.Blocks {
			for _, in := range b.Instrs {
				st, ok := in.(*ssa.Store)
				if !ok {
					continue
				}
				bo, ok := st.Val.(*ssa.BinOp)
				if !ok || bo.Op != token.ADD || !isInt(bo.Type()) || intBits(bo.Type()) >= 32 {
					continue
				}
				k, isK := constInt(bo.Y)
				if !isK || k <= 0 {
					continue
				}
				ld, ok := bo.X.(*ssa.UnOp)
				if !ok || ld.Op != token.MUL {
					continue
				}
				sameCell := ld.X == st.Addr
				if !sameCell {
					if a1, ok1 := ld.X.(*ssa.IndexAddr); ok1 {
						if a2, ok2 := st.Addr.(*ssa.IndexAddr); ok2 && a1.X == a2.X && a1.Index == a2.Index {
							sameCell = true
						}
					}
					if sameFieldAddr(ld.X, st.Addr) {
						sameCell = true
					}
				}
				if !sameCell {
					continue
				}
				switch st.Addr.(type) {
				case *ssa.IndexAddr, *ssa.FieldAddr:
				default:
					continue // a local variable spilled to memory is not a persistent counter
				}
				if P == nil {
					P = NewProver(c, fn)
				}
				_, hi, _ := typeRange(bo.Type())
				src := c.srcAt(st.Pos())
				if src == "" {
					src = valName(st.Addr) + " += " + fmt.Sprint(k)
				}
				r.inst("%s: %s (%s)", c.short(fn), src, bo.Type())
				ok2 := P.Prove(P.polyLoose(ld).add(constP(k-hi), 1), b)
				r.oblig(ok2)
				if !ok2 {
					r.find(c.short(fn)+":narrow counter "+src, c.instrPos(st), "%s bumps a counter kept in a %s cell (%s) that is not proved to stay below %d: it wraps silently for inputs that reach the limit", c.short(fn), bo.Type(), src, hi)
				}
			}
		}
	}
	return r
}
