package main

import (
	"golang.org/x/tools/go/ssa"
)

// ruleLive (C09): a witness slice that a function allocates and returns must be written by at
// least one statically reachable instruction, and must not be allocated with a provably zero length.
func ruleLive(c *Ctx, r *RuleResult, fnName string) {
	fn := c.Fn(fnName)
	E := c.Eff()
	f := E.fas[fn]
	P := NewProver(c, fn)
	// local slice objects returned by fn
	returned := map[*obj]int{}
	for i := range f.ret {
		for l := range f.ret[i] {
			if l.o.root < 0 && l.p == "" {
				returned[l.o] = i
			}
		}
	}
	n := 0
	for _, b := range fn.Blocks {
		for _, in := range b.Instrs {
			mk, ok := in.(*ssa.MakeSlice)
			if !ok {
				continue
			}
			o := f.site[mk]
			if o == nil {
				continue
			}
			ri, isRet := returned[o]
			if !isRet {
				continue
			}
			n++
			desc := c.srcAt(mk.Pos())
			if desc == "" {
				desc = valName(mk)
			}
			r.inst("%s: returned witness %s (result %d)", fnName, desc, ri)
			// (a) allocated with a provably zero length
			ln := P.poly(mk.Len)
			zero := P.Prove(ln, b)
			// (b) every writer statically dead
			writers, live := 0, 0
			for _, b2 := range fn.Blocks {
				for _, in2 := range b2.Instrs {
					hit := false
					for l := range f.iw[in2] {
						if l.o == o {
							hit = true
						}
					}
					if !hit {
						continue
					}
					writers++
					if !P.Unreachable(b2, nil) {
						live++
					}
				}
			}
			ok2 := !zero && (writers == 0 || live > 0)
			r.oblig(ok2)
			if zero {
				r.find(fnName+":witness "+desc+" always empty", c.instrPos(mk), "%s returns a witness allocated with length %s, which is provably 0: the witness is empty for every input", fnName, P.showTerm(ln))
			} else if writers > 0 && live == 0 {
				r.find(fnName+":witness "+desc+" never written", c.instrPos(mk), "%s returns a witness whose %d populating stores are all statically unreachable: it is all zeroes for every input", fnName, writers)
			}
		}
	}
	if n == 0 {
		r.note("%s returns no slice it allocates itself (witness comes from a callee)", fnName)
	}
}

func init() {
	fns := []string{"graph.ChromaticIndex", "graph.ChromaticNumber", "graph.dfsDsatur", "graph.GreedyColor", "graph.IsKColorable", "graph.Degeneracy"}
	register(&propDef{
		id:          "C09",
		explanation: "Decides one narrow structural clause of 'come with valid witnesses': LIVE (a witness slice that ChromaticIndex, dfsDsatur/ChromaticNumber, GreedyColor, IsKColorable or Degeneracy allocates and returns is not allocated with a provably zero length, and at least one of the stores that populate it is statically reachable under E-PROVE's dominating-edge facts), plus READONLY (none of the C09 functions writes its graph argument). Optimality, exactness and properness of the witnesses are value-level and not decided.",
		notDecided:  []string{"that CliqueNumber/IndependenceNumber/ChromaticNumber/ChromaticIndex/Degeneracy return the true optimum", "that the returned colouring is proper and uses exactly that many colours; that each maximal clique is reported once", "ChromaticPolynomial values; GreedyColor first-fit; invariance under relabelling and representation"},
		assumptions: []string{"a witness whose every populating store is dead, or whose length is provably 0, is wrong for every non-empty input"},
		run: func(c *Ctx, tier string) []*RuleResult {
			lv := &RuleResult{Rule: "LIVE", Doc: "returned witness slices are allocated with a length not provably 0 and have a reachable populating store", MinInst: 3}
			for _, n := range fns {
				if c.helperGone(n) {
					lv.note("%s no longer exists: judged through its callers", n)
					continue
				}
				ruleLive(c, lv, n)
			}
			ro := &RuleResult{Rule: "READONLY", Doc: "the invariant functions do not modify the graph they are given", MinInst: 8}
			for _, n := range []string{"graph.CliqueNumber", "graph.IndependenceNumber", "graph.AllMaximalCliques", "graph.ChromaticNumber", "graph.IsKColorable", "graph.ChromaticIndex", "graph.GreedyColor", "graph.IsProperColouring", "graph.Degeneracy"} {
				noWrites(c, ro, c.Fn(n), []int{0}, "its graph argument")
			}
			return []*RuleResult{lv, ro}
		},
		controls: func(ctl *Ctx) []*RuleResult {
			lv := &RuleResult{Rule: "LIVE"}
			ruleLive(ctl, lv, "livectl.BadDeadLoop")
			ruleLive(ctl, lv, "livectl.GoodWitness")
			return []*RuleResult{lv}
		},
	})
}
