package main

import (
	"go/constant"
	"go/types"

	"golang.org/x/tools/go/ssa"
)

// text/tabwriter is a buffering writer only for lines of two or more cells: when a line that
// holds a single cell (no '\t' or '\v' since the previous line break) is ended by '\n', and at
// every '\f', Write flushes everything collected so far to the underlying writer at once. A write
// into the wrapper that can complete such a line is therefore a write to the output itself, and
// its error result matters like that of a direct write.
//
// tabFlushers runs a forward may-analysis over fn's control-flow graph for the wrapper tw: the
// abstract state is the set of possible answers to "has the current line got a cell terminator
// yet"; each recognised write to tw (fmt.Fprint/Fprintf/Fprintln, io.WriteString, tw.Write) is
// abstracted to the sequence of tabs, line breaks, form feeds and other text it emits. Text whose
// content is not a constant or a formatted number is assumed to contain neither cell terminators
// nor line breaks (reported as a note). The result maps each write that may trigger the early
// flush to a description of why.
type tabSym int

const (
	symText tabSym = iota
	symTab
	symNL
	symFF
)

const (
	stNoTab = 1
	stTab   = 2
)

func symsOfString(s string) []tabSym {
	var out []tabSym
	for i := 0; i < len(s); i++ {
		switch s[i] {
		case '\t', '\v':
			out = append(out, symTab)
		case '\n':
			out = append(out, symNL)
		case '\f':
			out = append(out, symFF)
		default:
			if len(out) == 0 || out[len(out)-1] != symText {
				out = append(out, symText)
			}
		}
	}
	return out
}

// symsOfFormat: a Printf format; verbs produce text (assumed free of breaks).
func symsOfFormat(f string) []tabSym {
	var lit []byte
	for i := 0; i < len(f); i++ {
		if f[i] != '%' {
			lit = append(lit, f[i])
			continue
		}
		i++
		for i < len(f) && (f[i] == '+' || f[i] == '-' || f[i] == '#' || f[i] == ' ' || f[i] == '0' || f[i] == '.' || f[i] == '*' || f[i] == '[' || f[i] == ']' || (f[i] >= '1' && f[i] <= '9')) {
			i++
		}
		lit = append(lit, 'x') // the verb's output (or a literal %)
	}
	return symsOfString(string(lit))
}

func constStr(v ssa.Value) (string, bool) {
	v = stripIface(v)
	switch x := v.(type) {
	case *ssa.Const:
		if x.Value != nil && x.Value.Kind() == constant.String {
			return constant.StringVal(x.Value), true
		}
	case *ssa.Convert: // []byte("...")
		return constStr(x.X)
	}
	return "", false
}

// variadicOperands recovers the operands packed into the varargs slice of a call (nil if the
// slice is not built in place).
func variadicOperands(v ssa.Value) ([]ssa.Value, bool) {
	if c, ok := v.(*ssa.Const); ok && c.Value == nil {
		return nil, true // no operands
	}
	sl, ok := v.(*ssa.Slice)
	if !ok {
		return nil, false
	}
	al, ok := sl.X.(*ssa.Alloc)
	if !ok {
		return nil, false
	}
	arr, ok := al.Type().Underlying().(*types.Pointer).Elem().Underlying().(*types.Array)
	if !ok {
		return nil, false
	}
	out := make([]ssa.Value, arr.Len())
	for _, ref := range *al.Referrers() {
		ia, ok := ref.(*ssa.IndexAddr)
		if !ok {
			continue
		}
		k, ok := constInt(ia.Index)
		if !ok || k < 0 || k >= int64(len(out)) {
			return nil, false
		}
		for _, r2 := range *ia.Referrers() {
			if st, ok := r2.(*ssa.Store); ok && st.Addr == ssa.Value(ia) {
				out[k] = st.Val
			}
		}
	}
	for _, o := range out {
		if o == nil {
			return nil, false
		}
	}
	return out, true
}

func isNumericOrBool(t types.Type) bool {
	b, ok := t.Underlying().(*types.Basic)
	return ok && b.Info()&(types.IsNumeric|types.IsBoolean) != 0
}

// tabWriteSyms: the abstraction of one call that has tw among its operands; known=false when the
// call is not one of the recognised writers.
func tabWriteSyms(call *ssa.Call, tw ssa.Value, assumed *int) (syms []tabSym, known bool) {
	f := call.Call.StaticCallee()
	if f == nil || len(call.Call.Args) == 0 || stripIface(call.Call.Args[0]) != tw {
		return nil, false
	}
	operandSyms := func(ops []ssa.Value) []tabSym {
		var out []tabSym
		for _, o := range ops {
			if s, ok := constStr(o); ok {
				out = append(out, symsOfString(s)...)
				continue
			}
			if !isNumericOrBool(stripIface(o).Type()) {
				*assumed++
			}
			out = append(out, symText)
		}
		return out
	}
	args := call.Call.Args
	switch f.String() {
	case "fmt.Fprint", "fmt.Fprintln":
		ops, ok := variadicOperands(args[len(args)-1])
		if !ok {
			*assumed++
			ops = nil
		}
		syms = operandSyms(ops)
		if f.Name() == "Fprintln" {
			syms = append(syms, symNL)
		}
		return syms, true
	case "fmt.Fprintf":
		if s, ok := constStr(args[1]); ok {
			if ops, ok2 := variadicOperands(args[len(args)-1]); ok2 {
				for _, o := range ops {
					if _, isC := constStr(o); !isC && !isNumericOrBool(stripIface(o).Type()) {
						*assumed++
					}
				}
			}
			return symsOfFormat(s), true
		}
		*assumed++
		return []tabSym{symText}, true
	case "io.WriteString", "(*text/tabwriter.Writer).Write", "(*text/tabwriter.Writer).WriteString":
		if len(args) >= 2 {
			if s, ok := constStr(args[1]); ok {
				return symsOfString(s), true
			}
		}
		*assumed++
		return []tabSym{symText}, true
	}
	return nil, false
}

func tabFlushers(c *Ctx, fn *ssa.Function, tw ssa.Value) (flushers map[*ssa.Call]string, assumed int) {
	flushers = map[*ssa.Call]string{}
	tabFlow(c, fn, tw, stNoTab, flushers, &assumed, 0)
	return
}

// tabFlow: the dataflow proper, from the given entry state to the union of the states at fn's
// returns. Module helpers that are handed the wrapper are analysed in place (bounded depth).
func tabFlow(c *Ctx, fn *ssa.Function, tw ssa.Value, entry int, flushers map[*ssa.Call]string, assumed *int, depth int) (exit int) {
	in := map[*ssa.BasicBlock]int{}
	if len(fn.Blocks) == 0 {
		return entry
	}
	in[fn.Blocks[0]] = entry
	for changed := true; changed; {
		changed = false
		exit = 0
		for _, b := range fn.Blocks {
			st := in[b]
			if st == 0 {
				continue
			}
			for _, ins := range b.Instrs {
				call, ok := ins.(*ssa.Call)
				if !ok {
					continue
				}
				argAt := -1
				var ops []ssa.Value
				if call.Call.IsInvoke() {
					ops = append(ops, call.Call.Value)
				}
				ops = append(ops, call.Call.Args...)
				for k, a := range ops {
					if stripIface(a) == tw {
						argAt = k
					}
				}
				if argAt < 0 {
					continue
				}
				n := 0
				syms, known := tabWriteSyms(call, tw, &n)
				if !known {
					f := call.Call.StaticCallee()
					switch {
					case f != nil && (f.Name() == "Flush" || f.Name() == "Init") && argAt == 0:
						st = stNoTab // what follows starts a fresh line
					case f != nil && c.inModule(f) && f.Blocks != nil && depth < 3 && argAt < len(f.Params):
						out := 0
						for _, bit := range []int{stNoTab, stTab} {
							if st&bit != 0 {
								out |= tabFlow(c, f, f.Params[argAt], bit, flushers, assumed, depth+1)
							}
						}
						if out != 0 {
							st = out
						}
					default:
						st = stNoTab | stTab // an unknown callee: anything may have been written
					}
					continue
				}
				for _, s := range syms {
					switch s {
					case symTab:
						st = stTab
					case symNL:
						if st&stNoTab != 0 {
							flushers[call] = "it can end a line that holds a single cell (no tab since the previous line break), which text/tabwriter writes out at once"
						}
						st = stNoTab
					case symFF:
						flushers[call] = "it writes a form feed, at which text/tabwriter writes out everything collected so far"
						st = stNoTab
					}
				}
			}
			if _, isRet := b.Instrs[len(b.Instrs)-1].(*ssa.Return); isRet {
				exit |= st
			}
			for _, s := range b.Succs {
				if in[s]|st != in[s] {
					in[s] |= st
					changed = true
				}
			}
		}
	}
	for _, b := range fn.Blocks {
		for _, ins := range b.Instrs {
			if call, ok := ins.(*ssa.Call); ok {
				tabWriteSyms(call, tw, assumed)
			}
		}
	}
	return exit
}
