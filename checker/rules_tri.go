package main

// TRI: packed-triangle discipline (C05, C06). Every element index into the Edges array of a
// DenseGraph (or into a local byte slice that becomes one) must be a lower-triangle cell:
//   T-closed  J(J-1)/2 + I  with 0 <= I < J proved when I and J are locally controlled;
//   T-run     a counter started at 0 and incremented once per iteration of a
//             for J { for I := 0; I < J; I++ } nest (invariant index = J(J-1)/2 + I);
//   T-sweep   a unit-step loop counter used unconditionally as the index over a contiguous range.

import (
	"fmt"
	"go/token"
	"go/types"
	"math"
	"sort"
	"strconv"
	"strings"

	"golang.org/x/tools/go/ssa"
)

// triSplit writes idx as J(J-1)/2 + I.
func (P *Prover) triSplit(idx Poly) (J, I Poly, ok bool) {
	for _, m := range idx.monos() {
		c := idx[m]
		if strings.Contains(m, "*") || c != 1 {
			continue
		}
		id, _ := strconv.Atoi(m)
		a := P.atoms[id]
		if a.kind != aDiv || a.c != 2 {
			continue
		}
		if j, ok := solveJ(a.inner); ok {
			rest := idx.clone()
			delete(rest, m)
			return j, rest, true
		}
	}
	return nil, nil, false
}

// solveJ finds a linear J with J*J - J == p.
func solveJ(p Poly) (Poly, bool) {
	J := Poly{}
	var vars []string
	for _, m := range p.monos() {
		c := p[m]
		parts := strings.Split(m, "*")
		if len(parts) == 2 && parts[0] == parts[1] {
			r := int64(math.Round(math.Sqrt(float64(c))))
			if r*r != c {
				return nil, false
			}
			J[parts[0]] = r
			vars = append(vars, parts[0])
		}
	}
	if len(vars) == 0 {
		return nil, false
	}
	sort.Strings(vars)
	n := len(vars)
	for mask := 0; mask < 1<<uint(n-1); mask++ {
		Jc := J.clone()
		for k := 1; k < n; k++ {
			if mask>>(uint(k-1))&1 == 1 {
				Jc[vars[k]] = -Jc[vars[k]]
			}
		}
		a := Jc[vars[0]]
		num := p[vars[0]] + a
		if num%(2*a) != 0 {
			continue
		}
		d := num / (2 * a)
		Jd := Jc.add(constP(d), 1)
		if Jd.mul(Jd).add(Jd, -1).add(p, -1).key() == "" {
			return Jd, true
		}
		// J and 1-J give the same J(J-1): prefer the one with positive leading coefficient
		Jn := Jd.scale(-1).add(constP(1), 1)
		if Jn.mul(Jn).add(Jn, -1).add(p, -1).key() == "" && Jn[vars[0]] > 0 {
			return Jn, true
		}
	}
	return nil, false
}

// locallyControlled: every atom is a loop counter (a phi whose incoming values are themselves
// locally controlled), an integer parameter, or a constant. hasParam reports whether a parameter occurs.
func (P *Prover) locallyControlled(p Poly) (controlled bool, hasParam bool) {
	controlled = true
	seen := map[ssa.Value]bool{}
	var walk func(q Poly, depth int)
	walk = func(q Poly, depth int) {
		P.atomsOf(q, func(a *Atom) {
			switch a.kind {
			case aVal:
				switch v := a.val.(type) {
				case *ssa.Parameter:
					hasParam = true
				case *ssa.Phi:
					if seen[v] {
						return
					}
					seen[v] = true
					if depth > 6 {
						controlled = false
						return
					}
					for _, e := range v.Edges {
						walk(P.poly(e), depth+1)
					}
				default:
					controlled = false
				}
			case aLen:
				if _, ok := a.val.(*ssa.Parameter); !ok {
					controlled = false
				}
			case aDiv, aRem:
				walk(a.inner, depth)
			default:
				controlled = false
			}
		})
	}
	walk(p, 0)
	return
}

// isEdgesBase: does the indexed slice value denote DenseGraph adjacency storage?
func isEdgesBase(c *Ctx, f *fa, base ssa.Value, denseT types.Type, newDense *ssa.Function) bool {
	// inside a closure: a slice read from a captured variable is judged in the enclosing function
	if f.fn.Parent() != nil {
		if ld, ok := base.(*ssa.UnOp); ok && ld.Op == token.MUL {
			if fv, ok := ld.X.(*ssa.FreeVar); ok {
				idx := -1
				for k, x := range f.fn.FreeVars {
					if x == fv {
						idx = k
					}
				}
				pf := c.Eff().fas[f.fn.Parent()]
				if idx >= 0 && pf != nil {
					for _, b := range f.fn.Parent().Blocks {
						for _, in := range b.Instrs {
							mc, ok := in.(*ssa.MakeClosure)
							if !ok || mc.Fn != ssa.Value(f.fn) || idx >= len(mc.Bindings) {
								continue
							}
							// the captured cell: every slice value stored in it
							for cell := range pf.P(mc.Bindings[idx]) {
								for held := range pf.contentOf(cell.o, cell.p, nil) {
									if edgesObj(c, pf, held.o, denseT, newDense) {
										return true
									}
								}
							}
						}
					}
				}
			}
		}
	}
	for l := range f.P(base) {
		if l.p != "" {
			continue
		}
		if edgesObj(c, f, l.o, denseT, newDense) {
			return true
		}
	}
	return false
}

// edgesObj: is o (an array object of function f) DenseGraph adjacency storage?
func edgesObj(c *Ctx, f *fa, o *obj, denseT types.Type, newDense *ssa.Function) bool {
	{
		{
			// (a) reached through the Edges field of a DenseGraph
			if o.parent != nil && o.slot == "Edges" && o.parent.typ != nil {
				pt := o.parent.typ
				if p, ok := pt.Underlying().(*types.Pointer); ok {
					pt = p.Elem()
				}
				if types.Identical(pt, denseT) {
					return true
				}
			}
			// (b) stored into the Edges field of some DenseGraph object of this function
			for _, dg := range f.objs {
				if dg.typ == nil {
					continue
				}
				dt := dg.typ
				if p, ok := dt.Underlying().(*types.Pointer); ok {
					dt = p.Elem()
				}
				if !types.Identical(dt, denseT) {
					continue
				}
				if dg.content["Edges"][loc{o, ""}] {
					return true
				}
			}
			// (c) passed as the edges argument of NewDense
			if newDense != nil {
				for _, b := range f.fn.Blocks {
					for _, in := range b.Instrs {
						if call, ok := in.(*ssa.Call); ok && call.Call.StaticCallee() == newDense && len(call.Call.Args) == 2 {
							if f.P(call.Call.Args[1])[loc{o, ""}] {
								return true
							}
						}
					}
				}
			}
		}
	}
	return false
}

type loopInfo struct {
	header *ssa.BasicBlock
	body   map[*ssa.BasicBlock]bool
}

// unitCounter: phi at a loop header with every back-edge value phi+1; returns the loop.
func unitCounter(P *Prover, loops map[*ssa.BasicBlock]map[*ssa.BasicBlock]bool, ph *ssa.Phi) (*loopInfo, bool) {
	body := loops[ph.Block()]
	if body == nil {
		return nil, false
	}
	h := ph.Block()
	backs := 0
	for i, pred := range h.Preds {
		if !body[pred] {
			continue
		}
		backs++
		if P.poly(ph.Edges[i]).add(P.poly(ph), -1).add(constP(-1), 1).key() != "" {
			return nil, false
		}
	}
	return &loopInfo{h, body}, backs > 0
}

func initOf(ph *ssa.Phi, body map[*ssa.BasicBlock]bool) (ssa.Value, bool) {
	var v ssa.Value
	for i, pred := range ph.Block().Preds {
		if body[pred] {
			continue
		}
		if v != nil && v != ph.Edges[i] {
			return nil, false
		}
		v = ph.Edges[i]
	}
	return v, v != nil
}

// loopCond returns (op, other) for the header test `ph op other` that keeps the loop running.
func loopCond(ph ssa.Value, h *ssa.BasicBlock, body map[*ssa.BasicBlock]bool) (token.Token, ssa.Value, bool) {
	iff, ok := h.Instrs[len(h.Instrs)-1].(*ssa.If)
	if !ok {
		return 0, nil, false
	}
	bo, ok := iff.Cond.(*ssa.BinOp)
	if !ok || bo.X != ph {
		return 0, nil, false
	}
	if body[h.Succs[0]] && !body[h.Succs[1]] {
		return bo.Op, bo.Y, true
	}
	return 0, nil, false
}

// tRun recognises the running-index idiom for index value idx used in block blk.
func tRun(P *Prover, loops map[*ssa.BasicBlock]map[*ssa.BasicBlock]bool, idx ssa.Value) (string, bool) {
	why, _, _, ok := tRunPhis(P, loops, idx)
	return why, ok
}

// tRunPhis is tRun that also returns the row counter J and the column counter I of the nest.
func tRunPhis(P *Prover, loops map[*ssa.BasicBlock]map[*ssa.BasicBlock]bool, idx ssa.Value) (string, *ssa.Phi, *ssa.Phi, bool) {
	K, ok := idx.(*ssa.Phi)
	if !ok {
		return "", nil, nil, false
	}
	inner := loops[K.Block()]
	if inner == nil {
		return "", nil, nil, false
	}
	// inner loop counter I: phi in the same header, init 0, step 1, test I < J
	for _, in := range K.Block().Instrs {
		I, ok := in.(*ssa.Phi)
		if !ok {
			break
		}
		if I == K {
			continue
		}
		li, ok := unitCounter(P, loops, I)
		if !ok {
			continue
		}
		i0, ok := initOf(I, li.body)
		if !ok {
			continue
		}
		if v, isC := constInt(i0); !isC || v != 0 {
			continue
		}
		op, Jv, ok := loopCond(I, li.header, li.body)
		if !ok || op != token.LSS {
			continue
		}
		J, ok := Jv.(*ssa.Phi)
		if !ok {
			continue
		}
		lj, ok := unitCounter(P, loops, J)
		if !ok || !lj.body[K.Block()] || lj.header == li.header {
			continue
		}
		j0, ok := initOf(J, lj.body)
		if !ok {
			continue
		}
		if v, isC := constInt(j0); !isC || (v != 0 && v != 1) {
			continue
		}
		// K: +1 on every inner back edge, entering the inner loop with the outer phi Ko
		okK := true
		var Ko *ssa.Phi
		for e, pred := range K.Block().Preds {
			if inner[pred] {
				if P.poly(K.Edges[e]).add(P.poly(K), -1).add(constP(-1), 1).key() != "" {
					okK = false
				}
			} else {
				ko, isPhi := K.Edges[e].(*ssa.Phi)
				if !isPhi || ko.Block() != lj.header {
					okK = false
				} else {
					Ko = ko
				}
			}
		}
		if !okK || Ko == nil {
			continue
		}
		// Ko: 0 on entry to the outer loop, the inner phi K on the outer back edges
		for e, pred := range lj.header.Preds {
			if lj.body[pred] {
				if Ko.Edges[e] != ssa.Value(K) {
					okK = false
				}
			} else if v, isC := constInt(Ko.Edges[e]); !isC || v != 0 {
				okK = false
			}
		}
		if !okK {
			continue
		}
		// the increment must be unconditional: exactly one +1 per inner iteration was checked through
		// the back-edge values; every inner back edge carries K+1, so no iteration skips it
		return fmt.Sprintf("running index over for %s { for %s := 0; %s < %s } (invariant index = %s(%s-1)/2 + %s)", valName(J), valName(I), valName(I), valName(J), valName(J), valName(J), valName(I)), J, I, true
	}
	return "", nil, nil, false
}

// tStride: the index contains a phi K that walks down a column of the triangle in step with a row
// counter J of the same loop: K starts at J0(J0-1)/2 + I0 where J starts at J0, and every back edge
// carries K + J and J + 1. Since (J+1)J/2 = J(J-1)/2 + J the invariant is K = J(J-1)/2 + I0, so the
// site addresses row J, column I0 + (the rest of the index).
func tStride(P *Prover, loops map[*ssa.BasicBlock]map[*ssa.BasicBlock]bool, idx Poly) (Jp, Ip Poly, ok bool) {
	for _, m := range idx.monos() {
		if strings.Contains(m, "*") || m == "" || idx[m] != 1 {
			continue
		}
		id, _ := strconv.Atoi(m)
		a := P.atoms[id]
		if a.kind != aVal {
			continue
		}
		K, isPhi := a.val.(*ssa.Phi)
		if !isPhi {
			continue
		}
		body := loops[K.Block()]
		if body == nil {
			continue
		}
		k0, okInit := initOf(K, body)
		if !okInit {
			continue
		}
		k0p := P.poly(k0)
		J0, I0, okSplit := P.triSplit(k0p)
		if !okSplit {
			// the index continues from where an earlier loop left it: use the affine equalities that
			// hold where this loop is entered (index = i + v(v-1)/2 and i = v after the row sweep)
			for _, pred := range K.Block().Preds {
				if !body[pred] {
					k0p = P.karrRewrite(k0p, pred)
				}
			}
			J0, I0, okSplit = P.triSplit(k0p)
		}
		for _, in := range K.Block().Instrs {
			J, isPhi := in.(*ssa.Phi)
			if !isPhi {
				break
			}
			if J == K {
				continue
			}
			lj, okJ := unitCounter(P, loops, J)
			if !okJ || lj.header != K.Block() {
				continue
			}
			j0, okJ0 := initOf(J, lj.body)
			if !okJ0 {
				continue
			}
			if !okSplit || P.poly(j0).add(J0, -1).key() != "" {
				// the start is not written as J0(J0-1)/2 + I for this loop's first row J0: take
				// I := start - J0(J0-1)/2 and simplify (floor(A/2) - floor(B/2) = (A-B)/2 when 2 | A-B)
				jp := P.poly(j0)
				tri := P.divP(jp.mul(jp).add(jp, -1), 2, false)
				I0 = P.simplifyDivPairs(k0p.add(tri, -1))
				J0 = jp
			}
			if P.poly(j0).add(J0, -1).key() != "" {
				continue
			}
			good := true
			for e, pred := range K.Block().Preds {
				if body[pred] && P.poly(K.Edges[e]).add(P.poly(K), -1).add(P.poly(J), -1).key() != "" {
					good = false
				}
			}
			if !good {
				continue
			}
			rest := idx.clone()
			delete(rest, m)
			return P.poly(J), I0.add(rest, 1), true
		}
	}
	return nil, nil, false
}

// simplifyDivPairs: floor(A/c) - floor(B/c) = (A-B)/c whenever c divides every coefficient of A-B
// (then A = B + c*k and the floors differ by exactly k).
func (P *Prover) simplifyDivPairs(p Poly) Poly {
	out := p.clone()
	for changed := true; changed; {
		changed = false
		ms := out.monos()
		for _, m1 := range ms {
			if strings.Contains(m1, "*") || out[m1] != 1 {
				continue
			}
			a1 := P.atoms[atoiS(m1)]
			if a1.kind != aDiv {
				continue
			}
			for _, m2 := range ms {
				if strings.Contains(m2, "*") || out[m2] != -1 || m2 == m1 {
					continue
				}
				a2 := P.atoms[atoiS(m2)]
				if a2.kind != aDiv || a2.c != a1.c {
					continue
				}
				d := a1.inner.add(a2.inner, -1)
				okDiv := true
				q := Poly{}
				for k, v := range d {
					if v%a1.c != 0 {
						okDiv = false
						break
					}
					q[k] = v / a1.c
				}
				if !okDiv {
					continue
				}
				delete(out, m1)
				delete(out, m2)
				out = out.add(q, 1)
				changed = true
				break
			}
			if changed {
				break
			}
		}
	}
	return out
}

func atoiS(s string) int { n, _ := strconv.Atoi(s); return n }

// tRows: the indexed slice is the window rest[:J] of a slice `rest` that starts as a whole
// packed-triangle array and is advanced by rest = rest[J:] once per trip of a loop whose unit
// counter J starts at 0 or 1. Then rest always begins at cell J(J-1)/2, the window is row J, and
// any index that is in range for the window is a column I < J of that row.
func tRows(P *Prover, loops map[*ssa.BasicBlock]map[*ssa.BasicBlock]bool, base ssa.Value) (Poly, bool) {
	win, ok := stripAll(base).(*ssa.Slice)
	if !ok || win.Low != nil || win.High == nil || win.Max != nil {
		return nil, false
	}
	rest, ok := win.X.(*ssa.Phi)
	if !ok {
		return nil, false
	}
	body := loops[rest.Block()]
	if body == nil {
		return nil, false
	}
	J := P.poly(win.High)
	jphi, isPhi := strip(win.High).(*ssa.Phi)
	if !isPhi || jphi.Block() != rest.Block() {
		return nil, false
	}
	if _, ok := unitCounter(P, loops, jphi); !ok {
		return nil, false
	}
	j0, ok := initOf(jphi, body)
	if !ok {
		return nil, false
	}
	if k, isK := constInt(j0); !isK || (k != 0 && k != 1) {
		return nil, false
	}
	for e, pred := range rest.Block().Preds {
		v := rest.Edges[e]
		if body[pred] {
			adv, ok := v.(*ssa.Slice)
			if !ok || adv.X != ssa.Value(rest) || adv.Low == nil || adv.High != nil || adv.Max != nil || P.poly(adv.Low).add(J, -1).key() != "" {
				return nil, false
			}
		} else {
			// the whole array: an allocation, or a full reslice of one
			w := stripAll(v)
			if sl, ok := w.(*ssa.Slice); ok && sl.Low == nil && sl.High == nil {
				w = stripAll(sl.X)
			}
			switch w.(type) {
			case *ssa.MakeSlice, *ssa.Alloc:
			default:
				return nil, false
			}
		}
	}
	return J, true
}

// tSweep: idx is exactly a unit-step loop counter, and the access executes on every iteration.
func tSweep(P *Prover, loops map[*ssa.BasicBlock]map[*ssa.BasicBlock]bool, idx ssa.Value, at *ssa.BasicBlock) (string, bool) {
	v := strip(idx)
	// a range loop indexes with counter+1 (the counter starts at -1): any constant offset still sweeps
	if bo, isBo := v.(*ssa.BinOp); isBo && (bo.Op == token.ADD || bo.Op == token.SUB) {
		if _, isK := constInt(bo.Y); isK {
			v = strip(bo.X)
		}
	}
	ph, ok := v.(*ssa.Phi)
	if !ok {
		return "", false
	}
	li, ok := unitCounter(P, loops, ph)
	if !ok {
		return "", false
	}
	// the access block dominates every back-edge source (executed each time round)
	for _, pred := range li.header.Preds {
		if li.body[pred] && !(at == pred || at.Dominates(pred)) {
			return "", false
		}
	}
	return "linear sweep with counter " + valName(ph), true
}

type triSite struct {
	fn   *ssa.Function
	in   *ssa.IndexAddr
	desc string
}

// plainVar: p is a single atom with coefficient 1 and no constant term.
func plainVar(p Poly) bool {
	ms := p.monos()
	return len(ms) == 1 && !strings.Contains(ms[0], "*") && p[ms[0]] == 1 && p[""] == 0
}

func ruleTri(c *Ctx, files func(string) bool, rule string) *RuleResult {
	return ruleTriX(c, files, rule, false)
}

// ruleTriX: with exactCell, the row and column of every closed-form site must be plain variables
// (the representation's own methods address the cell of the vertices they were given, never a
// neighbouring row or column).
func ruleTriX(c *Ctx, files func(string) bool, rule string, exactCell bool) *RuleResult {
	r := &RuleResult{Rule: rule, Doc: "every element index into DenseGraph adjacency storage is a lower-triangle cell: closed form J(J-1)/2+I with 0 <= I < J proved for locally controlled operands, the running-index idiom over a J/I loop nest, or an unconditional linear sweep", MinInst: 10}
	gp := c.ByPath[c.Mod+"/graph"]
	if gp == nil {
		failf("package graph not loaded")
	}
	dobj := gp.Types.Scope().Lookup("DenseGraph")
	if dobj == nil {
		failf("graph.DenseGraph not found")
	}
	denseT := dobj.Type()
	newDense := c.FnOpt("graph.NewDense")
	E := c.Eff()
	for _, fn := range c.Funcs {
		if fn.Synthetic != "" {
			continue
		}
		file := c.Fset.Position(fn.Pos()).Filename
		if !files(file) {
			continue
		}
		f := E.fas[fn]
		var P *Prover
		var loops map[*ssa.BasicBlock]map[*ssa.BasicBlock]bool
		for _, b := range fn.Blocks {
			for _, in := range b.Instrs {
				ia, ok := in.(*ssa.IndexAddr)
				if !ok {
					continue
				}
				if _, isSl := ia.X.Type().Underlying().(*types.Slice); !isSl {
					continue
				}
				if !isEdgesBase(c, f, ia.X, denseT, newDense) {
					continue
				}
				if P == nil {
					P = NewProver(c, fn)
					loops = loopsOf(fn)
					// methods of the representation take vertex numbers: non-negative by the callers' contract
					// (the assumption stated for C05; the rule already reads a parameter column as >= 0)
					if recv := fn.Signature.Recv(); recv != nil {
						rt := recv.Type()
						if pt, isP := rt.Underlying().(*types.Pointer); isP {
							rt = pt.Elem()
						}
						if types.Identical(rt, denseT) {
							for _, prm := range fn.Params[1:] {
								if isInt(prm.Type()) {
									P.global = append(P.global, P.poly(prm).scale(-1))
								}
							}
						}
					}
				}
				name := c.short(fn)
				src := c.srcAt(ia.Pos())
				if src == "" {
					src = valName(ia)
				}
				idx := P.poly(ia.Index)
				J, I, ok := P.triSplit(idx)
				form := "T-closed"
				if !ok {
					if J, I, ok = tStride(P, loops, idx); ok {
						form = "T-stride"
					}
				}
				if ok {
					ci, pi := P.locallyControlled(I)
					cj, _ := P.locallyControlled(J)
					controlled := ci && cj
					ge := P.Prove(I.scale(-1), b)
					lt := P.Prove(I.add(J, -1).add(constP(1), 1), b)
					r.inst("%s: %s  %s J=%s I=%s (I>=0:%v I<J:%v, locally controlled:%v)", name, src, form, P.showTerm(J), P.showTerm(I), ge, lt, controlled)
					if exactCell && !(plainVar(J) && (plainVar(I) || len(I.monos()) == 0)) {
						r.oblig(false)
						r.find(name+":"+src+" offset cell", c.instrPos(ia), "%s: %s addresses row %s, column %s: a method of the representation must address the cell of the two vertices themselves (row = larger vertex, column = smaller), not a shifted row or column", name, src, P.showTerm(J), P.showTerm(I))
						continue
					}
					if controlled && !lt && (fn.Parent() != nil || fn.Object() == nil || !fn.Object().Exported()) {
						// a closure or unexported helper addressing a cell named by its parameters: the order
						// of the two vertices is the callers' obligation, proved at every call site
						if liftTri(c, fn, P, I, J) {
							lt = true
							r.note("%s: %s: I < J established at every call site", name, src)
						}
					}
					if controlled {
						// a vertex number passed as a parameter is non-negative by the callers' contract;
						// a parameter-free column index must be shown non-negative here
						okGe := ge || pi
						r.oblig(okGe && lt)
						if !(okGe && lt) {
							r.find(name+":"+src, c.instrPos(ia), "%s: %s addresses cell (I=%s, J=%s) of the packed triangle but 0 <= I < J is not established (I>=0:%v, I<J:%v): for some accepted argument this is a different edge's cell or outside the row", name, src, P.showTerm(I), P.showTerm(J), ge, lt)
						}
					} else {
						r.oblig(true)
						if !(ge && lt) {
							r.note("%s: %s has data-derived operands (I=%s, J=%s): 0 <= I < J is a caller/data precondition, recorded and not judged", name, src, P.showTerm(I), P.showTerm(J))
						}
					}
					continue
				}
				if why, ok := tRun(P, loops, strip(ia.Index)); ok {
					r.inst("%s: %s  T-run: %s", name, src, why)
					r.oblig(true)
					continue
				}
				if why, ok := tSweep(P, loops, ia.Index, b); ok {
					r.inst("%s: %s  T-sweep: %s", name, src, why)
					r.oblig(true)
					continue
				}
				if jp, ok := tRows(P, loops, ia.X); ok {
					r.inst("%s: %s  T-rows: window of row %s, column %s (in range for the window, hence < row)", name, src, P.showTerm(jp), P.showTerm(idx))
					r.oblig(true)
					continue
				}
				if ctl, _ := P.locallyControlled(idx); !ctl {
					r.inst("%s: %s  data-derived index", name, src)
					r.oblig(true)
					r.note("%s: %s is computed from loaded data (%s): that it is a triangle cell is a data precondition, recorded and not judged", name, src, P.showTerm(idx))
					continue
				}
				r.inst("%s: %s  unrecognised", name, src)
				r.oblig(false)
				r.find(name+":"+src, c.instrPos(ia), "%s: index %s into a packed triangle (%s) is neither J(J-1)/2+I, a running index over a J/I loop nest, nor a linear sweep: it is not a triangle cell", name, P.showTerm(idx), src)
			}
		}
	}
	return r
}

// liftTri proves I < J for a site inside a closure / unexported helper at every call of it.
func liftTri(c *Ctx, fn *ssa.Function, HP *Prover, I, J Poly) bool {
	goal := I.add(J, -1).add(constP(1), 1)
	n := 0
	for _, caller := range c.Funcs {
		var CP *Prover
		for _, b := range caller.Blocks {
			for _, in := range b.Instrs {
				call, ok := in.(*ssa.Call)
				if !ok || call.Call.StaticCallee() != fn {
					continue
				}
				n++
				if CP == nil {
					CP = NewProver(c, caller)
				}
				t, ok := translatePoly(HP, goal, fn, CP, call.Call.Args)
				if !ok || !CP.Prove(t, b) {
					return false
				}
			}
		}
	}
	return n > 0
}

// ruleEdgeByte: DenseGraph documents "an indicator of an edge being present": NewDense accepts
// any non-zero byte as an edge and every observer tests `> 0`. A byte read from the adjacency
// storage of an existing graph may therefore only be tested against zero (or moved by a bulk
// copy); using its numeric value (adding it to a count, xor, packing it into bits) silently
// assumes it is 0 or 1.
// constructors whose []byte argument is adjacency storage (other []byte arguments are encodings)
var edgeByteCtors = map[string]bool{"graph.NewDense": true}

func ruleEdgeByte(c *Ctx, pkgRel string) *RuleResult {
	r := &RuleResult{Rule: "EDGEBYTE", Doc: "a byte read from the adjacency storage of an existing DenseGraph is only ever compared with zero; its numeric value is never used (NewDense accepts any non-zero byte as an edge)", MinInst: 1}
	gp := c.ByPath[c.Mod+"/graph"]
	denseT := gp.Types.Scope().Lookup("DenseGraph").Type()
	E := c.Eff()
	zeroTest := func(bo *ssa.BinOp, v ssa.Value) bool {
		var k int64
		var ok bool
		left := bo.X == v
		if left {
			k, ok = constInt(bo.Y)
		} else {
			k, ok = constInt(bo.X)
		}
		if !ok {
			return false
		}
		op := bo.Op
		if !left { // const op v  ==  v op' const
			switch op {
			case token.LSS:
				op = token.GTR
			case token.GTR:
				op = token.LSS
			case token.LEQ:
				op = token.GEQ
			case token.GEQ:
				op = token.LEQ
			}
		}
		switch op {
		case token.GTR, token.NEQ, token.EQL, token.LEQ:
			return k == 0
		case token.GEQ, token.LSS:
			return k == 1
		}
		return false
	}
	for _, fn := range c.Funcs {
		p := fnPkg(fn)
		if p == nil || p.Pkg.Path() != c.Mod+"/"+pkgRel || fn.Synthetic != "" {
			continue
		}
		f := E.fas[fn]
		for _, b := range fn.Blocks {
			for _, in := range b.Instrs {
				ld, ok := isLoad(in)
				if !ok || !isByte(ld.Type()) {
					continue
				}
				ia, ok := ld.X.(*ssa.IndexAddr)
				if !ok {
					continue
				}
				// adjacency storage of a graph that exists outside this function: <G>.Edges[...] where G is
				// a (pointer to a) DenseGraph reached from a parameter (possibly through a type assertion)
				input := false
				var holder ssa.Value
				base := ia.X
				if sl, ok := base.(*ssa.Slice); ok {
					base = sl.X
				}
				switch x := base.(type) {
				case *ssa.UnOp:
					if fa, ok := x.X.(*ssa.FieldAddr); ok && x.Op == token.MUL {
						st := fa.X.Type().Underlying().(*types.Pointer).Elem()
						if types.Identical(st, denseT) && st.Underlying().(*types.Struct).Field(fa.Field).Name() == "Edges" {
							holder = fa.X
						}
					}
				case *ssa.Field:
					if types.Identical(x.X.Type(), denseT) && x.X.Type().Underlying().(*types.Struct).Field(x.Field).Name() == "Edges" {
						holder = x.X
					}
				}
				// (through a chain of reslices the static shape is lost: fall back to the abstract object)
				for l := range f.P(ia.X) {
					o := l.o
					if o.root >= 0 && o.root < rGlobal && o.parent != nil && o.slot == "Edges" && l.p == "" {
						input = true
					}
				}
				if holder != nil {
					for l := range f.P(holder) {
						if l.o.root >= 0 && l.o.root < rGlobal {
							input = true
						}
					}
					// a value receiver spilled to a local: t0 = local DenseGraph (g); *t0 = g
					if al, ok := holder.(*ssa.Alloc); ok {
						for _, ref := range *al.Referrers() {
							if st, ok := ref.(*ssa.Store); ok && st.Addr == ssa.Value(al) {
								if _, isParam := st.Val.(*ssa.Parameter); isParam {
									input = true
								}
							}
						}
					}
					if _, isParam := holder.(*ssa.Parameter); isParam {
						input = true
					}
				}
				// the adjacency bytes a constructor is handed: a []byte parameter of a function that
				// returns a *DenseGraph (NewDense's edges) - the caller's bytes are the same indicators
				if prm, isParam := base.(*ssa.Parameter); isParam && !input && edgeByteCtors[c.short(fn)] {
					res := fn.Signature.Results()
					for i := 0; i < res.Len(); i++ {
						if pt, ok := res.At(i).Type().(*types.Pointer); ok && types.Identical(pt.Elem(), denseT) {
							if sl, ok := prm.Type().Underlying().(*types.Slice); ok && isByte(sl.Elem()) {
								input = true
							}
						}
					}
				}
				if !input {
					continue
				}
				name := c.short(fn)
				src := c.srcAt(ia.Pos())
				r.inst("%s: reads %s", name, src)
				bad := ""
				for _, ref := range *ld.Referrers() {
					switch x := ref.(type) {
					case *ssa.DebugRef:
					case *ssa.BinOp:
						if !zeroTest(x, ld) {
							bad = "used in " + x.Op.String()
						}
					default:
						bad = "used by " + strings.SplitN(ref.String(), " ", 2)[0]
					}
				}
				r.oblig(bad == "")
				if bad != "" {
					r.find(name+":"+src+" numeric use", c.instrPos(ld), "%s uses the numeric value of the adjacency byte %s (%s): any non-zero byte is an edge (NewDense copies the caller's bytes verbatim), so this is only right for graphs whose bytes happen to be 0 or 1", name, src, bad)
				}
			}
		}
	}
	return r
}

// ruleDegSync: wherever a function records an edge in packed-triangle storage (or finds one
// recorded) and, in the same step, counts it into a slice that becomes the DegreeSequence of the
// graph it returns, the two entries it increments are those of the edge's own end points: the row J
// and the column I of the cell. Indices are compared as expressions over the same values (byte
// arithmetic read as integer arithmetic on both sides).
func ruleDegSync(c *Ctx, files func(string) bool) *RuleResult {
	r := &RuleResult{Rule: "DEGSYNC", Doc: "an edge recorded at cell (I,J) of the packed triangle is counted into the degree sequence of the returned graph at exactly the entries I and J", MinInst: 1}
	gp := c.ByPath[c.Mod+"/graph"]
	if gp == nil {
		failf("package graph not loaded")
	}
	for _, fn := range c.Funcs {
		if fn.Synthetic != "" || fn.Blocks == nil {
			continue
		}
		if !files(c.Fset.Position(fn.Pos()).Filename) {
			continue
		}
		// slices that become a DegreeSequence
		deg := map[ssa.Value]bool{}
		for _, b := range fn.Blocks {
			for _, in := range b.Instrs {
				st, ok := in.(*ssa.Store)
				if !ok {
					continue
				}
				fa, ok := st.Addr.(*ssa.FieldAddr)
				if !ok {
					continue
				}
				stt, ok := fa.X.Type().Underlying().(*types.Pointer).Elem().Underlying().(*types.Struct)
				if !ok || stt.Field(fa.Field).Name() != "DegreeSequence" {
					continue
				}
				deg[stripAll(st.Val)] = true
			}
		}
		// ... or are read back from that field of a graph built or held here (g.DegreeSequence[v]++)
		for _, b := range fn.Blocks {
			for _, in := range b.Instrs {
				ld, ok := in.(*ssa.UnOp)
				if !ok || ld.Op != token.MUL {
					continue
				}
				fa, ok := ld.X.(*ssa.FieldAddr)
				if !ok {
					continue
				}
				if _, isLit := fa.X.(*ssa.Alloc); !isLit {
					continue // an existing graph being edited: COUPLE judges the edit methods
				}
				if stt, ok := fa.X.Type().Underlying().(*types.Pointer).Elem().Underlying().(*types.Struct); ok && stt.Field(fa.Field).Name() == "DegreeSequence" {
					deg[ld] = true
				}
			}
		}
		if len(deg) == 0 {
			continue
		}
		var P *Prover
		var loops map[*ssa.BasicBlock]map[*ssa.BasicBlock]bool
		name := c.short(fn)
		sameSlice := func(a, b ssa.Value) bool {
			a, b = stripAll(a), stripAll(b)
			if a == b {
				return true
			}
			// two loads of the same field of the same graph
			la, ok1 := a.(*ssa.UnOp)
			lb, ok2 := b.(*ssa.UnOp)
			if ok1 && ok2 {
				fa, ok3 := la.X.(*ssa.FieldAddr)
				fb, ok4 := lb.X.(*ssa.FieldAddr)
				return ok3 && ok4 && fa.Field == fb.Field && fa.X == fb.X
			}
			return false
		}
		for _, b := range fn.Blocks {
			type inc struct {
				idx ssa.Value
				in  ssa.Instruction
			}
			var incs []inc
			for _, in := range b.Instrs {
				st, ok := in.(*ssa.Store)
				if !ok {
					continue
				}
				ia, ok := st.Addr.(*ssa.IndexAddr)
				if !ok || !deg[stripAll(ia.X)] {
					continue
				}
				add, ok := st.Val.(*ssa.BinOp)
				if !ok || add.Op != token.ADD {
					continue
				}
				if one, isK := constInt(add.Y); !isK || one != 1 {
					continue
				}
				ld, ok := add.X.(*ssa.UnOp)
				if !ok || ld.Op != token.MUL {
					continue
				}
				if la, ok := ld.X.(*ssa.IndexAddr); !ok || !sameSlice(la.X, ia.X) {
					continue
				}
				incs = append(incs, inc{ia.Index, in})
			}
			if len(incs) == 0 {
				continue
			}
			if P == nil {
				P = NewProver(c, fn)
				loops = loopsOf(fn)
			}
			// the edge event of this block: a non-zero store into a byte slice here, or the test of a
			// byte of a byte slice against zero on the edge into this block
			var cell, cellBase ssa.Value
			what := ""
			for _, in := range b.Instrs {
				st, ok := in.(*ssa.Store)
				if !ok || !isByte(st.Val.Type()) {
					continue
				}
				if k, isK := constInt(st.Val); !isK || k == 0 {
					continue
				}
				if ia, ok := st.Addr.(*ssa.IndexAddr); ok {
					if _, isSl := ia.X.Type().Underlying().(*types.Slice); isSl {
						cell, cellBase, what = ia.Index, ia.X, "stores"
					}
				}
			}
			if cell == nil && len(b.Preds) == 1 {
				p := b.Preds[0]
				if iff, ok := p.Instrs[len(p.Instrs)-1].(*ssa.If); ok {
					if bo, ok := iff.Cond.(*ssa.BinOp); ok {
						onTrue := p.Succs[0] == b
						if z, isK := constInt(bo.Y); isK && z == 0 && ((onTrue && (bo.Op == token.GTR || bo.Op == token.NEQ)) || (!onTrue && bo.Op == token.EQL)) {
							if ld, ok := bo.X.(*ssa.UnOp); ok && ld.Op == token.MUL && isByte(ld.Type()) {
								if ia, ok := ld.X.(*ssa.IndexAddr); ok {
									cell, cellBase, what = ia.Index, ia.X, "finds"
								}
							}
						}
					}
				}
			}
			desc := c.srcAt(incs[0].in.Pos())
			if cell == nil {
				r.note("%s: %s is counted with no edge store or edge test in the same step: not judged", name, desc)
				continue
			}
			// row and column of the cell
			var J, I Poly
			ok := false
			if J, I, ok = P.triSplit(P.poly(cell)); !ok {
				if J, I, ok = P.triSplit(P.polyLoose(cell)); !ok {
					if J, I, ok = tStride(P, loops, P.poly(cell)); !ok {
						if _, jp, ip, ok2 := tRunPhis(P, loops, strip(cell)); ok2 {
							J, I, ok = P.poly(jp), P.poly(ip), true
						}
					}
				}
			}
			if !ok && cellBase != nil {
				if jp, ok2 := tRows(P, loops, cellBase); ok2 {
					J, I, ok = jp, P.poly(cell), true
				}
			}
			if !ok {
				r.note("%s: the cell index %s of the edge counted at %s is not resolved to a row and a column: not judged", name, P.showTerm(P.poly(cell)), desc)
				continue
			}
			r.inst("%s: %s edge (I=%s, J=%s) and counts %d degree entries", name, what, P.showTerm(I), P.showTerm(J), len(incs))
			same := func(v ssa.Value, q Poly) bool {
				return P.poly(v).add(q, -1).key() == "" || P.polyLoose(v).add(q, -1).key() == ""
			}
			good := len(incs) == 2 && ((same(incs[0].idx, I) && same(incs[1].idx, J)) || (same(incs[0].idx, J) && same(incs[1].idx, I)))
			r.oblig(good)
			if !good {
				var got []string
				for _, x := range incs {
					got = append(got, P.showTerm(P.polyLoose(x.idx)))
				}
				r.find(name+":degree entries of edge", c.instrPos(incs[0].in), "%s %s the edge between vertices %s and %s but increments the degree entries %v: the degree sequence of the returned graph does not match its edges (or the index is out of range for the last vertex)", name, what, P.showTerm(I), P.showTerm(J), got)
			}
		}
	}
	return r
}

// ruleCounts: a graph returned with hand-filled counts must have them in the range every simple
// graph satisfies, for every accepted argument: NumberOfEdges >= 0, and every value written into
// the degree sequence between 0 and (number of vertices) - 1. Only values computed from
// parameters, constants and loop counters are judged (a count read from another graph is that
// graph's invariant); increments are judged by DEGSYNC.
func ruleCounts(c *Ctx, files func(string) bool) *RuleResult {
	r := &RuleResult{Rule: "COUNTS", Doc: "hand-filled counts are in range for every accepted argument: NumberOfEdges >= 0 and each degree written is within [0, n-1]", MinInst: 3}
	for _, fn := range c.Funcs {
		if fn.Synthetic != "" || fn.Blocks == nil || !files(c.Fset.Position(fn.Pos()).Filename) {
			continue
		}
		var mStores []*ssa.Store
		deg := map[ssa.Value]bool{}
		for _, b := range fn.Blocks {
			for _, in := range b.Instrs {
				st, ok := in.(*ssa.Store)
				if !ok {
					continue
				}
				fa, ok := st.Addr.(*ssa.FieldAddr)
				if !ok {
					continue
				}
				if _, isLit := fa.X.(*ssa.Alloc); !isLit {
					continue // only graphs built here, not edits of an existing graph
				}
				stt, ok := fa.X.Type().Underlying().(*types.Pointer).Elem().Underlying().(*types.Struct)
				if !ok {
					continue
				}
				switch stt.Field(fa.Field).Name() {
				case "NumberOfEdges":
					mStores = append(mStores, st)
				case "DegreeSequence":
					if ms, ok := stripAll(st.Val).(*ssa.MakeSlice); ok {
						deg[ms] = true
					}
				}
			}
		}
		if len(mStores) == 0 && len(deg) == 0 {
			continue
		}
		P := NewProver(c, fn)
		name := c.short(fn)
		// a make that has executed had a non-negative length
		madeBefore := func(b *ssa.BasicBlock) []Poly {
			var out []Poly
			for _, x := range fn.Blocks {
				if !(x == b || x.Dominates(b)) {
					continue
				}
				for _, in := range x.Instrs {
					if ms, ok := in.(*ssa.MakeSlice); ok {
						out = append(out, P.poly(ms.Len).scale(-1))
					}
				}
			}
			return out
		}
		for _, st := range mStores {
			m := P.poly(st.Val)
			if k, isK := m.isConst(); isK && k >= 0 {
				continue
			}
			if ctl, _ := P.locallyControlled(m); !ctl {
				r.note("%s: NumberOfEdges = %s depends on data: not judged", name, P.showTerm(m))
				continue
			}
			r.inst("%s: NumberOfEdges = %s", name, P.showTerm(m))
			ok := P.ProveWith(m.scale(-1), st.Block(), madeBefore(st.Block()))
			r.oblig(ok)
			if !ok {
				r.find(name+":NumberOfEdges may be negative", c.instrPos(st), "%s returns a graph with NumberOfEdges = %s, which is not provably >= 0 for every accepted argument (M() of the returned graph is then not its number of edges)", name, P.showTerm(m))
			}
		}
		for _, b := range fn.Blocks {
			for _, in := range b.Instrs {
				st, ok := in.(*ssa.Store)
				if !ok {
					continue
				}
				ia, ok := st.Addr.(*ssa.IndexAddr)
				if !ok || !deg[stripAll(ia.X)] {
					continue
				}
				// increments and decrements are counted, not assigned
				if bo, ok := st.Val.(*ssa.BinOp); ok && (bo.Op == token.ADD || bo.Op == token.SUB) {
					if ld, ok := bo.X.(*ssa.UnOp); ok && ld.Op == token.MUL {
						if la, ok := ld.X.(*ssa.IndexAddr); ok && stripAll(la.X) == stripAll(ia.X) {
							continue
						}
					}
				}
				v := P.poly(st.Val)
				src := c.srcAt(ia.Pos())
				if src == "" {
					src = valName(ia)
				}
				if ctl, _ := P.locallyControlled(v); !ctl {
					r.note("%s: %s = %s depends on data: not judged", name, src, P.showTerm(v))
					continue
				}
				if over := overwrittenLater(P, fn, st, ia, v); over != "" {
					r.note("%s: %s = %s may be overwritten afterwards by %s: the value that stays is judged there", name, src, P.showTerm(v), over)
					continue
				}
				n := P.lenOf(stripAll(ia.X))
				r.inst("%s: %s = %s with %s vertices", name, src, P.showTerm(v), P.showTerm(n))
				extra := madeBefore(b)
				lo := P.ProveWith(v.scale(-1), b, extra)
				hi := P.ProveWith(v.add(n, -1).add(constP(1), 1), b, extra)
				r.oblig(lo && hi)
				if !(lo && hi) {
					r.find(name+":degree "+src+" out of range", c.instrPos(st), "%s writes the degree %s into %s of a graph on %s vertices; it is not provably within [0, n-1] for every accepted argument (>=0:%v, <=n-1:%v): Degrees() of the returned graph cannot be those of a simple graph", name, P.showTerm(v), src, P.showTerm(n), lo, hi)
				}
			}
		}
	}
	return r
}

// ruleIrreflexive: every implementation of IsEdge(i, j) answers false for i == j (the graphs are
// loop-free, and Neighbours/Degrees of every implementation exclude the vertex itself). Each
// return value is evaluated under the assumption i == j in three-valued logic: constants, negation,
// joins over the predecessors that stay reachable under i == j, and calls of another IsEdge with
// equal arguments (false, by this same rule applied to every implementation). A return that is
// definitely true is reported; one that depends on stored data is recorded and not judged.
func ruleIrreflexive(c *Ctx, pkgRel string, onlyRecv ...string) *RuleResult {
	r := &RuleResult{Rule: "IRREFLEXIVE", Doc: "no IsEdge implementation can answer true for i == j: negating, or otherwise deriving true from, the answer of an underlying loop-free graph is reported", MinInst: 3}
	pkg := c.Pkg(pkgRel)
	const (
		vF = 1
		vT = 2
		vU = 4
	)
	for _, fn := range c.Funcs {
		if fn.Name() != "IsEdge" || fn.Synthetic != "" || fn.Blocks == nil || fnPkg(fn) == nil || fnPkg(fn).Pkg != pkg.Types {
			continue
		}
		sig := fn.Signature
		if sig.Params().Len() != 2 || sig.Results().Len() != 1 {
			continue
		}
		if len(onlyRecv) > 0 {
			// restricted to the named receiver types (C05 judges the editable graphs only)
			keep := false
			if rv := sig.Recv(); rv != nil {
				rt := rv.Type()
				if pt, ok := rt.(*types.Pointer); ok {
					rt = pt.Elem()
				}
				if nt, ok := rt.(*types.Named); ok {
					for _, o := range onlyRecv {
						keep = keep || nt.Obj().Name() == o
					}
				}
			}
			if !keep {
				continue
			}
		}
		pi, pj := fn.Params[len(fn.Params)-2], fn.Params[len(fn.Params)-1]
		P := NewProver(c, fn)
		d := P.poly(pi).add(P.poly(pj), -1)
		extra := []Poly{d, d.scale(-1)}
		var same func(a, b ssa.Value, depth int) bool
		same = func(a, b ssa.Value, depth int) bool {
			if a == b {
				return true
			}
			if depth > 6 {
				return false
			}
			isP := func(v ssa.Value) bool { return v == ssa.Value(pi) || v == ssa.Value(pj) }
			if isP(a) && isP(b) {
				return true
			}
			switch x := a.(type) {
			case *ssa.UnOp:
				y, ok := b.(*ssa.UnOp)
				return ok && x.Op == y.Op && same(x.X, y.X, depth+1)
			case *ssa.IndexAddr:
				y, ok := b.(*ssa.IndexAddr)
				return ok && same(x.X, y.X, depth+1) && same(x.Index, y.Index, depth+1)
			case *ssa.Index:
				y, ok := b.(*ssa.Index)
				return ok && same(x.X, y.X, depth+1) && same(x.Index, y.Index, depth+1)
			case *ssa.FieldAddr:
				y, ok := b.(*ssa.FieldAddr)
				return ok && x.Field == y.Field && same(x.X, y.X, depth+1)
			case *ssa.Field:
				y, ok := b.(*ssa.Field)
				return ok && x.Field == y.Field && same(x.X, y.X, depth+1)
			case *ssa.BinOp:
				y, ok := b.(*ssa.BinOp)
				return ok && x.Op == y.Op && same(x.X, y.X, depth+1) && same(x.Y, y.Y, depth+1)
			case *ssa.Convert:
				y, ok := b.(*ssa.Convert)
				return ok && same(x.X, y.X, depth+1)
			case *ssa.Const:
				y, ok := b.(*ssa.Const)
				return ok && x.Value != nil && y.Value != nil && x.Value.ExactString() == y.Value.ExactString()
			}
			return false
		}
		var eval func(v ssa.Value, depth int) int
		eval = func(v ssa.Value, depth int) int {
			if depth > 8 {
				return vU
			}
			switch x := v.(type) {
			case *ssa.Const:
				if x.Value != nil && x.Value.ExactString() == "true" {
					return vT
				}
				return vF
			case *ssa.UnOp:
				if x.Op == token.NOT {
					e := eval(x.X, depth+1)
					out := e & vU
					if e&vF != 0 {
						out |= vT
					}
					if e&vT != 0 {
						out |= vF
					}
					return out
				}
			case *ssa.Call:
				name := ""
				args := x.Call.Args
				if x.Call.IsInvoke() {
					name = x.Call.Method.Name()
				} else if cal := x.Call.StaticCallee(); cal != nil {
					name = cal.Name()
					if cal.Signature.Recv() != nil && len(args) > 0 {
						args = args[1:]
					}
				}
				if name == "IsEdge" && len(args) == 2 && same(args[0], args[1], 0) {
					return vF
				}
			case *ssa.Phi:
				out := 0
				for k, e := range x.Edges {
					pred := x.Block().Preds[k]
					ex := append(append([]Poly{}, extra...), P.edgeFacts(pred, x.Block())...)
					if P.Unreachable(pred, ex) {
						continue
					}
					out |= eval(e, depth+1)
				}
				if out == 0 {
					return vF // no incoming edge is feasible: the join itself is unreachable
				}
				return out
			}
			return vU
		}
		name := c.short(fn)
		nret := 0
		for _, b := range fn.Blocks {
			ret, ok := b.Instrs[len(b.Instrs)-1].(*ssa.Return)
			if !ok || len(ret.Results) != 1 {
				continue
			}
			nret++
			src := fmt.Sprintf("return #%d", nret)
			if P.Unreachable(b, extra) {
				r.inst("%s: %s unreachable for i == j", name, src)
				r.oblig(true)
				continue
			}
			e := eval(ret.Results[0], 0)
			switch {
			case e&vT != 0:
				r.inst("%s: %s can be true for i == j", name, src)
				r.oblig(false)
				r.find(name+":true on the diagonal", c.instrPos(ret), "%s: for i == j, %s evaluates to true (the negation of, or a constant instead of, a loop-free graph's answer): the graph reports a loop at every vertex, while its Neighbours and Degrees exclude the vertex itself", name, src)
			case e == vF:
				r.inst("%s: %s is false for i == j", name, src)
				r.oblig(true)
			default:
				r.inst("%s: %s depends on stored data for i == j (not judged)", name, src)
				r.note("%s: %s: the answer for i == j is read from the representation (its own invariant keeps loops out): not judged", name, src)
			}
		}
	}
	return r
}

// overwrittenLater: some store into the same slice that can execute after st writes a different
// value into a cell that is not provably another one. Returns a description of that store.
func overwrittenLater(P *Prover, fn *ssa.Function, st *ssa.Store, ia *ssa.IndexAddr, v Poly) string {
	where := map[ssa.Instruction]ipos{}
	for _, b := range fn.Blocks {
		for i, in := range b.Instrs {
			where[in] = ipos{b, i}
		}
	}
	e := P.poly(ia.Index)
	for _, b := range fn.Blocks {
		for _, in := range b.Instrs {
			t, ok := in.(*ssa.Store)
			if !ok || t == st {
				continue
			}
			ta, ok := t.Addr.(*ssa.IndexAddr)
			if !ok || stripAll(ta.X) != stripAll(ia.X) {
				continue
			}
			if !reaches(where[st], where[t], ipos{nil, -1}) {
				continue
			}
			if P.poly(t.Val).add(v, -1).key() == "" {
				continue // the same value: overwriting changes nothing
			}
			// the two indices are compared where both denote the values in question: at st when the later
			// index does not vary with st's loops, at t when st's own index is loop-free
			eT := P.poly(ta.Index)
			d := eT.add(e, -1)
			var at *ssa.BasicBlock
			switch {
			case len(P.phisIn(eT)) == 0 && P.availableBefore(eT, st.Block()):
				at = st.Block()
			case len(P.phisIn(e)) == 0 && P.availableBefore(e, b):
				at = b
			}
			if at != nil && (P.Prove(d.scale(-1).add(constP(1), 1), at) || P.Prove(d.add(constP(1), 1), at)) {
				continue // provably a different cell
			}
			return P.c.instrPos(t)
		}
	}
	return ""
}

// ruleRegrow: the edit methods shrink a graph's storage by re-slicing (RemoveVertex, RemoveEdge),
// which leaves the old contents in the spare capacity. Growing the same storage back *in place*
// - a slice expression above the current length, taken when a `cap` test says there is room -
// therefore exposes stale adjacency bytes, degrees or neighbour rows unless the new part is
// initialised. For every slice expression on a storage field of DenseGraph/SparseGraph that is
// dominated by a cap() of the same field, the rule asks for the initialisation to be visible:
// a sweep `for i := ...; i < HIGH; i++ { field[i] = ... }` up to the new length, or a copy/clear
// into the storage. Reading the exposed part (reusing a stale row) or writing only selected
// cells of it is reported.
func ruleRegrow(c *Ctx, pkgRel string) *RuleResult {
	r := &RuleResult{Rule: "REGROW", Doc: "graph storage grown in place into spare capacity is initialised up to its new length (spare capacity holds what an earlier shrink left behind)", MinInst: 0}
	gp := c.ByPath[c.Mod+"/graph"]
	storage := map[string]bool{}
	for _, tn := range []string{"DenseGraph", "SparseGraph"} {
		if o := gp.Types.Scope().Lookup(tn); o != nil {
			storage[types.TypeString(o.Type(), nil)] = true
		}
	}
	// fieldOf: v is a load of a slice-typed field of a graph struct; returns the field address
	fieldOf := func(v ssa.Value) *ssa.FieldAddr {
		u, ok := v.(*ssa.UnOp)
		if !ok || u.Op != token.MUL {
			return nil
		}
		fa, ok := u.X.(*ssa.FieldAddr)
		if !ok {
			return nil
		}
		pt, ok := fa.X.Type().Underlying().(*types.Pointer)
		if !ok || !storage[types.TypeString(pt.Elem(), nil)] {
			return nil
		}
		return fa
	}
	same := func(a, b *ssa.FieldAddr) bool { return a != nil && b != nil && a.X == b.X && a.Field == b.Field }
	for _, fn := range c.Funcs {
		p := fnPkg(fn)
		if p == nil || p.Pkg.Path() != c.Mod+"/"+pkgRel || fn.Synthetic != "" || fn.Blocks == nil {
			continue
		}
		dom := func(a, b *ssa.BasicBlock) bool { return a.Dominates(b) }
		for _, b := range fn.Blocks {
			for _, in := range b.Instrs {
				sl, ok := in.(*ssa.Slice)
				if !ok || sl.High == nil {
					continue
				}
				if _, isSlice := sl.X.Type().Underlying().(*types.Slice); !isSlice {
					continue
				}
				fa := fieldOf(sl.X)
				if fa == nil {
					continue
				}
				// a cap() of the same field evaluated on the way here
				capped := false
				for _, b2 := range fn.Blocks {
					for _, in2 := range b2.Instrs {
						call, ok := in2.(*ssa.Call)
						if !ok {
							continue
						}
						if bi, isB := call.Call.Value.(*ssa.Builtin); !isB || bi.Name() != "cap" {
							continue
						}
						if same(fieldOf(call.Call.Args[0]), fa) && (dom(b2, b) && b2 != b || b2 == b) {
							capped = true
						}
					}
				}
				if !capped {
					continue
				}
				st := fa.X.Type().Underlying().(*types.Pointer).Elem().Underlying().(*types.Struct)
				fname := st.Field(fa.Field).Name()
				r.inst("%s: %s grown in place up to %s", c.short(fn), fname, valName(sl.High))
				// initialisation: a sweep up to HIGH, or a bulk copy/clear/append into the storage
				okInit := false
				var PP *Prover
				for _, b2 := range fn.Blocks {
					if !dom(b, b2) {
						continue
					}
					for _, in2 := range b2.Instrs {
						switch x := in2.(type) {
						case *ssa.Store:
							ia, ok := x.Addr.(*ssa.IndexAddr)
							if !ok {
								continue
							}
							if !(ia.X == ssa.Value(sl) || same(fieldOf(ia.X), fa)) {
								continue
							}
							if phi, ok := ia.Index.(*ssa.Phi); ok {
								// the loop condition of the phi's block compares it with HIGH
								if iff, ok := phi.Block().Instrs[len(phi.Block().Instrs)-1].(*ssa.If); ok {
									if bo, ok := iff.Cond.(*ssa.BinOp); ok && (bo.Op == token.LSS || bo.Op == token.LEQ || bo.Op == token.NEQ) && bo.X == ssa.Value(phi) && sameValue(bo.Y, sl.High) {
										okInit = true
									}
								}
								continue
							}
							// index = offset + counter with the counter running to a bound B: the sweep ends at
							// offset + B, which must be the new length (edges[rowStart+i] = 0 for i < n, newSize = rowStart+n)
							if PP == nil {
								PP = NewProver(c, fn)
							}
							ip := PP.poly(ia.Index)
							for _, ph := range PP.phisIn(ip) {
								iff, ok := ph.Block().Instrs[len(ph.Block().Instrs)-1].(*ssa.If)
								if !ok {
									continue
								}
								bo, ok := iff.Cond.(*ssa.BinOp)
								if !ok || bo.X != ssa.Value(ph) || (bo.Op != token.LSS && bo.Op != token.NEQ) {
									continue
								}
								coef := ip[itoa(PP.atomIDOf(ph))]
								if coef != 1 {
									continue
								}
								end := ip.add(PP.poly(ph), -1).add(PP.poly(bo.Y), 1)
								if end.add(PP.poly(sl.High), -1).key() == "" {
									okInit = true
								}
							}
						case *ssa.Call:
							if bi, isB := x.Call.Value.(*ssa.Builtin); isB && (bi.Name() == "copy" || bi.Name() == "clear") {
								d := x.Call.Args[0]
								if s2, ok := d.(*ssa.Slice); ok {
									d = s2.X
								}
								if d == ssa.Value(sl) || same(fieldOf(d), fa) {
									okInit = true
								}
							}
						}
					}
				}
				r.oblig(okInit)
				if !okInit {
					r.find(c.short(fn)+":"+fname+" grown in place without initialisation", c.instrPos(sl), "%s grows %s in place into its spare capacity (a cap test guards the slice expression) but no sweep up to the new length, copy or clear initialises the new part: it still holds whatever an earlier RemoveVertex/RemoveEdge left there (stale adjacency, degrees or rows shared with a live row)", c.short(fn), fname)
				}
			}
		}
	}
	return r
}

// sameValue: the same SSA value, or two loads / arithmetic results that are structurally equal
// within one function (no store between them is checked: used for loop bounds only).
func sameValue(a, b ssa.Value) bool {
	if a == b {
		return true
	}
	switch x := a.(type) {
	case *ssa.Const:
		if y, ok := b.(*ssa.Const); ok {
			return x.Value != nil && y.Value != nil && x.Value.ExactString() == y.Value.ExactString()
		}
	case *ssa.BinOp:
		if y, ok := b.(*ssa.BinOp); ok && x.Op == y.Op {
			return sameValue(x.X, y.X) && sameValue(x.Y, y.Y)
		}
	case *ssa.UnOp:
		if y, ok := b.(*ssa.UnOp); ok && x.Op == y.Op {
			if fx, ok := x.X.(*ssa.FieldAddr); ok {
				if fy, ok := y.X.(*ssa.FieldAddr); ok {
					return fx.X == fy.X && fx.Field == fy.Field
				}
			}
			return sameValue(x.X, y.X)
		}
	case *ssa.Convert:
		if y, ok := b.(*ssa.Convert); ok {
			return sameValue(x.X, y.X)
		}
	}
	return false
}
