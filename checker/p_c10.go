package main

// C10 (narrow): structural necessary conditions of "distance, connectivity and cycle-structure
// invariants equal their definitions for every graph". The values themselves are not decided.

import (
	"go/token"
	"go/types"
	"path/filepath"
	"strings"

	"golang.org/x/tools/go/ssa"
)

var c10Funcs = []string{"graph.Distance", "graph.Eccentricity", "graph.Diameter", "graph.Radius", "graph.Girth",
	"graph.ConnectedComponent", "graph.ConnectedComponents", "graph.BiconnectedComponents",
	"graph.NumberOfCycles", "graph.NumberOfInducedCycles", "graph.NumberOfInducedPaths"}

// sameReceiverCalls makes every `invoke x.N()` on the same receiver value one atom: the order of a
// graph that the function does not modify (READONLY) is the same at every call.
func sameReceiverCalls(P *Prover, fn *ssa.Function, method string) []ssa.Value {
	first := map[ssa.Value]ssa.Value{}
	var reps []ssa.Value
	for _, b := range fn.DomPreorder() {
		for _, in := range b.Instrs {
			call, ok := in.(*ssa.Call)
			if !ok || !call.Call.IsInvoke() || call.Call.Method.Name() != method || len(call.Call.Args) != 0 {
				continue
			}
			if f, seen := first[call.Call.Value]; seen {
				P.loadRep[call] = f
			} else {
				first[call.Call.Value] = call
				reps = append(reps, call)
			}
		}
	}
	return reps
}

// ruleMakeCap: make([]T, L, cap) with a constant length L >= 1 panics unless L <= cap. The
// capacity is usually written in terms of the order of the graph; the rule assumes N() >= 0 and,
// for a function with a vertex parameter, that the vertex is one of the graph's (0 <= v < N()).
func ruleMakeCap(c *Ctx, r *RuleResult, fnName string) {
	fn := c.Fn(fnName)
	P := NewProver(c, fn)
	var extra []Poly
	ns := sameReceiverCalls(P, fn, "N")
	for _, n := range ns {
		extra = append(extra, P.poly(n).scale(-1)) // N >= 0
	}
	// vertex parameters: ints following a graph parameter
	for i, p := range fn.Params {
		if i == 0 || !isInt(p.Type()) {
			continue
		}
		if _, isIface := fn.Params[0].Type().Underlying().(*types.Interface); !isIface {
			continue
		}
		for _, n := range ns {
			if call := n.(*ssa.Call); call.Call.Value == ssa.Value(fn.Params[0]) {
				extra = append(extra, P.poly(p).scale(-1))                            // v >= 0
				extra = append(extra, P.poly(p).add(P.poly(n), -1).add(constP(1), 1)) // v < N
			}
		}
	}
	for _, b := range fn.Blocks {
		for _, in := range b.Instrs {
			mk, ok := in.(*ssa.MakeSlice)
			if !ok {
				continue
			}
			L, isK := constInt(mk.Len)
			if !isK || L < 1 {
				continue
			}
			if _, capK := constInt(mk.Cap); capK {
				continue
			}
			src := c.srcAt(mk.Pos())
			if src == "" {
				src = valName(mk)
			}
			// only capacities written in terms of the order of a graph the function was given are
			// judged: the order of a graph built inside (a component's induced subgraph) is bounded
			// by invariants of that construction
			judged := true
			P.atomsOf(P.poly(mk.Cap), func(a *Atom) {
				call, isCall := a.val.(*ssa.Call)
				if a.kind != aVal || !isCall || !call.Call.IsInvoke() {
					judged = false
					return
				}
				if _, isParam := call.Call.Value.(*ssa.Parameter); !isParam {
					judged = false
				}
			})
			if !judged {
				r.note("%s: %s: the capacity %s does not depend on an argument graph alone: not judged", fnName, src, P.showTerm(P.poly(mk.Cap)))
				continue
			}
			r.inst("%s: %s", fnName, src)
			ok2 := P.ProveWith(constP(L).add(P.poly(mk.Cap), -1), b, extra)
			r.oblig(ok2)
			if !ok2 {
				r.find(fnName+":"+src+" length above capacity", c.instrPos(mk), "%s allocates %s: length %d is not provably <= capacity %s for every graph it accepts (makeslice: cap out of range)", fnName, src, L, P.showTerm(P.poly(mk.Cap)))
			}
		}
	}
}

// ruleSortedResult: the component a function returns (or each component it appends to the table it
// returns) is in increasing order because it has been through sort.Ints and nothing has written
// its elements since - directly, or as a copy made of such a slice.
func ruleSortedResult(c *Ctx, r *RuleResult, fnName string) {
	fn := c.Fn(fnName)
	E := c.Eff()
	f := E.fas[fn]
	where := map[ssa.Instruction]ipos{}
	for _, b := range fn.Blocks {
		for i, in := range b.Instrs {
			where[in] = ipos{b, i}
		}
	}
	// is v sorted when control reaches `at`?
	var sortedAt func(v ssa.Value, at ssa.Instruction, depth int) bool
	sortedAt = func(v ssa.Value, at ssa.Instruction, depth int) bool {
		if depth > 3 {
			return false
		}
		v = stripAll(v)
		objs := f.P(v)
		cleanSince := func(from ssa.Instruction) bool {
			for _, b := range fn.Blocks {
				for _, in := range b.Instrs {
					if in == from || in == at {
						continue
					}
					hit := false
					for l := range f.iw[in] {
						for o := range objs {
							if l.o == o.o {
								hit = true
							}
						}
					}
					if hit && reaches(where[from], where[in], where[at]) && reaches(where[in], where[at], where[from]) {
						return false
					}
				}
			}
			return true
		}
		// a fresh slice filled with s[i] = i (+ constant) over a unit-step sweep and not written otherwise
		if mk, isMk := v.(*ssa.MakeSlice); isMk {
			P := NewProver(c, fn)
			loops := loopsOf(fn)
			okFill, nFill := true, 0
			for _, b := range fn.Blocks {
				for _, in := range b.Instrs {
					hit := false
					for l := range f.iw[in] {
						for o := range objs {
							if l.o == o.o {
								hit = true
							}
						}
					}
					if !hit || !reaches(where[in], where[at], ipos{nil, -1}) {
						continue // not a write to this slice, or one that cannot happen before this point
					}
					st, isSt := in.(*ssa.Store)
					if !isSt {
						okFill = false
						continue
					}
					ia, isIA := st.Addr.(*ssa.IndexAddr)
					if !isIA || stripAll(ia.X) != ssa.Value(mk) {
						okFill = false
						continue
					}
					d := P.poly(st.Val).add(P.poly(ia.Index), -1)
					if _, isK := d.isConst(); !isK {
						okFill = false
						continue
					}
					if _, sweep := tSweep(P, loops, ia.Index, b); !sweep {
						okFill = false
						continue
					}
					nFill++
				}
			}
			if okFill && nFill == 1 {
				return true
			}
		}
		for _, b := range fn.Blocks {
			for _, in := range b.Instrs {
				call, ok := in.(*ssa.Call)
				if !ok {
					continue
				}
				dom := in.Block() == at.Block() && where[in].i < where[at].i || in.Block() != at.Block() && in.Block().Dominates(at.Block())
				if !dom {
					continue
				}
				if cal := call.Call.StaticCallee(); cal != nil && cal.String() == "sort.Ints" && stripAll(call.Call.Args[0]) == v && cleanSince(in) {
					return true
				}
				if bi, isB := call.Call.Value.(*ssa.Builtin); isB && bi.Name() == "copy" && stripAll(call.Call.Args[0]) == v {
					// v is a fresh slice of the source's length, filled by this copy only
					if mk, isMk := v.(*ssa.MakeSlice); isMk && cleanSince(in) {
						P := NewProver(c, fn)
						if P.poly(mk.Len).add(P.lenOf(call.Call.Args[1]), -1).key() == "" && sortedAt(call.Call.Args[1], in, depth+1) {
							return true
						}
					}
				}
			}
		}
		return false
	}
	res := fn.Signature.Results().At(0).Type()
	isTable := false
	if sl, ok := res.Underlying().(*types.Slice); ok {
		if _, ok := sl.Elem().Underlying().(*types.Slice); ok {
			isTable = true
		}
	}
	n := 0
	for _, b := range fn.Blocks {
		for _, in := range b.Instrs {
			switch x := in.(type) {
			case *ssa.Return:
				if isTable || len(x.Results) == 0 {
					continue
				}
				n++
				r.inst("%s: returned slice is sorted", fnName)
				ok := sortedAt(x.Results[0], x, 0)
				r.oblig(ok)
				if !ok {
					r.find(fnName+":result not sorted", c.instrPos(x), "%s returns a slice that has not provably been through sort.Ints since its elements were last written: the component is not in increasing order", fnName)
				}
			case *ssa.Call:
				if !isTable {
					continue
				}
				bi, isB := x.Call.Value.(*ssa.Builtin)
				if !isB || bi.Name() != "append" || !types.Identical(x.Type(), res) {
					continue
				}
				// the appended rows: elements of the variadic array
				rows := appendedValues(x)
				for _, row := range rows {
					if k, isK := row.(*ssa.Const); isK && k.Value == nil {
						continue
					}
					n++
					r.inst("%s: component appended at %s is sorted", fnName, c.instrPos(x))
					ok := sortedAt(row, x, 0)
					r.oblig(ok)
					if !ok {
						r.find(fnName+":appended component not sorted", c.instrPos(x), "%s appends a component that has not provably been through sort.Ints since its elements were last written", fnName)
					}
				}
			}
		}
	}
	if n == 0 {
		r.undecided("%s: no returned or appended component found", fnName)
	}
}

// appendedValues: the values v1..vk of append(t, v1, ..., vk) (not of append(t, s...)).
func appendedValues(call *ssa.Call) []ssa.Value {
	if len(call.Call.Args) != 2 {
		return nil
	}
	sl, ok := call.Call.Args[1].(*ssa.Slice)
	if !ok {
		return nil
	}
	al, ok := sl.X.(*ssa.Alloc)
	if !ok || al.Referrers() == nil {
		return nil
	}
	var out []ssa.Value
	for _, ref := range *al.Referrers() {
		ia, ok := ref.(*ssa.IndexAddr)
		if !ok || ia.Referrers() == nil {
			continue
		}
		for _, r2 := range *ia.Referrers() {
			if st, ok := r2.(*ssa.Store); ok && st.Addr == ssa.Value(ia) {
				out = append(out, st.Val)
			}
		}
	}
	return out
}

func init() {
	_ = token.ADD
	register(&propDef{
		id:          "C10",
		explanation: "Decides four narrow structural necessary conditions of 'the invariants equal their definitions for every graph': READONLY (none of the eleven functions writes the graph it is given, so the value computed is that of the graph passed and later observers are unaffected), MAKECAP (an allocation with a constant non-zero length and a capacity written in terms of the order of the graph is within its capacity for every graph and vertex the function accepts, i.e. the function returns at all), SORTED (the component ConnectedComponent returns and every component ConnectedComponents appends has been through sort.Ints with no later write: 'sorted' in the statement), WALK (a slice handed out by a graph observer, e.g. a neighbour list, is never walked by a loop that edits - through a call - the memory the slice points to: NumberOfCycles removes edges from its working copy while ranging over Neighbours, which is only correct if every implementation of Neighbours returns a snapshot; decided with the may-alias and per-call write sets of E-EFF). The values - distances, blocks, articulation vertices, cycle counts - and their invariance under relabelling are not decided.",
		notDecided:  []string{"that Distance, Eccentricity, Diameter, Radius and Girth equal the shortest-path definitions", "that the components, blocks and articulation vertices are exactly right (BiconnectedComponents' blocks are sorted in place in a table: not covered by SORTED)", "the cycle and path counts", "invariance under relabelling and representation"},
		assumptions: []string{"Graph.N() is non-negative and the same at every call on an unmodified graph", "a vertex argument is a vertex of the graph (0 <= v < N())"},
		run: func(c *Ctx, tier string) []*RuleResult {
			ro := &RuleResult{Rule: "READONLY", Doc: "the invariant functions do not modify the graph they are given", MinInst: len(c10Funcs)}
			for _, n := range c10Funcs {
				noWrites(c, ro, c.Fn(n), []int{0}, "its graph argument")
			}
			mc := &RuleResult{Rule: "MAKECAP", Doc: "make with a constant non-zero length and a computed capacity: length <= capacity for every accepted graph and vertex", MinInst: 2}
			for _, n := range c10Funcs {
				ruleMakeCap(c, mc, n)
			}
			so := &RuleResult{Rule: "SORTED", Doc: "returned / appended components have been through sort.Ints and not written since", MinInst: 2}
			ruleSortedResult(c, so, "graph.ConnectedComponent")
			ruleSortedResult(c, so, "graph.ConnectedComponents")
			wk := &RuleResult{Rule: "WALK", Doc: "a slice handed out by an observer is not written (through a call) by the loop that walks it", MinInst: 5}
			for _, n := range c10Funcs {
				ruleWalk(c, wk, n)
			}
			li := ruleLocalIdx(c, func(f string) bool { return filepath.Base(filepath.Dir(f)) == "graph" }, false)
			li.MinInst = 4
			sa := ruleSiblingAppend(c, func(f string) bool { return filepath.Base(filepath.Dir(f)) == "graph" })
			return []*RuleResult{ro, mc, so, wk, li, sa}
		},
		controls: func(ctl *Ctx) []*RuleResult {
			mc := &RuleResult{Rule: "MAKECAP"}
			ruleMakeCap(ctl, mc, "compctl.BadWorklistCap")
			ruleMakeCap(ctl, mc, "compctl.GoodWorklistCap")
			so := &RuleResult{Rule: "SORTED"}
			ruleSortedResult(ctl, so, "compctl.BadUnsortedComponent")
			ruleSortedResult(ctl, so, "compctl.GoodSortedComponent")
			ruleSortedResult(ctl, so, "compctl.GoodAllVertices")
			wk := &RuleResult{Rule: "WALK"}
			ruleWalk(ctl, wk, "compctl.BadWalkShared")
			ruleWalk(ctl, wk, "compctl.GoodWalkSnapshot")
			return []*RuleResult{mc, so, wk, ruleLocalIdx(ctl, func(f string) bool { return filepath.Base(f) == "idxctl.go" }, false), ruleSiblingAppend(ctl, func(f string) bool { return filepath.Base(f) == "idxctl.go" })}
		},
	})
}

// ruleWalk: the C10 algorithms walk neighbour lists (and other slices handed out by graph
// observers) while they edit a working copy of the graph inside the same loop. That is only
// correct when the list is a snapshot: if some implementation of the observer returns the graph's
// own storage, the edit shifts elements under the running loop (neighbours skipped or visited
// twice). Decided with E-EFF: for every element read of a slice that is the result of a call, no
// call instruction lying on a cycle with that read may write the elements of the memory the slice
// points to. Direct stores are not judged (in-place loops are an idiom); reads of parameters and
// locally made slices are not judged either.
func ruleWalk(c *Ctx, r *RuleResult, name string) {
	fn := c.Fn(name)
	fns := []*ssa.Function{fn}
	fns = append(fns, fn.AnonFuncs...)
	E := c.Eff()
	for _, g := range fns {
		f := E.fas[g]
		if f == nil {
			continue
		}
		reach := map[*ssa.BasicBlock]map[*ssa.BasicBlock]bool{}
		reachFrom := func(b *ssa.BasicBlock) map[*ssa.BasicBlock]bool {
			if m, ok := reach[b]; ok {
				return m
			}
			m := reachableBlocks(b, nil)
			// reachableBlocks marks the start itself; it is on a cycle only if some successor leads back
			self := false
			for _, s := range b.Succs {
				if s == b || reachableBlocks(s, nil)[b] {
					self = true
				}
			}
			if !self {
				delete(m, b)
			}
			reach[b] = m
			return m
		}
		type writer struct {
			call *ssa.Call
			ls   locset
		}
		var writers []writer
		for _, b := range g.Blocks {
			for _, in := range b.Instrs {
				if call, ok := in.(*ssa.Call); ok {
					if _, isB := call.Call.Value.(*ssa.Builtin); isB {
						continue
					}
					if ls := f.iw[in]; len(ls) > 0 {
						writers = append(writers, writer{call, ls})
					}
				}
			}
		}
		seen := map[ssa.Value]bool{}
		for _, b := range g.Blocks {
			for _, in := range b.Instrs {
				ia, ok := in.(*ssa.IndexAddr)
				if !ok {
					continue
				}
				src, ok := ia.X.(*ssa.Call)
				if !ok {
					if ex, isEx := ia.X.(*ssa.Extract); isEx {
						src, ok = ex.Tuple.(*ssa.Call)
					}
				}
				if !ok || seen[ia.X] {
					continue
				}
				if _, isSlice := ia.X.Type().Underlying().(*types.Slice); !isSlice {
					continue
				}
				if _, isB := src.Call.Value.(*ssa.Builtin); isB {
					continue
				}
				seen[ia.X] = true
				r.inst("%s: walk over the result of %s", c.short(g), instrDesc(c, src))
				elems := locset{}
				for l := range f.P(ia.X) {
					elems[loc{l.o, join(l.p, "[*]")}] = true
				}
				bad := false
				for _, w := range writers {
					if !(reachFrom(b)[w.call.Block()] && reachFrom(w.call.Block())[b]) {
						continue
					}
					for l := range w.ls {
						if elems[l] {
							bad = true
							r.find(c.short(g)+":"+instrDesc(c, src)+" walked while "+instrDesc(c, w.call)+" writes it", c.instrPos(w.call), "%s walks the slice returned by %s while, in the same loop, %s may write its elements: some implementation of the observer hands out the graph's own storage, so the edit moves elements under the running loop (entries skipped or visited twice)", c.short(g), instrDesc(c, src), instrDesc(c, w.call))
							break
						}
					}
				}
				r.oblig(!bad)
			}
		}
	}
}

// ruleMakeCapAny: make([]T, len, cap) panics when len > cap. Wherever the two are different
// expressions, len <= cap is proved (a growth policy such as 2*cap(old) is below the new length for
// the smallest sizes).
func ruleMakeCapAny(c *Ctx, files func(string) bool) *RuleResult {
	r := &RuleResult{Rule: "MAKECAP", Doc: "make with a length and a separately computed capacity: length <= capacity is proved", MinInst: 0}
	for _, fn := range c.Funcs {
		if fn.Synthetic != "" || fn.Blocks == nil || !files(c.Fset.Position(fn.Pos()).Filename) {
			continue
		}
		var P *Prover
		for _, b := range fn.Blocks {
			for _, in := range b.Instrs {
				mk, ok := in.(*ssa.MakeSlice)
				if !ok || mk.Len == mk.Cap {
					continue
				}
				if l, isK := constInt(mk.Len); isK && l == 0 {
					continue
				}
				if P == nil {
					P = NewProver(c, fn)
					nonNegativeOrder(P, fn)
				}
				L, C := P.poly(mk.Len), P.poly(mk.Cap)
				if L.add(C, -1).key() == "" {
					continue
				}
				src := c.srcAt(mk.Pos())
				if src == "" {
					src = valName(mk)
				}
				r.inst("%s: %s", c.short(fn), src)
				ok2 := P.Prove(L.add(C, -1), b)
				r.oblig(ok2)
				if !ok2 {
					r.find(c.short(fn)+":"+src+" length above capacity", c.instrPos(mk), "%s: %s: the length %s is not proved to be at most the capacity %s: make panics for the sizes where it is not", c.short(fn), src, P.showTerm(L), P.showTerm(C))
				}
			}
		}
	}
	return r
}

// ruleMakeSize: make panics on a negative length or capacity. Where a size is the difference of two
// of the function's inputs (an affine expression over integer parameters and the lengths of slice
// parameters with coefficients of both signs, e.g. n-len(a)), it is proved non-negative under the
// guards that dominate the make: nothing relates one argument to another unless the code checks it.
// A size that is a single argument (n, n-2) states the function's domain and is not judged, nor are
// sizes computed by loops or calls.
func ruleMakeSize(c *Ctx, files func(string) bool) *RuleResult {
	r := &RuleResult{Rule: "MAKESIZE", Doc: "a make whose length or capacity is the difference of two of the function's inputs (integer parameters, lengths of slice parameters) is proved non-negative", MinInst: 0}
	for _, fn := range c.Funcs {
		if fn.Synthetic != "" || fn.Blocks == nil || !files(c.Fset.Position(fn.Pos()).Filename) {
			continue
		}
		isParam := map[ssa.Value]bool{}
		for _, p := range fn.Params {
			isParam[p] = true
		}
		var P *Prover
		for _, b := range fn.Blocks {
			for _, in := range b.Instrs {
				mk, ok := in.(*ssa.MakeSlice)
				if !ok {
					continue
				}
				sizes := []ssa.Value{mk.Len}
				if mk.Cap != mk.Len {
					sizes = append(sizes, mk.Cap)
				}
				for _, sz := range sizes {
					if _, isK := constInt(sz); isK {
						continue
					}
					if P == nil {
						P = NewProver(c, fn)
					}
					p := P.poly(sz)
					affine, direct, nInt := true, true, 0
					for m := range p {
						if strings.Contains(m, "*") {
							affine = false
						}
					}
					P.atomsOf(p, func(a *Atom) {
						switch {
						case a.kind == aVal && isParam[a.val]:
							nInt++
						case a.kind == aLen && isParam[a.val]:
						default:
							direct = false
						}
					})
					pos, neg := 0, 0
					for m, k := range p {
						if m == "" {
							continue
						}
						if k > 0 {
							pos++
						} else {
							neg++
						}
					}
					if !affine || !direct || nInt == 0 || pos == 0 || neg == 0 {
						// lengths alone are never negative; a size that is one argument (n, n-2) states
						// the function's domain; sizes computed by loops or calls are not this rule's.
						continue
					}
					src := c.srcAt(mk.Pos())
					if src == "" {
						src = valName(mk)
					}
					r.inst("%s: %s: size %s", c.short(fn), src, P.showTerm(p))
					ok2 := P.Prove(p.scale(-1), b)
					r.oblig(ok2)
					if !ok2 {
						r.find(c.short(fn)+":"+src+" size may be negative", c.instrPos(mk), "%s: %s: the size %s is written in terms of the arguments and is not proved non-negative: make panics for the arguments where it is negative", c.short(fn), src, P.showTerm(p))
					}
				}
			}
		}
	}
	return r
}

// rulePartial: the partial operations of a generator under the contract "integer parameters are
// non-negative" (the smallest sizes are accepted arguments): every make size written in terms of the
// parameters is proved non-negative, and every integer division or remainder by a non-constant is
// proved to have a non-zero divisor, under the guards and loop conditions that dominate it. Both
// panic otherwise (makeslice: len out of range; integer divide by zero).
func rulePartial(c *Ctx, files func(string) bool, exportedOnly bool) *RuleResult {
	r := &RuleResult{Rule: "PARTIAL", Doc: "under non-negative integer parameters, every make size written in terms of the parameters is proved non-negative and every non-constant divisor is proved non-zero", MinInst: 0}
	nf := 0
	for _, fn := range c.Funcs {
		if fn.Synthetic != "" || fn.Blocks == nil || fn.Parent() != nil || !files(c.Fset.Position(fn.Pos()).Filename) {
			continue
		}
		if o := fn.Object(); exportedOnly && (o == nil || !o.Exported() || fn.Signature.Recv() != nil) {
			continue
		}
		nf++
		isParam := map[ssa.Value]bool{}
		for _, p := range fn.Params {
			isParam[p] = true
		}
		var P *Prover
		prover := func() *Prover {
			if P == nil {
				P = NewProver(c, fn)
				for _, p := range fn.Params {
					if isInt(p.Type()) {
						P.global = append(P.global, P.poly(p).scale(-1))
					}
				}
			}
			return P
		}
		for _, b := range fn.Blocks {
			for _, in := range b.Instrs {
				switch x := in.(type) {
				case *ssa.MakeSlice:
					sizes := []ssa.Value{x.Len}
					if x.Cap != x.Len {
						sizes = append(sizes, x.Cap)
					}
					for _, sz := range sizes {
						if _, isK := constInt(sz); isK {
							continue
						}
						P := prover()
						p := P.poly(sz)
						direct, nInt := true, 0
						P.atomsOf(p, func(a *Atom) {
							switch {
							case a.kind == aVal && isParam[a.val]:
								nInt++
							case a.kind == aLen && isParam[a.val]:
							default:
								direct = false
							}
						})
						if !direct || nInt == 0 {
							continue
						}
						src := c.srcAt(x.Pos())
						if src == "" {
							src = valName(x)
						}
						r.inst("%s: %s: size %s", c.short(fn), src, P.showTerm(p))
						ok := P.Prove(p.scale(-1), b)
						r.oblig(ok)
						if !ok {
							r.find(c.short(fn)+":"+src+" size may be negative", c.instrPos(x), "%s: %s: the size %s is not proved non-negative for every non-negative argument: make panics for the smallest sizes", c.short(fn), src, P.showTerm(p))
						}
					}
				case *ssa.BinOp:
					if (x.Op != token.QUO && x.Op != token.REM) || !isInt(x.Type()) {
						continue
					}
					if _, isK := constInt(x.Y); isK {
						continue
					}
					P := prover()
					d := P.poly(x.Y)
					src := c.srcAt(x.Pos())
					if src == "" {
						src = valName(x)
					}
					r.inst("%s: %s: divisor %s", c.short(fn), src, P.showTerm(d))
					// non-zero: positive or negative
					ok := P.Prove(constP(1).add(d, -1), b) || P.Prove(d.add(constP(1), 1), b)
					r.oblig(ok)
					if !ok {
						r.find(c.short(fn)+":"+src+" divisor may be zero", c.instrPos(x), "%s: %s: the divisor %s is not proved non-zero: integer divide by zero for the arguments where it is", c.short(fn), src, P.showTerm(d))
					}
				}
			}
		}
	}
	r.inst("%d functions scanned for make sizes and divisors", nf)
	return r
}

// ruleLocalIdx: an index into a slice the function itself allocated with make([]T, size) - a result
// table sized by the order of the graph, say - is within the allocation: a constant index k needs
// size > k (r[0] = n on the graph with no vertices), any other index is proved below the size
// (upper bound only: the lower bound of a value read back from a work list is not this rule's).
// upperAll=false restricts the rule to constant indices.
func ruleLocalIdx(c *Ctx, files func(string) bool, upperAll bool) *RuleResult {
	r := &RuleResult{Rule: "LOCALIDX", Doc: "an index into a slice allocated by the function itself with make([]T, size) is proved below size (constant indices: size > k)", MinInst: 0}
	nf := 0
	for _, fn := range c.Funcs {
		if fn.Synthetic != "" || fn.Blocks == nil || fn.Parent() != nil || !files(c.Fset.Position(fn.Pos()).Filename) {
			continue
		}
		if o := fn.Object(); o == nil || !o.Exported() {
			continue
		}
		nf++
		var P *Prover
		for _, b := range fn.Blocks {
			for _, in := range b.Instrs {
				ia, ok := in.(*ssa.IndexAddr)
				if !ok {
					continue
				}
				mk, ok := ia.X.(*ssa.MakeSlice)
				if !ok {
					continue
				}
				k, isK := constInt(ia.Index)
				if !isK && !upperAll {
					continue
				}
				if lk, isLK := constInt(mk.Len); isLK && isK && k < lk {
					continue
				}
				if P == nil {
					P = NewProver(c, fn)
					nonNegativeOrder(P, fn)
					for _, p := range fn.Params {
						if isInt(p.Type()) {
							P.global = append(P.global, P.poly(p).scale(-1))
						}
					}
				}
				{
					// the size is written in terms of the inputs: integer parameters, N() / M() of a graph parameter
					direct := true
					P.atomsOf(P.poly(mk.Len), func(a *Atom) {
						if a.kind != aVal {
							direct = false
							return
						}
						switch v := a.val.(type) {
						case *ssa.Parameter:
						case *ssa.Call:
							if !v.Call.IsInvoke() || (v.Call.Method.Name() != "N" && v.Call.Method.Name() != "M") {
								direct = false
							} else if _, isP := v.Call.Value.(*ssa.Parameter); !isP {
								direct = false
							}
						default:
							direct = false
						}
					})
					if !direct {
						continue
					}
				}
				src := c.srcAt(ia.Pos())
				if src == "" {
					src = valName(ia)
				}
				goal := P.poly(ia.Index).add(P.poly(mk.Len), -1).add(constP(1), 1)
				r.inst("%s: %s within make(%s)", c.short(fn), src, P.showTerm(P.poly(mk.Len)))
				ok2 := P.Prove(goal, b)
				r.oblig(ok2)
				if !ok2 {
					r.find(c.short(fn)+":"+src+" beyond the allocation", c.instrPos(ia), "%s: %s: the index %s is not proved below the size %s of the slice allocated at %s: index out of range for the smallest graphs", c.short(fn), src, P.showTerm(P.poly(ia.Index)), P.showTerm(P.poly(mk.Len)), c.pos(mk.Pos()))
				}
			}
		}
	}
	r.inst("%d exported functions scanned for indices into their own allocations", nf)
	return r
}

// ruleSiblingAppend: inside a loop, `child := append(base, v)` with a base that the loop does not
// change gives every iteration a slice over the *same* spare capacity of base: all the children
// pushed on a work list end in the element of the last one (a path extended by each neighbour in
// turn). Reported when the base is defined outside the loop, is not cut to its length with a
// full slice expression, and the result is kept (stored, appended to another slice, passed on).
func ruleSiblingAppend(c *Ctx, files func(string) bool) *RuleResult {
	r := &RuleResult{Rule: "SIBLINGAPPEND", Doc: "no loop appends, iteration after iteration, to one and the same slice value that it does not itself replace (the results would share the spare capacity)", MinInst: 1}
	nf := 0
	for _, fn := range c.Funcs {
		if fn.Synthetic != "" || fn.Blocks == nil || !files(c.Fset.Position(fn.Pos()).Filename) {
			continue
		}
		nf++
		loops := loopsOf(fn)
		for _, b := range fn.Blocks {
			for _, in := range b.Instrs {
				call, ok := in.(*ssa.Call)
				if !ok {
					continue
				}
				bi, isB := call.Call.Value.(*ssa.Builtin)
				if !isB || bi.Name() != "append" || len(call.Call.Args) < 2 {
					continue
				}
				base := call.Call.Args[0]
				if k, isK := base.(*ssa.Const); isK && k.Value == nil {
					continue // append([]T(nil), ...): a fresh copy
				}
				if sl, ok := base.(*ssa.Slice); ok && sl.Max != nil {
					continue // base[:n:n] has no spare capacity
				}
				if sl, ok := base.(*ssa.Slice); ok {
					if k, isK := constInt(sl.High); isK && k == 0 && sl.Low == nil {
						// x[:0] re-used as a buffer on purpose
						continue
					}
				}
				// innermost loop containing the append
				var body map[*ssa.BasicBlock]bool
				for _, bd := range loops {
					if bd[b] && (body == nil || len(bd) < len(body)) {
						body = bd
					}
				}
				if body == nil {
					continue
				}
				// base defined outside that loop (an instruction outside it, a parameter, a global load outside)
				var invariant func(v ssa.Value, d int) bool
				invariant = func(v ssa.Value, d int) bool {
					switch x := v.(type) {
					case *ssa.Parameter, *ssa.FreeVar, *ssa.Const:
						return true
					case *ssa.Field: // a field of a struct value the loop does not change
						if d < 4 && invariant(x.X, d+1) {
							return true
						}
					case *ssa.ChangeType:
						if d < 4 && invariant(x.X, d+1) {
							return true
						}
					case *ssa.UnOp:
						// a load of (a field of) a local variable that lives outside the loop and that the
						// loop never stores to
						if x.Op == token.MUL {
							addr := x.X
							if fa, ok := addr.(*ssa.FieldAddr); ok {
								addr = fa.X
							}
							if al, ok := addr.(*ssa.Alloc); ok && !body[al.Block()] {
								written := false
								for bb := range body {
									for _, ins := range bb.Instrs {
										switch y := ins.(type) {
										case *ssa.Store:
											a2 := y.Addr
											if fa, ok := a2.(*ssa.FieldAddr); ok {
												a2 = fa.X
											}
											if a2 == ssa.Value(al) {
												written = true
											}
										case *ssa.Call:
											for _, arg := range y.Call.Args {
												if arg == ssa.Value(al) {
													written = true
												}
											}
										}
									}
								}
								if !written {
									return true
								}
							}
						}
					}
					if in, ok := v.(ssa.Instruction); ok {
						return !body[in.Block()]
					}
					return false
				}
				if !invariant(base, 0) {
					continue
				}
				// the result is kept: some use other than feeding the next append of the same chain
				kept := false
				if refs := call.Referrers(); refs != nil {
					for _, ref := range *refs {
						switch ref.(type) {
						case *ssa.DebugRef:
						default:
							kept = true
						}
					}
				}
				if !kept {
					continue
				}
				// a variadic append of another slice's contents (append(base, xs...)) to a base of length 0
				// and capacity 0 is a copy idiom: make([]T, 0) / []T{} outside the loop
				if mk, ok := base.(*ssa.MakeSlice); ok {
					if l, isL := constInt(mk.Len); isL && l == 0 {
						if cp, isC := constInt(mk.Cap); isC && cp == 0 {
							continue
						}
					}
				}
				src := c.srcAt(call.Pos())
				if src == "" {
					src = valName(call)
				}
				r.inst("%s: %s", c.short(fn), src)
				r.oblig(false)
				r.find(c.short(fn)+":"+src+" extends one base in every iteration", c.instrPos(call), "%s: %s appends, in every iteration of the loop, to the same slice value %s (defined outside the loop and not replaced by it): when that slice has spare capacity the results share it and each one ends in what the last iteration wrote", c.short(fn), src, valName(base))
			}
		}
	}
	r.inst("%d functions scanned for sibling appends", nf)
	return r
}

// ruleMakeAppend: `tmp := make([]T, n, c); x = append(tmp, old...)` - the result starts with n zero
// values and the copied elements follow them; what was meant is make([]T, 0, c). Reported when the
// base of an append is the result of a make with a length that is not the constant 0 and that make
// has no other use (nobody filled the n elements in).
func ruleMakeAppend(c *Ctx, files func(string) bool) *RuleResult {
	r := &RuleResult{Rule: "MAKEAPPEND", Doc: "no append extends a slice freshly made with a non-zero length that nothing has filled in (make([]T, n, c) where make([]T, 0, c) is meant)", MinInst: 1}
	nf := 0
	for _, fn := range c.Funcs {
		if fn.Synthetic != "" || fn.Blocks == nil || !files(c.Fset.Position(fn.Pos()).Filename) {
			continue
		}
		nf++
		for _, b := range fn.Blocks {
			for _, in := range b.Instrs {
				call, ok := in.(*ssa.Call)
				if !ok {
					continue
				}
				bi, isB := call.Call.Value.(*ssa.Builtin)
				if !isB || bi.Name() != "append" || len(call.Call.Args) < 2 {
					continue
				}
				mk, isMk := call.Call.Args[0].(*ssa.MakeSlice)
				if !isMk {
					continue
				}
				if k, isK := constInt(mk.Len); isK && k == 0 {
					continue
				}
				uses := 0
				if refs := mk.Referrers(); refs != nil {
					for _, ref := range *refs {
						if _, dbg := ref.(*ssa.DebugRef); !dbg {
							uses++
						}
					}
				}
				if uses != 1 {
					continue
				}
				src := c.srcAt(call.Pos())
				if src == "" {
					src = valName(call)
				}
				r.inst("%s: %s", c.short(fn), src)
				r.oblig(false)
				r.find(c.short(fn)+":"+src+" after a make with a non-zero length", c.instrPos(call), "%s: %s appends to the slice made at %s with length %s, which nothing has filled in: the result starts with that many zero values and the appended elements come after them", c.short(fn), src, c.pos(mk.Pos()), valName(mk.Len))
			}
		}
	}
	r.inst("%d functions scanned for appends to freshly made non-empty slices", nf)
	return r
}
