// Package stickctl: controls for STICKY (an exhausted iterator stays exhausted).
package stickctl

// resets the state before reporting exhaustion: the next call starts again
type BadReset struct {
	a []int
	n int
}

func (it *BadReset) Next() bool {
	for j := 0; j < len(it.a); j++ {
		if it.a[j] < it.n-1 {
			it.a[j]++
			return true
		}
		it.a[j] = 0
	}
	return false
}

// the same with a done mark tested on entry
type GoodDone struct {
	a    []int
	n    int
	done bool
}

func (it *GoodDone) Next() bool {
	if it.done {
		return false
	}
	for j := 0; j < len(it.a); j++ {
		if it.a[j] < it.n-1 {
			it.a[j]++
			return true
		}
		it.a[j] = 0
	}
	it.done = true
	return false
}

// recognises the last object before touching anything
type GoodLookFirst struct {
	a []int
	n int
}

func (it *GoodLookFirst) Next() bool {
	last := true
	for _, v := range it.a {
		if v != it.n-1 {
			last = false
		}
	}
	if last {
		return false
	}
	for j := 0; j < len(it.a); j++ {
		if it.a[j] < it.n-1 {
			it.a[j]++
			return true
		}
		it.a[j] = 0
	}
	return true
}

// sets a mark but never looks at it
type BadMarkIgnored struct {
	a    []int
	n    int
	done bool
}

func (it *BadMarkIgnored) Next() bool {
	for j := 0; j < len(it.a); j++ {
		if it.a[j] < it.n-1 {
			it.a[j]++
			return true
		}
		it.a[j] = 0
	}
	it.done = true
	return false
}

// a state enumeration as the mark
type GoodState struct {
	a     []int
	n     int
	state int
}

func (it *GoodState) Next() bool {
	if it.state == 2 {
		return false
	}
	it.state = 1
	for j := 0; j < len(it.a); j++ {
		if it.a[j] < it.n-1 {
			it.a[j]++
			return true
		}
		it.a[j] = 0
	}
	it.state = 2
	return false
}
