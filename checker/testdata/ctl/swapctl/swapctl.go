// Package swapctl: controls for the SWAP rule.
package swapctl

type It struct {
	a []int
	n int
}

func (it *It) GoodSwap(i, j int) {
	it.a[i], it.a[j] = it.a[j], it.a[i]
}

func (it *It) GoodRotate() {
	n := it.n
	if n > 2 {
		it.a[n-3], it.a[n-2], it.a[n-1] = it.a[n-1], it.a[n-3], it.a[n-2]
	}
}

func (it *It) GoodTemp(i, j int) {
	t := it.a[i]
	it.a[i] = it.a[j]
	it.a[j] = t
}

func (it *It) BadOverwrite(i, j int) {
	it.a[i] = it.a[j]
}

func (it *It) BadNotRearrangement(i, j, k int) {
	it.a[i], it.a[j] = it.a[j], it.a[k]
}

func (it *It) BadRotateMayCoincide(i, j, k int) {
	it.a[i], it.a[j], it.a[k] = it.a[k], it.a[i], it.a[j]
}

func (it *It) BadIncrement(i int) {
	it.a[i]++
}

func GoodSort(data []int, a, b int) {
	for i := a + 1; i < b; i++ {
		for j := i; j > a && data[j] < data[j-1]; j-- {
			data[j], data[j-1] = data[j-1], data[j]
		}
	}
}

func BadSort(data []int, a, b int) {
	for i := a + 1; i < b; i++ {
		if data[i] < data[i-1] {
			data[i] = data[i-1]
		}
	}
}
