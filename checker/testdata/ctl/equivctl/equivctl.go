// Package equivctl: controls for EQUIV (C12).
package equivctl

import "bytes"

type N struct {
	id     int
	final  bool
	labels []byte
	links  []*N
}

// GoodRange compares with range loops and an early length test on the labels.
func GoodRange(t, u *N) bool {
	if t.final != u.final || len(t.labels) != len(u.labels) {
		return false
	}
	for i := range t.labels {
		if t.labels[i] != u.labels[i] {
			return false
		}
	}
	for i := range t.links {
		if t.links[i] != u.links[i] {
			return false
		}
	}
	return true
}

// GoodBackwards uses a bulk comparison for the labels and walks the links from the back, the last
// one first.
func GoodBackwards(t, u *N) bool {
	if t.final != u.final {
		return false
	}
	if !bytes.Equal(t.labels, u.labels) {
		return false
	}
	last := len(t.links) - 1
	if last < 0 {
		return true
	}
	if t.links[last] != u.links[last] {
		return false
	}
	for i := last - 1; i >= 0; i-- {
		if t.links[i] != u.links[i] {
			return false
		}
	}
	return true
}

// GoodOneLoop compares labels and links in one loop and returns a conjunction.
func GoodOneLoop(t, u *N) bool {
	if len(t.links) != len(u.links) {
		return false
	}
	for i := 0; i < len(t.links); i++ {
		if t.labels[i] != u.labels[i] || t.links[i] != u.links[i] {
			return false
		}
	}
	return t.final == u.final
}

// BadNoFinal forgets finality.
func BadNoFinal(t, u *N) bool {
	if len(t.links) != len(u.links) {
		return false
	}
	for i := 0; i < len(t.links); i++ {
		if t.labels[i] != u.labels[i] || t.links[i] != u.links[i] {
			return false
		}
	}
	return true
}

// BadSkipsFirst starts the link loop at 1.
func BadSkipsFirst(t, u *N) bool {
	if t.final != u.final || !bytes.Equal(t.labels, u.labels) {
		return false
	}
	for i := 1; i < len(t.links); i++ {
		if t.links[i] != u.links[i] {
			return false
		}
	}
	return true
}

// BadNoLength compares the common prefix only.
func BadNoLength(t, u *N) bool {
	if t.final != u.final {
		return false
	}
	for i := 0; i < len(t.links) && i < len(u.links); i++ {
		if t.labels[i] != u.labels[i] || t.links[i] != u.links[i] {
			return false
		}
	}
	return true
}

// BadEarlyOut leaves the loop as soon as one pair of targets agrees.
func BadEarlyOut(t, u *N) bool {
	if t.final != u.final || !bytes.Equal(t.labels, u.labels) {
		return false
	}
	for i := 0; i < len(t.links); i++ {
		if t.links[i] == u.links[i] {
			break
		}
		return false
	}
	return true
}

// comparisons delegated to helpers that are handed the two slices
func sameBytes(a, b []byte, n int) bool {
	for i := 0; i < n; i++ {
		if a[i] != b[i] {
			return false
		}
	}
	return true
}

func sameLinks(a, b []*N) bool {
	for i := range a {
		if a[i] != b[i] {
			return false
		}
	}
	return true
}

func sameLinksButFirst(a, b []*N) bool {
	for i := 1; i < len(a); i++ {
		if a[i] != b[i] {
			return false
		}
	}
	return true
}

func GoodHelpers(t, u *N) bool {
	return t.final == u.final && len(t.links) == len(u.links) && sameBytes(t.labels, u.labels, len(t.links)) && sameLinks(t.links, u.links)
}

func BadHelperSkipsFirst(t, u *N) bool {
	return t.final == u.final && len(t.links) == len(u.links) && sameBytes(t.labels, u.labels, len(t.links)) && sameLinksButFirst(t.links, u.links)
}
