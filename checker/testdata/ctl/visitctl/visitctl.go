// Package visitctl: controls for VISITONCE (a shared node is entered once).
package visitctl

import "sort"

type N struct {
	id   uint64
	kids []*N
}

// pushes the child before looking it up: a child seen before stays on the stack
func (t *N) BadWalk() (nodes []uint64) {
	nodes = append(nodes, t.id)
	stack := []*N{t}
	next := []int{-1}
outer:
	for {
		cur := stack[len(stack)-1]
		for j := next[len(next)-1] + 1; j < len(cur.kids); j++ {
			stack = append(stack, cur.kids[j])
			next[len(next)-1] = j
			next = append(next, -1)
			id := cur.kids[j].id
			i := sort.Search(len(nodes), func(k int) bool { return nodes[k] >= id })
			if i < len(nodes) && nodes[i] == id {
				continue
			}
			nodes = append(nodes, 0)
			copy(nodes[i+1:], nodes[i:])
			nodes[i] = id
			continue outer
		}
		next = next[:len(next)-1]
		stack = stack[:len(stack)-1]
		if len(stack) == 0 {
			return
		}
	}
}

func (t *N) GoodWalk() (nodes []uint64) {
	nodes = append(nodes, t.id)
	stack := []*N{t}
	next := []int{-1}
outer:
	for {
		cur := stack[len(stack)-1]
		for j := next[len(next)-1] + 1; j < len(cur.kids); j++ {
			id := cur.kids[j].id
			i := sort.Search(len(nodes), func(k int) bool { return nodes[k] >= id })
			if i < len(nodes) && nodes[i] == id {
				continue
			}
			nodes = append(nodes, 0)
			copy(nodes[i+1:], nodes[i:])
			nodes[i] = id
			stack = append(stack, cur.kids[j])
			next[len(next)-1] = j
			next = append(next, -1)
			continue outer
		}
		next = next[:len(next)-1]
		stack = stack[:len(stack)-1]
		if len(stack) == 0 {
			return
		}
	}
}
