// Package markctl: controls for MARKCOUNT.
package markctl

// BadMarkTwice marks present elements, then marks repeated elements, and counts both times.
func BadMarkTwice(have map[int]bool, x []int) int {
	marks := make([]int, len(x))
	seen := 0
	for i := 0; i < len(x); i++ {
		if have[x[i]] {
			seen++
			marks[i] = -1
		} else {
			marks[i] = i
		}
	}
	for i := 0; i < len(x)-1; i++ {
		if x[i] == x[i+1] {
			marks[i+1] = -1
			seen++
		}
	}
	return len(x) - seen
}

// GoodMarkOnce tests the cell before counting it a second time.
func GoodMarkOnce(have map[int]bool, x []int) int {
	marks := make([]int, len(x))
	seen := 0
	for i := 0; i < len(x); i++ {
		if have[x[i]] {
			seen++
			marks[i] = -1
		} else {
			marks[i] = i
		}
	}
	for i := 0; i < len(x)-1; i++ {
		if x[i] == x[i+1] && marks[i+1] != -1 {
			marks[i+1] = -1
			seen++
		}
	}
	return len(x) - seen
}
