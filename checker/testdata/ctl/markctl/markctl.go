// Package markctl: controls for MARKCOUNT.
package markctl

// BadMarkTwice marks present elements, then marks repeated elements, and counts both times.
func BadMarkTwice(have map[int]bool, x []int) int {
	marks := make([]int, len(x))
	seen := 0
	for i := 0; i < len(x); i++ {
		if have[x[i]] {
			seen++
			marks[i] = -1
		} else {
			marks[i] = i
		}
	}
	for i := 0; i < len(x)-1; i++ {
		if x[i] == x[i+1] {
			marks[i+1] = -1
			seen++
		}
	}
	return len(x) - seen
}

// GoodMarkOnce tests the cell before counting it a second time.
func GoodMarkOnce(have map[int]bool, x []int) int {
	marks := make([]int, len(x))
	seen := 0
	for i := 0; i < len(x); i++ {
		if have[x[i]] {
			seen++
			marks[i] = -1
		} else {
			marks[i] = i
		}
	}
	for i := 0; i < len(x)-1; i++ {
		if x[i] == x[i+1] && marks[i+1] != -1 {
			marks[i+1] = -1
			seen++
		}
	}
	return len(x) - seen
}

// BadMarkTwiceOneLoop marks and counts the same cell twice in one trip round the loop.
func BadMarkTwiceOneLoop(have map[int]bool, x []int) int {
	marks := make([]int, len(x))
	seen := 0
	for i := range x {
		if have[x[i]] {
			seen++
			marks[i] = -1
		}
		if i > 0 && x[i-1] == x[i] {
			seen++
			marks[i] = -1
		}
	}
	return len(x) - seen
}

// GoodMarkOneLoop: the two cases exclude each other.
func GoodMarkOneLoop(have map[int]bool, x []int) int {
	marks := make([]int, len(x))
	seen := 0
	for i := range x {
		if have[x[i]] {
			seen++
			marks[i] = -1
			continue
		}
		if i > 0 && x[i-1] == x[i] {
			seen++
			marks[i] = -1
		}
	}
	return len(x) - seen
}

// BadCompareBySubtraction orders by the sign of a difference.
func BadCompareBySubtraction(a, b []int) int {
	i, j, common := 0, 0, 0
	for i < len(a) && j < len(b) {
		d := a[i] - b[j]
		if d == 0 {
			common++
			i++
			j++
		} else if d > 0 {
			j++
		} else {
			i++
		}
	}
	return common
}

// SENTINEL
func BadDedupSentinel(s []int) []int {
	n := 0
	last := -1
	for _, v := range s {
		if v != last {
			s[n] = v
			n++
			last = v
		}
	}
	return s[:n]
}

func GoodDedupIndexed(s []int) []int {
	n := 0
	for i, v := range s {
		if i == 0 || v != s[i-1] {
			s[n] = v
			n++
		}
	}
	return s[:n]
}

// GoodPositionSentinel: -1 marks "no position yet"; positions are not elements.
func GoodPositionSentinel(s []int, x int) int {
	first := -1
	for i, v := range s {
		if v == x && first == -1 {
			first = i
		}
	}
	return first
}

// MAKESIZE: nothing says a has at most n elements
func BadMakeSizeComplement(n int, a []int) []int {
	r := make([]int, 0, n-len(a))
	for i := 0; i < n; i++ {
		r = append(r, i)
	}
	return r
}

// MAKESIZE: the difference is guarded
func GoodMakeSizeGuarded(n int, a []int) []int {
	if len(a) > n {
		return nil
	}
	r := make([]int, 0, n-len(a))
	for i := 0; i < n; i++ {
		r = append(r, i)
	}
	return r
}

// MAKESIZE: clamped
func GoodMakeSizeClamped(n int, a []int) []int {
	size := n - len(a)
	if size < 0 {
		size = 0
	}
	return make([]int, 0, size)
}
