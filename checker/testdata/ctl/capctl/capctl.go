// Package capctl: controls for CAPTURE / GOBFIELDS / PURE(Save).
package capctl

import (
	"encoding/gob"
	"io"
)

type It struct {
	n    int
	path []int
	seen int
}

type GoodRecord struct {
	N    int
	Path []int
}

type BadRecord struct {
	N    int
	path []int
	F    func()
}

func (it *It) GoodSave(w io.Writer) {
	s := new(GoodRecord)
	s.N = it.n
	s.Path = it.path
	if err := gob.NewEncoder(w).Encode(s); err != nil {
		panic(err)
	}
}

// forgets Path and consumes the iterator while saving
func (it *It) BadSave(w io.Writer) {
	s := new(GoodRecord)
	s.N = it.n
	it.seen++
	it.path = it.path[:0]
	if err := gob.NewEncoder(w).Encode(s); err != nil {
		panic(err)
	}
}

// READFULL
func BadHeaderSingleRead(r io.Reader) [8]byte {
	var h [8]byte
	if _, err := r.Read(h[:]); err != nil {
		panic(err)
	}
	return h
}

func GoodHeaderReadFull(r io.Reader) [8]byte {
	var h [8]byte
	if _, err := io.ReadFull(r, h[:]); err != nil {
		panic(err)
	}
	return h
}

func GoodHeaderLoop(r io.Reader) [8]byte {
	var h [8]byte
	for got := 0; got < len(h); {
		n, err := r.Read(h[got:])
		if err != nil {
			panic(err)
		}
		got += n
	}
	return h
}
