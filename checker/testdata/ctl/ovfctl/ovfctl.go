// Package ovfctl: controls for OVF.
package ovfctl

import "math/bits"

func BadMul(a, b int) int { return a * b }

func BadAdd(a, b uint64) uint64 { return a + b }

func BadIgnoredHi(a, b uint64) uint64 {
	_, lo := bits.Mul64(a, b)
	return lo
}

func GoodMul64(a, b uint64) uint64 {
	hi, lo := bits.Mul64(a, b)
	if hi != 0 {
		panic("overflow")
	}
	return lo
}

func GoodGuarded(n, k, i uint64) uint64 {
	if k > n || i > k {
		return 0
	}
	return n - k + i
}

func goodChecked(a, b int) (int, bool) {
	s := a + b
	if (s^a)&(s^b) < 0 {
		return s, true
	}
	return s, false
}
