package ovfctl

const maxInt = uint64(^uint(0) >> 1)

func wide(n uint64) uint64 {
	var acc uint64 = 1
	for i := uint64(0); i < n%7; i++ {
		acc += acc
	}
	return acc
}

// UNSCONV: the result may exceed MaxInt
func BadToInt(n uint64) int {
	return int(wide(n))
}

func GoodToInt(n uint64) int {
	v := wide(n)
	if v > maxInt {
		panic("does not fit in an int")
	}
	return int(v)
}
