package compctl

// LOCALIDX: the table has no cell 0 on the graph with no vertices
func BadCountTable(g G) []int {
	n := g.N()
	r := make([]int, n)
	for i := 1; i < len(r); i++ {
		r[i] = i
	}
	r[0] = n
	return r
}

func GoodCountTable(g G) []int {
	n := g.N()
	r := make([]int, n)
	for i := 1; i < len(r); i++ {
		r[i] = i
	}
	if n > 0 {
		r[0] = n
	}
	return r
}

func GoodCountTableOneMore(g G) []int {
	n := g.N()
	r := make([]int, n+1)
	r[0] = 1
	return r
}
