package compctl

// LOCALIDX: the table has no cell 0 on the graph with no vertices
func BadCountTable(g G) []int {
	n := g.N()
	r := make([]int, n)
	for i := 1; i < len(r); i++ {
		r[i] = i
	}
	r[0] = n
	return r
}

func GoodCountTable(g G) []int {
	n := g.N()
	r := make([]int, n)
	for i := 1; i < len(r); i++ {
		r[i] = i
	}
	if n > 0 {
		r[0] = n
	}
	return r
}

func GoodCountTableOneMore(g G) []int {
	n := g.N()
	r := make([]int, n+1)
	r[0] = 1
	return r
}

type wpath struct {
	p []int
	n int
}

// SIBLINGAPPEND: every extension of p is appended to the same base
func BadExtendPaths(start []int, options []int) []wpath {
	var out []wpath
	p := wpath{start, len(start)}
	for _, v := range options {
		out = append(out, wpath{append(p.p, v), p.n + 1})
	}
	return out
}

func GoodExtendPaths(start []int, options []int) []wpath {
	var out []wpath
	p := wpath{start, len(start)}
	for _, v := range options {
		q := make([]int, p.n+1)
		copy(q, p.p)
		q[p.n] = v
		out = append(out, wpath{q, p.n + 1})
	}
	return out
}

func GoodExtendClipped(start []int, options []int) [][]int {
	var out [][]int
	base := start[:len(start):len(start)]
	for _, v := range options {
		out = append(out, append(base, v))
	}
	return out
}
