// Package compctl: controls for C10 (MAKECAP, SORTED).
package compctl

import "sort"

type G interface {
	N() int
	IsEdge(i, j int) bool
}

// BadWorklistCap: the capacity N-1 is below the length 1 for the one-vertex graph.
func BadWorklistCap(g G, v int) []int {
	todo := make([]int, 1, g.N()-1)
	todo[0] = v
	return todo
}

// GoodWorklistCap: v is a vertex, so N >= 1.
func GoodWorklistCap(g G, v int) []int {
	todo := make([]int, 1, g.N())
	todo[0] = v
	return todo
}

// BadUnsortedComponent appends after sorting.
func BadUnsortedComponent(g G, v int) []int {
	seen := []int{v}
	for w := 0; w < g.N(); w++ {
		if g.IsEdge(v, w) {
			seen = append(seen, w)
		}
	}
	sort.Ints(seen)
	seen[0] = v
	return seen
}

// GoodSortedComponent sorts last.
func GoodSortedComponent(g G, v int) []int {
	seen := []int{v}
	for w := 0; w < g.N(); w++ {
		if g.IsEdge(v, w) {
			seen = append(seen, w)
		}
	}
	sort.Ints(seen)
	return seen
}

// dense is the control's one implementation of G (the analysis resolves interface calls inside the module).
type dense struct {
	n     int
	edges []bool
}

func (d dense) N() int { return d.n }
func (d dense) IsEdge(i, j int) bool {
	if i == j {
		return false
	}
	return d.edges[i*d.n+j]
}

// GoodAllVertices returns 0..n-1, which is in order by construction.
func GoodAllVertices(g G, v int) []int {
	all := make([]int, g.N())
	for i := range all {
		all[i] = i
	}
	return all
}

// WALK: a neighbour list walked while the graph is edited in the same loop must be a snapshot.
type rows struct{ nb [][]int }

func (r *rows) Shared(v int) []int { return r.nb[v] }
func (r *rows) Snapshot(v int) []int {
	out := make([]int, len(r.nb[v]))
	copy(out, r.nb[v])
	return out
}
func (r *rows) Drop(v, u int) {
	row := r.nb[v]
	for i, x := range row {
		if x == u {
			copy(row[i:], row[i+1:])
			r.nb[v] = row[:len(row)-1]
			return
		}
	}
}

func BadWalkShared(r *rows, v int) int {
	n := 0
	for _, u := range r.Shared(v) {
		r.Drop(v, u)
		n++
	}
	return n
}

func GoodWalkSnapshot(r *rows, v int) int {
	n := 0
	for _, u := range r.Snapshot(v) {
		r.Drop(v, u)
		n++
	}
	return n
}
