// Package balctl: controls for BALANCE.
package balctl

type Walker interface {
	Ok(b byte) bool
	Step(b byte)
	Backstep()
}

type node struct {
	labels []byte
	kids   []*node
	last   bool
}

func GoodWalk(t *node, ws []Walker) int {
	found := 0
	nodes := []*node{t}
	next := []int{0}
	word := make([]byte, 0)
loop:
	for {
		cur := nodes[len(nodes)-1]
		for j := next[len(next)-1]; j < len(cur.labels); j++ {
			l := cur.labels[j]
			ok := true
			for i := range ws {
				if !ws[i].Ok(l) {
					ok = false
					break
				}
			}
			if !ok {
				continue
			}
			for i := range ws {
				ws[i].Step(l)
			}
			word = append(word, l)
			nodes = append(nodes, cur.kids[j])
			next[len(next)-1] = j + 1
			next = append(next, 0)
			if cur.kids[j].last {
				found++
			}
			continue loop
		}
		if len(word) == 0 {
			return found
		}
		word = word[:len(word)-1]
		nodes = nodes[:len(nodes)-1]
		next = next[:len(next)-1]
		for i := range ws {
			ws[i].Backstep()
		}
	}
}

// returns as soon as `limit` words were seen, leaving the walkers mid-word
func BadEarlyReturn(t *node, ws []Walker, limit int) int {
	found := 0
	nodes := []*node{t}
	next := []int{0}
	word := make([]byte, 0)
loop:
	for {
		cur := nodes[len(nodes)-1]
		for j := next[len(next)-1]; j < len(cur.labels); j++ {
			l := cur.labels[j]
			for i := range ws {
				ws[i].Step(l)
			}
			word = append(word, l)
			nodes = append(nodes, cur.kids[j])
			next[len(next)-1] = j + 1
			next = append(next, 0)
			if cur.kids[j].last {
				found++
			}
			continue loop
		}
		if len(word) == 0 || found == limit {
			return found
		}
		word = word[:len(word)-1]
		nodes = nodes[:len(nodes)-1]
		next = next[:len(next)-1]
		for i := range ws {
			ws[i].Backstep()
		}
	}
}

// an implementer, so that interface calls resolve inside the control module
type counter struct{ depth *int }

func (c counter) Ok(b byte) bool { return b != 0 }
func (c counter) Step(b byte)    { *c.depth++ }
func (c counter) Backstep()      { *c.depth-- }

var _ Walker = counter{}

// Controls for NARROW.

// BadNarrowLink keeps the next link number in a byte: 256 links need 257 states.
func BadNarrowLink(labels []byte, next []uint8) {
	for j := 0; j < len(labels); j++ {
		next[0] = uint8(j + 1)
	}
}

// GoodNarrowLink checks the range first.
func GoodNarrowLink(labels []byte, next []uint8) {
	for j := 0; j < len(labels) && j < 255; j++ {
		next[0] = uint8(j + 1)
	}
}

// MASKWIDTH
func BadBlankMask(pattern []byte, blank byte) uint64 {
	var wild uint64
	for i, b := range pattern {
		if b == blank {
			wild |= 1 << uint(i)
		}
	}
	return wild
}

func GoodBlankMask(pattern []byte, blank byte) uint64 {
	var wild uint64
	for i := 0; i < len(pattern) && i < 64; i++ {
		if pattern[i] == blank {
			wild |= 1 << uint(i)
		}
	}
	return wild
}

// FIXEDARRAY
func BadFixedScratch(parent []int, x int) int {
	var path [8]int
	n := 0
	for parent[x] >= 0 {
		path[n] = x
		n++
		x = parent[x]
	}
	return x + n
}

func GoodFixedScratch(parent []int, x int) int {
	var path [8]int
	n := 0
	for parent[x] >= 0 && n < len(path) {
		path[n] = x
		n++
		x = parent[x]
	}
	return x + n
}
