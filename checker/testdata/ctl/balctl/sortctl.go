package balctl

import "sort"

// SORTLESS: the comparator reads the unsorted original
func BadSortedCopy(x []byte) []byte {
	tmp := make([]byte, len(x))
	copy(tmp, x)
	sort.Slice(tmp, func(i, j int) bool { return x[i] < x[j] })
	return tmp
}

func GoodSortedCopy(x []byte) []byte {
	tmp := make([]byte, len(x))
	copy(tmp, x)
	sort.Slice(tmp, func(i, j int) bool { return tmp[i] < tmp[j] })
	return tmp
}

// a key table indexed by the elements (not by the positions) is fine
func GoodSortedByKey(x []byte, key []int) []byte {
	tmp := make([]byte, len(x))
	copy(tmp, x)
	sort.Slice(tmp, func(i, j int) bool { return key[tmp[i]] < key[tmp[j]] })
	return tmp
}

type frame struct {
	node int
	next int
}

// STALEPTR: the parent frame's resume position is written after the child was pushed
func BadStaleFrame(kids [][]int) int {
	stack := make([]frame, 1, 2)
	n := 0
	for len(stack) > 0 {
		top := &stack[len(stack)-1]
		if top.next < len(kids[top.node]) {
			child := kids[top.node][top.next]
			stack = append(stack, frame{child, 0})
			top.next++
			n++
			continue
		}
		stack = stack[:len(stack)-1]
	}
	return n
}

func GoodFrame(kids [][]int) int {
	stack := make([]frame, 1, 2)
	n := 0
	for len(stack) > 0 {
		top := &stack[len(stack)-1]
		if top.next < len(kids[top.node]) {
			child := kids[top.node][top.next]
			top.next++
			stack = append(stack, frame{child, 0})
			n++
			continue
		}
		stack = stack[:len(stack)-1]
	}
	return n
}
