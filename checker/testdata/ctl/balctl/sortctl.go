package balctl

import "sort"

// SORTLESS: the comparator reads the unsorted original
func BadSortedCopy(x []byte) []byte {
	tmp := make([]byte, len(x))
	copy(tmp, x)
	sort.Slice(tmp, func(i, j int) bool { return x[i] < x[j] })
	return tmp
}

func GoodSortedCopy(x []byte) []byte {
	tmp := make([]byte, len(x))
	copy(tmp, x)
	sort.Slice(tmp, func(i, j int) bool { return tmp[i] < tmp[j] })
	return tmp
}

// a key table indexed by the elements (not by the positions) is fine
func GoodSortedByKey(x []byte, key []int) []byte {
	tmp := make([]byte, len(x))
	copy(tmp, x)
	sort.Slice(tmp, func(i, j int) bool { return key[tmp[i]] < key[tmp[j]] })
	return tmp
}
