// Package argctl: controls for ARGINDEX (the empty set is a legal argument).
package argctl

import "sort"

type Set []int

// looks at the ends of a set that may be empty
func (s *Set) BadRemoveRangeCheck(x int) {
	a := *s
	if x < a[0] || x > a[len(a)-1] {
		return
	}
	i := sort.SearchInts(a, x)
	if a[i] == x {
		*s = a[:i+copy(a[i:], a[i+1:])]
	}
}

func (s *Set) GoodRemove(x int) {
	i := sort.SearchInts(*s, x)
	if i < len(*s) && (*s)[i] == x {
		*s = (*s)[:i+copy((*s)[i:], (*s)[i+1:])]
	}
}

func GoodContains(a Set, x int) bool {
	if len(a) == 0 || x < a[0] || x > a[len(a)-1] {
		return false
	}
	i := sort.SearchInts(a, x)
	return i < len(a) && a[i] == x
}
