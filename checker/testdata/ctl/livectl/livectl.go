// Package livectl: controls for LIVE.
package livectl

func BadDeadLoop(m int, colours []int) (int, []byte) {
	n := 0
	out := make([]byte, n*(n-1)/2)
	k := 0
	for j := 1; j < n; j++ {
		for i := 0; i < j; i++ {
			out[k] = byte(colours[k] + 1)
			k++
		}
	}
	return m, out
}

func GoodWitness(n int, colours []int) (int, []byte) {
	out := make([]byte, n*(n-1)/2)
	k := 0
	for j := 1; j < n; j++ {
		for i := 0; i < j; i++ {
			out[k] = byte(colours[k] + 1)
			k++
		}
	}
	return n, out
}
