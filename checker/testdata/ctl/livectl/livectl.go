// Package livectl: controls for LIVE.
package livectl

func BadDeadLoop(m int, colours []int) (int, []byte) {
	n := 0
	out := make([]byte, n*(n-1)/2)
	k := 0
	for j := 1; j < n; j++ {
		for i := 0; i < j; i++ {
			out[k] = byte(colours[k] + 1)
			k++
		}
	}
	return m, out
}

func GoodWitness(n int, colours []int) (int, []byte) {
	out := make([]byte, n*(n-1)/2)
	k := 0
	for j := 1; j < n; j++ {
		for i := 0; i < j; i++ {
			out[k] = byte(colours[k] + 1)
			k++
		}
	}
	return n, out
}

// Controls for EMIT.

type frame struct{ R, P []int }

// BadEmitAppend hands out slices that share a backing array: the child prefix is built with
// append on a slice read back from the work stack.
func BadEmitAppend(n int, c chan []int) {
	stack := []frame{{make([]int, 0), make([]int, n)}}
	for len(stack) > 0 {
		fr := stack[len(stack)-1]
		stack = stack[:len(stack)-1]
		if len(fr.P) == 0 {
			c <- fr.R
			continue
		}
		for i := range fr.P {
			child := append(fr.R, i)
			stack = append(stack, frame{child, fr.P[:i]})
		}
	}
}

// BadEmitReuse sends one buffer again and again.
func BadEmitReuse(n int, c chan []int) {
	buf := make([]int, 1)
	for i := 0; i < n; i++ {
		buf[0] = i
		c <- buf
	}
}

// GoodEmit copies before extending.
func GoodEmit(n int, c chan []int) {
	stack := []frame{{make([]int, 0), make([]int, n)}}
	for len(stack) > 0 {
		fr := stack[len(stack)-1]
		stack = stack[:len(stack)-1]
		if len(fr.P) == 0 {
			c <- fr.R
			continue
		}
		for i := range fr.P {
			child := make([]int, len(fr.R)+1)
			copy(child, fr.R)
			child[len(child)-1] = i
			stack = append(stack, frame{child, fr.P[:i]})
		}
	}
}

// COUNTERWIDTH
func BadNarrowTally(colours []int, k int) []uint8 {
	seen := make([]uint8, k)
	for _, c := range colours {
		seen[c]++
	}
	return seen
}

func GoodWideTally(colours []int, k int) []int {
	seen := make([]int, k)
	for _, c := range colours {
		seen[c]++
	}
	return seen
}
