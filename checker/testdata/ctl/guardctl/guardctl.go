// Package guardctl: controls for REJECT-PURE, MUSTGUARD and NONEMPTY.
package guardctl

import (
	"bytes"
	"errors"
)

type node struct {
	kids []*node
}

type B struct {
	root *node
	last []byte
	n    int
}

func (b *B) init() {
	b.root = &node{}
	b.last = nil
}

func (b *B) GoodAdd(w []byte) error {
	if b.root == nil {
		b.init()
	}
	if b.last != nil && bytes.Compare(b.last, w) >= 0 {
		return errors.New("out of order")
	}
	last := w
	if last == nil {
		last = []byte{}
	}
	b.last = last
	b.n++
	return nil
}

// records the word before checking the order
func (b *B) BadAddWritesFirst(w []byte) error {
	if b.root == nil {
		b.init()
	}
	prev := b.last
	b.last = w
	if prev != nil && bytes.Compare(prev, w) != -1 {
		return errors.New("out of order")
	}
	b.n++
	return nil
}

// rejects only strictly smaller words: duplicates get through
func (b *B) BadAddAllowsDuplicates(w []byte) error {
	if b.last != nil && bytes.Compare(b.last, w) == 1 {
		return errors.New("out of order")
	}
	b.last = w
	b.n++
	return nil
}

func (b *B) BadAddNoCheck(w []byte) error {
	if b.n < 0 {
		return errors.New("negative")
	}
	b.last = w
	b.n++
	return nil
}

func lastKid(t *node) *node {
	return t.kids[len(t.kids)-1]
}

func GoodCaller(t *node) *node {
	if len(t.kids) != 0 {
		return lastKid(t)
	}
	return nil
}

func BadCaller(t *node) *node {
	return lastKid(t)
}

// shared preamble around the lazy initialiser (must be treated like the initialiser itself)
func (b *B) ready() error {
	if b.root == nil {
		b.init()
	}
	if b.n < 0 {
		return errors.New("finished")
	}
	return nil
}

func (b *B) GoodAddViaReady(w []byte) error {
	if err := b.ready(); err != nil {
		return err
	}
	if b.last != nil && bytes.Compare(b.last, w) >= 0 {
		return errors.New("out of order")
	}
	last := w
	if last == nil {
		last = []byte{}
	}
	b.last = last
	b.n++
	return nil
}

// BadRuneWalk is the control for BYTEWISE: it walks a word rune by rune.
func BadRuneWalk(word string) int {
	n := 0
	for _, r := range word {
		n += int(byte(r))
	}
	return n
}

type lnode struct {
	labels []byte
	kids   []*lnode
}

// BadRuneLookup walks the labels with the runes of the word.
func (n *lnode) BadRuneLookup(word string) bool {
	cur := n
	for _, r := range word {
		found := false
		for j, l := range cur.labels {
			if l == byte(r) {
				cur, found = cur.kids[j], true
				break
			}
		}
		if !found {
			return false
		}
	}
	return true
}

// OWNWORD: keeps the caller's slice as the previous word
func (b *B) BadAddKeepsWord(w []byte) error {
	if b.last != nil && bytes.Compare(b.last, w) >= 0 {
		return errors.New("out of order")
	}
	if w == nil {
		w = []byte{}
	}
	b.last = w
	b.n++
	return nil
}

// OWNWORD: keeps a private copy (reusing its own buffer)
func (b *B) GoodAddCopiesWord(w []byte) error {
	if b.n > 0 && bytes.Compare(b.last, w) >= 0 {
		return errors.New("out of order")
	}
	b.last = append(b.last[:0], w...)
	b.n++
	return nil
}
