package errctl

import "io"

// a forwarding wrapper that checks the count; its Write reports success when the count is full
type badCounting struct{ w io.Writer }

func (c badCounting) Write(p []byte) (int, error) {
	m, err := c.w.Write(p)
	if m < len(p) {
		if err == nil {
			err = io.ErrShortWrite
		}
		return m, err
	}
	return m, nil
}

func BadForwarder(w io.Writer) error {
	w = badCounting{w}
	_, err := io.WriteString(w, "x\n")
	return err
}

type goodCounting struct{ w io.Writer }

func (c goodCounting) Write(p []byte) (int, error) {
	m, err := c.w.Write(p)
	if m < len(p) && err == nil {
		err = io.ErrShortWrite
	}
	return m, err
}

func GoodForwarder(w io.Writer) error {
	w = goodCounting{w}
	_, err := io.WriteString(w, "x\n")
	if err != nil {
		return err
	}
	_, err = io.WriteString(w, "y\n")
	return err
}

// a retry loop that sends the same bytes again after a partial write
type badRetry struct{ w io.Writer }

func (r badRetry) Write(p []byte) (n int, err error) {
	for attempt := 0; ; attempt++ {
		n, err = r.w.Write(p)
		if err == nil || attempt == 3 {
			return n, err
		}
	}
}

func BadRetryForwarder(w io.Writer) error {
	w = badRetry{w}
	_, err := io.WriteString(w, "x\n")
	return err
}

// FLOATCONV: an integer weight routed through float64
func BadWeightThroughFloat(weights func(i, j int) int) float64 {
	return float64(weights(1, 0)) * 1.0
}

func GoodWeightAsInt(weights func(i, j int) int) int64 {
	return int64(weights(1, 0))
}
