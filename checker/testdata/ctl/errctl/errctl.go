// Package errctl: controls for ERRCHK and DOMAIN.
package errctl

import (
	"bufio"
	"fmt"
	"io"
	"text/tabwriter"
)

func GoodWrite(w io.Writer, n int) error {
	if _, err := io.WriteString(w, "head\n"); err != nil {
		return fmt.Errorf("writing head: %v", err)
	}
	tw := tabwriter.NewWriter(w, 0, 1, 1, ' ', 0)
	for i := 0; i < n; i++ {
		fmt.Fprintf(tw, "%d\t\n", i)
	}
	if err := tw.Flush(); err != nil {
		return err
	}
	_, err := io.WriteString(w, "tail\n")
	return err
}

func BadFlushDropped(w io.Writer, n int) error {
	tw := tabwriter.NewWriter(w, 0, 1, 1, ' ', 0)
	for i := 0; i < n; i++ {
		fmt.Fprintf(tw, "%d\t\n", i)
	}
	tw.Flush()
	return nil
}

func BadErrSwallowed(w io.Writer) error {
	_, err := io.WriteString(w, "head\n")
	if err != nil {
		return nil
	}
	return nil
}

func BadCheckedLate(w io.Writer) error {
	_, err := io.WriteString(w, "head\n")
	_, err2 := io.WriteString(w, "more\n")
	if err2 != nil {
		return err2
	}
	_ = err
	return nil
}

func GoodDomain(n int, weights func(i, j int) int) int {
	s := 0
	for i := 0; i < n; i++ {
		for j := 0; j < i; j++ {
			s += weights(i, j)
		}
	}
	return s
}

func BadDomain(n int, weights func(i, j int) int) int {
	s := 0
	for i := 0; i < n; i++ {
		for j := 0; j <= i; j++ {
			s += weights(i, j)
		}
	}
	return s
}

func BadDeferredFlush(w io.Writer, n int) (err error) {
	bw := bufio.NewWriter(w)
	defer bw.Flush()
	for i := 0; i < n; i++ {
		if _, err = bw.WriteString("x\n"); err != nil {
			return err
		}
	}
	return nil
}

func BadNeverFlushed(w io.Writer, n int) error {
	bw := bufio.NewWriter(w)
	for i := 0; i < n; i++ {
		if _, err := bw.WriteString("x\n"); err != nil {
			return err
		}
	}
	if n > 3 {
		return nil
	}
	return bw.Flush()
}

// a harmless defer spills the named result; the checks must still be recognised
func GoodWithDefer(w io.Writer, done func()) (err error) {
	defer done()
	_, err = io.WriteString(w, "head\n")
	if err != nil {
		return err
	}
	_, err = io.WriteString(w, "tail\n")
	return err
}

// sticky error writers
type goodEW struct {
	w   io.Writer
	err error
}

func (e *goodEW) Write(p []byte) (int, error) {
	if e.err != nil {
		return 0, e.err
	}
	var n int
	n, e.err = e.w.Write(p)
	return n, e.err
}

type badEW struct {
	w   io.Writer
	err error
}

func (e *badEW) Write(p []byte) (n int, err error) {
	n, e.err = e.w.Write(p)
	return n, e.err
}

func GoodStickyWriter(w io.Writer, n int) error {
	ew := &goodEW{w: w}
	io.WriteString(ew, "head\n")
	for i := 0; i < n; i++ {
		fmt.Fprintf(ew, "%d\n", i)
	}
	return ew.err
}

func BadStickyWriter(w io.Writer, n int) error {
	ew := &badEW{w: w}
	io.WriteString(ew, "head\n")
	for i := 0; i < n; i++ {
		fmt.Fprintf(ew, "%d\n", i)
	}
	return ew.err
}

func BadStickyIgnored(w io.Writer) error {
	ew := &goodEW{w: w}
	io.WriteString(ew, "head\n")
	return nil
}

// a line of a single cell is written out by text/tabwriter as soon as it ends
func BadSingleCellLine(w io.Writer, n int) error {
	tw := tabwriter.NewWriter(w, 0, 1, 1, ' ', 0)
	for i := 0; i < n; i++ {
		fmt.Fprintf(tw, "%d\t%d\t\n", i, i)
	}
	fmt.Fprint(tw, "END\n")
	return tw.Flush()
}

func BadSingleCellFirstRow(w io.Writer, n int) error {
	tw := tabwriter.NewWriter(w, 0, 1, 1, ' ', 0)
	for i := 0; i < n; i++ {
		for j := 0; j < i; j++ {
			fmt.Fprintf(tw, "%d\t", j)
		}
		fmt.Fprint(tw, "0\n")
	}
	return tw.Flush()
}

func row(tw io.Writer, i int) {
	for j := 0; j < i; j++ {
		fmt.Fprintf(tw, "%d\t", j)
	}
	fmt.Fprint(tw, "0\t")
}

func GoodRowsThroughHelper(w io.Writer, n int) error {
	tw := tabwriter.NewWriter(w, 0, 1, 1, ' ', 0)
	for i := 0; i < n; i++ {
		row(tw, i)
		fmt.Fprint(tw, "\n")
	}
	return tw.Flush()
}

func GoodSingleCellChecked(w io.Writer, n int) error {
	tw := tabwriter.NewWriter(w, 0, 1, 1, ' ', 0)
	for i := 0; i < n; i++ {
		fmt.Fprintf(tw, "%d\t%d\t\n", i, i)
	}
	if _, err := fmt.Fprint(tw, "END\n"); err != nil {
		return err
	}
	return tw.Flush()
}
