// Package wirectl: controls for GRAMMAR (encoder/decoder token agreement).
package wirectl

import (
	"bytes"
	"errors"
)

type T struct {
	id    uint64
	flag  bool
	kids  []byte
	links []uint64
}

func putUvarint(x uint64, buf []byte) []byte {
	buf = buf[:0]
	for x >= 0x80 {
		buf = append(buf, byte(x)|0x80)
		x >>= 7
	}
	return append(buf, byte(x))
}

func getUvarint(r *bytes.Reader) (uint64, error) {
	var x uint64
	var s uint
	for i := 0; i < 10; i++ {
		b, err := r.ReadByte()
		if err != nil {
			return 0, err
		}
		if b < 0x80 {
			return x | uint64(b)<<s, nil
		}
		x |= uint64(b&0x7f) << s
		s += 7
	}
	return 0, errors.New("overflow")
}

// record: id(U) flag(B) count(U) { label(B) target(U) }*
func (t *T) GoodEncode() ([]byte, error) {
	var b []byte
	buf := make([]byte, 10)
	buf = putUvarint(t.id, buf)
	b = append(b, buf...)
	if t.flag {
		b = append(b, 1)
	} else {
		b = append(b, 0)
	}
	buf = putUvarint(uint64(len(t.kids)), buf)
	b = append(b, buf...)
	for i := range t.kids {
		b = append(b, t.kids[i])
		buf = putUvarint(t.links[i], buf)
		b = append(b, buf...)
	}
	return b, nil
}

// writes the child count as one raw byte
func (t *T) BadEncode() ([]byte, error) {
	var b []byte
	buf := make([]byte, 10)
	buf = putUvarint(t.id, buf)
	b = append(b, buf...)
	if t.flag {
		b = append(b, 1)
	} else {
		b = append(b, 0)
	}
	b = append(b, byte(len(t.kids)))
	for i := range t.kids {
		b = append(b, t.kids[i])
		buf = putUvarint(t.links[i], buf)
		b = append(b, buf...)
	}
	return b, nil
}

func (t *T) Decode(p []byte) error {
	r := bytes.NewReader(p)
	id, err := getUvarint(r)
	if err != nil {
		return err
	}
	t.id = id
	f, err := r.ReadByte()
	if err != nil {
		return err
	}
	t.flag = f != 0
	n, err := getUvarint(r)
	if err != nil {
		return err
	}
	for j := uint64(0); j < n; j++ {
		l, err := r.ReadByte()
		if err != nil {
			return err
		}
		x, err := getUvarint(r)
		if err != nil {
			return err
		}
		t.kids = append(t.kids, l)
		t.links = append(t.links, x)
	}
	return nil
}

// OVERWRITE controls
type N struct {
	id    uint64
	final bool
}

func (t *N) GoodDecode(p []byte) error {
	ts := make([]*N, len(p))
	ts[0] = t
	for i := 1; i < len(p); i++ {
		ts[i] = new(N)
	}
	for i := range p {
		ts[i].id = uint64(i)
		if p[i] != 0 {
			ts[i].final = true
		} else {
			ts[i].final = false
		}
	}
	return nil
}

func (t *N) BadDecode(p []byte) error {
	ts := make([]*N, len(p))
	ts[0] = t
	for i := 1; i < len(p); i++ {
		ts[i] = new(N)
	}
	for i := range p {
		ts[i].id = uint64(i)
		if p[i] != 0 {
			ts[i].final = true
		}
	}
	return nil
}
