// Package effctl holds positive and negative controls for the E-EFF based rules.
// Functions named Bad* violate the rule they are a control for; Good* satisfy it.
package effctl

import "sort"

var table = []int{1, 2, 3}

// GLOBAL
func BadGlobalWrite(i int)     { table[i]++ }
func BadGlobalLeak() []int     { return table }
func GoodGlobalRead(i int) int { return table[i] }
func GoodGlobalCopy() []int    { r := make([]int, len(table)); copy(r, table); return r }

// NOSHARE
func BadGo(f func()) { go f() }

type Getter interface{ Get(i int) int }

type impl struct{ xs []int }

func (m impl) Get(i int) int { m.xs[0] = i; return m.xs[i] }

type T struct {
	n    int
	data []int
	g    Getter
	kept []int
}

// READONLY / PURE
func (t *T) BadObserver() int            { t.n++; return t.n }
func (t T) BadObserverSlice() int        { t.data[0] = 1; return 0 }
func (t T) BadObserverViaInterface() int { return t.g.Get(0) }
func (t T) GoodObserver() int {
	tmp := make([]int, len(t.data))
	copy(tmp, t.data)
	tmp[0] = 9
	t.n = 3
	return tmp[0] + t.n
}

func BadPureSort(a []int) int            { sort.Ints(a); return a[0] }
func BadPureAppend(a []int, x int) []int { return append(a[:0], x) }
func GoodPure(a []int) []int {
	b := make([]int, len(a))
	copy(b, a)
	sort.Ints(b)
	return b
}

// RECEIVER-ONLY
type S []int

func (s *S) BadMutator(x []int)  { x[0] = 1; *s = append(*s, x...) }
func (s *S) GoodMutator(x []int) { *s = append(*s, x...) }

// FRESH
type D struct {
	N int
	E []byte
}

func BadFresh(n int, e []byte) *D {
	c := make([]byte, len(e))
	copy(c, e)
	return &D{N: n, E: e}
}
func GoodFresh(n int, e []byte) *D {
	c := make([]byte, len(e))
	copy(c, e)
	return &D{N: n, E: c}
}

// FRESH through a whole-struct copy whose slice fields are replaced right away
type D2 struct {
	N    int
	E, F []byte
}

func (d *D2) GoodCopy() *D2 {
	c := *d
	c.E = make([]byte, len(d.E))
	copy(c.E, d.E)
	c.F = make([]byte, len(d.F))
	copy(c.F, d.F)
	return &c
}

func (d *D2) BadCopyOneField() *D2 {
	c := *d
	c.E = make([]byte, len(d.E))
	copy(c.E, d.E)
	return &c
}

func (d *D2) BadCopyReadFirst() *D2 {
	c := *d
	keep := c.F
	c.F = make([]byte, len(d.F))
	c.E = keep
	return &c
}

// RETAIN
func NewKeeper(k []int) *T         { return &T{kept: k} }
func (t *T) BadWriteKept()         { t.kept[0] = 7 }
func NewGoodKeeper(k []int) *T     { c := make([]int, len(k)); copy(c, k); return &T{kept: c} }
func BadUnlistedKeeper(k []int) *T { return &T{data: k} }

// CLOSE
func BadCloseMissing(c chan int, n int) {
	for i := 0; i < n; i++ {
		if i == 7 {
			return
		}
		c <- i
	}
	close(c)
}
func BadSendAfterClose(c chan int) {
	close(c)
	c <- 1
}
func GoodClose(c chan int, n int) {
	for i := 0; i < n; i++ {
		c <- i
	}
	close(c)
}

// STEP-ONLY
type Stepper interface {
	Step()
	Peek() int
}

type cnt struct{ n *int }

func (c cnt) Step()     { *c.n++ }
func (c cnt) Peek() int { *c.n += 0; return *c.n }

func BadDriver(ss []Stepper) int {
	t := 0
	for _, s := range ss {
		s.Step()
		t += s.Peek()
	}
	return t
}

type cnt2 struct{ n *int }

func (c cnt2) Step()     { *c.n++ }
func (c cnt2) Peek() int { return *c.n }

type Stepper2 interface {
	Step()
	Peek2() int
}

func (c cnt2) Peek2() int { return *c.n }

func GoodDriver(ss []Stepper2) int {
	t := 0
	for _, s := range ss {
		s.Step()
		t += s.Peek2()
	}
	return t
}

// FRESH (aliasing fast path)
func BadFreshAlias(a, b []int) []int {
	if len(b) == 0 {
		return a
	}
	r := make([]int, 0, len(a))
	return append(r, a...)
}

// READONLY through a method value (bound-method closure)
func (t *T) bump() { t.n++ }

func (t *T) BadObserverMethodValue() int {
	f := t.bump
	f()
	return t.n
}

// Controls for ADOPT.

type holder struct{ data []int }

func adopt(xs []int) *holder { return &holder{data: xs} }

// BadAdoptWindows carves all values out of one slab.
func BadAdoptWindows(k int) []*holder {
	slab := make([]int, 4*k)
	var out []*holder
	for i := 0; i < k; i++ {
		out = append(out, adopt(slab[:4]))
		slab = slab[4:]
	}
	return out
}

// GoodAdoptFresh gives each value its own array.
func GoodAdoptFresh(k int) []*holder {
	var out []*holder
	for i := 0; i < k; i++ {
		out = append(out, adopt(make([]int, 4)))
	}
	return out
}

// NewBadSortingHolder sorts the caller's slice in place while building its value.
func NewBadSortingHolder(xs []int) *holder {
	sort.Ints(xs)
	c := make([]int, len(xs))
	copy(c, xs)
	return &holder{data: c}
}
