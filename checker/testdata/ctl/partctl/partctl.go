// Package partctl: controls for PARTIAL (make sizes and divisors under non-negative parameters).
package partctl

// the code for a tree has n-2 entries: nothing says n >= 2
func BadTreeCode(n int) []int {
	code := make([]int, n-2)
	for i := range code {
		code[i] = i % n
	}
	return code
}

func GoodTreeCode(n int) []int {
	if n < 2 {
		return nil
	}
	code := make([]int, n-2)
	for i := range code {
		code[i] = i % n
	}
	return code
}

// the second class may be empty
func BadWrap(n, m int, diffs ...int) []int {
	var out []int
	for i := 0; i < n; i++ {
		for _, d := range diffs {
			out = append(out, (i+d)%m)
		}
	}
	return out
}

func GoodWrapGuarded(n, m int, diffs ...int) []int {
	var out []int
	if m == 0 {
		return out
	}
	for i := 0; i < n; i++ {
		for _, d := range diffs {
			out = append(out, (i+d)%m)
		}
	}
	return out
}

// the loop condition i < n makes n positive
func GoodWrapLoop(n int, diffs ...int) []int {
	var out []int
	for i := 0; i < n; i++ {
		for _, d := range diffs {
			out = append(out, (i+d)%n)
		}
	}
	return out
}

// MAKEAPPEND: the smaller array is made with a length, then appended to
func BadShrink(old []byte, size int) []byte {
	tmp := make([]byte, size, 2*size)
	return append(tmp, old[:size]...)
}

func GoodShrink(old []byte, size int) []byte {
	tmp := make([]byte, 0, 2*size)
	return append(tmp, old[:size]...)
}
