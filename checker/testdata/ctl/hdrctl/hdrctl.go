// Package hdrctl: controls for HDR. BadEncode uses a wrong shift in the 4-byte header and a wrong
// threshold; BadDecode reads the middle sextet with the wrong shift and continues at the wrong byte.
package hdrctl

import "errors"

func BadEncode(n int) []byte {
	var s []byte
	if n <= 62 {
		s = make([]byte, 1, 8)
		s[0] = byte(n + 63)
	} else if n <= 258048 {
		s = make([]byte, 4, 16)
		s[0] = 126
		s[1] = byte((n>>12)&63) + 63
		s[2] = byte((n>>5)&63) + 63
		s[3] = byte(n&63) + 63
	} else if n <= 68719476735 {
		s = make([]byte, 8, 16)
		s[0] = 126
		s[1] = 126
		s[2] = byte((n>>30)&63) + 63
		s[3] = byte((n>>24)&63) + 63
		s[4] = byte((n>>18)&63) + 63
		s[5] = byte((n>>12)&63) + 63
		s[6] = byte((n>>6)&63) + 63
		s[7] = byte(n&63) + 63
	} else {
		panic("too large")
	}
	return s
}

func BadDecode(s string) (uint64, int, error) {
	var n uint64
	i := 0
	if len(s) < 8 {
		return 0, 0, errors.New("short")
	}
	if s[0] != 126 {
		n = uint64(s[0] - 63)
		i = 1
	} else if s[1] != 126 {
		n = (uint64(s[1]-63) << 12) + (uint64(s[2]-63) << 7) + uint64(s[3]-63)
		i = 3
	} else {
		n = (uint64(s[2]-63) << 30) + (uint64(s[3]-63) << 24) + (uint64(s[4]-63) << 18) + (uint64(s[5]-63) << 12) + (uint64(s[6]-63) << 6) + uint64(s[7]-63)
		i = 8
	}
	return n, i, nil
}

// Controls for UWRAP.

// BadCountdown starts a byte countdown at s[i]-1: a zero byte wraps it to 255.
func BadCountdown(s []byte) int {
	records := 0
	var left byte
	for i := 0; i < len(s); i++ {
		if left == 0 {
			left = s[i] - 1
		}
		if s[i] == 0 {
			left--
			if left == 0 {
				records++
			}
		}
	}
	return records
}

// GoodCountdown treats the small cases first.
func GoodCountdown(s []byte) int {
	records := 0
	var left byte
	for i := 0; i < len(s); i++ {
		if left == 0 {
			if s[i] <= 1 {
				records++
				continue
			}
			left = s[i] - 1
			continue
		}
		if s[i] == 0 {
			left--
			if left == 0 {
				records++
			}
		}
	}
	return records
}

// Controls for SUBWORD.

// BadByteProduct forms the triangle offset in byte arithmetic.
func BadByteProduct(s []byte, edges []byte, cur int) {
	u := s[0] - 1
	edges[int(u*(u-1)/2)+cur] = 1
}

// GoodIntProduct converts first.
func GoodIntProduct(s []byte, edges []byte, cur int) {
	u := int(s[0]) - 1
	edges[u*(u-1)/2+cur] = 1
}
