// Package sealctl: controls for SEAL (a builder that has finished refuses further work).
package sealctl

import "errors"

type node struct{ kids []*node }

// ---- no mark at all: the guard tests a field nobody sets

type B1 struct {
	root *node
	done bool
}

func (b *B1) init() { b.root = &node{}; b.done = false }

func (b *B1) BadFinishNoMark() (*node, error) {
	if b.root == nil {
		b.init()
	}
	if b.done {
		return nil, errors.New("finished")
	}
	return b.root, nil
}

// ---- mark set only on one branch

type B2 struct {
	root *node
	done bool
}

func (b *B2) init() { b.root = &node{}; b.done = false }

func (b *B2) BadFinishMarkOnOneBranch() (*node, error) {
	if b.root == nil {
		b.init()
	}
	if b.done {
		return nil, errors.New("finished")
	}
	if len(b.root.kids) != 0 {
		b.root.kids = b.root.kids[:len(b.root.kids):len(b.root.kids)]
		b.done = true
	}
	return b.root, nil
}

// ---- mark set, Add does not look at it

type B3 struct {
	root *node
	done bool
}

func (b *B3) init() { b.root = &node{}; b.done = false }

func (b *B3) Finish() (*node, error) {
	if b.root == nil {
		b.init()
	}
	if b.done {
		return nil, errors.New("finished")
	}
	b.done = true
	return b.root, nil
}

func (b *B3) BadAddIgnoresMark(k *node) error {
	if b.root == nil {
		b.init()
	}
	b.root.kids = append(b.root.kids, k)
	return nil
}

func (b *B3) GoodAdd(k *node) error {
	if b.root == nil {
		b.init()
	}
	if b.done {
		return errors.New("finished")
	}
	b.root.kids = append(b.root.kids, k)
	return nil
}

// ---- a state enumeration instead of a boolean, tested with != building

type B4 struct {
	root  *node
	state int
}

const (
	building = iota
	finished
)

func (b *B4) init() { b.root = &node{}; b.state = building }

func (b *B4) GoodFinishEnum() (*node, error) {
	if b.root == nil {
		b.init()
	}
	if b.state != building {
		return nil, errors.New("finished")
	}
	b.state = finished
	return b.root, nil
}

func (b *B4) GoodAddEnum(k *node) error {
	if b.root == nil {
		b.init()
	}
	switch b.state {
	case finished:
		return errors.New("finished")
	}
	b.root.kids = append(b.root.kids, k)
	return nil
}

// ---- FRESHROOT: re-initialising must not recycle the slices of the root that was handed out

type B5 struct {
	root *node
	reg  []*node
}

func (b *B5) BadInitKeepsSlices() {
	r := &node{}
	if b.root != nil {
		r.kids = b.root.kids[:0]
	}
	b.root = r
	b.reg = b.reg[:0]
}

func (b *B5) GoodInit() {
	b.root = &node{kids: make([]*node, 0, 4)}
	b.reg = b.reg[:0]
}
