module ctl

go 1.12
