// Package graph (control): a miniature of mamba's dense graph with seeded violations of
// COUPLE, FRESH, LITERAL and TRI. Functions named Bad* must be reported, Good* must not.
package graph

type DenseGraph struct {
	NumberOfVertices int
	NumberOfEdges    int
	DegreeSequence   []int
	Edges            []byte
}

type SparseGraph struct {
	NumberOfVertices int
	NumberOfEdges    int
	Neighbourhoods   [][]int
	DegreeSequence   []int
}

func NewDense(n int, edges []byte) *DenseGraph {
	if edges == nil {
		edges = make([]byte, (n*(n-1))/2)
	}
	c := make([]byte, len(edges))
	copy(c, edges)
	g := &DenseGraph{NumberOfVertices: n, NumberOfEdges: 0, DegreeSequence: make([]int, n), Edges: c}
	return g
}

func (g *DenseGraph) GoodAddEdge(i, j int) {
	if i >= j || i < 0 {
		return
	}
	g.DegreeSequence[i]++
	g.DegreeSequence[j]++
	g.NumberOfEdges++
	g.Edges[(j*(j-1))/2+i] = 1
}

// forgets the second endpoint's degree
func (g *DenseGraph) BadAddEdgeOneDegree(i, j int) {
	if i >= j || i < 0 {
		return
	}
	g.DegreeSequence[i]++
	g.NumberOfEdges++
	g.Edges[(j*(j-1))/2+i] = 1
	g.Edges[(j*(j-1))/2+i] = 1
}

// clears a row of the triangle but never touches the cached counts
func (g *DenseGraph) BadClearVertex(v int) {
	for i := 0; i < v; i++ {
		g.Edges[(v*(v-1))/2+i] = 0
	}
}

func (g *DenseGraph) GoodCopy() *DenseGraph {
	e := make([]byte, len(g.Edges))
	copy(e, g.Edges)
	d := make([]int, len(g.DegreeSequence))
	copy(d, g.DegreeSequence)
	return &DenseGraph{NumberOfVertices: g.NumberOfVertices, NumberOfEdges: g.NumberOfEdges, DegreeSequence: d, Edges: e}
}

func (g *DenseGraph) BadShallowCopy() *DenseGraph {
	d := make([]int, len(g.DegreeSequence))
	copy(d, g.DegreeSequence)
	return &DenseGraph{NumberOfVertices: g.NumberOfVertices, NumberOfEdges: g.NumberOfEdges, DegreeSequence: d, Edges: g.Edges}
}

// LITERAL
func BadLiteralNoCounts(n int) *DenseGraph {
	edges := make([]byte, (n*(n-1))/2)
	for i := 0; i < len(edges); i++ {
		edges[i] = 1
	}
	return &DenseGraph{NumberOfVertices: n, Edges: edges}
}

// TRI
func GoodStar(n int) *DenseGraph {
	edges := make([]byte, (n*(n-1))/2)
	for i := 1; i < n; i++ {
		edges[(i*(i-1))/2] = 1
	}
	return NewDense(n, edges)
}

// closes the cycle with the cell (0, n-1) without requiring n-1 > 0
func BadCycleUnguarded(n int) *DenseGraph {
	edges := make([]byte, (n*(n-1))/2)
	for i := 0; i < n-1; i++ {
		edges[((i+1)*i)/2+i] = 1
	}
	edges[((n-1)*(n-2))/2] = 1
	return NewDense(n, edges)
}

// indexes the triangle like a square matrix
func BadSquareIndex(n int) *DenseGraph {
	edges := make([]byte, (n*(n-1))/2)
	for j := 1; j < n; j++ {
		for i := 0; i < j; i++ {
			if i+1 == j {
				edges[j*n+i] = 1
			}
		}
	}
	return NewDense(n, edges)
}

func GoodRunning(n int, pred func(i, j int) bool) *DenseGraph {
	edges := make([]byte, (n*(n-1))/2)
	index := 0
	for j := 1; j < n; j++ {
		for i := 0; i < j; i++ {
			if pred(i, j) {
				edges[index] = 1
			}
			index++
		}
	}
	return NewDense(n, edges)
}

// ROWS
func (g *SparseGraph) GoodCopyRows() *SparseGraph {
	rows := make([][]int, len(g.Neighbourhoods))
	for i := range g.Neighbourhoods {
		rows[i] = make([]int, len(g.Neighbourhoods[i]))
		copy(rows[i], g.Neighbourhoods[i])
	}
	return &SparseGraph{NumberOfVertices: g.NumberOfVertices, NumberOfEdges: g.NumberOfEdges, Neighbourhoods: rows, DegreeSequence: append([]int(nil), g.DegreeSequence...)}
}

func (g *SparseGraph) BadCopyRowsPooled() *SparseGraph {
	size := 0
	for i := range g.Neighbourhoods {
		size += len(g.Neighbourhoods[i])
	}
	pool := make([]int, size)
	rows := make([][]int, len(g.Neighbourhoods))
	off := 0
	for i := range g.Neighbourhoods {
		end := off + copy(pool[off:], g.Neighbourhoods[i])
		rows[i] = pool[off:end]
		off = end
	}
	return &SparseGraph{NumberOfVertices: g.NumberOfVertices, NumberOfEdges: g.NumberOfEdges, Neighbourhoods: rows, DegreeSequence: append([]int(nil), g.DegreeSequence...)}
}

// EDGEBYTE
func (g *DenseGraph) GoodCountEdges() int {
	m := 0
	for i := range g.Edges {
		if g.Edges[i] > 0 {
			m++
		}
	}
	return m
}

func (g *DenseGraph) BadCountEdgesNumeric() int {
	m := 0
	for i := range g.Edges {
		m += int(g.Edges[i])
	}
	return m
}

// DEGSYNC

// BadDecodeDegrees records the edge (cur, b-1) but counts vertex b.
func BadDecodeDegrees(s []byte) *DenseGraph {
	n := int(s[0])
	m := 0
	degrees := make([]int, n)
	edges := make([]byte, (n*(n-1))/2)
	cur := 0
	for i := 1; i < len(s); i++ {
		if s[i] == 0 {
			cur++
		} else {
			edges[(int(s[i]-1)*int(s[i]-2))/2+cur] = 1
			degrees[s[i]]++
			degrees[cur]++
			m++
		}
	}
	return &DenseGraph{NumberOfVertices: n, NumberOfEdges: m, DegreeSequence: degrees, Edges: edges}
}

func GoodDecodeDegrees(s []byte) *DenseGraph {
	n := int(s[0])
	m := 0
	degrees := make([]int, n)
	edges := make([]byte, (n*(n-1))/2)
	cur := 0
	for i := 1; i < len(s); i++ {
		if s[i] == 0 {
			cur++
		} else {
			edges[(int(s[i]-1)*int(s[i]-2))/2+cur] = 1
			degrees[s[i]-1]++
			degrees[cur]++
			m++
		}
	}
	return &DenseGraph{NumberOfVertices: n, NumberOfEdges: m, DegreeSequence: degrees, Edges: edges}
}

func GoodCountDegrees(n int, pred func(i, j int) bool) *DenseGraph {
	m := 0
	degrees := make([]int, n)
	edges := make([]byte, (n*(n-1))/2)
	index := 0
	for j := 1; j < n; j++ {
		for i := 0; i < j; i++ {
			if pred(i, j) {
				edges[index] = 1
				m++
				degrees[i]++
				degrees[j]++
			}
			index++
		}
	}
	return &DenseGraph{NumberOfVertices: n, NumberOfEdges: m, DegreeSequence: degrees, Edges: edges}
}

// COUNTS

// BadPathCounts: M = -1 for n = 0 and the single vertex of n = 1 gets degree 1.
func BadPathCounts(n int) *DenseGraph {
	edges := make([]byte, (n*(n-1))/2)
	for i := 0; i < n-1; i++ {
		edges[((i+1)*i)/2+i] = 1
	}
	degrees := make([]int, n)
	if n > 0 {
		degrees[0] = 1
		degrees[n-1] = 1
		for i := 1; i < n-1; i++ {
			degrees[i] = 2
		}
	}
	return &DenseGraph{NumberOfVertices: n, NumberOfEdges: n - 1, DegreeSequence: degrees, Edges: edges}
}

func GoodPathCounts(n int) *DenseGraph {
	if n < 2 {
		return NewDense(n, nil)
	}
	edges := make([]byte, (n*(n-1))/2)
	for i := 0; i < n-1; i++ {
		edges[((i+1)*i)/2+i] = 1
	}
	degrees := make([]int, n)
	degrees[0] = 1
	degrees[n-1] = 1
	for i := 1; i < n-1; i++ {
		degrees[i] = 2
	}
	return &DenseGraph{NumberOfVertices: n, NumberOfEdges: n - 1, DegreeSequence: degrees, Edges: edges}
}

// IRREFLEXIVE

func (g DenseGraph) IsEdge(i, j int) bool {
	if i < j {
		return g.Edges[(j*(j-1))/2+i] > 0
	} else if i > j {
		return g.Edges[(i*(i-1))/2+j] > 0
	}
	return false
}

type badComplement struct{ g *DenseGraph }

func (c badComplement) IsEdge(i, j int) bool { return !c.g.IsEdge(i, j) }

type goodComplement struct{ g *DenseGraph }

func (c goodComplement) IsEdge(i, j int) bool { return i != j && !c.g.IsEdge(i, j) }

// REGROW
func (g *DenseGraph) GoodGrowEdges(extra int) {
	g.NumberOfEdges += 0
	g.DegreeSequence = append(g.DegreeSequence, 0)
	old := len(g.Edges)
	newSize := old + extra
	if cap(g.Edges) >= newSize {
		g.Edges = g.Edges[:newSize]
		for i := old; i < newSize; i++ {
			g.Edges[i] = 0
		}
	} else {
		tmp := make([]byte, newSize)
		copy(tmp, g.Edges)
		g.Edges = tmp
	}
}

func (g *DenseGraph) BadGrowEdgesStale(extra int, set []int) {
	old := len(g.Edges)
	newSize := old + extra
	if cap(g.Edges) >= newSize {
		g.Edges = g.Edges[:newSize]
	} else {
		g.Edges = append(g.Edges, make([]byte, extra)...)
	}
	for _, v := range set {
		g.Edges[old+v] = 1
	}
}

// ROWS (c): the new row is the caller's list as given
func (g *SparseGraph) BadAddVertexVerbatimRow(neighbours []int) {
	row := make([]int, len(neighbours))
	copy(row, neighbours)
	g.NumberOfVertices++
	g.NumberOfEdges += len(row)
	for _, v := range row {
		g.DegreeSequence[v]++
	}
	g.Neighbourhoods = append(g.Neighbourhoods, row)
	g.DegreeSequence = append(g.DegreeSequence, len(row))
}
