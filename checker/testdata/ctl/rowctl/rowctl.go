// Package rowctl: controls for ROWDEG (the degree recorded for a new vertex is the length of its row).
package rowctl

import "sort"

type SparseGraph struct {
	NumberOfVertices int
	NumberOfEdges    int
	Neighbourhoods   [][]int
	DegreeSequence   []int
}

func dedup(x []int) []int {
	t := append([]int(nil), x...)
	sort.Ints(t)
	n := 0
	for i, v := range t {
		if i == 0 || v != t[i-1] {
			t[n] = v
			n++
		}
	}
	return t[:n]
}

// the row is de-duplicated, the degree is the raw length
func (g *SparseGraph) BadAddVertexRawLength(neighbours []int) {
	row := dedup(neighbours)
	g.NumberOfVertices++
	g.NumberOfEdges += len(row)
	for _, v := range row {
		g.Neighbourhoods[v] = append(g.Neighbourhoods[v], g.NumberOfVertices-1)
		g.DegreeSequence[v]++
	}
	g.Neighbourhoods = append(g.Neighbourhoods, row)
	g.DegreeSequence = append(g.DegreeSequence, len(neighbours))
}

func (g *SparseGraph) GoodAddVertex(neighbours []int) {
	row := dedup(neighbours)
	g.NumberOfVertices++
	g.NumberOfEdges += len(row)
	for _, v := range row {
		g.Neighbourhoods[v] = append(g.Neighbourhoods[v], g.NumberOfVertices-1)
		g.DegreeSequence[v]++
	}
	d := len(row)
	g.Neighbourhoods = append(g.Neighbourhoods, row)
	g.DegreeSequence = append(g.DegreeSequence, d)
}
