// Package dsctl: controls for ROOTLINK and COMPRESS.
package dsctl

type Set []int

func (p *Set) Find(x int) int {
	ds := *p
	if ds[x] < 0 {
		return x
	}
	cur := x
	seen := []int{x}
	for {
		if cur = ds[cur]; cur < 0 {
			root := seen[len(seen)-1]
			for i := 0; i < len(seen)-2; i++ {
				ds[seen[i]] = root
			}
			return root
		}
		seen = append(seen, cur)
	}
}

// re-points visited nodes at their grandparent value instead of the root that is returned
func (p *Set) BadFind(x int) int {
	ds := *p
	cur := x
	seen := []int{x}
	for ds[cur] >= 0 {
		cur = ds[cur]
		seen = append(seen, cur)
	}
	for i := 0; i < len(seen)-2; i++ {
		ds[seen[i]] = seen[i+2]
	}
	return cur
}

func (p *Set) GoodUnion(x, y int) {
	ds := *p
	a := ds.Find(x)
	b := ds.Find(y)
	if a == b {
		return
	}
	if ds[a] < ds[b] {
		ds[b] = a
	} else if ds[b] < ds[a] {
		ds[a] = b
	} else {
		ds[a] = b
		ds[b]--
	}
}

// links the element itself, not its root
func (p *Set) BadUnionLinksElement(x, y int) {
	ds := *p
	a := ds.Find(x)
	b := ds.Find(y)
	if a == b {
		return
	}
	ds[x] = b
}

// bumps the rank of the root it has just linked away
func (p *Set) BadUnionRankOfChild(x, y int) {
	ds := *p
	a := ds.Find(x)
	b := ds.Find(y)
	if a == b {
		return
	}
	ds[a] = b
	ds[a]--
}

// union without the already-joined test
func (p *Set) BadUnionNoDistinctCheck(x, y int) {
	ds := *p
	a := ds.Find(x)
	b := ds.Find(y)
	if ds[a] < ds[b] {
		ds[b] = a
	} else {
		ds[a] = b
	}
}

func (ds Set) link(a, b int) {
	if ds[a] < ds[b] {
		ds[b] = a
	} else if ds[b] < ds[a] {
		ds[a] = b
	} else {
		ds[a] = b
		ds[b]--
	}
}

func (p *Set) GoodUnionViaHelper(x, y int) {
	ds := *p
	a := ds.Find(x)
	b := ds.Find(y)
	if a != b {
		ds.link(a, b)
	}
}

func (p *Set) BadUnionViaHelperFastPath(x, y int) {
	ds := *p
	if ds[x] < 0 && ds[y] < 0 {
		ds.link(x, y)
		return
	}
	a := ds.Find(x)
	b := ds.Find(y)
	if a != b {
		ds.link(a, b)
	}
}

// equal ranks: keep the smaller root (a conditional swap of the two Find results)
func (p *Set) GoodUnionSmallerRoot(x, y int) {
	ds := *p
	a := ds.Find(x)
	b := ds.Find(y)
	if a == b {
		return
	}
	if ds[a] < ds[b] {
		ds[b] = a
	} else if ds[b] < ds[a] {
		ds[a] = b
	} else {
		if a < b {
			a, b = b, a
		}
		ds[a] = b
		ds[b]--
	}
}

// path halving: a correct lookup that re-points elements at their grandparent
func (p *Set) GoodFindHalving(x int) int {
	ds := *p
	for ds[x] >= 0 {
		parent := ds[x]
		if ds[parent] < 0 {
			return parent
		}
		ds[x] = ds[parent]
		x = ds[x]
	}
	return x
}

// BUFCAP: takes the first cell of a buffer that may be empty
func (p *Set) BadFindBufferedFirstCell(x int, buf []int) int {
	seen := buf[:1]
	seen[0] = x
	return seen[0]
}

// BUFCAP: append into the emptied buffer allocates when needed
func (p *Set) GoodFindBufferedAppend(x int, buf []int) int {
	seen := append(buf[:0], x)
	return seen[0]
}

// BUFCAP: the length is checked first
func (p *Set) GoodFindBufferedChecked(x int, buf []int) int {
	if len(buf) < 1 {
		buf = make([]int, 1)
	}
	seen := buf[:1]
	seen[0] = x
	return seen[0]
}
