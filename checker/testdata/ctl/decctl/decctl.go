// Package decctl: controls for BOUNDS / TERM / PRECOND.
package decctl

import "errors"

func GoodDecode(s string) (int, error) {
	if len(s) < 2 {
		return 0, errors.New("short")
	}
	n := int(s[0]) - 63
	if s[1] != 126 {
		n = 64*n + int(s[1]&63)
	}
	t := 0
	for i := 2; i < len(s); i++ {
		t += int(s[i])
	}
	return n + t, nil
}

func BadIndexBeforeCheck(s string) (int, error) {
	if len(s) == 0 {
		return 0, errors.New("short")
	}
	if s[0] != 126 {
		return int(s[0]), nil
	}
	if s[1] != 126 { // len(s) >= 2 not established
		return int(s[1]), nil
	}
	return 0, nil
}

func BadLoopEnd(s string) int {
	i, t := 0, 0
	for {
		t += int(s[i]) // reads s[len(s)] when the loop runs off the end
		i++
		if i > len(s) {
			return t
		}
	}
}

func BadNoProgress(s string) int {
	i, t := 0, 0
	for i < len(s) {
		if s[i] == 63 {
			continue // never advances
		}
		t += int(s[i])
		i++
	}
	return t
}

func build(n int, data []byte) []byte {
	if data == nil {
		return make([]byte, n)
	}
	if len(data) != n {
		panic("wrong length")
	}
	return data
}

func GoodCallsPanicker(n uint64) []byte {
	d := make([]byte, n)
	a := build(int(n), d)
	b := build(3, nil)
	return append(a, b...)
}

func BadCallsPanicker(n int, d []byte) []byte {
	return build(n, d)
}
