package main

import (
	"bufio"
	"encoding/json"
	"fmt"
	"os"
	"path/filepath"
	"sort"
	"strings"
	"time"
)

// Finding is one reported construct. Key is RULE:function:construct and never
// contains a line number, so that known-finding entries survive unrelated edits.
type Finding struct {
	Key  string `json:"key"`
	Pos  string `json:"pos"`
	Msg  string `json:"msg"`
	Rule string `json:"rule"`
}

// RuleResult is what one rule did on one program.
type RuleResult struct {
	Rule        string    `json:"rule"`
	Doc         string    `json:"doc"`
	Instances   []string  `json:"instances"`   // everything the rule looked at (functions, sites, obligations)
	Obligations int       `json:"obligations"` // number of individual proof/agreement obligations
	Discharged  int       `json:"discharged"`
	Findings    []Finding `json:"findings"`
	Undecided   []string  `json:"undecided"` // instances the rule could neither accept nor refute: fails the check
	Notes       []string  `json:"notes,omitempty"`
	MinInst     int       `json:"min_instances"` // non-vacuity floor confirmed by hand
}

func (r *RuleResult) inst(format string, a ...interface{}) {
	r.Instances = append(r.Instances, fmt.Sprintf(format, a...))
}
func (r *RuleResult) note(format string, a ...interface{}) {
	r.Notes = append(r.Notes, fmt.Sprintf(format, a...))
}
func (r *RuleResult) undecided(format string, a ...interface{}) {
	r.Undecided = append(r.Undecided, fmt.Sprintf(format, a...))
}
func (r *RuleResult) oblig(ok bool) {
	r.Obligations++
	if ok {
		r.Discharged++
	}
}
func (r *RuleResult) find(key, pos, format string, a ...interface{}) {
	// ordinal suffix only when the same construct occurs twice
	base := r.Rule + ":" + key
	k := base
	n := 1
	for {
		dup := false
		for _, f := range r.Findings {
			if f.Key == k {
				dup = true
			}
		}
		if !dup {
			break
		}
		n++
		k = fmt.Sprintf("%s#%d", base, n)
	}
	r.Findings = append(r.Findings, Finding{Key: k, Pos: pos, Msg: fmt.Sprintf(format, a...), Rule: r.Rule})
}

type knownEntry struct {
	kind string // "known" or "fixed"
	prop string
	key  string
	text string
}

func readKnown(path string) []knownEntry {
	f, err := os.Open(path)
	if err != nil {
		return nil
	}
	defer f.Close()
	var out []knownEntry
	sc := bufio.NewScanner(f)
	sc.Buffer(make([]byte, 1<<20), 1<<20)
	for sc.Scan() {
		line := strings.TrimSpace(sc.Text())
		if line == "" || strings.HasPrefix(line, "#") {
			continue
		}
		var e knownEntry
		switch {
		case strings.HasPrefix(line, "known:"):
			e.kind = "known"
			line = strings.TrimSpace(strings.TrimPrefix(line, "known:"))
		case strings.HasPrefix(line, "fixed:"):
			e.kind = "fixed"
			line = strings.TrimSpace(strings.TrimPrefix(line, "fixed:"))
		default:
			continue
		}
		for _, tok := range strings.Fields(line) {
			if strings.HasPrefix(tok, "property=") {
				e.prop = strings.TrimPrefix(tok, "property=")
			} else if strings.HasPrefix(tok, "key=") {
				e.key = strings.TrimPrefix(tok, "key=")
			}
		}
		e.text = line
		out = append(out, e)
	}
	return out
}

type Evidence struct {
	PropertyID  string                 `json:"property_id"`
	Tier        string                 `json:"tier"`
	Seed        int                    `json:"seed"`
	Level       string                 `json:"level"`
	Coverage    map[string]interface{} `json:"coverage"`
	Assumptions []string               `json:"assumptions"`
	WallS       float64                `json:"wall_s"`
	Violations  int                    `json:"violations"`
}

type propOutcome struct {
	prop        string
	tier        string
	results     []*RuleResult
	controls    []*RuleResult
	selftest    map[string]interface{}
	explanation string
	notDecided  []string
	assumptions []string
	trusted     []string
	start       time.Time
	ctx         *Ctx
	broken      []string
}

func verifDir() string {
	if d := os.Getenv("VERIF_DIR"); d != "" {
		return d
	}
	return "/verif"
}

// finish prints findings, writes evidence and returns the exit code.
func (o *propOutcome) finish() int {
	known := readKnown(filepath.Join(verifDir(), "known_findings.txt"))
	isKnown := func(key string) *knownEntry {
		for i := range known {
			// keys are written in the file with '_' for ' ' (one token per key)
			if known[i].kind == "known" && known[i].prop == o.prop && (known[i].key == key || known[i].key == strings.ReplaceAll(key, " ", "_")) {
				return &known[i]
			}
		}
		return nil
	}
	violations := 0
	var vioLines, knownLines []string
	obl, dis := 0, 0
	var samples []interface{}
	var ruleSumm []map[string]interface{}
	vdir := filepath.Join(verifDir(), "evidence", "violations")
	// remove stale violation files of this property
	if old, _ := filepath.Glob(filepath.Join(vdir, o.prop+"-*.json")); len(old) > 0 {
		for _, f := range old {
			os.Remove(f)
		}
	}
	for _, r := range o.results {
		sort.Strings(r.Instances)
		obl += r.Obligations
		dis += r.Discharged
		if len(r.Instances) < r.MinInst {
			o.broken = append(o.broken, fmt.Sprintf("rule %s matched %d instances, fewer than the %d confirmed by hand (vacuous or anchors lost)", r.Rule, len(r.Instances), r.MinInst))
		}
		for _, u := range r.Undecided {
			o.broken = append(o.broken, fmt.Sprintf("rule %s undecided: %s", r.Rule, u))
		}
		for _, f := range r.Findings {
			if k := isKnown(f.Key); k != nil {
				knownLines = append(knownLines, fmt.Sprintf("KNOWN-FINDING: property=%s %s at %s: %s", o.prop, f.Key, f.Pos, f.Msg))
				continue
			}
			violations++
			os.MkdirAll(vdir, 0o755)
			path := filepath.Join(vdir, fmt.Sprintf("%s-%d.json", o.prop, violations))
			b, _ := json.MarshalIndent(map[string]interface{}{"property": o.prop, "finding": f, "rule_doc": r.Doc, "replay": fmt.Sprintf("./run.sh %s --replay %s", o.prop, path)}, "", " ")
			os.WriteFile(path, b, 0o644)
			vioLines = append(vioLines, fmt.Sprintf("%s: [%s] %s\nVIOLATION property=%s replay=%s", f.Pos, f.Key, f.Msg, o.prop, path))
		}
		ex := r.Instances
		if len(ex) > 6 {
			ex = ex[:6]
		}
		for _, e := range ex {
			samples = append(samples, r.Rule+": "+e)
		}
		ruleSumm = append(ruleSumm, map[string]interface{}{
			"rule": r.Rule, "doc": r.Doc, "instances": len(r.Instances), "instance_list": r.Instances,
			"obligations": r.Obligations, "discharged": r.Discharged, "findings": r.Findings,
			"undecided": r.Undecided, "notes": r.Notes, "min_instances": r.MinInst,
		})
	}
	var ctlSumm []map[string]interface{}
	for _, r := range o.controls {
		ctlSumm = append(ctlSumm, map[string]interface{}{"rule": r.Rule, "fired": len(r.Findings), "findings": r.Findings})
	}
	for _, l := range knownLines {
		fmt.Println(l)
	}
	for _, l := range vioLines {
		fmt.Println(l)
	}
	cov := map[string]interface{}{
		"explanation":       o.explanation,
		"obligations":       obl,
		"discharged":        dis,
		"checker_cmd":       fmt.Sprintf("./run.sh %s %s", o.prop, o.tier),
		"trusted_base":      o.trusted,
		"rules":             ruleSumm,
		"positive_controls": ctlSumm,
		"samples":           samples,
		"not_decided":       o.notDecided,
		"known_findings":    len(knownLines),
		"broken":            o.broken,
	}
	if o.ctx != nil {
		cov["packages_loaded"] = len(o.ctx.modulePackages())
		cov["module_functions"] = len(o.ctx.Funcs)
		cov["source_files"] = o.ctx.NFiles
	}
	if o.selftest != nil {
		for k, v := range o.selftest {
			cov[k] = v
		}
	}
	seed := 0
	fmt.Sscan(os.Getenv("VERIF_SEED"), &seed)
	ev := Evidence{PropertyID: o.prop, Tier: o.tier, Seed: seed, Level: "other", Coverage: cov,
		Assumptions: o.assumptions, WallS: time.Since(o.start).Seconds(), Violations: violations}
	b, _ := json.MarshalIndent(ev, "", " ")
	os.MkdirAll(filepath.Join(verifDir(), "evidence"), 0o755)
	if err := os.WriteFile(filepath.Join(verifDir(), "evidence", o.prop+".json"), b, 0o644); err != nil {
		fmt.Fprintln(os.Stderr, "cannot write evidence:", err)
		return 2
	}
	nInst := 0
	for _, r := range o.results {
		nInst += len(r.Instances)
		fmt.Printf("%s %-14s instances=%d obligations=%d discharged=%d findings=%d undecided=%d\n", o.prop, r.Rule, len(r.Instances), r.Obligations, r.Discharged, len(r.Findings), len(r.Undecided))
	}
	for _, b := range o.broken {
		fmt.Println("BROKEN-CHECK:", b)
	}
	if violations > 0 {
		return 1 // a reported violation stands even if another rule instance could not be decided
	}
	if len(o.broken) > 0 {
		return 2
	}
	fmt.Printf("%s OK (%s): %d rule instances, %d/%d obligations, %d known findings, %.1fs\n", o.prop, o.tier, nInst, dis, obl, len(knownLines), time.Since(o.start).Seconds())
	return 0
}
