package main

// E-PROVE: goal-directed inductive bounds prover on go/ssa (DESIGN.md §1, §6).
// Goals and facts have the form p <= 0 where p is an integer polynomial over
// atoms. Exhausting the search budget is "unproven", never "proven".

import (
	"fmt"
	"go/constant"
	"go/token"
	"go/types"
	"os"
	"sort"
	"strconv"
	"strings"

	"golang.org/x/tools/go/ssa"
)

// Atom kinds.
const (
	aVal = iota // opaque SSA value (integers), possibly the representative of a class of equal loads
	aLen        // len(value)
	aDiv        // inner / c
	aRem        // inner % c
	aNil        // 1 if value == nil else 0
	aStr        // s[idx] for an (immutable) string s
	aTab        // G[idx] for a package-level table G of integers that no function of the module writes
)

type Atom struct {
	id    int
	kind  int
	val   ssa.Value // aVal, aLen, aNil, aStr
	inner Poly      // aDiv, aRem, aStr (index)
	c     int64
	key   string
	uns   bool // known >= 0
}

type hyp struct {
	blk  *ssa.BasicBlock
	goal Poly
}

type Prover struct {
	c        *Ctx
	fn       *ssa.Function
	atoms    []*Atom
	byKey    map[string]*Atom
	global   []Poly // facts valid everywhere (type ranges, rule assumptions)
	divDone  map[int]bool
	budget   int
	Budget   int // node budget per top-level goal
	DProve   int // phi-induction depth
	DElim    int // elimination depth
	trace    bool
	loadRep  map[ssa.Value]ssa.Value
	loadsOK  bool
	inPost   bool
	inNeq    bool
	inSplit  int
	splitAt  int
	hdrFacts map[*ssa.BasicBlock][]Poly // facts about a header's phis: valid where the header dominates
	inRatio  bool
	memo     map[string]bool
	gen      int
	where    map[ssa.Instruction]ipos
	writers  []ssa.Instruction
	f        *fa
	nodes    int // total search nodes used (reported)
	karr     *karr
	inKarr   bool
	useKarr  bool // include the affine equalities of karr.go among the facts
	noKarr   bool
	phiB     []Poly
	calls    int // prove1 invocations for the current top-level goal (work limit, deterministic)
}

// maxProveCalls bounds the search below one top-level goal: the recursion prove -> divFacts / phiStep
// / splitPreds -> prove is limited in depth but not in breadth, and on an unlucky shape (many
// division atoms over many facts) it does not come back in an hour. A goal that exhausts the
// allowance is unproved, which every rule reads as "report". The largest count on the pinned tree,
// the controls and the stored corpora is two orders of magnitude below.
const maxProveCalls = 50000

var proveCallsHigh int // high-water mark, printed with MAMBA_PROVESTATS


func NewProver(c *Ctx, fn *ssa.Function) *Prover {
	P := &Prover{c: c, fn: fn, byKey: map[string]*Atom{}, divDone: map[int]bool{}, memo: map[string]bool{}, hdrFacts: map[*ssa.BasicBlock][]Poly{}, Budget: 20000, DProve: 6, DElim: 6}
	P.computeLoads()
	P.lockStep()
	P.trace = os.Getenv("MAMBA_TRACE") != "" && strings.Contains(fn.String(), os.Getenv("MAMBA_TRACE"))
	return P
}

func (P *Prover) atom(kind int, val ssa.Value, inner Poly, c int64, uns bool) *Atom {
	var key string
	switch kind {
	case aVal:
		key = fmt.Sprintf("v%p", val)
	case aLen:
		key = fmt.Sprintf("len%p", val)
	case aNil:
		key = fmt.Sprintf("nil%p", val)
	case aDiv:
		key = fmt.Sprintf("div(%s)/%d", inner.key(), c)
	case aRem:
		key = fmt.Sprintf("rem(%s)%%%d", inner.key(), c)
	case aStr:
		key = fmt.Sprintf("str%p[%s]", val, inner.key())
	case aTab:
		key = fmt.Sprintf("tab%p[%s]", val, inner.key())
	}
	if a, ok := P.byKey[key]; ok {
		return a
	}
	a := &Atom{id: len(P.atoms), kind: kind, val: val, inner: inner, c: c, key: key, uns: uns}
	P.atoms = append(P.atoms, a)
	P.byKey[key] = a
	ap := atomP(a.id)
	if uns || kind == aLen || kind == aNil {
		P.global = append(P.global, ap.scale(-1)) // -a <= 0
	}
	switch kind {
	case aNil:
		P.global = append(P.global, ap.add(constP(-1), 1))
	case aStr:
		P.global = append(P.global, ap.add(constP(-255), 1))
	case aTab:
		if g, isG := val.(*ssa.Global); isG && P.c != nil {
			if lo, hi, ok := P.c.tableRange(g); ok && lo > minI && hi < maxI {
				P.global = append(P.global, ap.scale(-1).add(constP(lo), 1), ap.add(constP(-hi), 1))
			}
		}
	case aRem:
		P.global = append(P.global, ap.add(constP(-(c-1)), 1)) // rem <= c-1 (inner >= 0 under the no-overflow assumption)
		P.global = append(P.global, ap.scale(-1))
	case aVal:
		if val != nil {
			// results of module helpers: facts proved at all of the helper's returns
			var call *ssa.Call
			switch x := val.(type) {
			case *ssa.Call:
				call = x
			case *ssa.Extract:
				call, _ = x.Tuple.(*ssa.Call)
			}
			if call != nil && !P.inPost {
				if f := call.Call.StaticCallee(); f != nil && P.c != nil && P.c.inModule(f) && f != P.fn {
					P.inPost = true
					for _, fact := range P.instPost(call, P.calleePosts(f, -1, false, P.argLower(call))) {
						P.global = append(P.global, fact)
					}
					P.inPost = false
				}
			}
			if lo, hi, ok := P.rangeOf(val); ok {
				if lo != minI {
					P.global = append(P.global, ap.scale(-1).add(constP(lo), 1)) // lo - a <= 0
				}
				if hi != maxI {
					P.global = append(P.global, ap.add(constP(-hi), 1)) // a - hi <= 0
				}
			}
		}
	}
	return a
}

const (
	minI = int64(-1 << 62)
	maxI = int64(1 << 62)
)

func isUnsigned(t types.Type) bool {
	b, ok := t.Underlying().(*types.Basic)
	return ok && b.Info()&types.IsUnsigned != 0
}
func isInt(t types.Type) bool {
	b, ok := t.Underlying().(*types.Basic)
	return ok && b.Info()&types.IsInteger != 0
}

// intBits returns the width of an integer type (int/uint/uintptr count as 64).
func intBits(t types.Type) int {
	b, ok := t.Underlying().(*types.Basic)
	if !ok {
		return 0
	}
	switch b.Kind() {
	case types.Int8, types.Uint8:
		return 8
	case types.Int16, types.Uint16:
		return 16
	case types.Int32, types.Uint32:
		return 32
	case types.Int, types.Uint, types.Int64, types.Uint64, types.Uintptr, types.UntypedInt:
		return 64
	}
	return 0
}

func typeRange(t types.Type) (int64, int64, bool) {
	bits := intBits(t)
	if bits == 0 {
		return 0, 0, false
	}
	if isUnsigned(t) {
		if bits >= 64 {
			return 0, maxI, true
		}
		return 0, (int64(1) << uint(bits)) - 1, true
	}
	if bits >= 64 {
		return minI, maxI, true
	}
	return -(int64(1) << uint(bits-1)), (int64(1) << uint(bits-1)) - 1, true
}

func constInt(v ssa.Value) (int64, bool) {
	c, ok := v.(*ssa.Const)
	if !ok || c.Value == nil || c.Value.Kind() != constant.Int {
		return 0, false
	}
	if i, ok := constant.Int64Val(c.Value); ok {
		return i, true
	}
	return 0, false
}

// strip removes value-preserving conversions: ChangeType, and integer conversions that do
// not narrow (same width or widening), which are transparent under the stated
// no-overflow assumption. Narrowing conversions are kept (opaque atoms with the target range).
func strip(v ssa.Value) ssa.Value {
	for {
		switch x := v.(type) {
		case *ssa.Convert:
			if isInt(x.Type()) && isInt(x.X.Type()) && intBits(x.Type()) >= intBits(x.X.Type()) {
				v = x.X
				continue
			}
		case *ssa.ChangeType:
			v = x.X
			continue
		}
		return v
	}
}

// rangeOf: interval transfer functions for opaque values.
func (P *Prover) rangeOf(v ssa.Value) (lo, hi int64, ok bool) {
	tlo, thi, tok := typeRange(v.Type())
	if !tok {
		return 0, 0, false
	}
	lo, hi = tlo, thi
	clamp := func(l, h int64) {
		if l > lo {
			lo = l
		}
		if h < hi {
			hi = h
		}
	}
	switch x := v.(type) {
	case *ssa.UnOp:
		// an element of a local array that is only ever filled with constants ([...]int{1, 3, 6}[k])
		if x.Op == token.MUL {
			if ia, ok := x.X.(*ssa.IndexAddr); ok {
				if al, ok := ia.X.(*ssa.Alloc); ok {
					if l, h, ok := constArrayRange(al); ok {
						clamp(l, h)
					}
				}
			}
		}
	case *ssa.BinOp:
		switch x.Op {
		case token.AND:
			if c, ok := constInt(strip(x.Y)); ok && c >= 0 {
				clamp(0, c)
			} else if c, ok := constInt(strip(x.X)); ok && c >= 0 {
				clamp(0, c)
			}
		case token.REM:
			if c, ok := constInt(strip(x.Y)); ok && c > 0 {
				if isUnsigned(x.Type()) {
					clamp(0, c-1)
				} else {
					clamp(-(c - 1), c-1)
				}
			}
		case token.SHR:
			if c, ok := constInt(strip(x.Y)); ok && c >= 0 && c < 62 {
				if _, xhi, ok := P.rangeOfOperand(x.X); ok && isUnsigned(x.Type()) {
					clamp(0, xhi>>uint(c))
				}
			}
		}
	case *ssa.Call:
		if f := x.Call.StaticCallee(); f != nil {
			switch f.String() {
			case "math/bits.LeadingZeros64", "math/bits.TrailingZeros64", "math/bits.Len64", "math/bits.OnesCount64",
				"math/bits.LeadingZeros", "math/bits.TrailingZeros", "math/bits.Len", "math/bits.OnesCount":
				clamp(0, 64)
			case "math/bits.LeadingZeros32", "math/bits.TrailingZeros32", "math/bits.Len32":
				clamp(0, 32)
			case "math/bits.LeadingZeros8", "math/bits.TrailingZeros8", "math/bits.Len8":
				clamp(0, 8)
			}
		}
		if b, ok := x.Call.Value.(*ssa.Builtin); ok && (b.Name() == "len" || b.Name() == "cap" || b.Name() == "copy") {
			clamp(0, maxI)
		}
	}
	return lo, hi, true
}

// constArrayRange: al is a local array all of whose writes are constant stores at constant indices
// (a composite literal) and whose address goes nowhere else; returns the range of its elements
// (zero included when the literal leaves elements out).
func constArrayRange(al *ssa.Alloc) (lo, hi int64, ok bool) {
	pt, isP := al.Type().Underlying().(*types.Pointer)
	if !isP {
		return 0, 0, false
	}
	arr, isArr := pt.Elem().Underlying().(*types.Array)
	if !isArr {
		return 0, 0, false
	}
	n := int64(0)
	for _, ref := range *al.Referrers() {
		switch r := ref.(type) {
		case *ssa.IndexAddr:
			for _, r2 := range *r.Referrers() {
				switch u := r2.(type) {
				case *ssa.Store:
					if u.Addr != ssa.Value(r) {
						return 0, 0, false
					}
					k, isK := constInt(u.Val)
					if _, idxK := constInt(r.Index); !isK || !idxK {
						return 0, 0, false
					}
					if n == 0 || k < lo {
						lo = k
					}
					if n == 0 || k > hi {
						hi = k
					}
					n++
				case *ssa.UnOp, *ssa.DebugRef:
				default:
					return 0, 0, false
				}
			}
		case *ssa.DebugRef:
		default:
			return 0, 0, false // sliced, copied or passed on
		}
	}
	if n == 0 {
		return 0, 0, false
	}
	if n < arr.Len() {
		if lo > 0 {
			lo = 0
		}
		if hi < 0 {
			hi = 0
		}
	}
	return lo, hi, true
}

func (P *Prover) rangeOfOperand(v ssa.Value) (int64, int64, bool) {
	v = strip(v)
	if c, ok := constInt(v); ok {
		return c, c, true
	}
	return P.rangeOf(v)
}

// lenOf returns the polynomial for len(x).
func (P *Prover) lenOf(x ssa.Value) Poly {
	x = P.canon(strip(x))
	switch s := x.(type) {
	case *ssa.MakeSlice:
		return P.poly(s.Len)
	case *ssa.Slice:
		var hi Poly
		if s.High != nil {
			hi = P.poly(s.High)
		} else if pt, isPtr := s.X.Type().Underlying().(*types.Pointer); isPtr {
			hi = constP(pt.Elem().Underlying().(*types.Array).Len())
		} else {
			hi = P.lenOf(s.X)
		}
		lo := Poly{}
		if s.Low != nil {
			lo = P.poly(s.Low)
		}
		return hi.add(lo, -1)
	case *ssa.Const:
		if s.Value != nil && s.Value.Kind() == constant.String {
			return constP(int64(len(constant.StringVal(s.Value))))
		}
		if s.Value == nil {
			return constP(0) // nil slice / map
		}
	case *ssa.Call:
		if b, ok := s.Call.Value.(*ssa.Builtin); ok && b.Name() == "append" && len(s.Call.Args) == 2 {
			return P.lenOf(s.Call.Args[0]).add(P.lenOf(s.Call.Args[1]), 1)
		}
	case *ssa.UnOp:
		// the length of a package-level table that the module never writes is that of its initialiser
		if g, ok := s.X.(*ssa.Global); ok && s.Op == token.MUL && P.c != nil && P.c.immutableTable(g) {
			if n, ok := P.c.tableLen(g); ok {
				return constP(n)
			}
		}
	case *ssa.Convert:
		// []byte(string) / string([]byte) keep the length
		_, fromStr := s.X.Type().Underlying().(*types.Basic)
		_, toStr := s.Type().Underlying().(*types.Basic)
		if (fromStr && !toStr) || (!fromStr && toStr) {
			if _, isSl := s.X.Type().Underlying().(*types.Slice); isSl || fromStr {
				if bs, ok := s.X.Type().Underlying().(*types.Slice); !ok || isByte(bs.Elem()) {
					if ts, ok := s.Type().Underlying().(*types.Slice); !ok || isByte(ts.Elem()) {
						return P.lenOf(s.X)
					}
				}
			}
		}
	}
	if pt, ok := x.Type().Underlying().(*types.Pointer); ok {
		if arr, ok := pt.Elem().Underlying().(*types.Array); ok {
			return constP(arr.Len())
		}
	}
	if arr, ok := x.Type().Underlying().(*types.Array); ok {
		return constP(arr.Len())
	}
	return atomP(P.atom(aLen, x, nil, 0, true).id)
}

func isByte(t types.Type) bool {
	b, ok := t.Underlying().(*types.Basic)
	return ok && b.Kind() == types.Uint8
}

// poly translates an integer SSA value into a polynomial.
func (P *Prover) poly(v ssa.Value) Poly {
	v = P.canon(strip(v))
	if c, ok := constInt(v); ok {
		return constP(c)
	}
	switch x := v.(type) {
	case *ssa.BinOp:
		if !isInt(x.Type()) || intBits(x.Type()) < 64 {
			break // sub-word arithmetic wraps at small values: keep opaque with its type range
		}
		switch x.Op {
		case token.ADD:
			return P.poly(x.X).add(P.poly(x.Y), 1)
		case token.SUB:
			return P.poly(x.X).add(P.poly(x.Y), -1)
		case token.MUL:
			return P.poly(x.X).mul(P.poly(x.Y))
		case token.QUO:
			if c, ok := constInt(strip(x.Y)); ok && c > 0 {
				return P.divP(P.poly(x.X), c, isUnsigned(x.Type()))
			}
		case token.REM:
			if c, ok := constInt(strip(x.Y)); ok && c > 0 {
				return atomP(P.atom(aRem, nil, P.poly(x.X), c, isUnsigned(x.Type())).id)
			}
		case token.SHL:
			if c, ok := constInt(strip(x.Y)); ok && c >= 0 && c < 62 {
				return P.poly(x.X).scale(1 << uint(c))
			}
		case token.SHR:
			if c, ok := constInt(strip(x.Y)); ok && c >= 0 && c < 62 {
				return P.divP(P.poly(x.X), 1<<uint(c), isUnsigned(x.Type()))
			}
		}
	case *ssa.Call:
		if b, ok := x.Call.Value.(*ssa.Builtin); ok && b.Name() == "len" {
			return P.lenOf(x.Call.Args[0])
		}
		// a module helper that just computes an arithmetic expression of its parameters
		// (triangleSize(n) = n*(n-1)/2, edgeIndex(i, j) = j*(j-1)/2 + i): the expression itself
		if f := x.Call.StaticCallee(); f != nil && P.c != nil && P.c.inModule(f) && f != P.fn && f.Blocks != nil && isInt(x.Type()) && intBits(x.Type()) == 64 {
			if q, ok := P.arithHelper(x, f); ok {
				return q
			}
		}
	case *ssa.UnOp:
		if x.Op == token.MUL && isInt(x.Type()) {
			if ia, ok := x.X.(*ssa.IndexAddr); ok {
				var g *ssa.Global
				switch b := ia.X.(type) {
				case *ssa.Global:
					g = b
				case *ssa.UnOp:
					if b.Op == token.MUL {
						g, _ = b.X.(*ssa.Global)
					}
				}
				if g != nil && P.c != nil && P.c.immutableTable(g) {
					return atomP(P.atom(aTab, g, P.poly(ia.Index), 0, isUnsigned(x.Type())).id)
				}
			}
		}
	case *ssa.Index:
		if bt, ok := x.X.Type().Underlying().(*types.Basic); ok && bt.Info()&types.IsString != 0 {
			return atomP(P.atom(aStr, strip(x.X), P.poly(x.Index), 0, true).id)
		}
	}
	return atomP(P.atom(aVal, v, nil, 0, isUnsigned(v.Type())).id)
}

func (P *Prover) divP(in Poly, c int64, uns bool) Poly {
	if k, ok := in.isConst(); ok && k >= 0 {
		return constP(k / c)
	}
	return atomP(P.atom(aDiv, nil, in, c, uns).id)
}

func (P *Prover) nilP(v ssa.Value) Poly {
	v = P.canon(strip(v))
	switch x := v.(type) {
	case *ssa.Const:
		if x.Value == nil {
			return constP(1)
		}
	case *ssa.MakeSlice, *ssa.Alloc, *ssa.MakeMap, *ssa.MakeChan, *ssa.MakeClosure, *ssa.MakeInterface:
		return constP(0)
	case *ssa.Slice:
		// slicing an array (through its pointer) is never nil; slicing a slice keeps nil-ness only for nil
		if _, isPtr := x.X.Type().Underlying().(*types.Pointer); isPtr {
			return constP(0)
		}
	case *ssa.Call:
		// append(s, ...) is non-nil whenever s is non-nil
		if b, ok := x.Call.Value.(*ssa.Builtin); ok && b.Name() == "append" && len(x.Call.Args) > 0 {
			if c, ok := P.nilP(x.Call.Args[0]).isConst(); ok && c == 0 {
				return constP(0)
			}
		}
	}
	return atomP(P.atom(aNil, v, nil, 0, true).id)
}

func isNilConst(v ssa.Value) bool {
	c, ok := v.(*ssa.Const)
	return ok && c.Value == nil && !isInt(c.Type())
}

func negOp(op token.Token) token.Token {
	switch op {
	case token.LSS:
		return token.GEQ
	case token.LEQ:
		return token.GTR
	case token.GTR:
		return token.LEQ
	case token.GEQ:
		return token.LSS
	case token.EQL:
		return token.NEQ
	case token.NEQ:
		return token.EQL
	}
	return op
}

// condFacts returns facts (each <= 0) implied by cond having the given truth value.
func (P *Prover) condFacts(cond ssa.Value, truth bool) []Poly {
	switch c := cond.(type) {
	case *ssa.UnOp:
		if c.Op == token.NOT {
			return P.condFacts(c.X, !truth)
		}
	case *ssa.BinOp:
		op := c.Op
		if !truth {
			op = negOp(op)
		}
		if !isInt(c.X.Type()) {
			if (op == token.EQL || op == token.NEQ) && (isNilConst(c.X) || isNilConst(c.Y)) {
				other := c.X
				if isNilConst(c.X) {
					other = c.Y
				}
				n := P.nilP(other)
				if op == token.EQL {
					return []Poly{constP(1).add(n, -1)} // 1 - nil <= 0
				}
				return []Poly{n} // nil <= 0
			}
			return nil
		}
		a, b := P.poly(c.X), P.poly(c.Y)
		d := a.add(b, -1) // a - b
		switch op {
		case token.LSS:
			return []Poly{d.add(constP(1), 1)}
		case token.LEQ:
			return []Poly{d}
		case token.GTR:
			return []Poly{d.scale(-1).add(constP(1), 1)}
		case token.GEQ:
			return []Poly{d.scale(-1)}
		case token.EQL:
			return []Poly{d, d.scale(-1)}
		case token.NEQ:
			return []Poly{P.neqMarker(d)}
		}
	case *ssa.Call:
		if f := c.Call.StaticCallee(); f != nil && f.String() == "strings.HasPrefix" && truth {
			return []Poly{P.lenOf(c.Call.Args[1]).add(P.lenOf(c.Call.Args[0]), -1)}
		}
		// a module predicate (one bool result): what holds at every return that yields `truth`
		if f := c.Call.StaticCallee(); f != nil && P.c != nil && P.c.inModule(f) && f != P.fn && f.Blocks != nil && !P.inPost {
			if res := f.Signature.Results(); res.Len() == 1 {
				if b, ok := res.At(0).Type().Underlying().(*types.Basic); ok && b.Kind() == types.Bool {
					return P.predFacts(c, f, truth)
				}
			}
		}
	case *ssa.Extract:
		// ok := helper(...) : facts that hold at every return of the helper where that result is `truth`
		if call, isCall := c.Tuple.(*ssa.Call); isCall && !P.inPost {
			return P.calleePost(call, c.Index, truth)
		}
	case *ssa.Phi:
		// for v, ok := helper(a); ok; v, ok = helper(a) { ... }: ok is a phi of the bool results of several
		// calls of one helper; its conditional postconditions hold for the phis of the other results
		if P.inPost || len(c.Edges) < 2 {
			return nil
		}
		var calls []*ssa.Call
		idx := -1
		for _, e := range c.Edges {
			ex, ok := e.(*ssa.Extract)
			if !ok {
				return nil
			}
			call, ok := ex.Tuple.(*ssa.Call)
			if !ok || call.Call.StaticCallee() == nil || (len(calls) > 0 && (call.Call.StaticCallee() != calls[0].Call.StaticCallee() || ex.Index != idx)) {
				return nil
			}
			calls = append(calls, call)
			idx = ex.Index
		}
		f := calls[0].Call.StaticCallee()
		var out []Poly
		for _, pf := range P.calleePosts(f, idx, truth, nil) {
			// the phi that merges result pf.res of the same calls, edge by edge
			var rphi *ssa.Phi
			for _, in := range c.Block().Instrs {
				q, ok := in.(*ssa.Phi)
				if !ok {
					break
				}
				match := len(q.Edges) == len(calls)
				for i := 0; match && i < len(calls); i++ {
					ex, ok := q.Edges[i].(*ssa.Extract)
					match = ok && ex.Tuple == ssa.Value(calls[i]) && ex.Index == pf.res
				}
				if match {
					rphi = q
				}
			}
			if rphi == nil {
				continue
			}
			r := P.poly(rphi)
			switch pf.kind {
			case "ge0":
				out = append(out, r.scale(-1))
			case "leParam":
				// the same argument value at every call
				same := pf.param < len(calls[0].Call.Args)
				for _, cl := range calls {
					if !same || pf.param >= len(cl.Call.Args) || P.poly(cl.Call.Args[pf.param]).key() != P.poly(calls[0].Call.Args[pf.param]).key() {
						same = false
					}
				}
				if same {
					out = append(out, r.add(P.poly(calls[0].Call.Args[pf.param]), -1))
				}
			}
		}
		return out
	}
	return nil
}

// predFacts: the facts that hold in the callee on every path to a return whose value is (or may be)
// `truth`, translated to the caller's terms. With several such paths only the facts common to all of
// them are kept.
func (P *Prover) predFacts(call *ssa.Call, f *ssa.Function, truth bool) []Poly {
	P.inPost = true
	defer func() { P.inPost = false }()
	CP := predProver(P.c, f)
	type path struct{ facts []Poly }
	var paths []path
	add := func(blk *ssa.BasicBlock, extra []Poly) {
		fs := append([]Poly{}, CP.factsAt(blk)...)
		fs = append(fs, extra...)
		paths = append(paths, path{fs})
	}
	isTruth := func(v ssa.Value) (known bool, val bool) {
		if k, ok := v.(*ssa.Const); ok && k.Value != nil {
			return true, k.Value.String() == "true"
		}
		return false, false
	}
	for _, b := range f.Blocks {
		ret, ok := b.Instrs[len(b.Instrs)-1].(*ssa.Return)
		if !ok || len(ret.Results) != 1 {
			continue
		}
		rv := ret.Results[0]
		if known, val := isTruth(rv); known {
			if val == truth {
				add(b, nil)
			}
			continue
		}
		if phi, isPhi := rv.(*ssa.Phi); isPhi && phi.Block() == b {
			for i, e := range phi.Edges {
				pred := b.Preds[i]
				ef := CP.edgeFacts(pred, b)
				if known, val := isTruth(e); known {
					if val == truth {
						add(pred, ef)
					}
					continue
				}
				add(pred, append(ef, CP.condFacts(e, truth)...))
			}
			continue
		}
		add(b, CP.condFacts(rv, truth))
	}
	if len(paths) == 0 {
		return []Poly{constP(1)} // the predicate never yields this value: the edge is infeasible
	}
	common := paths[0].facts
	for _, p := range paths[1:] {
		keys := map[string]bool{}
		for _, q := range p.facts {
			keys[q.key()] = true
		}
		var keep []Poly
		for _, q := range common {
			if keys[q.key()] {
				keep = append(keep, q)
			}
		}
		common = keep
	}
	var out []Poly
	for _, q := range common {
		if t, ok := translatePolyX(CP, q, f, P, call.Call.Args, nil); ok {
			out = append(out, t)
		}
	}
	return out
}

// arithHelper: every return of f yields the same polynomial over f's parameters (no loops, no
// loads, no phis in it): that polynomial with the call's arguments substituted.
var arithDepth int

func (P *Prover) arithHelper(call *ssa.Call, f *ssa.Function) (Poly, bool) {
	if arithDepth > 3 || f.Signature.Results().Len() != 1 {
		return nil, false
	}
	arithDepth++
	defer func() { arithDepth-- }()
	CP := predProver(P.c, f)
	var res Poly
	n := 0
	for _, b := range f.Blocks {
		ret, ok := b.Instrs[len(b.Instrs)-1].(*ssa.Return)
		if !ok {
			continue
		}
		q := CP.poly(ret.Results[0])
		if n > 0 && q.key() != res.key() {
			return nil, false
		}
		res = q
		n++
	}
	if n == 0 {
		return nil, false
	}
	// only parameters (and divisions / remainders of them) may occur
	pure := true
	var check func(a *Atom)
	check = func(a *Atom) {
		switch a.kind {
		case aVal:
			if _, isParam := a.val.(*ssa.Parameter); !isParam {
				pure = false
			}
		case aDiv, aRem:
			CP.atomsOf(a.inner, check)
		default:
			pure = false
		}
	}
	CP.atomsOf(res, check)
	if !pure {
		return nil, false
	}
	return translatePolyX(CP, res, f, P, call.Call.Args, nil)
}

var predProvers = map[*ssa.Function]*Prover{}

func predProver(c *Ctx, f *ssa.Function) *Prover {
	if p, ok := predProvers[f]; ok {
		return p
	}
	p := NewProver(c, f)
	predProvers[f] = p
	return p
}

// postCache: callee -> key -> candidate facts proved at the relevant returns
var postCache = map[*ssa.Function]map[string][]postFact{}

type postFact struct {
	res   int // result index the fact is about
	kind  string
	param int // for "leLen": parameter index
}

// calleePosts computes, for a module function with a body, which simple facts about its integer
// results hold at every return (boolIdx < 0) or at every return whose bool result boolIdx is the
// constant boolVal. Candidates: r >= 0, r <= len(p) for each string/slice parameter p.
func (P *Prover) calleePosts(f *ssa.Function, boolIdx int, boolVal bool, lower []int64) []postFact {
	if P.c == nil || !P.c.inModule(f) || f.Blocks == nil {
		return nil
	}
	key := fmt.Sprintf("%d/%v/%v", boolIdx, boolVal, lower)
	if m, ok := postCache[f]; ok {
		if v, ok := m[key]; ok {
			return v
		}
	} else {
		postCache[f] = map[string][]postFact{}
	}
	postCache[f][key] = nil // recursion guard
	var rets []*ssa.Return
	condRets := map[*ssa.Return]ssa.Value{}
	for _, b := range f.Blocks {
		ret, ok := b.Instrs[len(b.Instrs)-1].(*ssa.Return)
		if !ok {
			continue
		}
		if boolIdx >= 0 {
			k, isK := ret.Results[boolIdx].(*ssa.Const)
			if isK && k.Value != nil {
				if (k.Value.String() == "true") != boolVal {
					continue
				}
			} else if _, isCmp := ret.Results[boolIdx].(*ssa.BinOp); isCmp {
				condRets[ret] = ret.Results[boolIdx] // `return v, v <= limit`: the comparison holds (or not) at this return
			} else {
				return nil // neither a constant nor a comparison: no conditional facts
			}
		}
		rets = append(rets, ret)
	}
	if len(rets) == 0 {
		return nil
	}
	CP := NewProver(P.c, f)
	// lower bounds on integer parameters that the caller has established at this call site
	for j, lb := range lower {
		if lb > minI && j < len(f.Params) && isInt(f.Params[j].Type()) {
			CP.global = append(CP.global, constP(lb).add(CP.poly(f.Params[j]), -1)) // lb - p <= 0
		}
	}
	var out []postFact
	res := f.Signature.Results()
	for k := 0; k < res.Len(); k++ {
		if !isInt(res.At(k).Type()) {
			continue
		}
		try := func(goal func(ret *ssa.Return) Poly) bool {
			for _, ret := range rets {
				var extra []Poly
				if cv, ok := condRets[ret]; ok {
					extra = CP.condFacts(cv, boolVal)
				}
				if !CP.ProveWith(goal(ret), ret.Block(), extra) {
					return false
				}
			}
			return true
		}
		if try(func(ret *ssa.Return) Poly { return CP.poly(ret.Results[k]).scale(-1) }) {
			out = append(out, postFact{res: k, kind: "ge0"})
		}
		for pi, prm := range f.Params {
			if isInt(prm.Type()) && isUnsigned(prm.Type()) == isUnsigned(res.At(k).Type()) && intBits(prm.Type()) == 64 {
				pp := prm
				if try(func(ret *ssa.Return) Poly { return CP.poly(ret.Results[k]).add(CP.poly(pp), -1) }) {
					out = append(out, postFact{res: k, kind: "leParam", param: pi})
				}
				continue
			}
			switch prm.Type().Underlying().(type) {
			case *types.Slice, *types.Basic:
				if bt, isB := prm.Type().Underlying().(*types.Basic); isB && bt.Info()&types.IsString == 0 {
					continue
				}
				pp := prm
				if try(func(ret *ssa.Return) Poly { return CP.poly(ret.Results[k]).add(CP.lenOf(pp), -1).add(constP(1), 1) }) {
					out = append(out, postFact{res: k, kind: "ltLen", param: pi}) // an index into p, or a negative "not found"
				} else if try(func(ret *ssa.Return) Poly { return CP.poly(ret.Results[k]).add(CP.lenOf(pp), -1) }) {
					out = append(out, postFact{res: k, kind: "leLen", param: pi})
				}
			}
		}
	}
	postCache[f][key] = out
	return out
}

// calleePost instantiates the conditional postconditions of call for the edge on which its
// bool result boolIdx has the given truth value.
func (P *Prover) calleePost(call *ssa.Call, boolIdx int, truth bool) []Poly {
	f := call.Call.StaticCallee()
	if f == nil {
		return nil
	}
	return P.instPost(call, P.calleePosts(f, boolIdx, truth, P.argLower(call)))
}

// argLower: for each integer argument of the call, the best of the lower bounds 1 and 0 that is
// provable at the call site (minI when neither is).
func (P *Prover) argLower(call *ssa.Call) []int64 {
	out := make([]int64, len(call.Call.Args))
	was := P.inPost
	P.inPost = true
	saved := P.budget
	for i, a := range call.Call.Args {
		out[i] = minI
		if !isInt(a.Type()) {
			continue
		}
		p := P.poly(a)
		P.budget = 2000
		if P.prove(constP(1).add(p, -1), call.Block(), nil, nil, 3) {
			out[i] = 1
		} else if P.budget = 2000; P.prove(p.scale(-1), call.Block(), nil, nil, 3) {
			out[i] = 0
		}
	}
	P.budget = saved
	P.inPost = was
	return out
}

func (P *Prover) instPost(call *ssa.Call, pfs []postFact) []Poly {
	var out []Poly
	for _, pf := range pfs {
		// the caller-side value of result pf.res
		var rv ssa.Value
		if _, isTuple := call.Type().(*types.Tuple); isTuple {
			for _, ref := range *call.Referrers() {
				if ex, ok := ref.(*ssa.Extract); ok && ex.Index == pf.res {
					rv = ex
				}
			}
		} else if pf.res == 0 {
			rv = call
		}
		if rv == nil {
			continue
		}
		r := P.poly(rv)
		switch pf.kind {
		case "ge0":
			out = append(out, r.scale(-1))
		case "leLen":
			if pf.param < len(call.Call.Args) {
				out = append(out, r.add(P.lenOf(call.Call.Args[pf.param]), -1))
			}
		case "ltLen":
			if pf.param < len(call.Call.Args) {
				out = append(out, r.add(P.lenOf(call.Call.Args[pf.param]), -1).add(constP(1), 1))
			}
		case "leParam":
			if pf.param < len(call.Call.Args) {
				out = append(out, r.add(P.poly(call.Call.Args[pf.param]), -1))
			}
		}
	}
	return out
}

// A disequality d != 0 is kept as a marker polynomial (key "!=") and resolved lazily.
func (P *Prover) neqMarker(d Poly) Poly {
	m := d.clone()
	m["!="] = 1
	return m
}

// factsAt collects the facts valid on entry to block b (conditions of dominating edges).
func (P *Prover) factsAt(b *ssa.BasicBlock) []Poly {
	var fs []Poly
	for x := b; x != nil; x = x.Idom() {
		if len(x.Preds) == 1 {
			fs = append(fs, P.edgeFacts(x.Preds[0], x)...)
			continue
		}
		// a loop header entered straight from a branch (an outer loop with an empty body before the
		// inner one): what the entry edge establishes about values the loop does not define holds on
		// the back edges too, hence everywhere in the loop
		var entry *ssa.BasicBlock
		n := 0
		for _, p := range x.Preds {
			if !x.Dominates(p) {
				entry = p
				n++
			}
		}
		if n != 1 || len(x.Preds) < 2 {
			continue
		}
		for _, f := range P.edgeFacts(entry, x) {
			inv := true
			P.atomsOf(f, func(a *Atom) {
				var chk func(a *Atom)
				chk = func(a *Atom) {
					if in, ok := a.val.(ssa.Instruction); ok && a.val != nil {
						if x.Dominates(in.Block()) {
							inv = false
						}
						if _, isLoad := a.val.(*ssa.UnOp); isLoad {
							inv = false // memory may change inside the loop
						}
					}
					if a.kind == aDiv || a.kind == aRem || a.kind == aStr || a.kind == aTab {
						P.atomsOf(a.inner, chk)
					}
				}
				chk(a)
			})
			if inv {
				fs = append(fs, f)
			}
		}
	}
	return fs
}

func (P *Prover) edgeFacts(p, x *ssa.BasicBlock) []Poly {
	if len(p.Instrs) == 0 {
		return nil
	}
	if iff, ok := p.Instrs[len(p.Instrs)-1].(*ssa.If); ok && p.Succs[0] != p.Succs[1] {
		return P.condFacts(iff.Cond, p.Succs[0] == x)
	}
	return nil
}

// resolveNeq turns d != 0 into d >= 1 or d <= -1 when the sign of d is provable.
func (P *Prover) resolveNeq(fs []Poly, depth int) []Poly {
	var out, neqs []Poly
	for _, f := range fs {
		if _, ok := f["!="]; ok {
			d := f.clone()
			delete(d, "!=")
			neqs = append(neqs, d)
		} else {
			out = append(out, f)
		}
	}
	// to a fixpoint: resolving one disequality may give the sign needed by another
	done := make([]bool, len(neqs))
	for changed := true; changed; {
		changed = false
		for i, d := range neqs {
			if done[i] {
				continue
			}
			if P.elim(d.scale(-1), out, depth) { // d >= 0
				out = append(out, d.scale(-1).add(constP(1), 1)) // 1 - d <= 0
				done[i], changed = true, true
			} else if P.elim(d, out, depth) { // d <= 0
				out = append(out, d.add(constP(1), 1))
				done[i], changed = true, true
			}
		}
	}
	for i, d := range neqs {
		if !done[i] {
			out = append(out, P.neqMarker(d))
		}
	}
	return out
}

func (P *Prover) atomsOf(p Poly, f func(a *Atom)) {
	for m := range p {
		if m == "" || m == "!=" {
			continue
		}
		for _, s := range strings.Split(m, "*") {
			id, _ := strconv.Atoi(s)
			f(P.atoms[id])
		}
	}
}

// divFacts adds, for every div atom in the goal or facts, c*div <= inner <= c*div + c-1 when inner >= 0 is provable.
func (P *Prover) divFacts(goal Poly, facts []Poly, depth int, blk *ssa.BasicBlock, hyps []hyp) []Poly {
	seen := map[int]bool{}
	out := facts
	var pending []*Atom
	var walk func(p Poly)
	walk = func(p Poly) {
		P.atomsOf(p, func(a *Atom) {
			if seen[a.id] {
				return
			}
			seen[a.id] = true
			if a.kind == aDiv || a.kind == aRem || a.kind == aStr {
				if a.kind == aDiv {
					pending = append(pending, a)
				}
				walk(a.inner)
			}
		})
	}
	walk(goal)
	for _, f := range facts {
		walk(f)
	}
	for _, a := range pending {
		nonneg := a.uns
		if !nonneg {
			nonneg = P.elim(a.inner.scale(-1), out, depth-1)
		}
		if !nonneg && !P.divDone[a.id] {
			P.divDone[a.id] = true // recursion guard
			nonneg = P.prove(a.inner.scale(-1), blk, nil, hyps, 3)
			delete(P.divDone, a.id)
		}
		if !nonneg {
			continue
		}
		ap := atomP(a.id)
		out = append(out, ap.scale(a.c).add(a.inner, -1))                          // c*div - inner <= 0
		out = append(out, a.inner.add(constP(-(a.c-1)), 1).add(ap.scale(a.c), -1)) // inner-(c-1) - c*div <= 0
		out = append(out, ap.scale(-1))                                            // div >= 0
	}
	return out
}

// elim derives goal <= 0 from facts by successive elimination with integer tightening.
func (P *Prover) elim(goal Poly, facts []Poly, depth int) bool {
	if c, ok := goal.isConst(); ok {
		return c <= 0
	}
	if depth <= 0 || P.budget <= 0 {
		return false
	}
	P.budget--
	P.nodes++
	for _, m := range goal.monos() {
		cg := goal[m]
		for _, f := range facts {
			cf, ok := f[m]
			if !ok || (cf > 0) != (cg > 0) {
				continue
			}
			a, b := abs64(cf), abs64(cg)
			g2 := goal.scale(a).add(constP(-(a-1)), 1).add(f, -b)
			if len(g2.monos()) > len(goal.monos())+1 {
				continue
			}
			if P.elim(g2, facts, depth-1) {
				return true
			}
		}
	}
	return false
}

func abs64(x int64) int64 {
	if x < 0 {
		return -x
	}
	return x
}

// Prove goal <= 0 at entry of block blk (after its phis).
func (P *Prover) Prove(goal Poly, blk *ssa.BasicBlock) bool {
	return P.ProveWith(goal, blk, nil)
}

// ProveWith proves goal at blk under additional facts.
func (P *Prover) ProveWith(goal Poly, blk *ssa.BasicBlock, extra []Poly) bool {
	P.budget = P.Budget
	P.calls = 0
	P.splitAt = P.DProve
	if P.prove(goal, blk, extra, nil, P.DProve) {
		return true
	}
	if P.inKarr || P.useKarr || P.noKarr || len(P.phisIn(goal)) == 0 && !P.mentionsLoopState(blk) {
		return false
	}
	// second attempt with the affine equalities between loop counters (karr.go) and the constant
	// bounds of phis (phiBounds) among the facts
	P.useKarr = true
	P.gen++
	P.budget = P.Budget
	P.calls = 0
	res := P.prove(goal, blk, extra, nil, P.DProve)
	P.useKarr = false
	P.gen++
	return res
}

// mentionsLoopState: blk lies inside some loop (is dominated by a block with an integer phi).
func (P *Prover) mentionsLoopState(blk *ssa.BasicBlock) bool {
	for x := blk; x != nil; x = x.Idom() {
		for _, in := range x.Instrs {
			phi, ok := in.(*ssa.Phi)
			if !ok {
				break
			}
			if isInt(phi.Type()) {
				return true
			}
		}
	}
	return false
}

// phiBounds: constant bounds of integer phis by an interval iteration over the phi graph
// (conditions ignored; x+c and x-c followed; everything else unbounded; widening after a few rounds).
func (P *Prover) phiBounds() []Poly {
	if P.phiB != nil {
		return P.phiB
	}
	P.phiB = []Poly{}
	type iv struct{ lo, hi int64 }
	val := map[*ssa.Phi]iv{}
	var phis []*ssa.Phi
	for _, b := range P.fn.Blocks {
		for _, in := range b.Instrs {
			phi, ok := in.(*ssa.Phi)
			if !ok {
				break
			}
			if isInt(phi.Type()) && intBits(phi.Type()) == 64 {
				phis = append(phis, phi)
			}
		}
	}
	var eval func(v ssa.Value, depth int) (iv, bool) // false = bottom (not yet known)
	eval = func(v ssa.Value, depth int) (iv, bool) {
		v = strip(v)
		if c, ok := constInt(v); ok {
			return iv{c, c}, true
		}
		switch x := v.(type) {
		case *ssa.Phi:
			if r, ok := val[x]; ok {
				return r, true
			}
			for _, p := range phis {
				if p == x {
					return iv{}, false // tracked, not reached yet
				}
			}
		case *ssa.BinOp:
			if depth < 4 && (x.Op == token.ADD || x.Op == token.SUB) && intBits(x.Type()) == 64 {
				if c, ok := constInt(strip(x.Y)); ok && c > -(1<<30) && c < 1<<30 {
					if x.Op == token.SUB {
						c = -c
					}
					r, ok := eval(x.X, depth+1)
					if !ok {
						return r, false
					}
					if isUnsigned(x.Type()) && c < 0 {
						// an unsigned decrement wraps below zero: use a dominating guard  operand >= k
						op := P.poly(x.X)
						for _, f := range P.factsAt(x.Block()) {
							d := f.add(op, 1) // f = k - operand  =>  d = k
							if k, isC := d.isConst(); isC && k > r.lo {
								r.lo = k
							}
						}
						if r.lo+c < 0 {
							return iv{0, maxI}, true
						}
					}
					if r.lo != minI {
						r.lo += c
					}
					if r.hi != maxI {
						r.hi += c
					}
					return r, true
				}
			}
		}
		lo, hi := minI, maxI
		if l, h, ok := P.rangeOf(v); ok {
			lo, hi = l, h
		}
		return iv{lo, hi}, true
	}
	for round := 0; round < 12; round++ {
		changed := false
		for _, phi := range phis {
			cur, have := val[phi]
			nw, any := iv{maxI, minI}, false
			for _, e := range phi.Edges {
				r, ok := eval(e, 0)
				if !ok {
					continue
				}
				any = true
				if r.lo < nw.lo {
					nw.lo = r.lo
				}
				if r.hi > nw.hi {
					nw.hi = r.hi
				}
			}
			if !any {
				continue
			}
			if have {
				if cur.lo < nw.lo {
					nw.lo = cur.lo
				}
				if cur.hi > nw.hi {
					nw.hi = cur.hi
				}
				if round >= 6 { // widening
					if nw.lo < cur.lo {
						nw.lo = minI
					}
					if nw.hi > cur.hi {
						nw.hi = maxI
					}
				}
			}
			if !have || nw != cur {
				val[phi] = nw
				changed = true
			}
		}
		if !changed {
			break
		}
	}
	for _, phi := range phis {
		r, ok := val[phi]
		if !ok {
			continue
		}
		tlo, thi, _ := typeRange(phi.Type())
		p := P.poly(phi)
		if r.hi < thi && r.hi != maxI {
			P.phiB = append(P.phiB, p.add(constP(-r.hi), 1))
		}
		if r.lo > tlo && r.lo != minI {
			P.phiB = append(P.phiB, p.scale(-1).add(constP(r.lo), 1))
		}
	}
	return P.phiB
}

// Unreachable reports whether the facts dominating blk, together with the assumptions in extra
// (valid everywhere in the function, e.g. known argument values), are contradictory.
func (P *Prover) Unreachable(blk *ssa.BasicBlock, extra []Poly) bool {
	saved := P.global
	P.global = append(append([]Poly{}, P.global...), extra...)
	P.gen++
	defer func() { P.global = saved; P.gen++ }()
	P.budget = P.Budget
	P.calls = 0
	// a dominating disequality d != 0 is contradicted by proving d == 0 (phi-induction allowed)
	for _, f := range P.factsAt(blk) {
		if _, isNeq := f["!="]; !isNeq {
			continue
		}
		d := f.clone()
		delete(d, "!=")
		if P.prove(d, blk, nil, nil, P.DProve) && P.prove(d.scale(-1), blk, nil, nil, P.DProve) {
			return true
		}
	}
	return P.prove(constP(1), blk, nil, nil, P.DProve)
}

// inconsistent: two single-atom linear facts give that atom an empty range.
func (P *Prover) inconsistent(facts []Poly) bool {
	lo := map[string]int64{}
	hi := map[string]int64{}
	for _, f := range facts {
		if c, isC := f.isConst(); isC && c > 0 {
			return true // a fact of the form c <= 0 with c > 0 (an edge condition that is false on this path)
		}
		ms := f.monos()
		if len(ms) != 1 || strings.Contains(ms[0], "*") || ms[0] == "!=" {
			continue
		}
		a, c := f[ms[0]], f[""]
		// a*x + c <= 0
		if a > 0 {
			b := floorDiv(-c, a)
			if v, ok := hi[ms[0]]; !ok || b < v {
				hi[ms[0]] = b
			}
		} else {
			b := ceilDiv(c, -a)
			if v, ok := lo[ms[0]]; !ok || b > v {
				lo[ms[0]] = b
			}
		}
	}
	for m, l := range lo {
		if h, ok := hi[m]; ok && l > h {
			return true
		}
	}
	return false
}

// pairInconsistent: one of the edge facts and one other fact add up to a positive constant <= 0
// (x < B on one edge, x >= B on the other).
func pairInconsistent(fresh, all []Poly) bool {
	for _, f := range fresh {
		if _, isNeq := f["!="]; isNeq {
			continue
		}
		for _, g := range all {
			if _, isNeq := g["!="]; isNeq || len(g) > len(f)+1 || len(f) > len(g)+1 {
				continue
			}
			if c, isC := f.add(g, 1).isConst(); isC && c > 0 {
				return true
			}
		}
	}
	return false
}

func floorDiv(a, b int64) int64 {
	q := a / b
	if (a%b != 0) && ((a < 0) != (b < 0)) {
		q--
	}
	return q
}
func ceilDiv(a, b int64) int64 { return -floorDiv(-a, b) }

func (P *Prover) prove(goal Poly, blk *ssa.BasicBlock, extra []Poly, hyps []hyp, depth int) bool {
	if c, ok := goal.isConst(); ok && c <= 0 {
		return true
	}
	if depth <= 0 {
		return false
	}
	// sub-goals without hypotheses or edge facts recur often (signs of divisors, ranges of bytes)
	applicable := 0
	for _, h := range hyps {
		if h.blk == blk || h.blk.Dominates(blk) {
			applicable++
		}
	}
	if len(extra) == 0 && applicable == 0 && (len(hyps) == 0 || len(blk.Preds) == 0) && !P.inNeq && P.inSplit == 0 {
		key := fmt.Sprintf("%s@%d/%d/%d", goal.key(), blk.Index, depth, P.gen)
		if r, ok := P.memo[key]; ok {
			return r
		}
		res := P.prove1(goal, blk, extra, hyps, depth)
		if res || P.budget > 0 {
			P.memo[key] = res
		}
		return res
	}
	res := P.prove1(goal, blk, extra, hyps, depth)
	if P.trace {
		fmt.Printf("%s=> %v  (%s at b%d, %d extra, %d hyps)\n", strings.Repeat(" ", P.DProve-depth), res, P.show(goal), blk.Index, len(extra), len(hyps))
	}
	return res
}

func (P *Prover) prove1(goal Poly, blk *ssa.BasicBlock, extra []Poly, hyps []hyp, depth int) bool {
	P.calls++
	if P.calls > proveCallsHigh {
		proveCallsHigh = P.calls
	}
	if P.calls > maxProveCalls {
		return false
	}
	// dominating-edge facts first: building them may create atoms whose type facts must be visible below
	dom := P.factsAt(blk)
	facts := append([]Poly{}, P.global...)
	facts = append(facts, dom...)
	facts = append(facts, extra...)
	if P.inRatio {
		// lock-step relations between loop counters: only the ratio-lemma search needs them
		for h, fs := range P.hdrFacts {
			if h == blk || h.Dominates(blk) {
				facts = append(facts, fs...)
			}
		}
	}
	for _, h := range hyps {
		if h.blk == blk || h.blk.Dominates(blk) {
			facts = append(facts, h.goal)
		}
	}
	if P.useKarr && !P.inKarr {
		facts = append(facts, P.karrFacts(blk)...)
		facts = append(facts, P.phiBounds()...)
	}
	facts = P.resolveNeq(facts, 4)
	// a disequality whose sign needs an inductive argument (first := -1; ...; if first != -1)
	if !P.inNeq && depth >= 2 {
		P.inNeq = true
		for _, f := range facts {
			if _, isNeq := f["!="]; !isNeq {
				continue
			}
			d := f.clone()
			delete(d, "!=")
			if len(P.phisIn(d)) == 0 {
				continue
			}
			if P.phiStep(d.scale(-1), blk, hyps, 3) { // d >= 0
				facts = append(facts, d.scale(-1).add(constP(1), 1))
			} else if P.phiStep(d, blk, hyps, 3) { // d <= 0
				facts = append(facts, d.add(constP(1), 1))
			}
		}
		P.inNeq = false
	}
	if P.inconsistent(facts) || pairInconsistent(extra, facts) {
		return true // the block (or edge) is infeasible under the known facts: anything holds
	}
	facts = P.divFacts(goal, facts, 4, blk, hyps)
	// type facts of atoms created while building facts
	facts = append(facts, P.global...)
	if P.trace {
		fmt.Printf("%sprove %s at b%d with %d facts\n", strings.Repeat(" ", P.DProve-depth), P.show(goal), blk.Index, len(facts))
	}
	if c, ok := goal.isConst(); ok {
		// constant positive goal: provable only from contradictory facts
		for _, f := range facts {
			if _, isNeq := f["!="]; isNeq {
				continue
			}
			neg := f.scale(-1).add(constP(1), 1) // f >= 1 contradicts f <= 0
			if P.elim(neg, facts, P.DElim) {
				return true
			}
		}
		// phi-induction on the negation of each dominating condition (e.g. a loop test that can never hold)
		if depth >= 2 {
			for _, f := range dom {
				if _, isNeq := f["!="]; isNeq {
					continue
				}
				neg := f.scale(-1).add(constP(1), 1)
				if len(P.phisIn(neg)) > 0 && P.phiStep(neg, blk, hyps, depth) {
					return true
				}
			}
		}
		_ = c
		return P.splitPreds(goal, blk, extra, hyps, depth)
	}
	if P.elim(goal, facts, P.DElim) {
		return true
	}
	// eliminate one step, then try phi-induction on the goal and on each residual; a third of the
	// remaining budget is kept back for the path-sensitive attempts that follow
	cands := []Poly{goal}
	for _, m := range goal.monos() {
		cg := goal[m]
		for _, f := range facts {
			cf, ok := f[m]
			if !ok || (cf > 0) != (cg > 0) {
				continue
			}
			a, b := abs64(cf), abs64(cg)
			g2 := goal.scale(a).add(constP(-(a-1)), 1).add(f, -b)
			if len(g2.monos()) <= len(goal.monos())+1 {
				cands = append(cands, g2)
			}
		}
	}
	for _, g := range cands {
		if P.trace {
			fmt.Printf("%s cand %s\n", strings.Repeat(" ", P.DProve-depth), P.show(g))
		}
		if P.phiStep(g, blk, hyps, depth) {
			return true
		}
	}
	if depth == P.splitAt && P.inSplit <= 3 && len(blk.Preds) >= 2 && P.budget < P.Budget/2 {
		P.budget = P.Budget / 2 // the path-sensitive attempt at a goal of the top-level chain has its own allowance
	}
	if P.splitPreds(goal, blk, extra, hyps, depth) {
		return true
	}
	if depth == P.DProve && len(hyps) == 0 {
		return P.ratioLemma(goal, blk, extra, hyps, depth)
	}
	return false
}

// lockStep records, for every pair of integer phis of one loop header that both move by a constant on
// every back edge, the linear relation between them: with x = phi(x0, x+a) and y = phi(y0, y+b),
// b*(x - x0) = a*(y - y0) on every visit of the header (both count the trips round the loop).
func (P *Prover) lockStep() {
	if P.fn == nil {
		return
	}
	type cphi struct {
		ph   *ssa.Phi
		init ssa.Value
		step int64
	}
	for _, h := range P.fn.Blocks {
		if len(h.Preds) < 2 {
			continue
		}
		var cs []cphi
		for _, in := range h.Instrs {
			ph, ok := in.(*ssa.Phi)
			if !ok {
				break
			}
			if !isInt(ph.Type()) {
				continue
			}
			var init ssa.Value
			var step int64
			good, haveStep, backs := true, false, 0
			for i, pred := range h.Preds {
				e := ph.Edges[i]
				if h.Dominates(pred) { // back edge
					backs++
					bo, isBo := e.(*ssa.BinOp)
					if !isBo || bo.X != ssa.Value(ph) || (bo.Op != token.ADD && bo.Op != token.SUB) {
						good = false
						break
					}
					k, isK := constInt(bo.Y)
					if !isK {
						good = false
						break
					}
					if bo.Op == token.SUB {
						k = -k
					}
					if haveStep && k != step {
						good = false
						break
					}
					step, haveStep = k, true
				} else {
					if init != nil && init != e {
						good = false
						break
					}
					init = e
				}
			}
			if good && backs > 0 && init != nil && haveStep {
				cs = append(cs, cphi{ph, init, step})
			}
		}
		for i := 0; i < len(cs); i++ {
			for j := i + 1; j < len(cs); j++ {
				x, y := cs[i], cs[j]
				dx := P.poly(x.ph).add(P.poly(x.init), -1)
				dy := P.poly(y.ph).add(P.poly(y.init), -1)
				rel := dx.scale(y.step).add(dy.scale(x.step), -1) // b*dx - a*dy == 0
				P.hdrFacts[h] = append(P.hdrFacts[h], rel, rel.scale(-1))
			}
		}
	}
}

// proveAnchored proves that goal holds whenever control is at block A, whose only predecessor is the
// loop header H, by induction over the visits of A: on each edge into H the goal with H's phis
// replaced by their incoming values must follow from the facts there, the condition of the edge
// H -> A after the same replacement (the loop is only continued when it holds), and the goal itself
// for the previous visit of A.
func (P *Prover) proveAnchored(goal Poly, A *ssa.BasicBlock, hyps []hyp, depth int) bool {
	if len(A.Preds) != 1 || depth < 2 {
		return false
	}
	H := A.Preds[0]
	if len(H.Preds) < 2 {
		return false
	}
	var phis []*ssa.Phi
	for _, in := range H.Instrs {
		ph, ok := in.(*ssa.Phi)
		if !ok {
			break
		}
		phis = append(phis, ph)
	}
	if !P.availableBefore(goal, H) {
		return false
	}
	cond := P.edgeFacts(H, A)
	nh := append(append([]hyp{}, hyps...), hyp{A, goal})
	savedAt := P.splitAt
	P.splitAt = depth - 1
	defer func() { P.splitAt = savedAt }()
	for i, pred := range H.Preds {
		sub := map[ssa.Value]ssa.Value{}
		for _, ph := range phis {
			sub[ph] = ph.Edges[i]
		}
		g := P.subst(goal, sub)
		var ex []Poly
		for _, f := range cond {
			if P.availableBefore(f, H) {
				ex = append(ex, P.subst(f, sub))
			}
		}
		ex = append(ex, P.edgeFacts(pred, H)...)
		if P.trace {
			fmt.Printf("%sanchored b%d via b%d: %s\n", strings.Repeat(" ", P.DProve-depth), A.Index, pred.Index, P.show(g))
		}
		if !P.prove(g, pred, ex, nh, depth-1) {
			return false
		}
	}
	return true
}

// ratioLemma: the goal mentions a phi x of a loop header that advances by exactly one per trip. If a
// sibling phi y advances by at least K per trip whenever the loop goes round again, then
// K*(x - x0) <= y - y0 at the top of the body; the lemma is proved by anchored induction for small K
// and the goal is retried with it.
func (P *Prover) ratioLemma(goal Poly, blk *ssa.BasicBlock, extra []Poly, hyps []hyp, depth int) bool {
	if P.inRatio || depth < 3 {
		return false
	}
	P.inRatio = true
	saved := P.budget
	defer func() { P.inRatio = false; P.budget = saved }()
	// candidate ratios: the divisors by which the dominating facts divide (a length guard written as
	// start + (bits+K-1)/K <= len relates a byte position to a bit position by K)
	kset := map[int64]bool{}
	var collect func(q Poly)
	collect = func(q Poly) {
		P.atomsOf(q, func(a *Atom) {
			if a.kind == aDiv && a.c >= 2 && a.c <= 64 {
				kset[a.c] = true
			}
			if a.inner != nil {
				collect(a.inner)
			}
		})
	}
	collect(goal)
	for _, f := range P.factsAt(blk) {
		collect(f)
	}
	var Ks []int64
	for k := range kset {
		Ks = append(Ks, k)
	}
	sort.Slice(Ks, func(i, j int) bool { return Ks[i] > Ks[j] })
	if len(Ks) > 3 {
		Ks = Ks[:3]
	}
	if len(Ks) == 0 {
		return false
	}
	pool := P.Budget // one further budget for all lemma attempts together
	for _, x := range P.phisIn(goal) {
		H := x.Block()
		if len(H.Preds) < 2 || !isInt(x.Type()) || !H.Dominates(blk) || H == blk {
			continue
		}
		// unit step on every back edge, one entry value
		var x0 ssa.Value
		unit, backs := true, 0
		for i, pred := range H.Preds {
			if H.Dominates(pred) {
				backs++
				if P.poly(x.Edges[i]).add(P.poly(x), -1).add(constP(-1), 1).key() != "" {
					unit = false
				}
			} else {
				if x0 != nil && x0 != x.Edges[i] {
					unit = false
				}
				x0 = x.Edges[i]
			}
		}
		if !unit || backs == 0 || x0 == nil {
			continue
		}
		// the body entry: the successor of H that dominates blk and has H as its only predecessor
		var A *ssa.BasicBlock
		for _, s := range H.Succs {
			if len(s.Preds) == 1 && (s == blk || s.Dominates(blk)) {
				A = s
			}
		}
		if A == nil {
			continue
		}
		for _, in := range H.Instrs {
			y, ok := in.(*ssa.Phi)
			if !ok {
				break
			}
			if y == x || !isInt(y.Type()) {
				continue
			}
			var y0 ssa.Value
			okY := true
			for i, pred := range H.Preds {
				if !H.Dominates(pred) {
					if y0 != nil && y0 != y.Edges[i] {
						okY = false
					}
					y0 = y.Edges[i]
				}
			}
			if !okY || y0 == nil {
				continue
			}
			dx := P.poly(x).add(P.poly(x0), -1)
			dy := P.poly(y).add(P.poly(y0), -1)
			for _, K := range Ks {
				if pool <= 0 {
					return false
				}
				lemma := dx.scale(K).add(dy, -1)
				P.budget = pool
				okL := P.proveAnchored(lemma, A, hyps, depth-1)
				pool = P.budget
				if P.trace {
					fmt.Printf("%sratio lemma %s at b%d: %v\n", strings.Repeat(" ", P.DProve-depth), P.show(lemma), A.Index, okL)
				}
				if !okL {
					continue
				}
				ok := P.prove(goal, blk, append(append([]Poly{}, extra...), lemma), hyps, depth-1)
				pool = P.budget
				if ok {
					return true
				}
				break // a larger K implies the smaller ones
			}
		}
	}
	return false
}

// availableBefore: every value the polynomial mentions is a phi of blk or is defined in a block
// that strictly dominates blk (so it has the same meaning at the end of each predecessor).
func (P *Prover) availableBefore(p Poly, blk *ssa.BasicBlock) bool {
	ok := true
	var walk func(q Poly)
	check := func(v ssa.Value) {
		in, isIn := v.(ssa.Instruction)
		if !isIn || in.Block() == nil {
			return
		}
		if _, isPhi := v.(*ssa.Phi); isPhi && in.Block() == blk {
			return
		}
		if in.Block() == blk || !in.Block().Dominates(blk) {
			ok = false
		}
	}
	walk = func(q Poly) {
		P.atomsOf(q, func(a *Atom) {
			if a.val != nil {
				check(a.val)
			}
			if a.inner != nil {
				walk(a.inner)
			}
		})
	}
	walk(p)
	return ok
}

// splitPreds proves the goal at a block with several predecessors by proving it at the end of each
// predecessor, with the phis of the block replaced by the values they receive on that edge - in the
// goal and in the extra facts alike - and the condition of that edge added. At a plain join this
// makes the argument path-sensitive; at a loop header it is used only to look one step back under
// facts that mention the header's phis (for example the condition of the edge leaving the loop),
// without any induction hypothesis.
func (P *Prover) splitPreds(goal Poly, blk *ssa.BasicBlock, extra []Poly, hyps []hyp, depth int) bool {
	if len(blk.Preds) < 2 || depth < 2 || P.inSplit > 3 || depth != P.splitAt {
		return false
	}
	isHeader := false
	for _, p := range blk.Preds {
		if blk.Dominates(p) {
			isHeader = true
		}
	}
	var phis []*ssa.Phi
	for _, in := range blk.Instrs {
		ph, ok := in.(*ssa.Phi)
		if !ok {
			break
		}
		phis = append(phis, ph)
	}
	if isHeader {
		uses := false
		for _, f := range extra {
			for _, ph := range P.phisIn(f) {
				if ph.Block() == blk {
					uses = true
				}
			}
		}
		if !uses {
			return false // plain induction over the header is phiStep's job
		}
	}
	if !P.availableBefore(goal, blk) {
		return false
	}
	P.inSplit++
	savedAt := P.splitAt
	P.splitAt = depth - 1
	defer func() { P.inSplit--; P.splitAt = savedAt }()
	for i, pred := range blk.Preds {
		sub := map[ssa.Value]ssa.Value{}
		for _, ph := range phis {
			sub[ph] = ph.Edges[i]
		}
		g := P.subst(goal, sub)
		var ex []Poly
		for _, f := range extra {
			if P.availableBefore(f, blk) {
				ex = append(ex, P.subst(f, sub))
			}
		}
		ex = append(ex, P.edgeFacts(pred, blk)...)
		if P.trace {
			fmt.Printf("%ssplit b%d <- b%d: %s\n", strings.Repeat(" ", P.DProve-depth), blk.Index, pred.Index, P.show(g))
		}
		if !P.prove(g, pred, ex, hyps, depth-1) {
			return false
		}
	}
	return true
}

// phiStep: take the innermost block holding a phi of the goal; prove the goal on every incoming edge.
func (P *Prover) phiStep(goal Poly, blk *ssa.BasicBlock, hyps []hyp, depth int) bool {
	phis := P.phisIn(goal)
	if len(phis) == 0 {
		return false
	}
	var pb *ssa.BasicBlock
	for _, ph := range phis {
		if pb == nil || pb.Dominates(ph.Block()) {
			pb = ph.Block()
		}
	}
	for _, h := range hyps {
		if h.blk == pb && h.goal.key() == goal.key() {
			return true // coinductive hypothesis
		}
	}
	nh := append(append([]hyp{}, hyps...), hyp{pb, goal})
	for i, pred := range pb.Preds {
		sub := map[ssa.Value]ssa.Value{}
		for _, ph := range phis {
			if ph.Block() == pb {
				sub[ph] = ph.Edges[i]
			}
		}
		g := P.subst(goal, sub)
		extra := P.edgeFacts(pred, pb)
		if !P.prove(g, pred, extra, nh, depth-1) {
			return false
		}
	}
	return true
}

// atomIDOf: the id of the opaque atom standing for v (created if needed).
func (P *Prover) atomIDOf(v ssa.Value) int {
	q := P.poly(v)
	for m := range q {
		if m != "" && !strings.Contains(m, "*") {
			return atoi(m)
		}
	}
	return -1
}

func (P *Prover) phisIn(p Poly) []*ssa.Phi {
	seen := map[*ssa.Phi]bool{}
	var out []*ssa.Phi
	var walkPoly func(q Poly)
	walkPoly = func(q Poly) {
		P.atomsOf(q, func(a *Atom) {
			switch a.kind {
			case aVal, aLen, aNil:
				if ph, ok := a.val.(*ssa.Phi); ok && !seen[ph] {
					seen[ph] = true
					out = append(out, ph)
				}
			case aDiv, aRem:
				walkPoly(a.inner)
			case aStr:
				if ph, ok := a.val.(*ssa.Phi); ok && !seen[ph] {
					seen[ph] = true
					out = append(out, ph)
				}
				walkPoly(a.inner)
			}
		})
	}
	walkPoly(p)
	return out
}

// subst rebuilds p with SSA values replaced.
func (P *Prover) subst(p Poly, sub map[ssa.Value]ssa.Value) Poly {
	out := Poly{}
	for m, c := range p {
		if m == "!=" {
			out[m] = c
			continue
		}
		term := constP(c)
		if m != "" {
			for _, s := range strings.Split(m, "*") {
				id, _ := strconv.Atoi(s)
				term = term.mul(P.substAtom(P.atoms[id], sub))
			}
		}
		out = out.add(term, 1)
	}
	return out
}

func (P *Prover) substAtom(a *Atom, sub map[ssa.Value]ssa.Value) Poly {
	switch a.kind {
	case aVal:
		if nv, ok := sub[a.val]; ok {
			return P.poly(nv)
		}
	case aLen:
		if nv, ok := sub[a.val]; ok {
			return P.lenOf(nv)
		}
	case aNil:
		if nv, ok := sub[a.val]; ok {
			return P.nilP(nv)
		}
	case aDiv:
		in := P.subst(a.inner, sub)
		if in.key() != a.inner.key() {
			return P.divP(in, a.c, a.uns)
		}
	case aRem:
		in := P.subst(a.inner, sub)
		if in.key() != a.inner.key() {
			return atomP(P.atom(aRem, nil, in, a.c, a.uns).id)
		}
	case aStr:
		in := P.subst(a.inner, sub)
		v := a.val
		if nv, ok := sub[a.val]; ok {
			v = strip(nv)
		}
		if v != a.val || in.key() != a.inner.key() {
			return atomP(P.atom(aStr, v, in, 0, true).id)
		}
	}
	return atomP(a.id)
}

func (P *Prover) show(p Poly) string {
	var parts []string
	for _, m := range p.monos() {
		if m == "!=" {
			parts = append(parts, "(!=0)")
			continue
		}
		var names []string
		for _, s := range strings.Split(m, "*") {
			id, _ := strconv.Atoi(s)
			names = append(names, P.showAtom(P.atoms[id]))
		}
		parts = append(parts, fmt.Sprintf("%+d·%s", p[m], strings.Join(names, "·")))
	}
	if c := p[""]; c != 0 {
		parts = append(parts, fmt.Sprintf("%+d", c))
	}
	if len(parts) == 0 {
		return "0 <= 0"
	}
	return strings.Join(parts, " ") + " <= 0"
}

func (P *Prover) showTerm(p Poly) string { return strings.TrimSuffix(P.show(p), " <= 0") }

func (P *Prover) showAtom(a *Atom) string {
	switch a.kind {
	case aVal:
		return valName(a.val)
	case aLen:
		return "len(" + valName(a.val) + ")"
	case aNil:
		return "isnil(" + valName(a.val) + ")"
	case aDiv:
		return "(" + P.showTerm(a.inner) + ")/" + fmt.Sprint(a.c)
	case aRem:
		return "(" + P.showTerm(a.inner) + ")%" + fmt.Sprint(a.c)
	case aStr, aTab:
		return valName(a.val) + "[" + P.showTerm(a.inner) + "]"
	}
	return "?"
}

// valName gives a readable, line-independent name for an SSA value.
func valName(v ssa.Value) string {
	switch x := v.(type) {
	case *ssa.Parameter:
		return x.Name()
	case *ssa.Phi:
		if x.Comment != "" {
			return x.Comment
		}
	case *ssa.Global:
		return x.Name()
	case *ssa.UnOp:
		if x.Op == token.MUL {
			return "*" + valName(x.X)
		}
	case *ssa.FieldAddr:
		st := x.X.Type().Underlying().(*types.Pointer).Elem().Underlying().(*types.Struct)
		return valName(x.X) + "." + st.Field(x.Field).Name()
	case *ssa.Field:
		st := x.X.Type().Underlying().(*types.Struct)
		return valName(x.X) + "." + st.Field(x.Field).Name()
	case *ssa.IndexAddr:
		return valName(x.X) + "[" + valName(x.Index) + "]"
	case *ssa.Alloc:
		if x.Comment != "" {
			return x.Comment
		}
	case *ssa.Const:
		return x.Name()
	case *ssa.Convert:
		return valName(x.X)
	case *ssa.ChangeType:
		return valName(x.X)
	case *ssa.BinOp:
		return "(" + valName(x.X) + x.Op.String() + valName(x.Y) + ")"
	case *ssa.Call:
		if b, ok := x.Call.Value.(*ssa.Builtin); ok && len(x.Call.Args) > 0 {
			return b.Name() + "(" + valName(x.Call.Args[0]) + ")"
		}
		if f := x.Call.StaticCallee(); f != nil {
			return f.Name() + "(..)"
		}
	}
	return v.Name()
}

// ---------------------------------------------------------------- available loads

type ipos struct {
	b *ssa.BasicBlock
	i int
}

// canon maps a load to the dominating load of the same access path with no intervening
// may-write (per E-EFF), so that both are one atom.
func (P *Prover) canon(v ssa.Value) ssa.Value {
	if r, ok := P.loadRep[v]; ok {
		return r
	}
	return v
}

func isLoad(in ssa.Instruction) (*ssa.UnOp, bool) {
	u, ok := in.(*ssa.UnOp)
	if ok && u.Op == token.MUL {
		return u, true
	}
	return nil, false
}

func (P *Prover) addrKey(a ssa.Value) (string, bool) {
	switch x := a.(type) {
	case *ssa.FieldAddr:
		k, ok := P.addrKey(x.X)
		st := x.X.Type().Underlying().(*types.Pointer).Elem().Underlying().(*types.Struct)
		return k + "." + st.Field(x.Field).Name(), ok
	case *ssa.IndexAddr:
		k, ok := P.addrKey(x.X)
		return k + "[" + P.poly(x.Index).key() + "]", ok
	case *ssa.UnOp:
		if x.Op == token.MUL {
			return fmt.Sprintf("ld%p", P.canon(x)), true
		}
	case *ssa.Slice:
		if x.Low == nil {
			return P.addrKey(x.X)
		}
		return "", false
	case *ssa.Parameter, *ssa.Global, *ssa.Alloc, *ssa.FreeVar, *ssa.MakeSlice, *ssa.Phi, *ssa.Call, *ssa.Extract:
		return fmt.Sprintf("v%p", a), true
	case *ssa.ChangeType:
		return P.addrKey(x.X)
	}
	return fmt.Sprintf("v%p", a), true
}

func aliases(a, w locset) bool {
	for x := range a {
		for y := range w {
			if x.o != y.o {
				continue
			}
			if x.p == y.p || y.p == "" || x.p == "" || strings.HasPrefix(x.p, y.p+".") || strings.HasPrefix(y.p, x.p+".") {
				return true
			}
		}
	}
	return false
}

func (P *Prover) computeLoads() {
	P.loadRep = map[ssa.Value]ssa.Value{}
	if P.c == nil {
		return
	}
	E := P.c.Eff()
	f := E.fas[P.fn]
	if f == nil {
		return
	}
	P.loadsOK = true
	P.f = f
	where := map[ssa.Instruction]ipos{}
	var writers []ssa.Instruction
	for _, b := range P.fn.Blocks {
		for i, in := range b.Instrs {
			where[in] = ipos{b, i}
			if len(f.iw[in]) > 0 {
				writers = append(writers, in)
			}
		}
	}
	P.where, P.writers = where, writers
	byKey := map[string][]*ssa.UnOp{}
	for _, b := range P.fn.DomPreorder() {
		for _, in := range b.Instrs {
			ld, ok := isLoad(in)
			if !ok {
				continue
			}
			// a variable that lives in a cell only because a closure reads it, and is assigned once:
			// every load after the assignment is the assigned value
			if cell, isCell := ld.X.(*ssa.Alloc); isCell && cell.Referrers() != nil {
				var st *ssa.Store
				n := 0
				for _, ref := range *cell.Referrers() {
					if s, ok := ref.(*ssa.Store); ok && s.Addr == ssa.Value(cell) {
						st = s
						n++
					}
				}
				if n == 1 && onlyStore(cell, st) {
					ps, pl := where[st], where[ld]
					if (ps.b == pl.b && ps.i < pl.i) || (ps.b != pl.b && ps.b.Dominates(pl.b)) {
						P.loadRep[ld] = P.canon(st.Val)
						continue
					}
				}
			}
			key, ok := P.addrKey(ld.X)
			if !ok {
				continue
			}
			A := f.P(ld.X)
			found := false
			for _, l1 := range byKey[key] {
				p1, p2 := where[l1], where[ld]
				if !(p1.b == p2.b && p1.i < p2.i) && !(p1.b != p2.b && p1.b.Dominates(p2.b)) {
					continue
				}
				clean := true
				for _, w := range writers {
					if !aliases(A, f.iw[w]) {
						continue
					}
					pw := where[w]
					if reaches(p1, pw, p1) && reaches(pw, p2, p1) {
						clean = false
						break
					}
				}
				if clean {
					P.loadRep[ld] = l1
					found = true
					break
				}
			}
			if !found {
				byKey[key] = append(byKey[key], ld)
			}
		}
	}
}

// reaches: can control flow from just after `from` arrive at (just before) `to` without executing `avoid`?
func reaches(from, to, avoid ipos) bool {
	// straight line inside one block
	if from.b == to.b && from.i < to.i {
		if !(avoid.b == from.b && avoid.i > from.i && avoid.i < to.i) {
			return true
		}
	}
	// leave from.b (only if avoid is not between from and the end of the block)
	if avoid.b == from.b && avoid.i > from.i {
		return false
	}
	seen := map[*ssa.BasicBlock]bool{}
	stack := append([]*ssa.BasicBlock{}, from.b.Succs...)
	for len(stack) > 0 {
		b := stack[len(stack)-1]
		stack = stack[:len(stack)-1]
		if seen[b] {
			continue
		}
		seen[b] = true
		if b == to.b {
			if !(avoid.b == b && avoid.i < to.i) {
				return true
			}
		}
		if avoid.b == b {
			continue // cannot pass through avoid
		}
		stack = append(stack, b.Succs...)
	}
	return false
}

// validAt: is the value read by load ld still what memory holds when control reaches `at`?
func (P *Prover) validAt(ld *ssa.UnOp, at ssa.Instruction) bool {
	if P.f == nil {
		return false
	}
	A := P.f.P(ld.X)
	p1, p2 := P.where[ld], P.where[at]
	for _, w := range P.writers {
		if !aliases(A, P.f.iw[w]) {
			continue
		}
		pw := P.where[w]
		if reaches(p1, pw, p1) && reaches(pw, p2, p1) {
			return false
		}
	}
	return true
}

// polyLoose translates an integer expression into a polynomial ignoring types: all integer
// conversions are transparent and sub-word arithmetic is expanded. It is meant for comparing
// the *shape* of two computations (constant agreement rules), never for bounds proofs.
func (P *Prover) polyLoose(v ssa.Value) Poly {
	for {
		switch x := v.(type) {
		case *ssa.Convert:
			if isInt(x.Type()) && isInt(x.X.Type()) {
				v = x.X
				continue
			}
		case *ssa.ChangeType:
			v = x.X
			continue
		}
		break
	}
	if c, ok := constInt(v); ok {
		return constP(c)
	}
	if bo, ok := v.(*ssa.BinOp); ok && isInt(bo.Type()) {
		switch bo.Op {
		case token.ADD:
			return P.polyLoose(bo.X).add(P.polyLoose(bo.Y), 1)
		case token.SUB:
			return P.polyLoose(bo.X).add(P.polyLoose(bo.Y), -1)
		case token.MUL:
			return P.polyLoose(bo.X).mul(P.polyLoose(bo.Y))
		case token.SHL:
			if c, ok := constInt(bo.Y); ok && c >= 0 && c < 62 {
				return P.polyLoose(bo.X).scale(1 << uint(c))
			}
		case token.QUO:
			if c, ok := constInt(bo.Y); ok && c >= 2 {
				return P.divP(P.polyLoose(bo.X), c, isUnsigned(bo.Type()))
			}
		}
	}
	return atomP(P.atom(aVal, P.canon(v), nil, 0, false).id)
}
