package main

import (
	"fmt"
	"golang.org/x/tools/go/ssa"
	"os"
	"runtime/pprof"
	"sort"
	"strings"
)

func repoDir() string {
	if d := os.Getenv("MAMBA_REPO"); d != "" {
		return d
	}
	return "/repo"
}

func main() {
	if len(os.Args) < 2 {
		fmt.Fprintln(os.Stderr, "usage: mambacheck <property-id> quick|thorough | mambacheck dump-eff [filter]")
		os.Exit(2)
	}
	code := 2
	if pf := os.Getenv("MAMBA_PROF"); pf != "" {
		if f, err := os.Create(pf); err == nil {
			pprof.StartCPUProfile(f)
			defer pprof.StopCPUProfile()
		}
	}
	func() {
		defer func() {
			if r := recover(); r != nil {
				if af, ok := r.(analysisFailure); ok {
					fmt.Println("ANALYSIS-FAILURE:", af.msg)
					code = 2
					return
				}
				panic(r)
			}
		}()
		switch os.Args[1] {
		case "ALL":
			code = runAll()
		case "dump-eff":
			c := loadProgram(repoDir(), mambaMod, 9)
			filter := ""
			if len(os.Args) > 2 {
				filter = os.Args[2]
			}
			dumpEff(c, filter)
			code = 0
		case "tri":
			c := loadProgram(repoDir(), mambaMod, 9)
			r := ruleTri(c, func(string) bool { return true }, "TRI")
			for _, i := range r.Instances {
				fmt.Println(i)
			}
			for _, f := range r.Findings {
				fmt.Printf("FINDING %s [%s] %s\n", f.Pos, f.Key, f.Msg)
			}
			for _, n := range r.Notes {
				fmt.Println("note:", n)
			}
			code = 0
		case "degsync":
			c := loadProgram(repoDir(), mambaMod, 9)
			r := ruleDegSync(c, func(string) bool { return true })
			if len(os.Args) > 2 && os.Args[2] == "uwrap" {
				r = ruleUwrap(c, inFiles("encoding.go"))
			}
			if len(os.Args) > 2 && os.Args[2] == "wide" {
				r = &RuleResult{Rule: "WIDE"}
				all := func(string) bool { return true }
				for _, q := range []*RuleResult{ruleMaskWidth(c, all), ruleNarrowLen(c, all), ruleNarrowWith(c, all, nonNegativeOrder)} {
					r.Instances = append(r.Instances, q.Instances...)
					r.Findings = append(r.Findings, q.Findings...)
				}
				for _, pk := range []string{"graph", "graph/search", "dawg", "disjoint", "sortints", "ints", "comb", "itertools", "tsp"} {
					q := ruleSignConv(c, pk)
					r.Instances = append(r.Instances, q.Instances...)
					r.Findings = append(r.Findings, q.Findings...)
				}
			}
			if len(os.Args) > 3 && os.Args[2] == "ovf" {
				r = ruleMulOvf(c, os.Args[3])
			}
			if len(os.Args) > 2 && os.Args[2] == "makesize" {
				r = ruleMakeSize(c, func(string) bool { return true })
			}
			if len(os.Args) > 3 && os.Args[2] == "bufcap" {
				r = ruleBufCap(c, os.Args[3])
			}
			if len(os.Args) > 3 && os.Args[2] == "partial" {
				pk := os.Args[3]
				r = rulePartial(c, func(f string) bool { return strings.Contains(f, pk) }, true)
			}
			if len(os.Args) > 2 && os.Args[2] == "rowdeg" {
				r = ruleRowDeg(c, "graph", "SparseGraph", "Neighbourhoods", "DegreeSequence")
			}
			if len(os.Args) > 3 && os.Args[2] == "sortless" {
				r = ruleSortLess(c, os.Args[3])
			}
			if len(os.Args) > 4 && os.Args[2] == "localidx" {
				pk := os.Args[3]
				r = ruleLocalIdx(c, func(f string) bool { return strings.Contains(f, pk) }, os.Args[4] == "all")
			}
			if len(os.Args) > 2 && os.Args[2] == "sticky" {
				r = ruleSticky(c, "itertools", stickyByValue)
			}
			if len(os.Args) > 3 && os.Args[2] == "argindex" {
				r = ruleArgIndex(c, os.Args[3])
			}
			if len(os.Args) > 3 && os.Args[2] == "staleptr" {
				r = ruleStalePtr(c, os.Args[3])
			}
			if len(os.Args) > 3 && os.Args[2] == "sibling" {
				pk := os.Args[3]
				r = ruleSiblingAppend(c, func(f string) bool { return strings.Contains(f, pk) })
			}
			if len(os.Args) > 3 && os.Args[2] == "makeappend" {
				pk := os.Args[3]
				r = ruleMakeAppend(c, func(f string) bool { return strings.Contains(f, pk) })
			}
			if len(os.Args) > 2 && os.Args[2] == "makecap" {
				r = ruleMakeCapAny(c, func(string) bool { return true })
			}
			if len(os.Args) > 2 && os.Args[2] == "cwidth" {
				r = &RuleResult{Rule: "COUNTERWIDTH"}
				for _, pk := range []string{"graph", "graph/search", "dawg", "disjoint", "sortints", "ints", "comb", "itertools", "tsp"} {
					q := ruleCounterWidth(c, pk)
					r.Instances = append(r.Instances, q.Instances...)
					r.Findings = append(r.Findings, q.Findings...)
				}
			}
			if len(os.Args) > 2 && os.Args[2] == "fixed" {
				r = &RuleResult{Rule: "FIXEDARRAY"}
				for _, pk := range []string{"graph", "graph/search", "dawg", "disjoint", "sortints", "ints", "comb", "itertools", "tsp"} {
					q := ruleFixedArray(c, pk)
					r.Instances = append(r.Instances, q.Instances...)
					r.Findings = append(r.Findings, q.Findings...)
				}
			}
			if len(os.Args) > 2 && os.Args[2] == "irr" {
				r = ruleIrreflexive(c, "graph")
			}
			if len(os.Args) > 2 && os.Args[2] == "counts" {
				r = ruleCounts(c, func(string) bool { return true })
			}
			for _, i := range r.Instances {
				fmt.Println(i)
			}
			for _, f := range r.Findings {
				fmt.Printf("  %s [%s] %s\n", f.Pos, f.Key, f.Msg)
			}
			for _, n := range r.Notes {
				fmt.Println("note:", n)
			}
			code = 0
		case "keeps":
			// every exported function or method that stores memory of one parameter into another's
			c := loadProgram(repoDir(), mambaMod, 9)
			E := c.Eff()
			var out []string
			for _, fn := range c.Funcs {
				if fn.Blocks == nil || fn.Synthetic != "" || fn.Parent() != nil || E.sums[fn] == nil {
					continue
				}
				seen := map[string]bool{}
				for _, e := range E.sums[fn].Stores {
					if e.src.Root >= 0 && e.src.Root < len(fn.Params) && e.dst.Root >= 0 && e.dst.Root < len(fn.Params) && (e.src.Root != e.dst.Root || os.Getenv("KEEPS_SAME") != "") {
						k := fmt.Sprintf("%s: %s <- %s", c.short(fn), E.apString(fn, e.dst), E.apString(fn, e.src))
						if !seen[k] {
							seen[k] = true
							out = append(out, k)
						}
					}
				}
			}
			sort.Strings(out)
			for _, l := range out {
				fmt.Println(l)
			}
			return
		case "reach":
			// exported functions whose result reaches memory of a parameter
			c := loadProgram(repoDir(), mambaMod, 9)
			E := c.Eff()
			var out []string
			for _, fn := range c.Funcs {
				if fn.Blocks == nil || fn.Synthetic != "" || fn.Parent() != nil || fn.Object() == nil || !fn.Object().Exported() {
					continue
				}
				for i := 0; i < fn.Signature.Results().Len(); i++ {
					for k, path := range E.RetReach(fn, i) {
						out = append(out, fmt.Sprintf("%s: result %d reaches %s (%s)", c.short(fn), i, E.rootName(fn, k), path))
					}
				}
			}
			sort.Strings(out)
			for _, l := range out {
				fmt.Println(l)
			}
			return
		case "sticky":
			c := loadProgram(repoDir(), mambaMod, 9)
			E := c.Eff()
			for _, fn := range c.Funcs {
				if fn.Name() != "Next" || fn.Blocks == nil || !strings.Contains(c.short(fn), "itertools") {
					continue
				}
				for _, b := range fn.Blocks {
					ret, ok := b.Instrs[len(b.Instrs)-1].(*ssa.Return)
					if !ok || len(ret.Results) != 1 {
						continue
					}
					k, isK := ret.Results[0].(*ssa.Const)
					if !isK || k.Value == nil || k.Value.ExactString() != "false" {
						continue
					}
					canReach := map[*ssa.BasicBlock]bool{b: true}
					stack := []*ssa.BasicBlock{b}
					for len(stack) > 0 {
						x := stack[len(stack)-1]
						stack = stack[:len(stack)-1]
						for _, p := range x.Preds {
							if !canReach[p] {
								canReach[p] = true
								stack = append(stack, p)
							}
						}
					}
					var ws []string
					for _, x := range fn.Blocks {
						if !canReach[x] {
							continue
						}
						for _, in := range x.Instrs {
							if ap, bad := rootedAt(E.InstrWrites(fn, in), 0); bad {
								ws = append(ws, E.apString(fn, ap)+"@"+c.instrPos(in))
							}
						}
					}
					fmt.Printf("%s return false at %s: %d writes %v\n", c.short(fn), c.instrPos(ret), len(ws), ws)
				}
			}
			code = 0
		case "bounds":
			c := loadProgram(repoDir(), mambaMod, 9)
			for _, name := range os.Args[2:] {
				for _, r := range []*RuleResult{ruleBounds(c, []string{name}, "quick"), ruleTerm(c, []string{name})} {
					fmt.Printf("== %s %s: %d instances, %d/%d obligations\n", r.Rule, name, len(r.Instances), r.Discharged, r.Obligations)
					for _, f := range r.Findings {
						fmt.Printf("  %s [%s] %s\n", f.Pos, f.Key, f.Msg)
					}
					for _, n := range r.Notes {
						fmt.Println("  note:", n)
					}
				}
			}
			code = 0
		default:
			tier := "quick"
			if len(os.Args) > 2 {
				tier = os.Args[2]
			}
			code = runProperty(os.Args[1], tier, os.Args[3:])
		}
	}()
	pprof.StopCPUProfile()
	if os.Getenv("MAMBA_PROVESTATS") != "" {
		fmt.Fprintf(os.Stderr, "prove1 calls, high-water mark per top-level goal: %d\n", proveCallsHigh)
	}
	os.Exit(code)
}

func dumpEff(c *Ctx, filter string) {
	E := c.Eff()
	fmt.Printf("%d module functions, %d rounds\n", len(c.Funcs), E.rounds)
	for _, fn := range c.Funcs {
		if fn.Synthetic != "" || (filter != "" && !strings.Contains(c.short(fn), filter)) {
			continue
		}
		var w []string
		for _, ap := range E.WritesOf(fn) {
			w = append(w, E.apString(fn, ap))
		}
		var r []string
		for i := 0; i < fn.Signature.Results().Len(); i++ {
			rr := E.RetReach(fn, i)
			var ks []int
			for k := range rr {
				ks = append(ks, k)
			}
			sort.Ints(ks)
			for _, k := range ks {
				r = append(r, fmt.Sprintf("r%d~%s", i, E.rootName(fn, k)))
			}
		}
		u := E.UnknownOf(fn)
		fmt.Printf("%-62s W={%s} R={%s}", c.short(fn), strings.Join(w, ", "), strings.Join(r, ", "))
		if len(u) > 0 {
			fmt.Printf(" UNKNOWN=%v", u)
		}
		fmt.Println()
	}
	var cbs []string
	for k := range E.Callbacks {
		cbs = append(cbs, k)
	}
	sort.Strings(cbs)
	for _, k := range cbs {
		fmt.Println("callback:", k)
	}
}
