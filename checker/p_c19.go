package main

import (
	"go/types"

	"golang.org/x/tools/go/ssa"
)

// observers named by the property: queries on a shared finished value.
var c19Observers = []string{
	"(*dawg.Dawg).Lookup", "(*dawg.Dawg).Search", "(*dawg.Dawg).NumberOfWords", "(*dawg.Dawg).GobEncode",
	"(graph.DenseGraph).N", "(graph.DenseGraph).M", "(graph.DenseGraph).IsEdge", "(graph.DenseGraph).Neighbours", "(graph.DenseGraph).Degrees",
	"(graph.SparseGraph).N", "(graph.SparseGraph).M", "(graph.SparseGraph).IsEdge", "(graph.SparseGraph).Neighbours", "(graph.SparseGraph).Degrees",
	"(graph.complement).N", "(graph.complement).M", "(graph.complement).IsEdge", "(graph.complement).Neighbours", "(graph.complement).Degrees",
	"(graph.inducedSubgraph).N", "(graph.inducedSubgraph).M", "(graph.inducedSubgraph).IsEdge", "(graph.inducedSubgraph).Neighbours", "(graph.inducedSubgraph).Degrees",
}

func ruleReadonly(c *Ctx, names []string, tier string) *RuleResult {
	r := &RuleResult{Rule: "READONLY", Doc: "queries on a shared value write nothing reachable from that value (receiver) nor any package-level or captured state", MinInst: len(names)}
	for _, n := range names {
		noWrites(c, r, c.Fn(n), []int{0}, "the shared receiver")
	}
	{
		// widen (both tiers): every exported function taking a graph.Graph (not EditableGraph) must not write it
		gp := c.ByPath[c.Mod+"/graph"]
		if gp != nil {
			gi, _ := gp.Types.Scope().Lookup("Graph").Type().Underlying().(*types.Interface)
			for _, fn := range c.Funcs {
				if fn.Synthetic != "" || fn.Parent() != nil || fn.Object() == nil || !fn.Object().Exported() {
					continue
				}
				for i, p := range fn.Params {
					if gi != nil && types.Identical(p.Type().Underlying(), gi) {
						if n, ok := p.Type().(*types.Named); ok && n.Obj().Name() == "Graph" {
							noWrites(c, r, fn, []int{i}, "its graph.Graph argument "+p.Name())
						}
					}
				}
			}
		}
	}
	return r
}

func init() {
	register(&propDef{
		id:          "C19",
		explanation: "Race freedom by absence of shared mutable state, for all schedules at once: GLOBAL (no function writes or leaks package-level memory), NOSHARE (no goroutine, channel creation, sync primitive or global RNG inside the module), READONLY (the queries the property names write nothing reachable from the shared value: E-EFF write summaries, interface calls resolved by module-restricted CHA), RETAIN (constructors keeping caller memory are exactly the listed ones and the constructed type never writes through the kept field), CLOSE (AllMaximalCliques closes its channel on every return and never sends after). Given these, goroutines working on separately constructed values can only meet in caller-supplied memory or in a deliberately shared read-only value; 'same result as alone' then follows from sequential determinism. Decides the no-data-race clause structurally; does not decide that shards partition the classes.",
		notDecided:  []string{"that the m shards of a split search partition the isomorphism classes (C03)", "behaviour of user callbacks"},
		assumptions: []string{"user-supplied callbacks do not share state between goroutines", "a data race needs a write to memory reachable by two goroutines; E-EFF over-approximates writes (may-analysis)"},
		run: func(c *Ctx, tier string) []*RuleResult {
			cl := &RuleResult{Rule: "CLOSE", Doc: "AllMaximalCliques: every path to return passes through close(c); no send reachable after close", MinInst: 1}
			ruleClose(c, cl, "graph.AllMaximalCliques", "c")
			return []*RuleResult{ruleGlobal(c), ruleNoShare(c), ruleReadonly(c, c19Observers, tier), ruleRetain(c, c19Ctors(c), c19Retain), cl}
		},
		controls: func(ctl *Ctx) []*RuleResult {
			ro := &RuleResult{Rule: "READONLY"}
			for _, n := range []string{"(*effctl.T).BadObserver", "(effctl.T).BadObserverSlice", "(effctl.T).BadObserverViaInterface", "(effctl.T).GoodObserver"} {
				noWrites(ctl, ro, ctl.Fn(n), []int{0}, "the shared receiver")
			}
			mv := &RuleResult{Rule: "READONLY"}
			noWrites(ctl, mv, ctl.Fn("(*effctl.T).BadObserverMethodValue"), []int{0}, "the shared receiver")
			cl := &RuleResult{Rule: "CLOSE"}
			ruleClose(ctl, cl, "effctl.BadCloseMissing", "c")
			ruleClose(ctl, cl, "effctl.GoodClose", "c")
			cl2 := &RuleResult{Rule: "CLOSE"}
			ruleClose(ctl, cl2, "effctl.BadSendAfterClose", "c")
			rt := ruleRetain(ctl, []string{"effctl.NewKeeper", "effctl.NewGoodKeeper", "effctl.BadUnlistedKeeper"}, []retainSpec{{ctor: "effctl.NewKeeper", param: "k", typ: "effctl.T", field: "kept"}})
			return []*RuleResult{ruleGlobal(ctl), ruleNoShare(ctl), ro, mv, cl, cl2, rt}
		},
	})
}

// c19Ctors: every exported package-level function returning a pointer-carrying value is a constructor candidate.
func c19Ctors(c *Ctx) []string {
	var out []string
	for _, fn := range c.Funcs {
		if fn.Synthetic != "" || fn.Parent() != nil || fn.Signature.Recv() != nil || fn.Object() == nil || !fn.Object().Exported() {
			continue
		}
		res := fn.Signature.Results()
		carries := false
		for i := 0; i < res.Len(); i++ {
			// a constructed value: (pointer to) a struct, or an interface
			t := res.At(i).Type()
			if p, ok := t.Underlying().(*types.Pointer); ok {
				t = p.Elem()
			}
			switch t.Underlying().(type) {
			case *types.Struct:
				carries = pointerLike(t) || carries
			case *types.Interface:
				if !types.Identical(t, types.Universe.Lookup("error").Type()) {
					carries = true
				}
			}
		}
		if carries {
			out = append(out, c.short(fn))
		}
	}
	return out
}

var c19Retain = []retainSpec{
	{ctor: "itertools.MultisetCombinations", param: "m", typ: "itertools.MultisetCombinationIterator", field: "m"},
	{ctor: "dawg.NewPatternSearcher", param: "pattern", typ: "dawg.PatternSearcher", field: "pattern"},
	{ctor: "graph.InducedSubgraph", param: "V", typ: "graph.inducedSubgraph", field: "V"},
	{ctor: "graph.InducedSubgraph", param: "g", typ: "graph.inducedSubgraph", field: "g"},
	{ctor: "graph.Complement", param: "g", typ: "graph.complement", field: "g"},
}

var _ ssa.Value
