package main

import (
	"go/types"
	"strings"

	"golang.org/x/tools/go/ssa"
)

// observers named by the property: queries on a shared finished value.
var c19Observers = []string{
	"(*dawg.Dawg).Lookup", "(*dawg.Dawg).Search", "(*dawg.Dawg).NumberOfWords", "(*dawg.Dawg).GobEncode",
	"(graph.DenseGraph).N", "(graph.DenseGraph).M", "(graph.DenseGraph).IsEdge", "(graph.DenseGraph).Neighbours", "(graph.DenseGraph).Degrees",
	"(graph.SparseGraph).N", "(graph.SparseGraph).M", "(graph.SparseGraph).IsEdge", "(graph.SparseGraph).Neighbours", "(graph.SparseGraph).Degrees",
	"(graph.complement).N", "(graph.complement).M", "(graph.complement).IsEdge", "(graph.complement).Neighbours", "(graph.complement).Degrees",
	"(graph.inducedSubgraph).N", "(graph.inducedSubgraph).M", "(graph.inducedSubgraph).IsEdge", "(graph.inducedSubgraph).Neighbours", "(graph.inducedSubgraph).Degrees",
}

func ruleReadonly(c *Ctx, names []string, tier string) *RuleResult {
	r := &RuleResult{Rule: "READONLY", Doc: "queries on a shared value write nothing reachable from that value (receiver) nor any package-level or captured state", MinInst: len(names)}
	for _, n := range names {
		noWrites(c, r, c.Fn(n), []int{0}, "the shared receiver")
	}
	{
		// widen (both tiers): every exported function taking a graph.Graph (not EditableGraph) must not write it
		gp := c.ByPath[c.Mod+"/graph"]
		if gp != nil {
			gi, _ := gp.Types.Scope().Lookup("Graph").Type().Underlying().(*types.Interface)
			for _, fn := range c.Funcs {
				if fn.Synthetic != "" || fn.Parent() != nil || fn.Object() == nil || !fn.Object().Exported() {
					continue
				}
				for i, p := range fn.Params {
					if gi != nil && types.Identical(p.Type().Underlying(), gi) {
						if n, ok := p.Type().(*types.Named); ok && n.Obj().Name() == "Graph" {
							noWrites(c, r, fn, []int{i}, "its graph.Graph argument "+p.Name())
						}
					}
				}
			}
		}
	}
	return r
}

func init() {
	register(&propDef{
		id:          "C19",
		explanation: "Race freedom by absence of shared mutable state, for all schedules at once: GLOBAL (no function writes or leaks package-level memory), NOSHARE (no goroutine, channel creation, sync primitive or global RNG inside the module), READONLY (the queries the property names write nothing reachable from the shared value: E-EFF write summaries, interface calls resolved by module-restricted CHA), RETAIN (constructors keeping caller memory are exactly the listed ones and the constructed type never writes through the kept field), CLOSE (AllMaximalCliques closes its channel on every return and never sends after), FRESH (the graphs returned by Copy and InducedSubgraph of both representations share no memory with their source). Given these, goroutines working on separately constructed values can only meet in caller-supplied memory or in a deliberately shared read-only value; 'same result as alone' then follows from sequential determinism. Decides the no-data-race clause structurally; does not decide that shards partition the classes.",
		notDecided:  []string{"that the m shards of a split search partition the isomorphism classes (C03)", "behaviour of user callbacks"},
		assumptions: []string{"user-supplied callbacks do not share state between goroutines", "a data race needs a write to memory reachable by two goroutines; E-EFF over-approximates writes (may-analysis)"},
		run: func(c *Ctx, tier string) []*RuleResult {
			cl := &RuleResult{Rule: "CLOSE", Doc: "AllMaximalCliques: every path to return passes through close(c); no send reachable after close", MinInst: 1}
			ruleClose(c, cl, "graph.AllMaximalCliques", "c")
			// a copy is a distinct value: it must share no memory with its source (also a clause of C05)
			cp := &RuleResult{Rule: "FRESH", Doc: "Copy / InducedSubgraph / Clone results reach no receiver or argument memory: editing a copy cannot touch the graph it was taken from", MinInst: 4}
			for _, n := range []string{"(*graph.DenseGraph).Copy", "(*graph.DenseGraph).InducedSubgraph", "(graph.SparseGraph).Copy", "(graph.SparseGraph).InducedSubgraph"} {
				freshResult(c, cp, c.Fn(n), 0, nil, nil, "is a deep copy")
			}
			return []*RuleResult{ruleGlobal(c), ruleNoShare(c), ruleReadonly(c, c19Observers, tier), ruleRetain(c, c19Ctors(c), c19Retain), cl, ruleRetainHelpers(c), ruleCtorArgs(c), cp}
		},
		controls: func(ctl *Ctx) []*RuleResult {
			ro := &RuleResult{Rule: "READONLY"}
			for _, n := range []string{"(*effctl.T).BadObserver", "(effctl.T).BadObserverSlice", "(effctl.T).BadObserverViaInterface", "(effctl.T).GoodObserver"} {
				noWrites(ctl, ro, ctl.Fn(n), []int{0}, "the shared receiver")
			}
			mv := &RuleResult{Rule: "READONLY"}
			noWrites(ctl, mv, ctl.Fn("(*effctl.T).BadObserverMethodValue"), []int{0}, "the shared receiver")
			cl := &RuleResult{Rule: "CLOSE"}
			ruleClose(ctl, cl, "effctl.BadCloseMissing", "c")
			ruleClose(ctl, cl, "effctl.GoodClose", "c")
			cl2 := &RuleResult{Rule: "CLOSE"}
			ruleClose(ctl, cl2, "effctl.BadSendAfterClose", "c")
			rt := ruleRetain(ctl, []string{"effctl.NewKeeper", "effctl.NewGoodKeeper", "effctl.BadUnlistedKeeper"}, []retainSpec{{ctor: "effctl.NewKeeper", param: "k", typ: "effctl.T", field: "kept"}})
			return []*RuleResult{ruleGlobal(ctl), ruleNoShare(ctl), ro, mv, cl, cl2, rt, ruleRetainHelpers(ctl), ruleCtorArgs(ctl)}
		},
	})
}

// c19Ctors: every exported package-level function returning a pointer-carrying value is a constructor candidate.
func c19Ctors(c *Ctx) []string {
	var out []string
	for _, fn := range c.Funcs {
		if fn.Synthetic != "" || fn.Parent() != nil || fn.Signature.Recv() != nil || fn.Object() == nil || !fn.Object().Exported() {
			continue
		}
		res := fn.Signature.Results()
		carries := false
		for i := 0; i < res.Len(); i++ {
			// a constructed value: (pointer to) a struct, or an interface
			t := res.At(i).Type()
			if p, ok := t.Underlying().(*types.Pointer); ok {
				t = p.Elem()
			}
			switch t.Underlying().(type) {
			case *types.Struct:
				carries = pointerLike(t) || carries
			case *types.Interface:
				if !types.Identical(t, types.Universe.Lookup("error").Type()) {
					carries = true
				}
			}
		}
		if carries {
			out = append(out, c.short(fn))
		}
	}
	return out
}

var c19Retain = []retainSpec{
	{ctor: "graph.InducedSubgraph", param: "g", typ: "graph.inducedSubgraph", field: "g"},
	{ctor: "graph.Complement", param: "g", typ: "graph.complement", field: "g"},
}

var _ ssa.Value

// ruleRetainHelpers: an unexported function whose result keeps memory of a parameter (it adopts the
// slices it is given as the storage of the value it builds) is only sound if every caller hands it
// memory nobody else holds: a fresh allocation, not a window of a longer-lived array and not
// something read back from elsewhere. (Exported functions that keep caller memory are listed and
// judged by RETAIN.)
func ruleRetainHelpers(c *Ctx) *RuleResult {
	r := &RuleResult{Rule: "ADOPT", Doc: "an unexported helper that adopts its slice arguments as the storage of the value it returns is only called with freshly allocated, unshared slices", MinInst: 0}
	E := c.Eff()
	owned := func(v ssa.Value) bool {
		for {
			switch x := v.(type) {
			case *ssa.MakeSlice:
				return true
			case *ssa.ChangeType:
				v = x.X
				continue
			case *ssa.Slice:
				if al, ok := x.X.(*ssa.Alloc); ok && x.Low == nil {
					// the whole of an array allocated for it: make([]T, const) and slice literals
					arr, isArr := al.Type().Underlying().(*types.Pointer).Elem().Underlying().(*types.Array)
					if x.High == nil {
						return true
					}
					if k, isK := constInt(x.High); isK && isArr && k == arr.Len() {
						return true
					}
				}
				return false
			case *ssa.Const:
				return x.Value == nil // nil slice
			}
			return false
		}
	}
	n := 0
	for _, fn := range c.Funcs {
		if fn.Synthetic != "" || fn.Parent() != nil || fn.Object() == nil || fn.Object().Exported() || fn.Blocks == nil {
			continue
		}
		kept := map[int]string{}
		for i := 0; i < fn.Signature.Results().Len(); i++ {
			t := fn.Signature.Results().At(i).Type()
			if p, ok := t.Underlying().(*types.Pointer); ok {
				t = p.Elem()
			}
			if _, isStruct := t.Underlying().(*types.Struct); !isStruct {
				continue
			}
			for k, path := range E.RetReach(fn, i) {
				if k < 0 || k >= len(fn.Params) {
					continue
				}
				if _, isSl := fn.Params[k].Type().Underlying().(*types.Slice); isSl {
					// the slice itself (its backing array) is kept, not just something its elements point to:
					// a lookup helper that returns one of the pointers stored in the slice adopts nothing
					if i := strings.LastIndex(path, " -> "); i >= 0 && strings.Contains(path[i+4:], ".[*]") {
						continue
					}
					kept[k] = path
				}
			}
		}
		if len(kept) == 0 {
			continue
		}
		for _, caller := range c.Funcs {
			for _, b := range caller.Blocks {
				for _, in := range b.Instrs {
					call, ok := in.(*ssa.Call)
					if !ok || call.Call.StaticCallee() != fn {
						continue
					}
					for k, path := range kept {
						if k >= len(call.Call.Args) {
							continue
						}
						a := call.Call.Args[k]
						n++
						r.inst("%s: %s adopts %s (%s); argument %s", c.short(caller), c.short(fn), fn.Params[k].Name(), path, valName(a))
						// the caller's own parameter passed through: the caller is then judged in its turn
						if _, isParam := a.(*ssa.Parameter); isParam {
							r.oblig(true)
							continue
						}
						ok2 := owned(a)
						r.oblig(ok2)
						if !ok2 {
							r.find(c.short(caller)+":hands shared memory to "+c.short(fn), c.instrPos(call), "%s passes %s to %s, which keeps it as storage of the value it returns (%s); the argument is not a fresh allocation of its own (a window of a larger array, or memory read back from elsewhere), so values built this way share storage and an edit of one (AddVertex grows in place) changes another", c.short(caller), valName(a), c.short(fn), path)
						}
					}
				}
			}
		}
	}
	r.inst("%d call sites of adopting helpers", n)
	return r
}

// ruleCtorArgs: a constructor reads what it is given and writes only what it builds: it must not
// write memory reachable from any of its arguments (sorting the caller's slice in place, trimming
// it, ...). The caller may be sharing that slice, read-only, with other goroutines or values.
func ruleCtorArgs(c *Ctx) *RuleResult {
	names := c19Ctors(c)
	r := &RuleResult{Rule: "CTOR-ARGS", Doc: "constructors (exported functions returning a struct, pointer to struct or interface value) write nothing reachable from their slice, pointer and map arguments", MinInst: 5}
	for _, n := range names {
		fn := c.Fn(n)
		var idx []int
		for i, p := range fn.Params {
			switch p.Type().Underlying().(type) {
			case *types.Slice, *types.Pointer, *types.Map:
				idx = append(idx, i) // readers, writers and graphs (interfaces) are used through their methods; graph arguments are READONLY's
			}
		}
		if len(idx) == 0 {
			continue
		}
		noWrites(c, r, fn, idx, "its arguments")
	}
	return r
}
