package main

import (
	"fmt"
	"go/ast"
	"go/token"
	"go/types"
	"os"
	"path/filepath"
	"sort"
	"strings"

	"golang.org/x/tools/go/packages"
	"golang.org/x/tools/go/ssa"
	"golang.org/x/tools/go/ssa/ssautil"
)

const mambaMod = "github.com/Tom-Johnston/mamba"

// Ctx is one loaded, type-checked and SSA-built program (the repository or the
// positive-control module) plus lazily computed whole-program analyses.
type Ctx struct {
	immut   map[*ssa.Global]bool
	Dir     string
	Mod     string // module path prefix of the code under analysis
	Pkgs    []*packages.Package
	ByPath  map[string]*packages.Package
	Prog    *ssa.Program
	Fset    *token.FileSet
	Funcs   []*ssa.Function // module functions with bodies, sorted by name
	byName  map[string]*ssa.Function
	eff     *Eff
	NFiles  int
	srcRoot string
}

// analysisFailure is raised (via panic) for anything that prevents a verdict:
// load errors, type errors, unresolved anchors. It is reported as exit 2.
type analysisFailure struct{ msg string }

func failf(format string, a ...interface{}) {
	panic(analysisFailure{fmt.Sprintf(format, a...)})
}

func loadProgram(dir, mod string, minPkgs int) *Ctx {
	env := append(os.Environ(), "GOFLAGS=-mod=mod", "GOPROXY=off", "GOSUMDB=off", "GOWORK=off", "GOTOOLCHAIN=local")
	cfg := &packages.Config{Mode: packages.LoadAllSyntax, Dir: dir, Env: env, Tests: false}
	pkgs, err := packages.Load(cfg, "./...")
	if err != nil {
		failf("go/packages load of %s failed: %v", dir, err)
	}
	var errs []string
	nfiles := 0
	packages.Visit(pkgs, nil, func(p *packages.Package) {
		for _, e := range p.Errors {
			errs = append(errs, e.Error())
		}
	})
	if len(errs) > 0 {
		failf("tree under %s does not load/type-check: %s", dir, strings.Join(errs, "; "))
	}
	if len(pkgs) < minPkgs {
		failf("expected at least %d packages under %s, loaded %d", minPkgs, dir, len(pkgs))
	}
	c := &Ctx{Dir: dir, Mod: mod, Pkgs: pkgs, ByPath: map[string]*packages.Package{}}
	for _, p := range pkgs {
		if len(p.IgnoredFiles) > 0 {
			var ign []string
			for _, f := range p.IgnoredFiles {
				if strings.HasSuffix(f, ".go") {
					ign = append(ign, f)
				}
			}
			if len(ign) > 0 {
				failf("package %s has build-excluded Go files the analysis did not parse: %v", p.PkgPath, ign)
			}
		}
		nfiles += len(p.Syntax)
		c.ByPath[p.PkgPath] = p
		for _, imp := range p.Imports {
			if imp.PkgPath == "unsafe" || imp.PkgPath == "reflect" {
				failf("package %s imports %s; the type-based aliasing argument of E-EFF does not hold", p.PkgPath, imp.PkgPath)
			}
		}
	}
	c.NFiles = nfiles
	prog, _ := ssautil.AllPackages(pkgs, ssa.InstantiateGenerics)
	prog.Build()
	c.Prog = prog
	c.Fset = prog.Fset
	c.byName = map[string]*ssa.Function{}
	seenFn := map[*ssa.Function]bool{}
	var addFn func(fn *ssa.Function)
	addFn = func(fn *ssa.Function) {
		if fn == nil || seenFn[fn] {
			return
		}
		seenFn[fn] = true
		if c.inModule(fn) && fn.Blocks != nil {
			c.Funcs = append(c.Funcs, fn)
		}
		for _, a := range fn.AnonFuncs {
			addFn(a)
		}
	}
	for fn := range ssautil.AllFunctions(prog) {
		addFn(fn)
	}
	// methods of every named type declared in the module, whether or not a value of the type
	// is ever boxed in an interface inside the module
	for _, sp := range prog.AllPackages() {
		if !(sp.Pkg.Path() == mod || strings.HasPrefix(sp.Pkg.Path(), mod+"/")) {
			continue
		}
		for _, m := range sp.Members {
			switch x := m.(type) {
			case *ssa.Function:
				addFn(x)
			case *ssa.Type:
				for _, t := range []types.Type{x.Type(), types.NewPointer(x.Type())} {
					ms := prog.MethodSets.MethodSet(t)
					for i := 0; i < ms.Len(); i++ {
						addFn(prog.MethodValue(ms.At(i)))
					}
				}
			}
		}
	}
	sort.Slice(c.Funcs, func(i, j int) bool { return c.Funcs[i].String() < c.Funcs[j].String() })
	for _, fn := range c.Funcs {
		if fn.Synthetic == "" {
			c.byName[c.short(fn)] = fn
		}
	}
	return c
}

func fnPkg(fn *ssa.Function) *ssa.Package {
	for q := fn; q != nil; q = q.Parent() {
		if q.Pkg != nil {
			return q.Pkg
		}
	}
	// bound-method closures and other synthetic wrappers carry the object of the method they wrap
	if o := fn.Object(); o != nil && o.Pkg() != nil {
		if p := fn.Prog.Package(o.Pkg()); p != nil {
			return p
		}
	}
	// methods of instantiated/synthetic wrappers
	if fn.Signature != nil && fn.Signature.Recv() != nil {
		t := fn.Signature.Recv().Type()
		if p, ok := t.(*types.Pointer); ok {
			t = p.Elem()
		}
		if n, ok := t.(*types.Named); ok && n.Obj().Pkg() != nil {
			return fn.Prog.Package(n.Obj().Pkg())
		}
	}
	return nil
}

func (c *Ctx) inModule(fn *ssa.Function) bool {
	if fn == nil {
		return false
	}
	p := fnPkg(fn)
	return p != nil && (p.Pkg.Path() == c.Mod || strings.HasPrefix(p.Pkg.Path(), c.Mod+"/"))
}

// short renders a function name relative to the module: "graph.NewDense",
// "(*graph.DenseGraph).AddEdge", "dawg.(*Dawg).GobEncode$1".
func (c *Ctx) short(fn *ssa.Function) string {
	s := fn.String()
	s = strings.Replace(s, c.Mod+"/", "", -1)
	return s
}

// Fn resolves an anchor such as "graph.NewDense" or "(*graph.DenseGraph).AddEdge".
// An anchor that no longer resolves is an analysis failure, never a pass.
func (c *Ctx) Fn(name string) *ssa.Function {
	if os.Getenv("MAMBACHECK_TRACEFN") != "" {
		fmt.Fprintln(os.Stderr, "ANCHOR", name)
	}
	if f := c.byName[name]; f != nil {
		return f
	}
	failf("anchor function %q not found in %s (renamed or removed?)", name, c.Dir)
	return nil
}

func (c *Ctx) FnOpt(name string) *ssa.Function { return c.byName[name] }

// helperGone: the anchor names an unexported helper that no longer exists (inlined into its callers
// or renamed). Rules that list such a helper next to the exported entry points calling it skip it:
// what it did is judged as part of those callers.
func (c *Ctx) helperGone(name string) bool {
	if c.byName[name] != nil {
		return false
	}
	i := strings.LastIndex(name, ".")
	return i >= 0 && i+1 < len(name) && name[i+1] >= 'a' && name[i+1] <= 'z'
}

func (c *Ctx) pos(p token.Pos) string {
	if !p.IsValid() {
		return "-"
	}
	ps := c.Fset.Position(p)
	rel, err := filepath.Rel(c.Dir, ps.Filename)
	if err != nil {
		rel = ps.Filename
	}
	return fmt.Sprintf("%s:%d", rel, ps.Line)
}

func (c *Ctx) instrPos(in ssa.Instruction) string {
	p := in.Pos()
	if !p.IsValid() {
		for _, op := range in.Operands(nil) {
			if *op != nil && (*op).Pos().IsValid() {
				p = (*op).Pos()
				break
			}
		}
	}
	if !p.IsValid() && in.Parent() != nil {
		p = in.Parent().Pos()
	}
	return c.pos(p)
}

// Pkg returns the loaded package with the given module-relative path ("graph", "graph/search").
func (c *Ctx) Pkg(rel string) *packages.Package {
	path := c.Mod
	if rel != "" {
		path = c.Mod + "/" + rel
	}
	p := c.ByPath[path]
	if p == nil {
		failf("package %s not loaded", path)
	}
	return p
}

// FuncDecl finds the syntax of a function or method: name "Graph6Decode" or "DenseGraph.AddEdge".
func (c *Ctx) FuncDecl(pkgRel, name string) (*ast.FuncDecl, *packages.Package) {
	p := c.Pkg(pkgRel)
	for _, f := range p.Syntax {
		for _, d := range f.Decls {
			fd, ok := d.(*ast.FuncDecl)
			if !ok {
				continue
			}
			n := fd.Name.Name
			if fd.Recv != nil && len(fd.Recv.List) == 1 {
				t := fd.Recv.List[0].Type
				if s, ok := t.(*ast.StarExpr); ok {
					t = s.X
				}
				if id, ok := t.(*ast.Ident); ok {
					n = id.Name + "." + n
				}
			}
			if n == name {
				return fd, p
			}
		}
	}
	failf("anchor declaration %s.%s not found", pkgRel, name)
	return nil, nil
}

// modulePackages lists the module's packages sorted by path.
func (c *Ctx) modulePackages() []*packages.Package {
	var out []*packages.Package
	for _, p := range c.Pkgs {
		if p.PkgPath == c.Mod || strings.HasPrefix(p.PkgPath, c.Mod+"/") {
			out = append(out, p)
		}
	}
	sort.Slice(out, func(i, j int) bool { return out[i].PkgPath < out[j].PkgPath })
	return out
}

// srcAt renders the source construct whose operator / bracket / paren sits at pos
// (a BinaryExpr, IndexExpr, SliceExpr, CallExpr, op-assignment or ++/--), or "" if none.
func (c *Ctx) srcAt(pos token.Pos) string {
	if !pos.IsValid() {
		return ""
	}
	tf := c.Fset.File(pos)
	if tf == nil {
		return ""
	}
	for _, p := range c.Pkgs {
		for _, f := range p.Syntax {
			if c.Fset.File(f.Pos()) != tf {
				continue
			}
			out := ""
			ast.Inspect(f, func(n ast.Node) bool {
				if n == nil || out != "" {
					return false
				}
				if pos < n.Pos() || pos > n.End() {
					return false
				}
				switch x := n.(type) {
				case *ast.BinaryExpr:
					if x.OpPos == pos {
						out = types.ExprString(x)
					}
				case *ast.IndexExpr:
					if x.Lbrack == pos {
						out = types.ExprString(x)
					}
				case *ast.SliceExpr:
					if x.Lbrack == pos {
						out = types.ExprString(x)
					}
				case *ast.CallExpr:
					if x.Lparen == pos {
						out = types.ExprString(x)
					}
				case *ast.AssignStmt:
					if (x.TokPos == pos || x.Pos() == pos) && x.Tok != token.ASSIGN && x.Tok != token.DEFINE && len(x.Lhs) == 1 && len(x.Rhs) == 1 {
						out = types.ExprString(x.Lhs[0]) + " " + x.Tok.String() + " " + types.ExprString(x.Rhs[0])
					}
				case *ast.IncDecStmt:
					if x.TokPos == pos || x.Pos() == pos {
						out = types.ExprString(x.X) + x.Tok.String()
					}
				}
				return out == ""
			})
			return out
		}
	}
	return ""
}

// immutableTable: g is a package-level slice or array of integers that the module only ever reads
// element-wise (or measures with len): no function other than a package initialiser stores through
// it, re-slices it, or hands it to a call.
func (c *Ctx) immutableTable(g *ssa.Global) bool {
	if c.immut == nil {
		c.immut = map[*ssa.Global]bool{}
		bad := map[*ssa.Global]bool{}
		seen := map[*ssa.Global]bool{}
		readOnlyUse := func(v ssa.Value) bool { // v is the table (slice header or array pointer)
			refs := v.Referrers()
			if refs == nil {
				return false
			}
			for _, r := range *refs {
				switch x := r.(type) {
				case *ssa.IndexAddr:
					if x.X != v {
						return false
					}
					for _, r2 := range *x.Referrers() {
						if u, ok := r2.(*ssa.UnOp); !ok || u.Op != token.MUL {
							if _, isDbg := r2.(*ssa.DebugRef); !isDbg {
								return false
							}
						}
					}
				case *ssa.Call:
					if b, ok := x.Call.Value.(*ssa.Builtin); !ok || b.Name() != "len" {
						return false
					}
				case *ssa.DebugRef:
				default:
					return false
				}
			}
			return true
		}
		for _, fn := range c.Funcs {
			isInit := fn.Name() == "init" && fn.Parent() == nil
			for _, b := range fn.Blocks {
				for _, in := range b.Instrs {
					for _, op := range in.Operands(nil) {
						g2, ok := (*op).(*ssa.Global)
						if !ok {
							continue
						}
						seen[g2] = true
						if isInit {
							continue
						}
						switch x := in.(type) {
						case *ssa.UnOp:
							if x.Op == token.MUL && x.X == ssa.Value(g2) {
								if _, isSlice := x.Type().Underlying().(*types.Slice); isSlice && readOnlyUse(x) {
									continue
								}
							}
						case *ssa.IndexAddr:
							if x.X == ssa.Value(g2) {
								okUse := true
								for _, r2 := range *x.Referrers() {
									if u, ok := r2.(*ssa.UnOp); !ok || u.Op != token.MUL {
										okUse = false
									}
								}
								if okUse {
									continue
								}
							}
						}
						bad[g2] = true
					}
				}
			}
		}
		for g2 := range seen {
			c.immut[g2] = !bad[g2]
		}
	}
	return c.immut[g]
}

// tableLen: the length of a package-level slice as its initialiser builds it (a slice literal:
// `*g = slice t[:]` of a fixed-size array allocated by the package initialiser).
func (c *Ctx) tableLen(g *ssa.Global) (int64, bool) {
	if g.Pkg == nil {
		return 0, false
	}
	init := g.Pkg.Func("init")
	if init == nil {
		return 0, false
	}
	n, found := int64(0), 0
	for _, b := range init.Blocks {
		for _, in := range b.Instrs {
			st, ok := in.(*ssa.Store)
			if !ok || st.Addr != ssa.Value(g) {
				continue
			}
			found++
			sl, ok := st.Val.(*ssa.Slice)
			if !ok || sl.Low != nil || sl.High != nil {
				return 0, false
			}
			pt, ok := sl.X.Type().Underlying().(*types.Pointer)
			if !ok {
				return 0, false
			}
			arr, ok := pt.Elem().Underlying().(*types.Array)
			if !ok {
				return 0, false
			}
			n = arr.Len()
		}
	}
	return n, found == 1
}

// tableRange: smallest and largest element of a package-level integer table as its initialiser
// (a slice or array literal of constants) fills it.
func (c *Ctx) tableRange(g *ssa.Global) (lo, hi int64, ok bool) {
	if g.Pkg == nil {
		return 0, 0, false
	}
	init := g.Pkg.Func("init")
	if init == nil {
		return 0, 0, false
	}
	// the array the literal is built in: stored into g as a slice of it, or g itself (array global)
	var base ssa.Value = g
	for _, b := range init.Blocks {
		for _, in := range b.Instrs {
			if st, isSt := in.(*ssa.Store); isSt && st.Addr == ssa.Value(g) {
				if sl, isSl := st.Val.(*ssa.Slice); isSl {
					base = sl.X
				}
			}
		}
	}
	n := 0
	for _, b := range init.Blocks {
		for _, in := range b.Instrs {
			st, isSt := in.(*ssa.Store)
			if !isSt {
				continue
			}
			ia, isIA := st.Addr.(*ssa.IndexAddr)
			if !isIA || ia.X != base {
				continue
			}
			k, isK := constInt(st.Val)
			if !isK {
				return 0, 0, false
			}
			if n == 0 || k < lo {
				lo = k
			}
			if n == 0 || k > hi {
				hi = k
			}
			n++
		}
	}
	// elements the literal leaves out are zero
	if n > 0 {
		if pt, isP := base.Type().Underlying().(*types.Pointer); isP {
			if arr, isArr := pt.Elem().Underlying().(*types.Array); isArr && int64(n) < arr.Len() {
				if lo > 0 {
					lo = 0
				}
				if hi < 0 {
					hi = 0
				}
			}
		}
	}
	return lo, hi, n > 0
}
