package main

// runSelfTest is the thorough-tier mutation self-test of the checker (see selftest_*.go).
func runSelfTest(id string, c *Ctx) map[string]interface{} { return nil }
