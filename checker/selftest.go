package main

// Thorough-tier mutation self-test of the checker: a fixed catalogue of source rewrites per
// property, each applied to a scratch copy of the repository under a fresh temporary directory
// (one variant at a time, removed immediately), analysed by this same binary in a separate
// process. A variant must still type-check and must be reported with the expected finding key.
// A rewrite whose anchor text no longer occurs in the tree is skipped and listed, never failed.

import (
	"fmt"
	"io"
	"os"
	"os/exec"
	"path/filepath"
	"strings"
)

type mutant struct {
	name   string
	file   string // relative to the repository root
	old    string
	new    string
	expect string // substring of a finding key that must be reported
}

var mutants = map[string][]mutant{}

func copyTree(src, dst string) error {
	return filepath.Walk(src, func(p string, info os.FileInfo, err error) error {
		if err != nil {
			return err
		}
		rel, _ := filepath.Rel(src, p)
		if rel == ".git" || strings.HasPrefix(rel, ".git"+string(filepath.Separator)) {
			if info.IsDir() {
				return filepath.SkipDir
			}
			return nil
		}
		if info.IsDir() {
			return os.MkdirAll(filepath.Join(dst, rel), 0o755)
		}
		if !info.Mode().IsRegular() {
			return nil
		}
		// the large word list is only needed by tests
		if strings.HasSuffix(rel, ".TXT") || strings.Contains(rel, "testdata") {
			return nil
		}
		in, err := os.Open(p)
		if err != nil {
			return err
		}
		defer in.Close()
		out, err := os.Create(filepath.Join(dst, rel))
		if err != nil {
			return err
		}
		defer out.Close()
		_, err = io.Copy(out, in)
		return err
	})
}

func runSelfTest(id string, c *Ctx) map[string]interface{} {
	ms := mutants[id]
	if len(ms) == 0 {
		return nil
	}
	exe, err := os.Executable()
	if err != nil {
		return map[string]interface{}{"selftest_broken": []string{"self-test: cannot locate own binary: " + err.Error()}}
	}
	var samples []interface{}
	var broken []string
	applied, caught, skipped := 0, 0, 0
	for _, m := range ms {
		src, err := os.ReadFile(filepath.Join(c.Dir, m.file))
		if err != nil || strings.Count(string(src), m.old) == 0 {
			skipped++
			samples = append(samples, map[string]string{"mutant": m.name, "status": "skipped: anchor text not present in the tree under analysis"})
			continue
		}
		tmp, err := os.MkdirTemp("", "mambacheck-selftest-")
		if err != nil {
			broken = append(broken, "self-test: "+err.Error())
			break
		}
		func() {
			defer os.RemoveAll(tmp)
			repo := filepath.Join(tmp, "repo")
			out := filepath.Join(tmp, "out")
			os.MkdirAll(out, 0o755)
			if err := copyTree(c.Dir, repo); err != nil {
				broken = append(broken, "self-test: copy failed: "+err.Error())
				return
			}
			mutated := strings.Replace(string(src), m.old, m.new, 1)
			if err := os.WriteFile(filepath.Join(repo, m.file), []byte(mutated), 0o644); err != nil {
				broken = append(broken, "self-test: "+err.Error())
				return
			}
			// known findings of the real tree stay known in the variant
			if kf, err := os.ReadFile(filepath.Join(verifDir(), "known_findings.txt")); err == nil {
				os.WriteFile(filepath.Join(out, "known_findings.txt"), kf, 0o644)
			}
			cmd := exec.Command(exe, id, "quick")
			cmd.Env = append(os.Environ(), "MAMBA_REPO="+repo, "VERIF_DIR="+out, "MAMBACHECK_CTL="+ctlDir())
			b, _ := cmd.CombinedOutput()
			applied++
			text := string(b)
			status := ""
			switch {
			case strings.Contains(text, "ANALYSIS-FAILURE"):
				status = "variant does not type-check or lost an anchor (catalogue entry is stale): " + firstLine(text, "ANALYSIS-FAILURE")
				broken = append(broken, fmt.Sprintf("self-test %s/%s: %s", id, m.name, status))
			case strings.Contains(text, "["+m.expect) || strings.Contains(text, m.expect):
				if strings.Contains(text, "VIOLATION property="+id) {
					caught++
					status = "caught: " + firstLine(text, m.expect)
				} else {
					status = "expected key printed but no VIOLATION line"
					broken = append(broken, fmt.Sprintf("self-test %s/%s: %s", id, m.name, status))
				}
			default:
				status = "MISSED: expected a finding containing " + m.expect
				broken = append(broken, fmt.Sprintf("self-test %s/%s: rule did not report the seeded rewrite (expected %s)", id, m.name, m.expect))
			}
			samples = append(samples, map[string]string{"mutant": m.name, "file": m.file, "rewrite": m.old + "  =>  " + m.new, "status": status})
		}()
	}
	res := map[string]interface{}{
		"programs":              applied,
		"disagreements_checked": caught,
		"selftest_skipped":      skipped,
		"selftest_samples":      samples,
	}
	if len(broken) > 0 {
		res["selftest_broken"] = broken
	}
	return res
}

func firstLine(text, needle string) string {
	for _, l := range strings.Split(text, "\n") {
		if strings.Contains(l, needle) {
			if len(l) > 300 {
				l = l[:300]
			}
			return l
		}
	}
	return ""
}
