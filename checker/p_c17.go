package main

import "go/types"

var c17Pure = []string{"sortints.Union", "sortints.Intersection", "sortints.IntersectionSize", "sortints.SetMinus", "sortints.XOR",
	"sortints.Complement", "sortints.ContainsSingle", "sortints.ContainsSorted", "sortints.Range", "sortints.NewSortedInts"}
var c17Mutators = []string{"(*sortints.SortedInts).Add", "(*sortints.SortedInts).Remove", "(*sortints.SortedInts).Union"}

var c17Swap = []swapSpec{
	{pkgRel: "ints", fn: "Sort", param: "a"},
	{pkgRel: "ints", fn: "insertionSort", param: "data"},
	{pkgRel: "ints", fn: "siftDown", param: "data"},
	{pkgRel: "ints", fn: "heapSort", param: "data"},
	{pkgRel: "ints", fn: "medianOfThree", param: "data"},
	{pkgRel: "ints", fn: "doPivot", param: "data"},
	{pkgRel: "ints", fn: "quickSort", param: "data"},
}

const swapDoc = "every store into the state slice is a tuple assignment (or temp-variable swap) whose right-hand cells are a rearrangement of its left-hand cells, with call-free indices and, for cycles of length >= 3, provably distinct cells; the slice is passed only to functions under the same rule and never re-assigned"

func swapControls(ctl *Ctx) []*RuleResult {
	var out []*RuleResult
	for _, fn := range []string{"It.BadOverwrite", "It.BadNotRearrangement", "It.BadRotateMayCoincide", "It.BadIncrement"} {
		out = append(out, ruleSwap(ctl, "SWAP", swapDoc, []swapSpec{{pkgRel: "swapctl", fn: fn, field: "a"}, {pkgRel: "swapctl", fn: "It.GoodSwap", field: "a"}, {pkgRel: "swapctl", fn: "It.GoodRotate", field: "a"}, {pkgRel: "swapctl", fn: "It.GoodTemp", field: "a"}}, 1))
	}
	out = append(out, ruleSwap(ctl, "SWAP", swapDoc, []swapSpec{{pkgRel: "swapctl", fn: "BadSort", param: "data"}, {pkgRel: "swapctl", fn: "GoodSort", param: "data"}}, 1))
	return out
}

func init() {
	register(&propDef{
		id:          "C17",
		explanation: "Decides the 'who may write what' sentence and one clause of 'ints.Sort orders like the standard library': PURE (the ten non-mutating sortints functions write nothing reachable from any argument, package-level or captured state), FRESH (the slice they return shares no memory with an argument, so mutating the result later cannot change an argument), RECEIVER-ONLY (Add, Remove and the Union method write only memory rooted at their receiver, never the variadic x or b), both from E-EFF write summaries; SWAP (ints.Sort and all its helpers only permute cells of their slice, so the output is a rearrangement of the input). It does not decide that results are the right sets or that Sort orders.",
		notDecided:  []string{"that each function returns the mathematically correct set / boolean / size (e.g. Add with a repeated, already-present argument; Range with negative step)", "that ints.Sort puts the elements in ascending order"},
		assumptions: []string{"append into spare capacity of an argument counts as a write to that argument (it is visible to other slices sharing the array)"},
		run: func(c *Ctx, tier string) []*RuleResult {
			pure := &RuleResult{Rule: "PURE", Doc: "non-mutating sortints functions write nothing reachable from their arguments", MinInst: len(c17Pure)}
			for _, n := range c17Pure {
				noWrites(c, pure, c.Fn(n), nil, "its arguments")
			}
			ro := &RuleResult{Rule: "RECEIVER-ONLY", Doc: "SortedInts mutators write only memory rooted at the receiver", MinInst: len(c17Mutators)}
			for _, n := range c17Mutators {
				onlyWrites(c, ro, c.Fn(n), []int{0}, "its receiver")
			}
			fr := &RuleResult{Rule: "FRESH", Doc: "the set returned by a non-mutating function shares no memory with its arguments (a later in-place Remove/Union on the result cannot change an argument)", MinInst: 7}
			for _, n := range []string{"sortints.Union", "sortints.Intersection", "sortints.SetMinus", "sortints.XOR", "sortints.Complement", "sortints.Range", "sortints.NewSortedInts"} {
				freshResult(c, fr, c.Fn(n), 0, nil, nil, "is a new slice")
			}
			return []*RuleResult{pure, ro, fr, ruleSwap(c, "SWAP", swapDoc, c17Swap, 10)}
		},
		controls: func(ctl *Ctx) []*RuleResult {
			pure := &RuleResult{Rule: "PURE"}
			for _, n := range []string{"effctl.BadPureSort", "effctl.BadPureAppend", "effctl.GoodPure"} {
				noWrites(ctl, pure, ctl.Fn(n), nil, "its arguments")
			}
			ro := &RuleResult{Rule: "RECEIVER-ONLY"}
			onlyWrites(ctl, ro, ctl.Fn("(*effctl.S).BadMutator"), []int{0}, "its receiver")
			onlyWrites(ctl, ro, ctl.Fn("(*effctl.S).GoodMutator"), []int{0}, "its receiver")
			fr := &RuleResult{Rule: "FRESH"}
			freshResult(ctl, fr, ctl.Fn("effctl.BadFreshAlias"), 0, nil, nil, "is a new slice")
			freshResult(ctl, fr, ctl.Fn("effctl.GoodPure"), 0, nil, nil, "is a new slice")
			return append([]*RuleResult{pure, ro, fr}, swapControls(ctl)...)
		},
	})
	register(&propDef{
		id:          "C15",
		explanation: "Decides one structural clause: every value yielded by Permutations, LexicographicPermutations and MultisetPermutations is a rearrangement of the initial multiset, because every store into the iterators' state slices (PermutationIterator.p, LexicographicPermutationIterator.a) is an in-place permutation of cells (SWAP rule on typed syntax, cell distinctness for 3-cycles proved by E-PROVE), and no other module function writes those slices (E-EFF field-writer scan). Completeness, uniqueness and order of the thirteen iterators are value-level and not decided.",
		notDecided:  []string{"that every object of each family is yielded exactly once, in the documented order, followed by stable exhaustion", "the predicate-driven iterators and TopologicalSorts (they shift, not swap)", "Partitions(1), boundary parameters"},
		assumptions: []string{"callers respect the documented 'do not modify the returned slice'"},
		run: func(c *Ctx, tier string) []*RuleResult {
			sw := ruleSwap(c, "SWAP", swapDoc, []swapSpec{
				{pkgRel: "itertools", fn: "PermutationIterator.Next", field: "p"},
				{pkgRel: "itertools", fn: "LexicographicPermutationIterator.Next", field: "a"},
			}, 8)
			fw := ruleFieldWriters(c, "FIELD-WRITERS", []fieldWriterSpec{
				{pkgRel: "itertools", typ: "PermutationIterator", field: "p", allowed: []string{"(*itertools.PermutationIterator).Next"}},
				{pkgRel: "itertools", typ: "LexicographicPermutationIterator", field: "a", allowed: []string{"(*itertools.LexicographicPermutationIterator).Next", "(*itertools.MultisetPermutationIterator).Next"}},
			})
			rt := &RuleResult{Rule: "OWN-STATE", Doc: "an iterator built from caller slices keeps its own copy: the value returned by the constructor reaches none of the caller's slice arguments (function arguments excepted), so rewriting the slice later cannot change what is enumerated", MinInst: 8}
			for _, n := range []string{"itertools.Combinations", "itertools.CombinationsColex", "itertools.MultisetPermutations", "itertools.Permutations", "itertools.LexicographicPermutations",
				"itertools.Partitions", "itertools.IntegerPartitions", "itertools.Product", "itertools.RestrictedPrefixProduct", "itertools.RestrictedPrefixPermutations", "itertools.PermutationsByPattern", "itertools.TopologicalSorts"} {
				fn := c.Fn(n)
				var slices, funcs []int
				for i, p := range fn.Params {
					switch p.Type().Underlying().(type) {
					case *types.Slice:
						slices = append(slices, i)
					case *types.Signature:
						funcs = append(funcs, i)
					}
				}
				freshResult(c, rt, fn, 0, slices, funcs, "does not alias the caller's slices")
			}
			rt.note("itertools.MultisetCombinations keeps its argument m by design on the pinned tree (listed under C19 RETAIN); it is not judged here")
			return []*RuleResult{sw, fw, rt}
		},
		controls: func(ctl *Ctx) []*RuleResult { return swapControls(ctl) },
	})
}
