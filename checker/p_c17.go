package main

import (
	"fmt"
	"go/token"
	"go/types"
	"path/filepath"
	"strings"

	"golang.org/x/tools/go/ssa"
)

var c17Pure = []string{"sortints.Union", "sortints.Intersection", "sortints.IntersectionSize", "sortints.SetMinus", "sortints.XOR",
	"sortints.Complement", "sortints.ContainsSingle", "sortints.ContainsSorted", "sortints.Range", "sortints.NewSortedInts"}
var c17Mutators = []string{"(*sortints.SortedInts).Add", "(*sortints.SortedInts).Remove", "(*sortints.SortedInts).Union"}

var c17Swap = []swapSpec{
	{pkgRel: "ints", fn: "Sort", param: "a"},
	{pkgRel: "ints", fn: "insertionSort", param: "data"},
	{pkgRel: "ints", fn: "siftDown", param: "data"},
	{pkgRel: "ints", fn: "heapSort", param: "data"},
	{pkgRel: "ints", fn: "medianOfThree", param: "data"},
	{pkgRel: "ints", fn: "doPivot", param: "data"},
	{pkgRel: "ints", fn: "quickSort", param: "data"},
}

const swapDoc = "every store into the state slice is a tuple assignment (or temp-variable swap) whose right-hand cells are a rearrangement of its left-hand cells, with call-free indices and, for cycles of length >= 3, provably distinct cells; the slice is passed only to functions under the same rule and never re-assigned"

func swapControls(ctl *Ctx) []*RuleResult {
	var out []*RuleResult
	for _, fn := range []string{"It.BadOverwrite", "It.BadNotRearrangement", "It.BadRotateMayCoincide", "It.BadIncrement"} {
		out = append(out, ruleSwap(ctl, "SWAP", swapDoc, []swapSpec{{pkgRel: "swapctl", fn: fn, field: "a"}, {pkgRel: "swapctl", fn: "It.GoodSwap", field: "a"}, {pkgRel: "swapctl", fn: "It.GoodRotate", field: "a"}, {pkgRel: "swapctl", fn: "It.GoodTemp", field: "a"}}, 1))
	}
	out = append(out, ruleSwap(ctl, "SWAP", swapDoc, []swapSpec{{pkgRel: "swapctl", fn: "BadSort", param: "data"}, {pkgRel: "swapctl", fn: "GoodSort", param: "data"}}, 1))
	return out
}

func init() {
	register(&propDef{
		id:          "C17",
		explanation: "Decides the 'who may write what' sentence and one clause of 'ints.Sort orders like the standard library': PURE (the ten non-mutating sortints functions write nothing reachable from any argument, package-level or captured state), FRESH (the slice they return shares no memory with an argument, so mutating the result later cannot change an argument), RECEIVER-ONLY (Add, Remove and the Union method write only memory rooted at their receiver, never the variadic x or b), both from E-EFF write summaries; SWAP (ints.Sort and all its helpers only permute cells of their slice, so the output is a rearrangement of the input); MARKCOUNT (where Add marks cells of its scratch slice with a sentinel and counts them at more than one place, each place knows the cell is not marked yet, so the count equals the number of marks); SENTINEL (no value that is a constant until it is set to an element - a 'previous element' tracker initialised with -1, say - is compared for equality with an element: elements are arbitrary ints); MAKESIZE (a make whose size is the difference of two inputs, such as n-len(a), is proved non-negative: nothing relates one argument to another unless the code checks it); ARGINDEX (every index into an argument slice or the receiver's slice in the exported functions of sortints is proved within its length, with the documented result range of the standard binary searches as facts: the empty set is a legal argument). It does not decide that results are the right sets or that Sort orders.",
		notDecided:  []string{"that each function returns the mathematically correct set / boolean / size (e.g. Range with negative step)", "that ints.Sort puts the elements in ascending order"},
		assumptions: []string{"append into spare capacity of an argument counts as a write to that argument (it is visible to other slices sharing the array)"},
		run: func(c *Ctx, tier string) []*RuleResult {
			pure := &RuleResult{Rule: "PURE", Doc: "non-mutating sortints functions write nothing reachable from their arguments", MinInst: len(c17Pure)}
			for _, n := range c17Pure {
				noWrites(c, pure, c.Fn(n), nil, "its arguments")
			}
			ro := &RuleResult{Rule: "RECEIVER-ONLY", Doc: "SortedInts mutators write only memory rooted at the receiver", MinInst: len(c17Mutators)}
			for _, n := range c17Mutators {
				onlyWrites(c, ro, c.Fn(n), []int{0}, "its receiver")
			}
			fr := &RuleResult{Rule: "FRESH", Doc: "the set returned by a non-mutating function shares no memory with its arguments (a later in-place Remove/Union on the result cannot change an argument)", MinInst: 7}
			for _, n := range []string{"sortints.Union", "sortints.Intersection", "sortints.SetMinus", "sortints.XOR", "sortints.Complement", "sortints.Range", "sortints.NewSortedInts"} {
				freshResult(c, fr, c.Fn(n), 0, nil, nil, "is a new slice")
			}
			mc := &RuleResult{Rule: "MARKCOUNT", Doc: "where cells of a scratch slice are marked with a sentinel and counted at several places, each place knows the cell is not marked yet (the count equals the number of marks)", MinInst: 1}
			ruleMarkCount(c, mc, "sortints")
			sc := &RuleResult{Rule: "SUBCMP", Doc: "no two elements are ordered by the sign of their difference (it overflows)", MinInst: 1}
			ruleSubCmp(c, sc, "sortints")
			ruleSubCmp(c, sc, "ints")
			sn := &RuleResult{Rule: "SENTINEL", Doc: "no constant stands in for 'no element yet' in an (in)equality test against elements: elements are arbitrary ints", MinInst: 0}
			ruleSentinel(c, sn, "sortints")
			ruleSentinel(c, sn, "ints")
			ms := ruleMakeSize(c, filesOf(c, "sortints.Complement", "sortints.Union", "sortints.NewSortedInts"))
			ai := ruleArgIndex(c, "sortints")
			ai.MinInst = 5 // a floor against vacuity, not a census: helpers with their own cursors take indices out of the exported functions
			return []*RuleResult{pure, ro, fr, ruleSwap(c, "SWAP", swapDoc, c17Swap, 7), mc, sc, sn, ms, ai}
		},
		controls: func(ctl *Ctx) []*RuleResult {
			pure := &RuleResult{Rule: "PURE"}
			for _, n := range []string{"effctl.BadPureSort", "effctl.BadPureAppend", "effctl.GoodPure"} {
				noWrites(ctl, pure, ctl.Fn(n), nil, "its arguments")
			}
			ro := &RuleResult{Rule: "RECEIVER-ONLY"}
			onlyWrites(ctl, ro, ctl.Fn("(*effctl.S).BadMutator"), []int{0}, "its receiver")
			onlyWrites(ctl, ro, ctl.Fn("(*effctl.S).GoodMutator"), []int{0}, "its receiver")
			fr := &RuleResult{Rule: "FRESH"}
			freshResult(ctl, fr, ctl.Fn("effctl.BadFreshAlias"), 0, nil, nil, "is a new slice")
			freshResult(ctl, fr, ctl.Fn("effctl.GoodPure"), 0, nil, nil, "is a new slice")
			mc := &RuleResult{Rule: "MARKCOUNT"}
			ruleMarkCount(ctl, mc, "markctl")
			sc := &RuleResult{Rule: "SUBCMP"}
			ruleSubCmp(ctl, sc, "markctl")
			sn := &RuleResult{Rule: "SENTINEL"}
			ruleSentinel(ctl, sn, "markctl")
			ms := ruleMakeSize(ctl, inFiles("markctl.go"))
			return append([]*RuleResult{pure, ro, fr, mc, sc, sn, ms, ruleArgIndex(ctl, "argctl")}, swapControls(ctl)...)
		},
	})
	register(&propDef{
		id:          "C15",
		explanation: "Decides one structural clause: every value yielded by Permutations, LexicographicPermutations and MultisetPermutations is a rearrangement of the initial multiset, because every store into the iterators' state slices (PermutationIterator.p, LexicographicPermutationIterator.a) is an in-place permutation of cells (SWAP rule on typed syntax, cell distinctness for 3-cycles proved by E-PROVE), and no other module function writes those slices (E-EFF field-writer scan); MASKWIDTH (no iterator keeps per-element state in a one-bit mask whose shift count is not proved below the word size: Go yields 0 beyond it, so elements from 64 on would be ignored); MULOVF (no iterator forms an unbounded product of two non-constant integers, e.g. a precomputed number of remaining objects); STICKY ('and then reports exhaustion on every further call', per `return false` of every Next: either no instruction on any path to it may write the iterator - the call left the state alone, so the next one takes the same path - or every path to it stores a done mark, found in the code, that Next tests on entry before touching anything; three iterators whose exhaustion is stable by value rather than by shape are listed and not judged). Completeness, uniqueness and order of the thirteen iterators are value-level and not decided.",
		notDecided:  []string{"that every object of each family is yielded exactly once, in the documented order", "stable exhaustion of Permutations, PermutationsByPattern and RestrictedPrefixProduct (by value, not by shape) and of returns whose value is computed", "the predicate-driven iterators and TopologicalSorts (they shift, not swap)", "Partitions(1), boundary parameters"},
		assumptions: []string{"callers respect the documented 'do not modify the returned slice'"},
		run: func(c *Ctx, tier string) []*RuleResult {
			sw := ruleSwap(c, "SWAP", swapDoc, []swapSpec{
				{pkgRel: "itertools", fn: "PermutationIterator.Next", field: "p"},
				{pkgRel: "itertools", fn: "LexicographicPermutationIterator.Next", field: "a"},
			}, 3)
			fw := ruleFieldWriters(c, "FIELD-WRITERS", []fieldWriterSpec{
				{pkgRel: "itertools", typ: "PermutationIterator", field: "p", allowed: []string{"(*itertools.PermutationIterator).Next"}},
				{pkgRel: "itertools", typ: "LexicographicPermutationIterator", field: "a", allowed: []string{"(*itertools.LexicographicPermutationIterator).Next", "(*itertools.MultisetPermutationIterator).Next"}},
			})
			rt := &RuleResult{Rule: "OWN-STATE", Doc: "an iterator built from caller slices keeps its own copy: the value returned by the constructor reaches none of the caller's slice arguments (function arguments excepted), so rewriting the slice later cannot change what is enumerated", MinInst: 8}
			for _, n := range []string{"itertools.Combinations", "itertools.CombinationsColex", "itertools.MultisetPermutations", "itertools.Permutations", "itertools.LexicographicPermutations",
				"itertools.Partitions", "itertools.IntegerPartitions", "itertools.Product", "itertools.MultisetCombinations", "itertools.RestrictedPrefixProduct", "itertools.RestrictedPrefixPermutations", "itertools.PermutationsByPattern", "itertools.TopologicalSorts"} {
				fn := c.Fn(n)
				var slices, funcs []int
				for i, p := range fn.Params {
					switch p.Type().Underlying().(type) {
					case *types.Slice:
						slices = append(slices, i)
					case *types.Signature:
						funcs = append(funcs, i)
					}
				}
				freshResult(c, rt, fn, 0, slices, funcs, "does not alias the caller's slices")
			}
			mw := ruleMaskWidth(c, func(f string) bool { return strings.HasSuffix(filepath.Dir(f), "/itertools") })
			// a precomputed count of objects (the product of the factors, say) overflows for inputs the
			// odometer itself handles: no unbounded product of two variables
			mo := ruleMulOvf(c, "itertools")
			sk := ruleSticky(c, "itertools", stickyByValue)
			sk.MinInst = 10
			return []*RuleResult{sw, fw, rt, mw, mo, sk}
		},
		controls: func(ctl *Ctx) []*RuleResult {
			sk := ruleSticky(ctl, "stickctl", nil)
			if len(sk.Findings) != 2 { // BadReset and BadMarkIgnored, nothing else
				sk.undecided("STICKY controls: %d findings, want exactly the two Bad iterators", len(sk.Findings))
			}
			return append(swapControls(ctl), sk)
		},
	})
}

// ruleMarkCount: a function that flags cells of a scratch slice with a sentinel constant and keeps a
// count of the flagged cells in step (mark and bump in the same basic block) at more than one place
// must, at every such place, know that the cell is not flagged yet - otherwise the count runs
// ahead of the marks and whatever is sized from it is too short. "Not flagged yet" is established
// by a dominating test of that cell against the sentinel, or because the place is the slice's
// first sweep (every earlier store into the slice is in the same loop at the same unit-step index).
func ruleMarkCount(c *Ctx, r *RuleResult, pkgRel string) {
	pkg := c.Pkg(pkgRel)
	type site struct {
		st   *ssa.Store
		ia   *ssa.IndexAddr
		incs []*ssa.BinOp
	}
	nfn := 0
	for _, fn := range c.Funcs {
		if fn.Synthetic != "" || fn.Blocks == nil || fnPkg(fn) == nil || fnPkg(fn).Pkg != pkg.Types {
			continue
		}
		nfn++
		// candidate sites grouped by (slice value, sentinel)
		groups := map[string][]site{}
		for _, b := range fn.Blocks {
			var incs []*ssa.BinOp
			for _, in := range b.Instrs {
				if bo, ok := in.(*ssa.BinOp); ok && bo.Op == token.ADD && isInt(bo.Type()) {
					if one, isK := constInt(bo.Y); isK && one == 1 {
						// loop-carried: feeds a phi
						if refs := bo.Referrers(); refs != nil {
							for _, ref := range *refs {
								if _, isPhi := ref.(*ssa.Phi); isPhi {
									incs = append(incs, bo)
									break
								}
							}
						}
					}
				}
			}
			if len(incs) == 0 {
				continue
			}
			for _, in := range b.Instrs {
				st, ok := in.(*ssa.Store)
				if !ok {
					continue
				}
				ia, ok := st.Addr.(*ssa.IndexAddr)
				if !ok {
					continue
				}
				k, isK := constInt(st.Val)
				if !isK {
					continue
				}
				if _, isMk := stripAll(ia.X).(*ssa.MakeSlice); !isMk {
					continue
				}
				key := fmt.Sprintf("%p/%d", stripAll(ia.X), k)
				groups[key] = append(groups[key], site{st, ia, incs})
			}
		}
		var P *Prover
		var loops map[*ssa.BasicBlock]map[*ssa.BasicBlock]bool
		for _, sites := range groups {
			if len(sites) < 2 {
				continue
			}
			// the sites must bump a common counter: the phi webs of their increments meet
			web := func(bo *ssa.BinOp) map[ssa.Value]bool {
				out := map[ssa.Value]bool{}
				var walk func(v ssa.Value, d int)
				walk = func(v ssa.Value, d int) {
					if out[v] || d > 12 {
						return
					}
					out[v] = true
					switch x := v.(type) {
					case *ssa.Phi:
						for _, e := range x.Edges {
							walk(e, d+1)
						}
					case *ssa.BinOp:
						if x.Op == token.ADD {
							walk(x.X, d+1)
						}
					}
				}
				walk(bo, 0)
				return out
			}
			common := false
			w0 := map[ssa.Value]bool{}
			for _, bo := range sites[0].incs {
				for v := range web(bo) {
					w0[v] = true
				}
			}
			for _, s2 := range sites[1:] {
				for _, bo := range s2.incs {
					for v := range web(bo) {
						if _, isPhi := v.(*ssa.Phi); isPhi && w0[v] {
							common = true
						}
					}
				}
			}
			if !common {
				continue
			}
			if P == nil {
				P = NewProver(c, fn)
				loops = loopsOf(fn)
			}
			A := stripAll(sites[0].ia.X)
			K, _ := constInt(sites[0].st.Val)
			where := map[ssa.Instruction]ipos{}
			var stores []*ssa.Store
			for _, b := range fn.Blocks {
				for i, in := range b.Instrs {
					where[in] = ipos{b, i}
					if st, ok := in.(*ssa.Store); ok {
						if ia, ok := st.Addr.(*ssa.IndexAddr); ok && stripAll(ia.X) == A {
							stores = append(stores, st)
						}
					}
				}
			}
			for _, s := range sites {
				src := c.srcAt(s.ia.Pos())
				if src == "" {
					src = valName(s.ia)
				}
				r.inst("%s: %s = %d counted", c.short(fn), src, K)
				e := P.poly(s.ia.Index)
				blk := s.st.Block()
				// (a) a dominating test of this cell against the sentinel
				guarded := false
				for x := blk; x != nil && !guarded; x = x.Idom() {
					if len(x.Preds) != 1 {
						continue
					}
					p := x.Preds[0]
					iff, isIf := p.Instrs[len(p.Instrs)-1].(*ssa.If)
					if !isIf {
						continue
					}
					bo, isBo := iff.Cond.(*ssa.BinOp)
					if !isBo {
						continue
					}
					onTrue := p.Succs[0] == x
					if !((bo.Op == token.NEQ && onTrue) || (bo.Op == token.EQL && !onTrue)) {
						continue
					}
					if k2, isK := constInt(bo.Y); !isK || k2 != K {
						continue
					}
					ld, isLd := bo.X.(*ssa.UnOp)
					if !isLd || ld.Op != token.MUL {
						continue
					}
					la, isIA := ld.X.(*ssa.IndexAddr)
					if !isIA || stripAll(la.X) != A || P.poly(la.Index).add(e, -1).key() != "" {
						continue
					}
					// no store into the slice between the test and the mark
					clean := true
					for _, t := range stores {
						if t != s.st && reaches(where[ld], where[t], where[s.st]) && reaches(where[t], where[s.st], where[ld]) {
							clean = false
						}
					}
					guarded = clean
				}
				// (b) the first sweep over the slice
				first := false
				if !guarded {
					var L map[*ssa.BasicBlock]bool
					var Lh *ssa.BasicBlock
					for h, body := range loops {
						if body[blk] && (L == nil || len(body) < len(L)) {
							L, Lh = body, h
						}
					}
					if why, ok := tSweep(P, loops, s.ia.Index, blk); ok || why != "" || true {
						_ = why
						iv := strip(s.ia.Index)
						if bo, isBo := iv.(*ssa.BinOp); isBo && (bo.Op == token.ADD || bo.Op == token.SUB) {
							if _, isK := constInt(bo.Y); isK {
								iv = strip(bo.X) // a range loop indexes with counter+1
							}
						}
						idxPhi, isPhi := iv.(*ssa.Phi)
						sweep := false
						if isPhi {
							if li, ok := unitCounter(P, loops, idxPhi); ok && L != nil && li.body[blk] {
								sweep = true
							}
						}
						if sweep {
							first = true
							for _, t := range stores {
								if t == s.st {
									continue
								}
								if !reaches(where[t], where[s.st], ipos{nil, -1}) {
									continue
								}
								ta := t.Addr.(*ssa.IndexAddr)
								if !L[t.Block()] || P.poly(ta.Index).add(e, -1).key() != "" {
									first = false
								}
								// another marking of the same cell earlier in the same trip round the loop
								if k2, isK := constInt(t.Val); isK && k2 == K && Lh != nil && reaches(where[t], where[s.st], ipos{Lh, 0}) {
									first = false
								}
							}
						}
					}
				}
				ok := guarded || first
				r.oblig(ok)
				if !ok {
					r.find(c.short(fn)+":count bumped for a cell that may already be marked:"+src, c.instrPos(s.st), "%s marks %s with %d and bumps the running count in the same step, as it does at %d other place(s), without knowing that the cell is not marked already (no dominating test of the cell against %d, and not the first sweep over the slice): an element marked twice is counted twice and everything sized from the count is too short", c.short(fn), src, K, len(sites)-1, K)
				}
			}
		}
	}
	r.inst("%d functions of %s scanned for mark-and-count sites", nfn, pkgRel)
}

// ruleSubCmp: ordering two set elements by the sign of their difference is wrong as soon as the
// difference overflows (elements of opposite sign more than MaxInt apart). A subtraction of two
// non-constant integers whose result is only ever compared with zero is reported.
func ruleSubCmp(c *Ctx, r *RuleResult, pkgRel string) {
	pkg := c.Pkg(pkgRel)
	n := 0
	for _, fn := range c.Funcs {
		if fn.Synthetic != "" || fn.Blocks == nil || fnPkg(fn) == nil || fnPkg(fn).Pkg != pkg.Types {
			continue
		}
		n++
		for _, b := range fn.Blocks {
			for _, in := range b.Instrs {
				bo, ok := in.(*ssa.BinOp)
				if !ok || bo.Op != token.SUB || !isInt(bo.Type()) || isUnsigned(bo.Type()) {
					continue
				}
				if _, isK := constInt(strip(bo.X)); isK {
					continue
				}
				if _, isK := constInt(strip(bo.Y)); isK {
					continue
				}
				refs := bo.Referrers()
				if refs == nil || len(*refs) == 0 {
					continue
				}
				onlySign := true
				for _, ref := range *refs {
					cmp, isCmp := ref.(*ssa.BinOp)
					if _, isDbg := ref.(*ssa.DebugRef); isDbg {
						continue
					}
					if !isCmp {
						onlySign = false
						break
					}
					switch cmp.Op {
					case token.EQL, token.NEQ, token.LSS, token.LEQ, token.GTR, token.GEQ:
						z, isK := constInt(cmp.Y)
						if !isK || z != 0 || cmp.X != ssa.Value(bo) {
							onlySign = false
						}
					default:
						onlySign = false
					}
				}
				if !onlySign {
					continue
				}
				src := c.srcAt(bo.Pos())
				if src == "" {
					src = valName(bo)
				}
				r.inst("%s: %s used only for its sign", c.short(fn), src)
				r.oblig(false)
				r.find(c.short(fn)+":comparison by subtraction "+src, c.instrPos(bo), "%s orders two elements by the sign of %s: the difference overflows for elements of opposite sign more than MaxInt apart and the order comes out reversed; compare the elements directly", c.short(fn), src)
			}
		}
	}
	r.inst("%d functions of %s scanned for comparisons by subtraction", n, pkgRel)
	r.oblig(true)
}

// ruleSentinel: the elements of a SortedInts are arbitrary ints, so no constant can stand for "no
// previous element". A value that is either a constant or an element of an int slice - a phi whose
// edges are constants and element loads, the `last := -1; for v in s { if v != last {...; last = v} }`
// idiom - and is compared for (in)equality with an element is wrong for the input that contains
// the constant. Index-valued sentinels (positions are never negative) are not elements and are not
// judged.
func ruleSentinel(c *Ctx, r *RuleResult, pkgRel string) {
	isElem := func(v ssa.Value) bool {
		ld, ok := v.(*ssa.UnOp)
		if !ok || ld.Op != token.MUL {
			return false
		}
		ia, ok := ld.X.(*ssa.IndexAddr)
		if !ok {
			return false
		}
		t := ia.X.Type().Underlying()
		if p, isP := t.(*types.Pointer); isP {
			t = p.Elem().Underlying()
		}
		switch tt := t.(type) {
		case *types.Slice:
			b, ok := tt.Elem().Underlying().(*types.Basic)
			return ok && b.Kind() == types.Int
		case *types.Array:
			b, ok := tt.Elem().Underlying().(*types.Basic)
			return ok && b.Kind() == types.Int
		}
		return false
	}
	for _, fn := range c.Funcs {
		p := fnPkg(fn)
		if p == nil || p.Pkg.Path() != c.Mod+"/"+pkgRel || fn.Synthetic != "" {
			continue
		}
		for _, b := range fn.Blocks {
			for _, in := range b.Instrs {
				bo, ok := in.(*ssa.BinOp)
				if !ok || (bo.Op != token.EQL && bo.Op != token.NEQ) {
					continue
				}
				for _, pair := range [][2]ssa.Value{{bo.X, bo.Y}, {bo.Y, bo.X}} {
					phi, ok := pair[0].(*ssa.Phi)
					if !ok || !isElem(pair[1]) {
						continue
					}
					var consts []int64
					elems, other := 0, 0
					seen := map[*ssa.Phi]bool{}
					var walk func(p *ssa.Phi)
					walk = func(p *ssa.Phi) {
						if seen[p] {
							return
						}
						seen[p] = true
						for _, e := range p.Edges {
							if k, isC := constInt(e); isC {
								consts = append(consts, k)
							} else if isElem(e) {
								elems++
							} else if q, isPhi := e.(*ssa.Phi); isPhi {
								walk(q)
							} else {
								other++
							}
						}
					}
					walk(phi)
					r.inst("%s: %s compared with an element", c.short(fn), valName(phi))
					bad := len(consts) > 0 && elems > 0 && other == 0
					r.oblig(!bad)
					if bad {
						r.find(c.short(fn)+":sentinel "+fmt.Sprint(consts[0])+" compared with elements", c.instrPos(bo), "%s compares an element with %s, which is the constant %d until it has been set to an element: elements are arbitrary ints, so an input that contains %d is treated as if it had already been seen (or not seen)", c.short(fn), valName(phi), consts[0], consts[0])
					}
				}
			}
		}
	}
}
