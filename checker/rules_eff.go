package main

// Rules built on E-EFF summaries: PURE / READONLY / RECEIVER-ONLY / FRESH /
// GLOBAL / NOSHARE / RETAIN / WHO-WRITES.

import (
	"fmt"
	"go/types"
	"sort"
	"strings"

	"golang.org/x/tools/go/ssa"
)

// paramIndex returns the index of the named parameter of fn (receiver is index 0).
func paramIndex(fn *ssa.Function, name string) int {
	for i, p := range fn.Params {
		if p.Name() == name {
			return i
		}
	}
	failf("function %s has no parameter %q", fn, name)
	return -1
}

// checkUnknown records an undecided instance when fn (transitively) reaches an unsummarised effect.
func checkUnknown(c *Ctx, r *RuleResult, fn *ssa.Function) bool {
	u := c.Eff().UnknownOf(fn)
	if len(u) > 0 {
		r.undecided("%s reaches effects the analysis has no summary for: %s", c.short(fn), strings.Join(u, ", "))
		return false
	}
	return true
}

// noWrites asserts that fn writes nothing rooted at the given parameter indices
// (nil = every parameter), nothing captured and no global.
func noWrites(c *Ctx, r *RuleResult, fn *ssa.Function, params []int, what string) {
	E := c.Eff()
	r.inst("%s: %s", c.short(fn), what)
	if !checkUnknown(c, r, fn) {
		return
	}
	bad := 0
	for _, ap := range E.WritesOf(fn) {
		forbidden := false
		switch {
		case ap.Root >= rGlobal:
			forbidden = true
		case ap.Root >= rFree:
			forbidden = true
		default:
			if params == nil {
				forbidden = true
			} else {
				for _, p := range params {
					if p == ap.Root {
						forbidden = true
					}
				}
			}
		}
		if forbidden {
			bad++
			site := writeSite(c, fn, ap)
			r.find(c.short(fn)+":writes "+E.apString(fn, ap), site, "%s must not modify %s but may write %s", c.short(fn), what, E.apString(fn, ap))
		}
	}
	r.oblig(bad == 0)
}

// writeSite finds one instruction of fn that performs (or calls something performing) the write.
func writeSite(c *Ctx, fn *ssa.Function, ap AP) string {
	E := c.Eff()
	k := ap.key()
	for _, b := range fn.Blocks {
		for _, in := range b.Instrs {
			for _, w := range E.InstrWrites(fn, in) {
				if w.key() == k {
					return c.instrPos(in)
				}
			}
		}
	}
	return c.pos(fn.Pos())
}

// onlyWrites asserts every caller-visible write of fn is rooted at one of the allowed parameters.
func onlyWrites(c *Ctx, r *RuleResult, fn *ssa.Function, allowed []int, what string) {
	E := c.Eff()
	r.inst("%s: writes only %s", c.short(fn), what)
	if !checkUnknown(c, r, fn) {
		return
	}
	bad := 0
	for _, ap := range E.WritesOf(fn) {
		ok := false
		for _, p := range allowed {
			if ap.Root == p {
				ok = true
			}
		}
		if !ok {
			bad++
			r.find(c.short(fn)+":writes "+E.apString(fn, ap), writeSite(c, fn, ap), "%s may only modify %s but may write %s", c.short(fn), what, E.apString(fn, ap))
		}
	}
	r.oblig(bad == 0)
}

// freshResult asserts that result idx of fn reaches no memory of the given parameters
// (nil = any parameter), no captured variable and no global.
func freshResult(c *Ctx, r *RuleResult, fn *ssa.Function, idx int, params []int, allowedParams []int, what string) {
	E := c.Eff()
	r.inst("%s: result %d %s", c.short(fn), idx, what)
	if !checkUnknown(c, r, fn) {
		return
	}
	reach := E.RetReach(fn, idx)
	var roots []int
	for k := range reach {
		roots = append(roots, k)
	}
	sort.Ints(roots)
	bad := 0
	for _, k := range roots {
		forbidden := false
		if k >= rFree {
			forbidden = true
		} else if params == nil {
			forbidden = true
		} else {
			for _, p := range params {
				if p == k {
					forbidden = true
				}
			}
		}
		for _, a := range allowedParams {
			if a == k {
				forbidden = false
			}
		}
		if forbidden {
			bad++
			r.find(c.short(fn)+":result reaches "+E.rootName(fn, k), retSite(c, fn, k), "result of %s must be independent of %s but reaches it (%s)", c.short(fn), E.rootName(fn, k), reach[k])
		}
	}
	r.oblig(bad == 0)
}

// retSite: the position where caller memory rooted at `root` is stored into local memory, or the return.
func retSite(c *Ctx, fn *ssa.Function, root int) string {
	f := c.Eff().fas[fn]
	for _, b := range fn.Blocks {
		for _, in := range b.Instrs {
			st, ok := in.(*ssa.Store)
			if !ok {
				continue
			}
			for l := range f.P(st.Val) {
				if l.o.root == root {
					for d := range f.P(st.Addr) {
						if d.o.root < 0 {
							return c.instrPos(in)
						}
					}
				}
			}
		}
	}
	return c.pos(fn.Pos())
}

// ---------------------------------------------------------------- GLOBAL / NOSHARE

func ruleGlobal(c *Ctx) *RuleResult { return ruleGlobalIn(c, "") }

// ruleGlobalIn restricts GLOBAL to the functions of one package (module-relative path); "" = all.
func ruleGlobalIn(c *Ctx, pkgRel string) *RuleResult {
	r := &RuleResult{Rule: "GLOBAL", Doc: "no function outside init writes through a package-level variable, and no function hands out a pointer-carrying value rooted at one", MinInst: 1}
	E := c.Eff()
	// enumerate package-level variables from the type-checked packages
	nglob := 0
	for _, p := range c.modulePackages() {
		sc := p.Types.Scope()
		for _, n := range sc.Names() {
			if v, ok := sc.Lookup(n).(*types.Var); ok {
				nglob++
				r.inst("package-level variable %s.%s %s", p.Name, v.Name(), types.TypeString(v.Type(), func(*types.Package) string { return "" }))
			}
		}
	}
	r.note("%d package-level variables in %d packages", nglob, len(c.modulePackages()))
	for _, fn := range c.Funcs {
		if fn.Name() == "init" && fn.Parent() == nil {
			continue
		}
		if pkgRel != "" {
			if p := fnPkg(fn); p == nil || p.Pkg.Path() != c.Mod+"/"+pkgRel {
				continue
			}
		}
		r.inst("function %s", c.short(fn))
		var u []string
		for _, x := range E.UnknownOf(fn) {
			if x != "go statement" && x != "select statement" { // reported by NOSHARE
				u = append(u, x)
			}
		}
		if len(u) > 0 {
			r.undecided("%s reaches effects the analysis has no summary for (%s): it cannot be shown to leave package-level state alone", c.short(fn), strings.Join(u, ", "))
		}
		bad := 0
		for _, ap := range E.WritesOf(fn) {
			if ap.Root >= rGlobal && ap.Root < rFresh {
				bad++
				r.find(c.short(fn)+":writes "+E.apString(fn, ap), writeSite(c, fn, ap), "%s writes package-level state %s (shared by all goroutines)", c.short(fn), E.apString(fn, ap))
			}
		}
		for i := 0; i < fn.Signature.Results().Len(); i++ {
			for k, path := range E.RetReach(fn, i) {
				if k >= rGlobal && k < rFresh {
					// a sentinel error of another package (io.EOF, io.ErrUnexpectedEOF): immutable by convention,
					// shared by every program that imports the package
					if g := E.globals[k-rGlobal]; g.Pkg != nil && !strings.HasPrefix(g.Pkg.Pkg.Path(), c.Mod) && types.Identical(fn.Signature.Results().At(i).Type(), errType) {
						r.note("%s returns the sentinel error %s.%s", c.short(fn), g.Pkg.Pkg.Name(), g.Name())
						continue
					}
					bad++
					r.find(c.short(fn)+":returns "+E.rootName(fn, k), c.pos(fn.Pos()), "%s returns memory of package-level %s (%s)", c.short(fn), E.rootName(fn, k), path)
				}
			}
		}
		// stores of global-rooted memory into caller memory
		for _, e := range E.sums[fn].Stores {
			if e.src.Root >= rGlobal && e.src.Root < rFresh && !(e.dst.Root >= rGlobal && e.dst.Root < rFresh) {
				// a sentinel error of another package (io.ErrShortWrite recorded by an error-keeping
				// writer) is an immutable value shared by every program that imports the package
				if g := E.globals[e.src.Root-rGlobal]; g.Pkg != nil && !strings.HasPrefix(g.Pkg.Pkg.Path(), c.Mod) && types.Identical(g.Type().(*types.Pointer).Elem(), errType) {
					r.note("%s records the sentinel error %s.%s", c.short(fn), g.Pkg.Pkg.Name(), g.Name())
					continue
				}
				bad++
				r.find(c.short(fn)+":leaks "+E.apString(fn, e.src), c.pos(fn.Pos()), "%s stores memory of package-level %s into %s", c.short(fn), E.apString(fn, e.src), E.apString(fn, e.dst))
			}
		}
		r.oblig(bad == 0)
	}
	return r
}

func ruleNoShare(c *Ctx) *RuleResult {
	r := &RuleResult{Rule: "NOSHARE", Doc: "the module starts no goroutine, creates no channel, and uses no sync/atomic primitive; math/rand only through rand.New(rand.NewSource(seed))", MinInst: 1}
	for _, p := range c.modulePackages() {
		for path := range p.Imports {
			if path == "sync" || path == "sync/atomic" {
				r.find(p.Name+":import "+path, p.PkgPath, "package %s imports %s: library-internal sharing must be classified", p.PkgPath, path)
			}
		}
	}
	for _, fn := range c.Funcs {
		r.inst("function %s", c.short(fn))
		bad := 0
		for _, b := range fn.Blocks {
			for _, in := range b.Instrs {
				switch x := in.(type) {
				case *ssa.Go:
					bad++
					r.find(c.short(fn)+":go statement", c.instrPos(in), "%s starts a goroutine; memory it shares is unclassified", c.short(fn))
				case *ssa.MakeChan:
					bad++
					r.find(c.short(fn)+":make(chan)", c.instrPos(in), "%s creates a channel", c.short(fn))
				case *ssa.Select:
					bad++
					r.find(c.short(fn)+":select", c.instrPos(in), "%s uses select", c.short(fn))
				case *ssa.Call:
					if cal := x.Call.StaticCallee(); cal != nil && cal.Pkg != nil && cal.Pkg.Pkg.Path() == "math/rand" && cal.Signature.Recv() == nil {
						if n := cal.Name(); n != "New" && n != "NewSource" && n != "init" {
							bad++
							r.find(c.short(fn)+":math/rand."+n, c.instrPos(in), "%s uses the process-wide random source rand.%s", c.short(fn), n)
						}
					}
				}
			}
		}
		r.oblig(bad == 0)
	}
	return r
}

// ---------------------------------------------------------------- WHO-WRITES

// ruleWhoWrites: every module function that may write a field of the named struct type
// (through any parameter) must be in the allowed set.
func ruleWhoWrites(c *Ctx, rule string, pkgRel, typeName string, allowed []string, doc string) *RuleResult {
	return ruleWhoWritesX(c, rule, pkgRel, typeName, allowed, doc, false)
}

// ruleWhoWritesX: with callResults, writes to a value of the type obtained from a module call in the
// same function (e.g. g := NewSparse(...); g.Neighbourhoods[i] = ...) count as well.
func ruleWhoWritesX(c *Ctx, rule string, pkgRel, typeName string, allowed []string, doc string, callResults bool) *RuleResult {
	r := &RuleResult{Rule: rule, Doc: doc, MinInst: 1}
	E := c.Eff()
	tn := c.Pkg(pkgRel).Types.Scope().Lookup(typeName)
	if tn == nil {
		failf("type %s.%s not found", pkgRel, typeName)
	}
	T := tn.Type()
	allow := map[string]bool{}
	for _, a := range allowed {
		allow[a] = true
		if c.FnOpt(a) == nil {
			r.note("allowed writer %s no longer exists (inlined or removed): nothing to allow", a)
		}
	}
	for _, fn := range c.Funcs {
		f := E.fas[fn]
		var hits []string
		for _, o := range f.objs {
			if len(o.written) == 0 {
				continue
			}
			if o.root < 0 {
				// a local object: only the merged result object of a module call, when requested
				isCallRes := false
				if callResults {
					for v, so := range f.site {
						if so != o {
							continue
						}
						if call, ok := v.(*ssa.Call); ok {
							if cal := call.Call.StaticCallee(); cal != nil && c.inModule(cal) {
								t := call.Type()
								if p, ok := t.Underlying().(*types.Pointer); ok {
									t = p.Elem()
								}
								if types.Identical(t, T) {
									isCallRes = true
								}
							}
						}
					}
				}
				if !isCallRes {
					continue
				}
				hitsFresh := []string{}
				for p := range o.written {
					hitsFresh = append(hitsFresh, "result."+p)
				}
				hits = append(hits, hitsFresh...)
				continue
			}
			// the struct itself, or memory reached through one of its fields
			within := false
			for a := o; a != nil; a = a.parent {
				t := a.typ
				if t == nil {
					continue
				}
				if p, ok := t.Underlying().(*types.Pointer); ok {
					t = p.Elem()
				}
				if types.Identical(t, T) {
					within = true
				}
			}
			if !within {
				continue
			}
			for p := range o.written {
				hits = append(hits, E.apString(fn, f.apOf(loc{o, p})))
			}
		}
		if len(hits) == 0 {
			continue
		}
		sort.Strings(hits)
		name := c.short(fn)
		r.inst("%s writes %s", name, strings.Join(hits, ", "))
		base := name
		if i := strings.Index(base, "$"); i >= 0 {
			base = base[:i]
		}
		ok, via := derivedAllowed(c, fn, allow, map[*ssa.Function]bool{})
		r.oblig(ok)
		if ok && !allow[base] {
			r.note("%s is an unexported helper called only from allowed writers: allowed", name)
		}
		if !ok {
			why := ""
			if via != "" {
				why = " (it is also called from " + via + ")"
			}
			r.find(name+":writes "+typeName, c.pos(fn.Pos()), "%s may write %s fields (%s) but is neither one of the allowed functions %v nor a helper used only by them%s", name, typeName, strings.Join(hits, ", "), allowed, why)
		}
	}
	return r
}

// derivedAllowed: fn is on the allow list, is a closure of an allowed function, or is an unexported
// function of the module all of whose module callers are allowed in the same sense (a helper
// extracted from an allowed function). via names a caller that is not allowed.
func derivedAllowed(c *Ctx, fn *ssa.Function, allow map[string]bool, seen map[*ssa.Function]bool) (bool, string) {
	name := c.short(fn)
	if i := strings.Index(name, "$"); i >= 0 {
		name = name[:i]
	}
	if allow[name] {
		return true, ""
	}
	if seen[fn] {
		return true, "" // recursion among helpers: decided by the other callers
	}
	seen[fn] = true
	if fn.Parent() != nil {
		return derivedAllowed(c, fn.Parent(), allow, seen)
	}
	if fn.Object() == nil || fn.Object().Exported() {
		return false, ""
	}
	ncall := 0
	for _, caller := range c.Funcs {
		for _, b := range caller.Blocks {
			for _, in := range b.Instrs {
				var cc *ssa.CallCommon
				switch x := in.(type) {
				case *ssa.Call:
					cc = &x.Call
				case *ssa.Defer:
					cc = &x.Call
				case *ssa.Go:
					cc = &x.Call
				default:
					// a function value taken without being called: cannot be followed
					for _, op := range in.Operands(nil) {
						if op != nil && *op == ssa.Value(fn) {
							return false, c.short(caller) + " (as a value)"
						}
					}
					continue
				}
				if cc.StaticCallee() != fn {
					for _, a := range cc.Args {
						if a == ssa.Value(fn) {
							return false, c.short(caller) + " (as a value)"
						}
					}
					continue
				}
				ncall++
				if caller == fn {
					continue
				}
				if ok, _ := derivedAllowed(c, caller, allow, seen); !ok {
					return false, c.short(caller)
				}
			}
		}
	}
	return ncall > 0, ""
}

// ---------------------------------------------------------------- RETAIN

type retainSpec struct {
	ctor   string // constructor function
	param  string // parameter it keeps
	typ    string // "pkg.Type" whose methods must not write through the retained field
	field  string // field (inline path) holding the retained memory
	pkgRel string
}

// ruleRetain: (1) the set of (constructor, parameter) pairs whose result reaches caller memory is
// exactly the listed one; (2) no method of the resulting type writes through the retaining field.
func ruleRetain(c *Ctx, ctors []string, specs []retainSpec) *RuleResult {
	r := &RuleResult{Rule: "RETAIN", Doc: "constructors that keep caller memory are exactly the listed ones, and no method of the constructed type writes through the retained field", MinInst: len(specs)}
	E := c.Eff()
	listed := map[string]bool{}
	for _, s := range specs {
		listed[s.ctor+"/"+s.param] = true
	}
	for _, name := range ctors {
		fn := c.Fn(name)
		if !checkUnknown(c, r, fn) {
			continue
		}
		for i := 0; i < fn.Signature.Results().Len(); i++ {
			for k, path := range E.RetReach(fn, i) {
				if k >= rFree {
					r.find(name+":retains "+E.rootName(fn, k), c.pos(fn.Pos()), "%s keeps %s (%s)", name, E.rootName(fn, k), path)
					continue
				}
				pn := fn.Params[k].Name()
				if _, isFunc := fn.Params[k].Type().Underlying().(*types.Signature); isFunc {
					r.inst("%s keeps callback %s (function values carry no analysed state)", name, pn)
					continue
				}
				if listed[name+"/"+pn] {
					continue
				}
				r.oblig(false)
				r.find(name+":retains "+pn, retSite(c, fn, k), "%s keeps caller memory %s (%s); values built from one caller slice would share it", name, pn, path)
			}
		}
	}
	for _, s := range specs {
		fn := c.Fn(s.ctor)
		k := paramIndex(fn, s.param)
		kept := false
		for i := 0; i < fn.Signature.Results().Len(); i++ {
			if _, ok := E.RetReach(fn, i)[k]; ok {
				kept = true
			}
		}
		r.inst("%s keeps %s in %s.%s (retained today: %v)", s.ctor, s.param, s.typ, s.field, kept)
		// methods of the type must not write through the field
		for _, m := range c.Funcs {
			if m.Signature.Recv() == nil || m.Synthetic != "" {
				continue
			}
			rt := m.Signature.Recv().Type()
			if p, ok := rt.(*types.Pointer); ok {
				rt = p.Elem()
			}
			n, ok := rt.(*types.Named)
			if !ok || n.Obj().Pkg() == nil || n.Obj().Pkg().Name()+"."+n.Obj().Name() != s.typ {
				continue
			}
			bad := 0
			for _, ap := range E.WritesOf(m) {
				if ap.Root != 0 || len(ap.Derefs) == 0 {
					continue
				}
				// first deref must be through the retaining field (pointer receivers have no leading "" deref:
				// the root object of a pointer parameter is the pointee)
				if ap.Derefs[0].slot == s.field {
					bad++
					r.find(c.short(m)+":writes retained "+s.field, writeSite(c, m, ap), "%s writes %s, which is caller memory kept by %s", c.short(m), E.apString(m, ap), s.ctor)
				}
			}
			r.inst("%s: no write through %s", c.short(m), s.field)
			r.oblig(bad == 0)
		}
	}
	return r
}

func fmtList(xs []string) string { return fmt.Sprint(xs) }

// ---------------------------------------------------------------- FIELD-WRITERS

type fieldWriterSpec struct {
	pkgRel, typ, field string
	allowed            []string
	noneOK             bool // no writer through a parameter at all is fine (field only set in its constructor)
}

// ruleFieldWriters: only the allowed functions may write (the elements of, or re-assign) the given field.
func ruleFieldWriters(c *Ctx, rule string, specs []fieldWriterSpec) *RuleResult {
	r := &RuleResult{Rule: rule, Doc: "only the listed functions write the state slice field (elements or header), per E-EFF write summaries of every module function", MinInst: len(specs)}
	E := c.Eff()
	for _, sp := range specs {
		tn := c.Pkg(sp.pkgRel).Types.Scope().Lookup(sp.typ)
		if tn == nil {
			failf("type %s.%s not found", sp.pkgRel, sp.typ)
		}
		T := tn.Type()
		st, ok := T.Underlying().(*types.Struct)
		if !ok {
			failf("%s.%s is not a struct", sp.pkgRel, sp.typ)
		}
		hasField := false
		for i := 0; i < st.NumFields(); i++ {
			if st.Field(i).Name() == sp.field {
				hasField = true
			}
		}
		if !hasField {
			failf("%s.%s has no field %s", sp.pkgRel, sp.typ, sp.field)
		}
		allow := map[string]bool{}
		for _, a := range sp.allowed {
			c.Fn(a)
			allow[a] = true
		}
		writers := 0
		for _, fn := range c.Funcs {
			f := E.fas[fn]
			hit := ""
			for _, o := range f.objs {
				if o.root < 0 || len(o.written) == 0 {
					continue
				}
				// (a) the struct object itself with the field (or a sub-path) written
				t := o.typ
				if t != nil {
					if p, ok := t.Underlying().(*types.Pointer); ok {
						t = p.Elem()
					}
				}
				if t != nil && types.Identical(t, T) {
					for p := range o.written {
						if p == sp.field || strings.HasPrefix(p, sp.field+".") {
							hit = E.apString(fn, f.apOf(loc{o, p}))
						}
					}
				}
				// (b) the backing array reached through the field
				if o.parent != nil && o.slot == sp.field && o.parent.typ != nil {
					pt := o.parent.typ
					if p, ok := pt.Underlying().(*types.Pointer); ok {
						pt = p.Elem()
					}
					if types.Identical(pt, T) {
						for p := range o.written {
							hit = E.apString(fn, f.apOf(loc{o, p}))
						}
					}
				}
			}
			if hit == "" {
				continue
			}
			writers++
			name := c.short(fn)
			r.inst("%s.%s written by %s (%s)", sp.typ, sp.field, name, hit)
			okW, _ := derivedAllowed(c, fn, allow, map[*ssa.Function]bool{})
			r.oblig(okW)
			if !okW {
				r.find(name+":writes "+sp.typ+"."+sp.field, c.pos(fn.Pos()), "%s may write %s.%s (%s) but is not one of %v", name, sp.typ, sp.field, hit, sp.allowed)
			}
		}
		if writers == 0 && sp.noneOK {
			r.inst("%s.%s: no function writes it through a parameter (set only where the value is built)", sp.typ, sp.field)
			r.oblig(true)
		} else if writers == 0 {
			r.undecided("no writer of %s.%s found at all (field renamed or rule lost its anchor)", sp.typ, sp.field)
		}
	}
	return r
}
