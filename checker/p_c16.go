package main

// C16: TABLE (binomial tables and overflow thresholds checked with math/big against their
// arithmetic definition, plus the shape of the code that consumes them) and OVF (no silently
// wrapping multiplication / addition in package comb).

import (
	"fmt"
	"go/ast"
	"go/constant"
	"go/token"
	"go/types"
	"math"
	"math/big"

	"golang.org/x/tools/go/packages"
	"golang.org/x/tools/go/ssa"
)

// constTable extracts a package-level []T or [][]T composite literal of integer constants.
func constTable(c *Ctx, pkgRel, name string) (rows [][]*big.Int, flat bool, pos token.Pos) {
	p := c.Pkg(pkgRel)
	for _, f := range p.Syntax {
		for _, d := range f.Decls {
			gd, ok := d.(*ast.GenDecl)
			if !ok || gd.Tok != token.VAR {
				continue
			}
			for _, sp := range gd.Specs {
				vs := sp.(*ast.ValueSpec)
				for i, id := range vs.Names {
					if id.Name != name || i >= len(vs.Values) {
						continue
					}
					cl, ok := vs.Values[i].(*ast.CompositeLit)
					if !ok {
						failf("%s.%s is not initialised by a composite literal", pkgRel, name)
					}
					val := func(e ast.Expr) *big.Int {
						tv, ok := p.TypesInfo.Types[e]
						if !ok || tv.Value == nil {
							failf("%s.%s contains a non-constant element at %s", pkgRel, name, c.pos(e.Pos()))
						}
						v := constant.ToInt(tv.Value)
						bi, ok := new(big.Int).SetString(v.ExactString(), 10)
						if !ok {
							failf("%s.%s: cannot read constant %s", pkgRel, name, v.ExactString())
						}
						return bi
					}
					for _, el := range cl.Elts {
						if _, keyed := el.(*ast.KeyValueExpr); keyed {
							failf("%s.%s uses keyed elements; table extraction not supported", pkgRel, name)
						}
						if inner, ok := el.(*ast.CompositeLit); ok {
							var row []*big.Int
							for _, e2 := range inner.Elts {
								row = append(row, val(e2))
							}
							rows = append(rows, row)
						} else {
							flat = true
							rows = append(rows, []*big.Int{val(el)})
						}
					}
					return rows, flat, id.Pos()
				}
			}
		}
	}
	failf("package-level table %s.%s not found", pkgRel, name)
	return
}

func constOf(c *Ctx, pkgRel, name string) *big.Int {
	o := c.Pkg(pkgRel).Types.Scope().Lookup(name)
	k, ok := o.(*types.Const)
	if !ok {
		failf("constant %s.%s not found", pkgRel, name)
	}
	bi, _ := new(big.Int).SetString(constant.ToInt(k.Val()).ExactString(), 10)
	return bi
}

// largestKOf: the constant comb.largestK when the package still declares it, otherwise the last index
// of maxSizes (a guard written against len(maxSizes) needs no constant).
func largestKOf(c *Ctx, tableLen int) int64 {
	if k, ok := c.Pkg("comb").Types.Scope().Lookup("largestK").(*types.Const); ok {
		bi, _ := new(big.Int).SetString(constant.ToInt(k.Val()).ExactString(), 10)
		return bi.Int64()
	}
	return int64(tableLen) - 1
}

// thresholdTableGone: the package no longer has the threshold table maxSizes (CoeffUint64 was
// rewritten around checked arithmetic, say). TABLE then judges only the Pascal rows; the arithmetic
// of CoeffUint64 is OVF's like everybody else's, and the uint64 -> int conversion is UNSCONV's.
func thresholdTableGone(c *Ctx) bool {
	var p *packages.Package
	for _, q := range c.Pkgs {
		if q.PkgPath == c.Mod+"/comb" {
			p = q
		}
	}
	if p == nil {
		return false
	}
	_, isVar := p.Types.Scope().Lookup("maxSizes").(*types.Var)
	return !isVar
}

func binom(n, k int64) *big.Int { return new(big.Int).Binomial(n, k) }

var maxU64 = new(big.Int).Sub(new(big.Int).Lsh(big.NewInt(1), 64), big.NewInt(1))

// tableCovered: the functions whose arithmetic TABLE accounts for (CoeffUint64 and, when the
// multiplicative loop lives in an unexported helper that only CoeffUint64 calls, that helper).
func tableCovered(c *Ctx) map[string]bool {
	if thresholdTableGone(c) {
		return map[string]bool{}
	}
	out := map[string]bool{"comb.CoeffUint64": true}
	fn := c.FnOpt("comb.CoeffUint64")
	if fn == nil || len(loopsOf(fn)) != 0 {
		return out
	}
	for _, b := range fn.Blocks {
		for _, in := range b.Instrs {
			if call, ok := in.(*ssa.Call); ok {
				if cal := call.Call.StaticCallee(); cal != nil && c.inModule(cal) && cal.Blocks != nil && len(loopsOf(cal)) == 1 && cal.Object() != nil && !cal.Object().Exported() {
					only := true
					for _, f := range c.Funcs {
						if f == fn {
							continue
						}
						for _, b2 := range f.Blocks {
							for _, in2 := range b2.Instrs {
								if c2, ok := in2.(*ssa.Call); ok && c2.Call.StaticCallee() == cal {
									only = false
								}
							}
						}
					}
					if only {
						out[c.short(cal)] = true
					}
				}
			}
		}
	}
	return out
}

// feedsTableProduct: the sum is used only as a factor of the table-guarded product.
func feedsTableProduct(bo *ssa.BinOp) bool {
	refs := bo.Referrers()
	if refs == nil || len(*refs) == 0 {
		return false
	}
	for _, r := range *refs {
		if _, isDbg := r.(*ssa.DebugRef); isDbg {
			continue
		}
		m, ok := r.(*ssa.BinOp)
		if !ok || m.Op != token.MUL || !isTableProduct(m) {
			return false
		}
	}
	return true
}

// liftToCallers: goal (over the parameters of the unexported function fn) holds at every static call
// of fn in the module; false when fn is exported, escapes as a value, or has no caller.
func liftToCallers(c *Ctx, fn *ssa.Function, P *Prover, goal Poly) bool {
	if fn.Object() == nil || fn.Object().Exported() || fn.Parent() != nil {
		return false
	}
	n := 0
	for _, caller := range c.Funcs {
		var CP *Prover
		for _, b := range caller.Blocks {
			for _, in := range b.Instrs {
				for _, op := range in.Operands(nil) {
					if *op == ssa.Value(fn) {
						call, ok := in.(*ssa.Call)
						if !ok || call.Call.StaticCallee() != fn {
							return false // the function is used as a value
						}
					}
				}
				call, ok := in.(*ssa.Call)
				if !ok || call.Call.StaticCallee() != fn {
					continue
				}
				if CP == nil {
					CP = NewProver(c, caller)
				}
				t, ok := translatePoly(P, goal, fn, CP, call.Call.Args)
				if !ok || !CP.Prove(t, b) {
					return false
				}
				n++
			}
		}
	}
	return n > 0
}

func tableRows(c *Ctx) [][]*big.Int {
	small, _, _ := constTable(c, "comb", "smallEntries")
	return small
}

func ruleTable(c *Ctx) *RuleResult {
	r := &RuleResult{Rule: "TABLE", Doc: "smallEntries[n][k] = C(n,k) for every row of the table; for each k, maxSizes[k] is the largest n with k*C(n,k) <= 2^64-1 (the largest intermediate of the multiplicative loop); k > largestK always overflows; Coeff compares with MaxInt before converting; CoeffUint64 has the loop shape these bounds are about", MinInst: 300}
	small, _, spos := constTable(c, "comb", "smallEntries")
	// (1) Pascal rows
	r.inst("smallEntries: %d rows", len(small))
	r.oblig(len(small) >= 1)
	if len(small) < 1 {
		r.find("comb.smallEntries:row count", c.pos(spos), "smallEntries has no rows")
	}
	for n, row := range small {
		want := n/2 + 1
		r.oblig(len(row) == want)
		if len(row) != want {
			r.find(fmt.Sprintf("comb.smallEntries[%d]:length", n), c.pos(spos), "smallEntries[%d] has %d entries, the lookup needs k = 0..%d", n, len(row), n/2)
			continue
		}
		for k, v := range row {
			ok := v.Cmp(binom(int64(n), int64(k))) == 0
			r.inst("smallEntries[%d][%d] = C(%d,%d)", n, k, n, k)
			r.oblig(ok)
			if !ok {
				r.find(fmt.Sprintf("comb.smallEntries[%d][%d]", n, k), c.pos(spos), "smallEntries[%d][%d] = %s but C(%d,%d) = %s", n, k, v, n, k, binom(int64(n), int64(k)))
			}
		}
	}
	if thresholdTableGone(c) {
		r.note("comb.maxSizes no longer exists: no threshold table to judge; the arithmetic of CoeffUint64 is judged by OVF and the conversion to int by UNSCONV")
		r.MinInst = 250
		return r
	}
	// (2) thresholds
	ms, flat, mpos := constTable(c, "comb", "maxSizes")
	if !flat {
		failf("comb.maxSizes is not a flat table")
	}
	largestK := largestKOf(c, len(ms))
	r.inst("len(maxSizes) = largestK+1 = %d", largestK+1)
	r.oblig(int64(len(ms)) == largestK+1)
	if int64(len(ms)) != largestK+1 {
		r.find("comb.maxSizes:length", c.pos(mpos), "maxSizes has %d entries but the guard admits k <= largestK = %d", len(ms), largestK)
	}
	for k := 1; k < len(ms); k++ {
		T := ms[k][0]
		r.inst("maxSizes[%d] = %s", k, T)
		if k == 1 {
			ok := T.Cmp(maxU64) == 0
			r.oblig(ok)
			if !ok {
				r.find("comb.maxSizes[1]", c.pos(mpos), "maxSizes[1] = %s; C(n,1) = n never overflows, so the threshold must be the largest uint64", T)
			}
			continue
		}
		if !T.IsInt64() {
			r.oblig(false)
			r.find(fmt.Sprintf("comb.maxSizes[%d]", k), c.pos(mpos), "maxSizes[%d] = %s is far above any n for which %d*C(n,%d) fits", k, T, k, k)
			continue
		}
		t := T.Int64()
		at := new(big.Int).Mul(big.NewInt(int64(k)), binom(t, int64(k)))
		next := new(big.Int).Mul(big.NewInt(int64(k)), binom(t+1, int64(k)))
		noWrap := at.Cmp(maxU64) <= 0
		tight := next.Cmp(maxU64) > 0
		r.oblig(noWrap)
		r.oblig(tight)
		if !noWrap {
			// largest correct value, for the message (binary search; k*C(n,k) is increasing in n)
			lo, hi := int64(k), t
			for lo < hi {
				mid := lo + (hi-lo+1)/2
				if new(big.Int).Mul(big.NewInt(int64(k)), binom(mid, int64(k))).Cmp(maxU64) <= 0 {
					lo = mid
				} else {
					hi = mid - 1
				}
			}
			good := lo
			r.find(fmt.Sprintf("comb.maxSizes[%d]", k), c.pos(mpos), "maxSizes[%d] = %d admits n for which the intermediate %d*C(n,%d) exceeds 2^64-1 (e.g. n = %d): CoeffUint64 returns a wrapped value instead of panicking (the largest sound threshold is %d)", k, t, k, k, t, good)
		} else if !tight {
			r.find(fmt.Sprintf("comb.maxSizes[%d]", k), c.pos(mpos), "maxSizes[%d] = %d refuses n = %d although %d*C(%d,%d) still fits in uint64", k, t, t+1, k, t+1, k)
		}
	}
	// (3) k > largestK always overflows (k <= n/2 after the symmetric reduction, so n >= 2k)
	k1 := largestK + 1
	least := new(big.Int).Mul(big.NewInt(k1), binom(2*k1, k1))
	r.inst("refusal of k > largestK justified: %d*C(%d,%d) > 2^64-1", k1, 2*k1, k1)
	r.oblig(least.Cmp(maxU64) > 0)
	if least.Cmp(maxU64) <= 0 {
		r.find("comb.largestK", c.pos(mpos), "largestK = %d: %d*C(%d,%d) still fits, so k = %d need not be refused", largestK, k1, 2*k1, k1, k1)
	}
	// and the last admitted k must have a table entry that admits at least n = 2k? (not required)
	// (4) maxInt
	mi := constOf(c, "comb", "maxInt")
	wantMax := new(big.Int).Sub(new(big.Int).Lsh(big.NewInt(1), 63), big.NewInt(1))
	r.inst("maxInt = MaxInt")
	r.oblig(mi.Cmp(wantMax) == 0)
	if mi.Cmp(wantMax) != 0 {
		r.find("comb.maxInt", c.pos(c.Pkg("comb").Types.Scope().Lookup("maxInt").Pos()), "maxInt = %s, expected the largest int %s", mi, wantMax)
	}
	shapeCoeff(c, r)
	shapeCoeffUint64(c, r)
	return r
}

// shapeCoeff: the uint64 -> int conversion of the result is dominated by the false edge of `comb > maxInt`.
func shapeCoeff(c *Ctx, r *RuleResult) {
	mi := constOf(c, "comb", "maxInt")
	n := 0
	// Coeff and the unexported helpers it hands the work to
	for _, fn := range codecScope(c.Fn("comb.Coeff")) {
		n += shapeCoeffIn(c, r, fn, mi)
	}
	if n == 0 {
		r.undecided("comb.Coeff: no uint64->int conversion found (shape changed)")
	}
}

func shapeCoeffIn(c *Ctx, r *RuleResult, fn *ssa.Function, mi *big.Int) int {
	P := NewProver(c, fn)
	n := 0
	for _, b := range fn.Blocks {
		for _, in := range b.Instrs {
			cv, ok := in.(*ssa.Convert)
			if !ok || !isInt(cv.Type()) || !isInt(cv.X.Type()) || !isUnsigned(cv.X.Type()) || isUnsigned(cv.Type()) {
				continue
			}
			if _, isConst := cv.X.(*ssa.Const); isConst {
				continue
			}
			n++
			r.inst("comb.Coeff: conversion %s -> int guarded by <= maxInt", valName(cv.X))
			// prove x <= maxInt at this block; maxInt does not fit the prover's int64 constants comfortably,
			// so look for the dominating comparison directly
			ok2 := false
			for x := b; x != nil; x = x.Idom() {
				if len(x.Preds) != 1 {
					continue
				}
				p := x.Preds[0]
				iff, isIf := p.Instrs[len(p.Instrs)-1].(*ssa.If)
				if !isIf {
					continue
				}
				bo, isBo := iff.Cond.(*ssa.BinOp)
				if !isBo || P.canon(strip(bo.X)) != P.canon(strip(cv.X)) {
					continue
				}
				k, isK := bo.Y.(*ssa.Const)
				if !isK || k.Value == nil {
					continue
				}
				kv, _ := new(big.Int).SetString(constant.ToInt(k.Value).ExactString(), 10)
				onTrue := p.Succs[0] == x
				// need: edge implies X <= maxInt
				switch {
				case bo.Op == token.GTR && !onTrue && kv.Cmp(mi) <= 0:
					ok2 = true
				case bo.Op == token.LEQ && onTrue && kv.Cmp(mi) <= 0:
					ok2 = true
				case bo.Op == token.GEQ && !onTrue && kv.Cmp(new(big.Int).Add(mi, big.NewInt(1))) <= 0:
					ok2 = true
				case bo.Op == token.LSS && onTrue && kv.Cmp(new(big.Int).Add(mi, big.NewInt(1))) <= 0:
					ok2 = true
				}
			}
			r.oblig(ok2)
			if !ok2 {
				r.find("comb.Coeff:int("+valName(cv.X)+")", c.instrPos(cv), "Coeff converts %s to int without a dominating check that it is <= maxInt: values above MaxInt come back negative", valName(cv.X))
			}
		}
	}
	return n
}

// shapeCoeffUint64 recognises   acc=1; for i=1; i<=k; i++ { acc *= n-k+i; acc /= i }   guarded by
// k <= largestK and n <= maxSizes[k], with k <= n/2, and the table access guarded by n <= 32.
func shapeCoeffUint64(c *Ctx, r *RuleResult) {
	fn := c.Fn("comb.CoeffUint64")
	P := NewProver(c, fn)
	var nP, kP ssa.Value
	for _, p := range fn.Params {
		switch p.Name() {
		case "n":
			nP = p
		case "k":
			kP = p
		}
	}
	if nP == nil || kP == nil {
		failf("comb.CoeffUint64: parameters n, k not found")
	}
	ms, _, _ := constTable(c, "comb", "maxSizes")
	largestK := largestKOf(c, len(ms))
	// the multiplicative loop: in CoeffUint64 itself, or in the one helper it calls that has a loop
	loopFn, LP := fn, P
	var via *ssa.Call
	loops := loopsOf(fn)
	if len(loops) == 0 {
		for _, b := range fn.Blocks {
			for _, in := range b.Instrs {
				if call, ok := in.(*ssa.Call); ok {
					if cal := call.Call.StaticCallee(); cal != nil && c.inModule(cal) && cal.Blocks != nil && len(loopsOf(cal)) == 1 {
						if via != nil {
							r.undecided("comb.CoeffUint64 calls several helpers with loops; the table obligations are about a single multiplicative loop")
							return
						}
						via = call
					}
				}
			}
		}
		if via != nil {
			loopFn = via.Call.StaticCallee()
			LP = NewProver(c, loopFn)
			loops = loopsOf(loopFn)
			r.note("the multiplicative loop is in %s, called from CoeffUint64: its shape is read there, its guards at the call", c.short(loopFn))
		}
	}
	if len(loops) != 1 {
		r.undecided("comb.CoeffUint64 has %d loops; the table obligations are about a single multiplicative loop", len(loops))
		return
	}
	// toCaller translates a polynomial over the loop function's parameters to CoeffUint64's terms
	toCaller := func(q Poly) (Poly, bool) {
		if via == nil {
			return q, true
		}
		return translatePolyX(LP, q, loopFn, P, via.Call.Args, nil)
	}
	var tabG *ssa.Global
	if sp := c.Prog.Package(c.Pkg("comb").Types); sp != nil {
		if m, ok := sp.Members["maxSizes"].(*ssa.Global); ok {
			tabG = m
		}
	}
	if false {
		var m *ssa.Global
		tabG = m
	}
	for h, body := range loops {
		// find acc phi:   acc' = (acc * X) / i
		var acc, iv *ssa.Phi
		var mul *ssa.BinOp
		for _, in := range h.Instrs {
			ph, ok := in.(*ssa.Phi)
			if !ok {
				break
			}
			for ei, e := range ph.Edges {
				if !body[h.Preds[ei]] {
					continue
				}
				q, ok := e.(*ssa.BinOp)
				if !ok || q.Op != token.QUO {
					continue
				}
				m, ok := q.X.(*ssa.BinOp)
				if !ok || m.Op != token.MUL {
					continue
				}
				if m.X == ssa.Value(ph) || m.Y == ssa.Value(ph) {
					if d, ok := q.Y.(*ssa.Phi); ok && d.Block() == h {
						acc, iv, mul = ph, d, m
					}
				}
			}
		}
		if acc == nil {
			r.undecided("comb.CoeffUint64: loop does not have the shape acc = acc*(...)/i")
			return
		}
		r.inst("comb.CoeffUint64: loop acc=%s i=%s", valName(acc), valName(iv))
		factor := mul.X
		if factor == ssa.Value(acc) {
			factor = mul.Y
		}
		initOK := true
		for ei, p := range h.Preds {
			if body[p] {
				continue
			}
			if v, ok := constInt(acc.Edges[ei]); !ok || v != 1 {
				initOK = false
			}
			if v, ok := constInt(iv.Edges[ei]); !ok || v != 1 {
				initOK = false
			}
		}
		stepOK := true
		for ei, p := range h.Preds {
			if !body[p] {
				continue
			}
			if LP.poly(iv.Edges[ei]).add(LP.poly(iv), -1).add(constP(-1), 1).key() != "" {
				stepOK = false
			}
		}
		r.oblig(initOK && stepOK)
		if !(initOK && stepOK) {
			r.find("comb.CoeffUint64:loop initial values", c.instrPos(acc), "the multiplicative loop does not start at acc = 1, i = 1 with step 1; the table bounds do not describe it")
		}
		// loop test i <= K: find K
		var K ssa.Value
		if iff, ok := h.Instrs[len(h.Instrs)-1].(*ssa.If); ok {
			if bo, ok := iff.Cond.(*ssa.BinOp); ok && bo.X == ssa.Value(iv) && bo.Op == token.LEQ && body[h.Succs[0]] {
				K = bo.Y
			}
		}
		if K == nil {
			r.undecided("comb.CoeffUint64: loop test is not i <= k")
			return
		}
		kp, okK := toCaller(LP.poly(K))
		basePoly := LP.poly(factor).add(LP.poly(iv), -1) // factor - i
		// a factor kept in a second counter that moves in step with i (num := n-k; num++ per trip):
		// the affine equalities of the loop (Karr) say what it is in terms of i
		loopPhis := func(p Poly) int {
			n := 0
			for _, ph := range LP.phisIn(p) {
				if body[ph.Block()] {
					n++
				}
			}
			return n
		}
		if loopPhis(basePoly) > 0 {
			if rw := LP.karrRewrite(basePoly, mul.Block()); loopPhis(rw) == 0 {
				basePoly = rw
			} else if rw := LP.karrRewrite(basePoly, h); loopPhis(rw) == 0 {
				basePoly = rw
			}
		}
		base, okB := toCaller(basePoly)
		if !okK || !okB {
			r.undecided("comb.CoeffUint64: the loop bound or factor of %s is not a function of its parameters", c.short(loopFn))
			return
		}
		want := P.poly(nP).add(kp, -1)
		fOK := base.add(want, -1).key() == ""
		r.oblig(fOK)
		if !fOK {
			r.find("comb.CoeffUint64:factor", c.instrPos(mul), "the loop multiplies by %s + i, not by n-k+i; the largest intermediate is no longer k*C(n,k)", P.showTerm(base))
		}
		// guards where the loop is entered (at the call when it lives in a helper)
		prove := func(goal Poly) bool {
			if via != nil {
				return P.Prove(goal, via.Block())
			}
			var pre *ssa.BasicBlock
			for _, p := range h.Preds {
				if !body[p] {
					pre = p
				}
			}
			return P.ProveWith(goal, pre, P.edgeFacts(pre, h))
		}
		g1 := prove(kp.add(constP(-largestK), 1))
		r.inst("comb.CoeffUint64: loop entered only with k <= largestK")
		r.oblig(g1)
		if !g1 {
			r.find("comb.CoeffUint64:guard k<=largestK", c.instrPos(acc), "the multiplicative loop can be entered with k > largestK (%d): no threshold exists for such k", largestK)
		}
		// n <= maxSizes[k]
		g2 := false
		if tabG != nil && c.immutableTable(tabG) {
			cell := atomP(P.atom(aTab, tabG, kp, 0, true).id)
			g2 = prove(P.poly(nP).add(cell, -1))
		}
		r.inst("comb.CoeffUint64: loop entered only with n <= maxSizes[k]")
		r.oblig(g2)
		if !g2 {
			r.find("comb.CoeffUint64:guard n<=maxSizes[k]", c.instrPos(acc), "the multiplicative loop can be entered without n <= maxSizes[k] having been established: the product can wrap")
		}
		g3 := prove(kp.scale(2).add(P.poly(nP), -1))
		r.inst("comb.CoeffUint64: loop entered only with 2k <= n (symmetric reduction)")
		r.oblig(g3)
		if !g3 {
			r.find("comb.CoeffUint64:reduction k<=n/2", c.instrPos(acc), "the loop can run with k > n/2; the thresholds are only valid after the symmetric reduction")
		}
		// result: every return after the loop returns acc (and CoeffUint64 returns the helper's result)
		for _, b := range loopFn.Blocks {
			if ret, ok := b.Instrs[len(b.Instrs)-1].(*ssa.Return); ok && h.Dominates(b) && !body[b] {
				ok2 := ret.Results[0] == ssa.Value(acc)
				r.oblig(ok2)
				if !ok2 {
					r.find("comb.CoeffUint64:result", c.instrPos(ret), "the value returned after the loop is not the accumulated product")
				}
			}
		}
		if via != nil {
			used := false
			for _, ref := range *via.Referrers() {
				if ret, ok := ref.(*ssa.Return); ok && len(ret.Results) == 1 && ret.Results[0] == ssa.Value(via) {
					used = true
				}
			}
			r.oblig(used)
			if !used {
				r.find("comb.CoeffUint64:result", c.instrPos(via), "CoeffUint64 does not return the product computed by %s", c.short(loopFn))
			}
		}
	}
	// table access smallEntries[n][k]: n <= 32 and k <= n/2
	found := false
	for _, b := range fn.Blocks {
		for _, in := range b.Instrs {
			ia, ok := in.(*ssa.IndexAddr)
			if !ok {
				continue
			}
			inner, ok := ia.X.(*ssa.UnOp)
			if !ok {
				continue
			}
			ia0, ok := inner.X.(*ssa.IndexAddr)
			if !ok {
				continue
			}
			base, ok := ia0.X.(*ssa.UnOp)
			if !ok {
				continue
			}
			g, ok := base.X.(*ssa.Global)
			if !ok || g.Name() != "smallEntries" {
				continue
			}
			found = true
			row, col := P.poly(ia0.Index), P.poly(ia.Index)
			// the table is never written (GLOBAL), so len(smallEntries) is its number of rows
			last := int64(len(tableRows(c)) - 1)
			var lenFacts []Poly
			for _, b2 := range fn.Blocks {
				for _, in2 := range b2.Instrs {
					if call, ok := in2.(*ssa.Call); ok {
						if bi, isB := call.Call.Value.(*ssa.Builtin); isB && bi.Name() == "len" {
							if ld, ok := call.Call.Args[0].(*ssa.UnOp); ok {
								if g2, ok := ld.X.(*ssa.Global); ok && g2.Name() == "smallEntries" {
									lp := P.lenOf(call.Call.Args[0])
									lenFacts = append(lenFacts, lp.add(constP(-(last+1)), 1), lp.scale(-1).add(constP(last+1), 1))
								}
							}
						}
					}
				}
			}
			a := P.ProveWith(row.add(constP(-last), 1), b, lenFacts)
			bq := P.ProveWith(col.scale(2).add(row, -1), b, lenFacts)
			r.inst("comb.CoeffUint64: smallEntries[%s][%s] with row <= %d and 2*col <= row", P.showTerm(row), P.showTerm(col), last)
			r.oblig(a)
			r.oblig(bq)
			if !a || !bq {
				r.find("comb.CoeffUint64:smallEntries access", c.instrPos(ia), "table lookup smallEntries[%s][%s] is not guarded by n <= %d (the last row) and k <= n/2 (row in range:%v, 2k<=n:%v)", P.showTerm(row), P.showTerm(col), last, a, bq)
			}
		}
	}
	if !found {
		r.note("comb.CoeffUint64 does not use smallEntries")
	}
}

// ---------------------------------------------------------------- OVF

// checkedAddIdiom: `s = a + b` whose only uses are (s^a)&(s^b) < 0 tests and returns (addHasOverflowed).
func checkedAddIdiom(add *ssa.BinOp) bool {
	xa, xb := false, false
	for _, ref := range *add.Referrers() {
		if x, ok := ref.(*ssa.BinOp); ok && x.Op == token.XOR {
			other := x.X
			if other == ssa.Value(add) {
				other = x.Y
			}
			if other == add.X {
				xa = true
			}
			if other == add.Y {
				xb = true
			}
		}
	}
	if !(xa && xb) {
		return false
	}
	// the function must return a bool derived from that test on every path: accept when fn has a bool result
	res := add.Parent().Signature.Results()
	return res.Len() == 2 && types.Identical(res.At(1).Type(), types.Typ[types.Bool])
}

func ruleOvf(c *Ctx, pkgRel string, tableGuarded map[string]bool) *RuleResult {
	r := &RuleResult{Rule: "OVF", Doc: "every multiplication with a non-constant operand, every addition of two non-constant operands and every unsigned subtraction in package comb is bounded by E-PROVE, is the table-guarded product, or sits inside a checked-arithmetic idiom", MinInst: 5}
	pkgPath := c.Mod + "/" + pkgRel
	for _, fn := range c.Funcs {
		p := fnPkg(fn)
		if p == nil || p.Pkg.Path() != pkgPath || fn.Synthetic != "" {
			continue
		}
		P := NewProver(c, fn)
		for _, b := range fn.Blocks {
			for _, in := range b.Instrs {
				if call, ok := in.(*ssa.Call); ok {
					if f := call.Call.StaticCallee(); f != nil && (f.String() == "math/bits.Mul64" || f.String() == "math/bits.Add64") {
						idx := 0 // Mul64: (hi, lo)
						if f.Name() == "Add64" {
							idx = 1 // (sum, carryOut)
						}
						used := false
						for _, ref := range *call.Referrers() {
							if ex, ok := ref.(*ssa.Extract); ok && ex.Index == idx && len(*ex.Referrers()) > 0 {
								used = true
							}
						}
						name := c.short(fn)
						r.inst("%s: bits.%s with the overflow word examined", name, f.Name())
						r.oblig(used)
						if !used {
							r.find(name+":bits."+f.Name()+" overflow word ignored", c.instrPos(call), "%s ignores the high/carry word of bits.%s: the low word alone is a silently wrapped result", name, f.Name())
						}
					}
					continue
				}
				if cv, ok := in.(*ssa.Convert); ok && isInt(cv.Type()) && isInt(cv.X.Type()) {
					// a signed value converted to an unsigned type keeps its meaning only if it is not negative
					// (the package does its arithmetic in uint64 after checking its int arguments)
					if _, isK := cv.X.(*ssa.Const); isK {
						continue
					}
					if isUnsigned(cv.X.Type()) || !isUnsigned(cv.Type()) {
						continue
					}
					v := P.poly(cv.X)
					desc := c.srcAt(cv.Pos())
					if desc == "" {
						desc = valName(cv)
					}
					name := c.short(fn)
					r.inst("%s: conversion %s of a signed value", name, desc)
					okLo := P.Prove(v.scale(-1), b)
					r.oblig(okLo)
					if !okLo {
						r.find(name+":conversion "+desc+" of a possibly negative value", c.instrPos(cv), "%s converts %s (%s) to %s without establishing that it is not negative: a negative value becomes a huge one and every overflow test made on the unsigned value is about a different number", name, P.showTerm(v), cv.X.Type(), cv.Type())
					}
					continue
				}
				bo, ok := in.(*ssa.BinOp)
				if !ok || !isInt(bo.Type()) || intBits(bo.Type()) < 64 {
					continue
				}
				_, cx := constInt(strip(bo.X))
				_, cy := constInt(strip(bo.Y))
				switch bo.Op {
				case token.MUL:
					if cx && cy {
						continue
					}
				case token.ADD:
					if cx || cy {
						continue
					}
				case token.SUB:
					if !isUnsigned(bo.Type()) || cy {
						continue
					}
				default:
					continue
				}
				desc := c.srcAt(bo.Pos())
				if desc == "" {
					desc = fmt.Sprintf("%s %s %s", valName(bo.X), bo.Op, valName(bo.Y))
				}
				name := c.short(fn)
				r.inst("%s: %s", name, desc)
				how := ""
				switch {
				case bo.Op == token.SUB:
					goal := P.poly(bo.Y).add(P.poly(bo.X), -1)
					if P.Prove(goal, b) {
						how = "subtrahend <= minuend"
					} else if liftToCallers(c, fn, P, goal) {
						how = "subtrahend <= minuend at every call of this unexported helper"
					}
				case tableGuarded[name] && bo.Op == token.MUL && isTableProduct(bo):
					how = "table-guarded product (TABLE)"
				case tableGuarded[name] && name != "comb.CoeffUint64" && bo.Op == token.ADD && feedsTableProduct(bo):
					how = "factor of the table-guarded product (TABLE checks it is n-k+i <= n at the call)"
				case bo.Op == token.ADD && checkedAddIdiom(bo):
					how = "checked-addition idiom"
				default:
					how = boundedByValue(P, bo, b)
				}
				r.oblig(how != "")
				if how == "" {
					r.find(name+":"+desc, c.instrPos(bo), "%s: %s can exceed the range of %s and wrap silently; no dominating guard bounds it and it is not a checked-arithmetic idiom", name, desc, typeShort(bo.Type()))
				} else {
					r.note("%s: %s discharged: %s", name, desc, how)
				}
			}
		}
	}
	return r
}

// isTableProduct: acc * X where the product's only use is the division by the loop counter.
func isTableProduct(m *ssa.BinOp) bool {
	for _, ref := range *m.Referrers() {
		if q, ok := ref.(*ssa.BinOp); ok && q.Op == token.QUO && q.X == ssa.Value(m) {
			return true
		}
	}
	return false
}

// boundedByValue: the result is provably <= some operand-typed SSA value that exists in the
// function (which fits its type by construction), or <= 2^61, and (for signed) >= -2^61.
func boundedByValue(P *Prover, bo *ssa.BinOp, b *ssa.BasicBlock) string {
	res := P.poly(bo.X)
	switch bo.Op {
	case token.ADD:
		res = res.add(P.poly(bo.Y), 1)
	case token.MUL:
		res = res.mul(P.poly(bo.Y))
	}
	lowOK := isUnsigned(bo.Type())
	if !lowOK {
		lowOK = P.Prove(res.scale(-1).add(constP(-(1<<61)), 1), b)
		if !lowOK {
			lowOK = P.Prove(res.scale(-1), b)
		}
	}
	if !lowOK {
		return ""
	}
	if P.Prove(res.add(constP(-(1<<61)), 1), b) {
		return "bounded by a constant"
	}
	// counter + bounded value in uint64: a counter that a loop advances by a constant is not judged
	// by this rule (l++ is not an instance: no run takes 2^61 steps); adding to it a value that is
	// itself at most 2^62 (a converted non-negative int, say) stays below 2^64 for the same reason
	if bo.Op == token.ADD && isUnsigned(bo.Type()) && intBits(bo.Type()) == 64 {
		for _, pr := range [][2]ssa.Value{{bo.X, bo.Y}, {bo.Y, bo.X}} {
			if isStepCounter(pr[0]) && (P.Prove(P.poly(pr[1]).add(constP(-(1<<62)-1), 1), b) || fromNonNegInt(P, pr[1], b)) {
				return "a constant-step loop counter plus a value of at most 2^63 (a converted non-negative int)"
			}
		}
	}
	// candidates: parameters and phis / values of the same type mentioned in dominating conditions
	var cands []ssa.Value
	for _, p := range bo.Parent().Params {
		if isInt(p.Type()) {
			cands = append(cands, p)
		}
	}
	for x := b; x != nil; x = x.Idom() {
		if len(x.Preds) != 1 {
			continue
		}
		p := x.Preds[0]
		if iff, ok := p.Instrs[len(p.Instrs)-1].(*ssa.If); ok {
			if c, ok := iff.Cond.(*ssa.BinOp); ok && isInt(c.X.Type()) {
				cands = append(cands, strip(c.X), strip(c.Y))
			}
		}
	}
	for _, v := range cands {
		if _, isC := v.(*ssa.Const); isC {
			continue
		}
		if intBits(v.Type()) != 64 {
			continue
		}
		if isUnsigned(v.Type()) != isUnsigned(bo.Type()) && !isUnsigned(bo.Type()) {
			continue // an unsigned bound says nothing about fitting a signed type
		}
		if P.Prove(res.add(P.poly(v), -1), b) {
			return "bounded by the value " + valName(v)
		}
		// one more than an existing value is fine if that value is provably below another value
		if P.Prove(res.add(P.poly(v), -1).add(constP(-1), 1), b) {
			for _, w := range cands {
				if _, isC := w.(*ssa.Const); !isC && w != v && P.Prove(P.poly(v).add(P.poly(w), -1).add(constP(1), 1), b) {
					return "bounded by " + valName(v) + "+1 <= " + valName(w)
				}
			}
		}
	}
	return ""
}

func init() {
	register(&propDef{
		id:          "C16",
		explanation: "Decides sentence one ('exact or refuse', and 'does return whenever C(n,k)*min(k,n-k) fits') for CoeffUint64/Coeff: TABLE checks with math/big that all smallEntries cells (289 today) equal C(n,k), that each of the 30 thresholds maxSizes[k] is the largest n with k*C(n,k) <= 2^64-1 (no wrap, and no earlier refusal than necessary), that refusing k > largestK is justified, that maxInt is MaxInt; and links the tables to the code by recognising on SSA the loop acc*=(n-k+i); acc/=i started at 1, entered only under k <= largestK, n <= maxSizes[k], 2k <= n, with the table lookup guarded by n <= (last row of the table) and 2k <= n, and Coeff's int conversion dominated by the <= maxInt test (UNSCONV states the same as an E-PROVE obligation - the converted value is at most MaxInt - so that it survives a rewrite that drops the table and the constant; when maxSizes is gone TABLE judges only the Pascal rows and CoeffUint64's arithmetic falls to OVF). OVF requires every other multiplication / addition / unsigned subtraction in package comb to be bounded by E-PROVE or to be a checked-arithmetic idiom (addHasOverflowed pattern, bits.Mul64 with the high word tested). Does not decide that Rank/Unrank are inverse.",
		notDecided:  []string{"that Rank and Unrank are mutually inverse and agree with CombinationsColex", "termination of Unrank beyond absence of silent wrap"},
		assumptions: []string{"64-bit int/uint (the sizes go/types uses for this build)", "math/big Binomial"},
		run: func(c *Ctx, tier string) []*RuleResult {
			pure := &RuleResult{Rule: "PURE", Doc: "the functions of package comb are functions of their arguments only: they write no package-level or argument memory (a memo keyed by a lossy packing of (n, k) would make the answer depend on earlier calls)", MinInst: 5}
			for _, n := range []string{"comb.CoeffUint64", "comb.Coeff", "comb.Coeffs", "comb.Rank", "comb.Unrank"} {
				noWrites(c, pure, c.Fn(n), nil, "its arguments or any shared state")
			}
			return []*RuleResult{ruleTable(c), ruleOvf(c, "comb", tableCovered(c)), pure, ruleUnsConv(c, codecScope(c.Fn("comb.Coeff")))}
		},
		controls: func(ctl *Ctx) []*RuleResult {
			return []*RuleResult{ruleOvf(ctl, "ovfctl", nil), ruleTable(ctl), ruleOvf(ctl, "comb", tableCovered(ctl)), ruleUnsConv(ctl, []*ssa.Function{ctl.Fn("ovfctl.BadToInt"), ctl.Fn("ovfctl.GoodToInt")})}
		},
	})
}

// ruleMulOvf: a product of two non-constant 64-bit integers (a count of objects obtained by
// multiplying sizes) wraps silently; it must be bounded by E-PROVE or formed with a checked idiom.
func ruleMulOvf(c *Ctx, pkgRel string) *RuleResult {
	r := &RuleResult{Rule: "MULOVF", Doc: "no product of two non-constant 64-bit integers is formed unless it is proved to stay in range (a precomputed number of objects overflows long before the objects run out)", MinInst: 0}
	for _, fn := range c.Funcs {
		p := fnPkg(fn)
		if p == nil || p.Pkg.Path() != c.Mod+"/"+pkgRel || fn.Synthetic != "" || fn.Blocks == nil {
			continue
		}
		var P *Prover
		for _, b := range fn.Blocks {
			for _, in := range b.Instrs {
				bo, ok := in.(*ssa.BinOp)
				if !ok || bo.Op != token.MUL || !isInt(bo.Type()) || intBits(bo.Type()) < 64 {
					continue
				}
				if _, isK := constInt(strip(bo.X)); isK {
					continue
				}
				if _, isK := constInt(strip(bo.Y)); isK {
					continue
				}
				if P == nil {
					P = NewProver(c, fn)
				}
				desc := c.srcAt(bo.Pos())
				if desc == "" {
					desc = fmt.Sprintf("%s * %s", valName(bo.X), valName(bo.Y))
				}
				r.inst("%s: %s", c.short(fn), desc)
				how := boundedByValue(P, bo, b)
				r.oblig(how != "")
				if how == "" {
					r.find(c.short(fn)+":product "+desc, c.instrPos(bo), "%s: the product %s of two non-constant operands can exceed the range of %s and wrap silently; nothing bounds it", c.short(fn), desc, typeShort(bo.Type()))
				}
			}
		}
	}
	return r
}

// ruleUnsConv: a uint64 (or uint) converted to a signed integer type of the same width is proved
// to be at most the largest value of that type: beyond it the result is negative (Coeff returning a
// wrapped binomial instead of refusing). Scope: Coeff and its helpers - Unrank's int(l) is in range
// because C(l, r) <= rank, which is a fact about values.
func ruleUnsConv(c *Ctx, fns []*ssa.Function) *RuleResult {
	r := &RuleResult{Rule: "UNSCONV", Doc: "in Coeff (and the helpers it hands the work to) no unsigned value is converted to a signed integer type unless it is proved to fit", MinInst: 1}
	for _, fn := range fns {
		if fn.Synthetic != "" || fn.Blocks == nil {
			continue
		}
		var P *Prover
		for _, b := range fn.Blocks {
			for _, in := range b.Instrs {
				cv, ok := in.(*ssa.Convert)
				if !ok || !isInt(cv.Type()) || !isInt(cv.X.Type()) || !isUnsigned(cv.X.Type()) || isUnsigned(cv.Type()) {
					continue
				}
				if intBits(cv.Type()) > intBits(cv.X.Type()) {
					continue
				}
				if _, isK := cv.X.(*ssa.Const); isK {
					continue
				}
				_, hi, okR := typeRange(cv.Type())
				if !okR {
					continue
				}
				if intBits(cv.Type()) >= 64 {
					hi = math.MaxInt64
				}
				if P == nil {
					P = NewProver(c, fn)
				}
				src := c.srcAt(cv.Pos())
				if src == "" {
					src = valName(cv)
				}
				r.inst("%s: %s", c.short(fn), src)
				ok2 := P.Prove(P.polyLoose(cv.X).add(constP(hi), -1), b)
				r.oblig(ok2)
				if !ok2 {
					r.find(c.short(fn)+":unsigned to signed "+src, c.instrPos(cv), "%s converts the unsigned value %s to %s without a proof that it is at most %d: larger values come out negative", c.short(fn), P.showTerm(P.polyLoose(cv.X)), cv.Type(), hi)
				}
			}
		}
	}
	return r
}

// isStepCounter: a loop-carried value whose only change is the addition of a positive constant.
func isStepCounter(v ssa.Value) bool {
	ph, ok := v.(*ssa.Phi)
	if !ok {
		return false
	}
	steps := 0
	for _, e := range ph.Edges {
		bo, isBo := e.(*ssa.BinOp)
		if !isBo || bo.Op != token.ADD || bo.X != ssa.Value(ph) {
			if _, isK := e.(*ssa.Const); isK {
				continue
			}
			if isBo {
				return false
			}
			continue // an initial value from outside the loop
		}
		k, isK := constInt(bo.Y)
		if !isK || k <= 0 || k > 1<<16 {
			return false
		}
		steps++
	}
	return steps >= 1
}

// fromNonNegInt: v is uint64(x) (+ a small constant) for a signed x proved non-negative: at most 2^63.
func fromNonNegInt(P *Prover, v ssa.Value, b *ssa.BasicBlock) bool {
	for depth := 0; depth < 3; depth++ {
		if bo, ok := v.(*ssa.BinOp); ok && bo.Op == token.ADD {
			if k, isK := constInt(bo.Y); isK && k >= 0 && k <= 1<<16 {
				v = bo.X
				continue
			}
		}
		break
	}
	cv, ok := v.(*ssa.Convert)
	if !ok || !isInt(cv.X.Type()) || isUnsigned(cv.X.Type()) {
		return false
	}
	return P.Prove(P.poly(cv.X).scale(-1), cv.Block())
}
