#!/usr/bin/env python3
"""Re-runs the registered quick check of every stored seeded change against /repo with the change
applied (git -C /repo apply; run; git -C /repo checkout -- .) and refreshes meta.json['check'].
Prints a table. A patch that no longer applies to the current tree is reported as stale."""
import os as _os
RUNNER = _os.environ.get('MAMBACHECK_BIN', './run.sh')
REPO = _os.environ.get('RECHECK_REPO', '/repo')  # a scratch worktree at /repo's HEAD (then MAMBACHECK_BIN must be the checker binary)
import json, os, re, subprocess, glob, sys
ALLBIN = _os.environ.get('MAMBACHECK_ALL', '')
env = dict(os.environ, MAMBA_REPO=REPO, GOFLAGS='-mod=mod', GOPROXY='off', GOSUMDB='off', GOTOOLCHAIN='local')
if ALLBIN:
    env['VERIF_DIR'] = os.environ.get('SCRATCH_VERIF', '/tmp/ev-scratch')
    os.makedirs(env['VERIF_DIR'] + '/evidence/violations', exist_ok=True)
    env['MAMBACHECK_CTL'] = '/verif/checker/testdata/ctl'
    import shutil as _sh
    _sh.copy('/verif/known_findings.txt', env['VERIF_DIR'] + '/known_findings.txt')
def sh(cmd, cwd):
    p = subprocess.run(cmd, shell=True, cwd=cwd, env=env, capture_output=True, text=True)
    return p.returncode, p.stdout + p.stderr
rc, st = sh('git status --short', REPO); assert st.strip() == '', '/repo is dirty'
only = [a for a in sys.argv[1:] if not a.startswith('--')]
ALLP = [c['property_id'] for c in json.load(open('/verif/MANIFEST.json'))['checks']]
rows = []
for d in sorted(glob.glob('/verif/seeded/*/')):
    name = os.path.basename(d.rstrip('/'))
    if only and name not in only: continue
    meta = json.load(open(d + 'meta.json'))
    prop = meta['property']
    rc, out = sh(f'git apply --check {d}patch.diff', REPO)
    threeway = False
    if rc != 0:
        rc, out = sh(f'git apply --3way --check {d}patch.diff', REPO); threeway = rc == 0
    if rc != 0:
        meta['check']['stale'] = 'patch does not apply to the current tree'
        rows.append((name, 'STALE', ''))
        json.dump(meta, open(d + 'meta.json', 'w'), indent=1)
        continue
    sh(f'git apply {"--3way " if threeway else ""}{d}patch.diff', REPO)
    others = []
    try:
        if ALLBIN:
            rc_all, out_all = sh(f'{ALLBIN} ALL quick', '/verif')
            chunks, chunk = {}, []
            for l in out_all.splitlines():
                if l.startswith('EXIT '):
                    _, p2, code = l.split()
                    chunks[p2] = (int(code), '\n'.join(chunk) + '\n')
                    chunk = []
                else:
                    chunk.append(l)
            rc_chk, out_chk = chunks.get(prop, (2, out_all))
            for p2, (rc2, out2) in chunks.items():
                if p2 != prop and rc2 == 1:
                    others.append({'property': p2, 'finding_keys': re.findall(r'\[([A-Z-]+:.*?)\] ', out2)[:3]})
        else:
          rc_chk, out_chk = sh(f'{RUNNER} {prop} quick', '/verif')
          if '--all' in sys.argv:
            for p2 in ALLP:
                if p2 == prop: continue
                rc2, out2 = sh(f'{RUNNER} {p2} quick', '/verif')
                if rc2 == 1:
                    others.append({'property': p2, 'finding_keys': re.findall(r'\[([A-Z-]+:.*?)\] ', out2)[:3]})
    finally:
        sh('git reset -q --hard HEAD && git clean -fdq', REPO)
        sh('git clean -fdq', REPO)
    keys = re.findall(r'\[([A-Z-]+:.*?)\] ', out_chk)
    detected = rc_chk == 1 and ('VIOLATION property=' + prop) in out_chk
    meta['check'] = {'command': f'./run.sh {prop} quick', 'exit_code': rc_chk, 'detected': detected, 'finding_keys': keys[:8]}
    if '--all' in sys.argv: meta['also_reported_by_other_checks'] = others
    json.dump(meta, open(d + 'meta.json', 'w'), indent=1)
    rows.append((name, 'caught' if detected else ('undecided' if rc_chk == 2 else 'missed'), '; '.join(keys[:2]) + ('   [other checks: ' + ', '.join(o['property'] for o in others) + ']' if others else '')))
rc, st = sh('git status --short', REPO); assert st.strip() == '', st
for r in rows: print('%-8s %-10s %s' % r)
