#!/usr/bin/env python3
"""usage: verify_seed_demo.py ID...   (VERIFY_REPO=<scratch worktree at /repo's HEAD>)
For each stored seed: the demo passes on the unchanged tree, the tree with the patch builds and
passes the suite, and the demo fails with the patch. Used after rebasing seeds onto a new HEAD."""
import json, os, subprocess, sys, shutil
REPO = os.environ.get('VERIFY_REPO', '/tmp/wt-dev')
env = dict(os.environ, GOFLAGS='-mod=mod', GOPROXY='off', GOSUMDB='off', GOTOOLCHAIN='local')
def sh(cmd, cwd=REPO, timeout=600):
    try:
        p = subprocess.run(cmd, shell=True, cwd=cwd, env=env, capture_output=True, text=True, timeout=timeout)
        return p.returncode, p.stdout + p.stderr
    except subprocess.TimeoutExpired:
        return 124, 'TIMEOUT'
rc, st = sh('git status --short'); assert st.strip() == '', REPO + ' dirty'
for sid in sys.argv[1:]:
    d = f'/verif/seeded/{sid}/'
    meta = json.load(open(d + 'meta.json'))
    demo = meta['demo']
    dst = os.path.join(REPO, demo['place_in'], 'zz_seeded_demo_test.go')
    res = {}
    try:
        shutil.copy(d + demo['file'], dst)
        rc, out = sh(demo['run'], timeout=300); res['demo_clean'] = rc == 0
        os.remove(dst)
        rc, out = sh(f'git apply {d}patch.diff'); res['applies'] = rc == 0
        if rc == 0:
            rc, out = sh('go build ./... && go test -vet=off -count=1 ./...', timeout=900); res['suite'] = rc == 0
            shutil.copy(d + demo['file'], dst)
            rc, out = sh(demo['run'], timeout=300); res['demo_fails'] = rc != 0
    finally:
        sh('git reset -q --hard HEAD && git clean -fdq')
    ok = res.get('demo_clean') and res.get('applies') and res.get('suite') and res.get('demo_fails')
    print(sid, 'OK' if ok else 'PROBLEM', res)
rc, st = sh('git status --short'); assert st.strip() == '', st
