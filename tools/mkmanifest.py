#!/usr/bin/env python3
"""Regenerates /verif/MANIFEST.json from the table below (keeps it schema-valid)."""
import json, sys

NA = {
 "C01": "Extensional correctness of an individualisation-refinement search with two pruning heuristics; depends on group-theoretic invariants of runtime partitions/certificates. No clause has a structural form that is a necessary condition and would not also fire on behaviour-preserving edits (DESIGN.md §2 C01). Static analysis gives no verdict.",
 "C02": "Exactness of orbits/generators is a value-level property of the same search; the only structural candidate (Reset re-initialises every field) is not a necessary condition (age returns to 0 by itself). See DESIGN.md §2 C02.",
 "C03": "Set equality of the yielded graphs with the isomorphism classes is a property of orbit computation and canonical deletion on runtime graphs; the sharding clause is arithmetic on runtime indices. See DESIGN.md §2 C03.",
 "C11": "Unreachability of the two panics and correctness of the planarity verdict rest on the DMP invariant (every fragment has an admissible face), a semantic invariant of runtime face/fragment sets out of reach of the prover. See DESIGN.md §2 C11.",
}

CLAIMS = {
 "C09": dict(design="§2 C09", technique="E-EFF identification of returned witness slices + E-PROVE reachability of their populating stores and of a zero allocation length; E-EFF read-only graph argument; E-EFF + CFG immutability of slices sent on the result channel (EMIT)",
   text="Narrow structural necessary condition of 'come with valid witnesses': a witness slice that ChromaticIndex, ChromaticNumber/dfsDsatur, GreedyColor, IsKColorable or Degeneracy allocates and returns is not allocated with provably zero length and has at least one statically reachable populating store; none of the invariant functions writes its graph argument; a clique that AllMaximalCliques has sent on its result channel is never written again (every write that may reach a sent backing array goes through the current iteration's own allocation). Optimality, exactness and properness are not decided.",
   note="A witness whose every store is dead or whose length is provably 0 is wrong for every non-empty input."),
 "C05": dict(design="§2 C05", technique="CFG path rule over E-EFF write attribution (COUPLE), exact SSA pattern rule for single-edge methods, E-EFF freshness/purity, E-PROVE packed-triangle discipline (TRI), use-site rule for adjacency bytes (EDGEBYTE), row-ownership rule (ROWS)",
   text="Decides three structural clauses for every edit history: adjacency storage is never changed on a path that leaves NumberOfEdges or DegreeSequence unwritten, and the single-edge methods update count and both endpoint degrees with the matching sign; Copy/InducedSubgraph results share no memory with their source and write nothing reachable from it; every index into DenseGraph.Edges in the representation's own methods is the lower-triangle cell of the two vertices named (0 <= I < J proved); adjacency bytes of an existing graph are only tested against zero (never used numerically); every SparseGraph row owns its backing array and is never the caller's own slice. Does not decide agreement with the adjacency-set model.",
   note="Vertex numbers passed as parameters are non-negative; data-derived operands are recorded as preconditions, not judged."),
 "C06": dict(design="§2 C06", technique="E-EFF freshness of constructors, typed-AST composite-literal completeness, E-PROVE packed-triangle discipline over all generators/transformations/decoders, E-EFF ownership (OWNER) and statelessness of views (VIEW), use-site rule for adjacency bytes (EDGEBYTE), edge/degree pairing (DEGSYNC), E-PROVE range of hand-filled counts (COUNTS), three-valued evaluation of IsEdge on the diagonal (IRREFLEXIVE)",
   text="Decides: NewDense/NewSparse keep no caller memory (the aliasing clause); no DenseGraph/SparseGraph literal with adjacency leaves out its counts; every hand-written index into packed-triangle storage in generators, transformations, decoders and the search is a lower-triangle cell for all accepted parameter values (closed form with 0 <= I < J proved, running index, or sweep); only SparseGraph's own edit methods write an existing SparseGraph; the live views keep no state; no transformation uses the numeric value of an input adjacency byte; an edge recorded at cell (I,J) is counted into the returned degree sequence at exactly I and J; every SparseGraph row owns its backing array; hand-filled NumberOfEdges is >= 0 and hand-filled degrees lie in [0, n-1] for every accepted argument; no IsEdge implementation can answer true for i == j. Does not decide that each family has exactly its defining edges, nor full agreement of hand-filled counts with adjacency.",
   note="Data-derived operands (Pruefer codes, Multicode bytes, part sizes) are recorded as preconditions; constructor classification is informational."),
 "C07": dict(design="§2 C07", technique="constant/shape extraction from SSA of the four codecs compared against the format definition (header stores, header sums, thresholds, markers, bit-packing roles, padding threshold); edge/degree pairing in the Multicode decoder (DEGSYNC); E-PROVE no-wrap obligation on loop-carried unsigned counters (UWRAP)",
   text="Decides that the four hand-written copies of the graph6/sparse6 size header agree with the published format (thresholds 62/258047/2^36-1, marker bytes, sextet shifts, mask and offset, header lengths, data offsets) and that the bit-packing constants (6 bits per byte, msb first, offset 63, range [63,126] checked before decoding, k = bits(n-1)) are the format's in every codec - including the long-header branches no test executes; no codec uses the numeric value of an adjacency byte; sparse6's 0-bit padding exception applies from exactly k+1 padding bits; the optional header is removed as a prefix, never as a character set; the Multicode decoder counts each edge at its own two end points; no loop-carried unsigned counter of a codec can wrap below zero. Does not decide round-trip equality.",
   note="Format constants transcribed from formats.txt; unrecognised shapes are 'undecided' and fail."),
 "C08": dict(design="§2 C08", technique="goal-directed inductive bounds prover on go/ssa (E-PROVE): index/slice/make/divisor/shift obligations, ranking functions for loops, callee panic preconditions refuted at call sites",
   text="Decides, for every input string, that Graph6Decode and Sparse6Decode themselves never index out of range, never hit an explicit or callee panic, and terminate: every bounds obligation is discharged by the prover from dominating guards (polynomial normal form, division facts, phi-induction), every loop has a ranking function, every callee's explicit panic is refuted at the call site or its stated range contract is proved. Does not decide which malformed strings are rejected, nor the re-encode/decode clause.",
   note="Integer arithmetic does not overflow for declared n <= 4096; AddEdge(i,j) is panic-free for 0 <= i,j < N (trusted contract); listed fmt/errors/strings/bits functions do not panic."),
 "C14": dict(design="§2 C14", technique="emission/consumption automata: encoder and decoder SSA CFGs as NFAs over wire tokens, language inclusion by subset construction; constant agreement of the varint pair",
   text="Decides that GobEncode and GobDecode agree on the kind (varint vs raw byte) and order of every field of every record, for every automaton shape: L(encoder) ⊆ L(decoder) over tokens extracted from the code itself; plus the constant relations between encodeUint64 and decodeUint64 (threshold 127, prefix base, length cap, byte order); the decoder assigns every node field on every iteration (no stale state of a reused receiver); the encoded bytes reach no shared buffer. Does not decide behavioural identity of the decoded automaton.",
   note="Regular approximation: element counts are not compared; unrecognised output primitives are 'undecided' and fail."),
 "C18": dict(design="§2 C18", technique="SSA store-pattern rules on the parent-forest representation (ROOTLINK, COMPRESS) + E-EFF write scope",
   text="Decides two representation-level necessary conditions for every history: unions only ever link one Find result to the other or bump the surviving root's rank, and lookups only ever write the representative they return; lookups/Roots write nothing else. Does not decide the partition itself.",
   note="Find returns a root (value-level, not decided); a correct path-halving variant would be reported."),
 "C16": dict(design="§2 C16", technique="constant-table extraction checked with math/big against the arithmetic definition + SSA loop-shape recognition + E-PROVE overflow obligations",
   text="Decides 'exact or refuse, and refuse no earlier than necessary' for CoeffUint64/Coeff: all 289 Pascal cells and all 30 overflow thresholds are checked against their definition (k*C(T,k) <= 2^64-1 < k*C(T+1,k)), and the code is checked to have the loop shape and dominating guards those bounds are about; every other product/sum/unsigned difference in package comb must be bounded by the prover or be a checked-arithmetic idiom (no silent wrap in Coeffs, Rank, Unrank); the package writes no shared state (no memo). Does not decide that Rank/Unrank are inverse.",
   note="64-bit int/uint; math/big; the largest intermediate of acc*=(n-k+i); acc/=i is k*C(n,k) (argued in DESIGN.md)."),
 "C20": dict(design="§2 C20", technique="CFG path rule on go/ssa for error propagation of every write reaching the io.Writer + E-PROVE domain proof for the callback arguments",
   text="Decides the fault clause for every failure position: every direct write to w and the Flush of the tabwriter built on w has its error tested, the failure edge returns that error, no return precedes the test (buffered tabwriter cell writes are exempt with a stated reason); error-recording writer wrappers must not overwrite an earlier error and their error must be returned; and the weight callback is only ever called with 0 <= j < i < n. Does not decide the literal output text.",
   note="text/tabwriter buffers rows until Flush and returns the underlying write error from Flush."),
 "C04": dict(design="§2 C04", technique="exhaustive field classification + SSA data-flow (transfer) matching Save<->Load + gob type walk + E-EFF purity + E-EFF package-level-state rule for the search package (GLOBAL)",
   text="Structural half of resumability, for every save point: each GraphIterator/searchGraph field is classified (an unclassified field fails), every saved field flows iterator->record in Save and record->iterator in Load (graph restored field by field), cache fields are only ever nil after Load, every record field is exported and gob-encodable, Save writes nothing reachable from the iterator, the loaded iterator does not keep the reader, and no function of the search package writes or hands out package-level state (nothing can be shared between iterators, or between a record and its iterator, behind the caller's back). Does not decide equality of the resumed sequence.",
   note="encoding/gob round-trips exported fields; the scratch/cache classification table is trusted beyond its one-line reasons."),
 "C10": dict(design="§2 C10", technique="E-EFF read-only graph argument; E-PROVE capacity obligation on constant-length allocations under the vertex contract (MAKECAP); dominance/E-EFF rule that returned components passed through sort.Ints and were not written since (SORTED)",
   text="Narrow structural necessary conditions of 'the invariants equal their definitions for every graph': none of the eleven functions writes the graph it is given; an allocation with a constant non-zero length and a capacity written in terms of the order of the argument graph is within its capacity for every graph and vertex accepted (the function returns at all: ConnectedComponent on the one-vertex graph did not); the component ConnectedComponent returns and every component ConnectedComponents appends is sorted by a sort.Ints that nothing overwrites. Distances, blocks, articulation vertices, cycle counts and relabelling invariance are not decided.",
   note="Graph.N() is non-negative and stable on an unmodified graph; a vertex argument is a vertex of the graph."),
 "C12": dict(design="§2 C12", technique="CFG path rules on go/ssa (no write before error return; cut-set of order-check edges) + E-PROVE lifted precondition at call sites + E-EFF purity / who-writes + typed SSA rule against rune-wise iteration (BYTEWISE)",
   text="Decides: a rejected Add leaves the builder untouched (no receiver write on any path to an error return), the order check cannot be bypassed and admits neither duplicates nor smaller words (cut-set over bytes.Compare edge values), replaceOrRegister is never called on a childless node (precondition len(links)>=1 proved at all call sites), queries never write the automaton, and no function of the package walks a word rune-wise (range over a string, rune conversions), which would change labels >= 0x80. Does not decide accepted language, minimality or ranks.",
   note="bytes.Compare in {-1,0,1}; E-EFF may-write summaries; lazy Initialise is the one named exception."),
 "C13": dict(design="§2 C13", technique="E-EFF write summaries with module-restricted CHA for Searcher calls; per-instruction write attribution inside Search; CFG pairing rule for Step/Backstep passes against a tracking stack (BALANCE); E-PROVE range obligations on narrowing integer conversions in the search (NARROW)",
   text="Decides the structural part of 'a search leaves the Dawg unchanged and only Step/Backstep change a searcher': Search writes nothing reachable from the Dawg; AllowStep/AllowWord/Chosen of both searchers write nothing reachable from the receiver (including through shared slices of value receivers); inside Search only invoke Step/Backstep write searcher memory; every searcher receives as many Backstep as Step calls on every path to a return (tracking-stack argument); no link number, depth or count is converted to a narrower integer type unless proved to fit. Does not decide result set, order, ranks, or that one Backstep undoes one Step.",
   note="Closed world: searchers are the module's two implementations."),
 "C15": dict(design="§2 C15", technique="typed-AST permutation-assignment rule (SWAP) + E-PROVE cell distinctness + E-EFF field-writer scan",
   text="Structural necessary condition, decided for all inputs: every store into the permutation iterators' state slices is an in-place permutation of cells, and only Next writes them, so every yielded value is a rearrangement of the initial multiset; iterator constructors keep no caller slice. Does not decide completeness, uniqueness or order.",
   note="Callers do not modify the slice returned by Value(); go/types + go/ssa faithful; E-EFF may-write summaries."),
 "C17": dict(design="§2 C17", technique="interprocedural effect/alias summaries on go/ssa (PURE, RECEIVER-ONLY) + typed-AST permutation rule (SWAP) + CFG/E-PROVE mark-and-count consistency rule (MARKCOUNT)",
   text="Decides, for all inputs and histories, the sentence 'non-mutating functions leave their arguments untouched, mutators change only their receiver' (E-EFF write summaries), that results share no memory with arguments, that ints.Sort only permutes its slice, and that where Add marks cells of its scratch slice and counts them at several places the count equals the number of marks (each place knows the cell is unmarked). Does not decide that the results are the right sets or that Sort orders.",
   note="E-EFF is a sound may-write analysis within its model (no unsafe/reflect, stdlib effect table); append into spare capacity counts as a write."),
 "C19": dict(design="§2 C19", technique="whole-module effect analysis on go/ssa: global-state, goroutine/channel, read-only-query, retained-memory and close-on-all-paths rules",
   text="Race freedom by absence of shared mutable state, for all schedules at once: no function writes or leaks package-level memory, the module starts no goroutine and creates no channel, the named queries write nothing reachable from the shared value, constructors that keep caller memory are an explicit list and never write through it, AllMaximalCliques closes its channel on every path. Does not decide that shards partition the classes.",
   note="Closed-world CHA for module interfaces; user callbacks assumed not to share state; stdlib effect table."),
}

def main():
    props=[json.loads(l) for l in open('/verif/properties.jsonl')]
    checks=[]; na=[]
    for p in props:
        i=p["id"]
        if i in CLAIMS:
            c=CLAIMS[i]
            checks.append({
              "property_id": i,
              "quick_cmd": f"./run.sh {i} quick",
              "thorough_cmd": f"./run.sh {i} thorough",
              "evidence_file": f"/verif/evidence/{i}.json",
              "replay_cmd_template": f"./run.sh {i} --replay {{path}}",
              "engine": "mambacheck",
              "level_claimed": {"category":"other","text":c["text"],"design_ref":c["design"]},
              "level_note": c["note"],
              "technique": c["technique"],
            })
        else:
            na.append({"property_id":i,"reason":NA.get(i,"static check for this property is not registered yet (work in progress; see DESIGN.md)")})
    m={
     "version":1,
     "setup_cmd":"cd /verif/checker && GOFLAGS=-mod=mod GOPROXY=off GOSUMDB=off GOTOOLCHAIN=local GOWORK=off go build -o bin/mambacheck .",
     "hooks":{"guard":"verif","enable":"none needed: the checks analyse the source and never build or run /repo with hooks","baseline_off_cmd":"cd /repo && GOFLAGS=-mod=mod GOPROXY=off go test -vet=off -count=1 ./...","source_commits":[],"add_only":True},
     "engines":[{"name":"mambacheck","path":"checker/","serves_properties":sorted(CLAIMS),"kind_free_text":"repository-specific static analyser over go/packages + go/types + go/ssa: effect/alias summaries (E-EFF), CFG path rules (E-PATH), inductive bounds prover (E-PROVE), constant tables (E-CONST), wire automata (E-WIRE)"}],
     "checks":checks,
     "notes":"Static analysis only: every check inspects /repo's current source (type-checked syntax, go/ssa, CFG, call graph) and executes nothing from /repo. All claims are partial (level 'other'): each evidence file names the clauses decided and those not decided. See DESIGN.md.",
     "not_applicable":na,
    }
    json.dump(m,open('/verif/MANIFEST.json','w'),indent=1)
    print(len(checks),"checks,",len(na),"not applicable")
main()
