#!/bin/bash
# usage: tools/eval_seeded.sh <PROP> <worktree> <k> <demo-pkg-dir>
# 1. verifies in the scratch worktree that patch k compiles, passes the suite, and that the demo
#    fails with it and passes without;  2. applies it to /repo, runs ./run.sh PROP quick, reverts.
set -u
export GOFLAGS=-mod=mod GOPROXY=off GOSUMDB=off GOTOOLCHAIN=local
P=$1; WT=$2; K=$3; PKG=$4
S=$WT/_seeded
cd $WT && git checkout -q -- . && git clean -fdq -e _seeded
demo=$(ls $S/${K}_demo*_test.go 2>/dev/null | head -1)
echo "== $P change $K  demo=$demo pkg=$PKG"
cp $demo $WT/$PKG/zz_seeded_demo_test.go
name=$(grep -o 'func Test[A-Za-z0-9_]*' $demo | head -1 | sed 's/func //')
echo "-- demo on HEAD:"; (cd $WT && go test -vet=off -count=1 -run 'TestSeeded|'$name ./$PKG 2>&1 | tail -3)
git apply $S/$K.diff || { echo "PATCH DOES NOT APPLY"; exit 1; }
echo "-- build + suite with change:"; rm $WT/$PKG/zz_seeded_demo_test.go; (cd $WT && go build ./... && go test -vet=off -count=1 ./... 2>&1 | grep -v "no test files" | tail -7)
cp $demo $WT/$PKG/zz_seeded_demo_test.go
echo "-- demo with change:"; (cd $WT && go test -vet=off -count=1 -run 'TestSeeded|'$name ./$PKG 2>&1 | tail -6)
rm -f $WT/$PKG/zz_seeded_demo_test.go; git checkout -q -- .
echo "-- my check on /repo with change:"
cd /repo && git apply $S/$K.diff && (cd /verif && ./run.sh $P quick 2>&1 | grep -v "^$P [A-Z-]* *instances" | cut -c1-330 | head -12); git -C /repo checkout -q -- .
git -C /repo status --short | head -3
