#!/bin/bash
# usage: keep_round10.sh PROP [OFFSET]   -> moves /tmp/wt10-PROP to the current /repo HEAD, evaluates
# /tmp/wt10-PROP/_seeded/{1,2} and stores them as PROP-9, PROP-10. A patch written against an
# older HEAD is re-based with a 3-way apply when it no longer applies cleanly.
P=$1; OFF=${2:-$(ls /verif/seeded | grep "^$P-" | sed "s/.*-//" | sort -n | tail -1)}; WT=/tmp/wt10-$P
HEAD=$(git -C /repo rev-parse HEAD)
git -C $WT checkout -q -- . ; git -C $WT checkout -q --detach $HEAD || exit 1
for k in 1 2; do
  demo=$(ls $WT/_seeded/${k}_demo*_test.go 2>/dev/null | head -1)
  [ -z "$demo" ] && { echo "$P-$k: no demo test file"; continue; }
  if ! git -C $WT apply --check $WT/_seeded/$k.diff 2>/dev/null; then
    if git -C $WT apply --3way $WT/_seeded/$k.diff 2>/dev/null; then
      git -C $WT diff HEAD -- . ':(exclude)_seeded' > $WT/_seeded/$k.rebased.diff
      git -C $WT reset -q --hard HEAD
      cp $WT/_seeded/$k.rebased.diff $WT/_seeded/$k.diff
      echo "$P-$k: patch re-based onto $HEAD"
    else
      git -C $WT reset -q --hard HEAD
      echo "$P-$k: patch does not apply to $HEAD, skipped"; continue
    fi
  fi
  pk=$(grep -m1 '^package ' $demo | awk '{print $2}' | sed 's/_test$//')
  case $pk in search) dir=graph/search;; *) dir=$pk;; esac
  summary=$(grep -v '^\s*$' $WT/_seeded/$k.md | grep -v '^#' | head -2 | tr '\n' ' ' | cut -c1-300)
  /verif/tools/keep_seeded.py $P $WT $k $dir "$summary" "see author_notes.md" $((k+OFF)) 2>&1 | tail -5
done
