#!/usr/bin/env python3
"""usage: eval_refactor.py DIR   (DIR holds 1.diff..N.diff of behaviour-preserving refactors)
Applies each to /repo, runs every registered quick check, reverts; reports any non-zero exit."""
import json, os, subprocess, sys, glob
env = dict(os.environ, GOFLAGS='-mod=mod', GOPROXY='off', GOSUMDB='off', GOTOOLCHAIN='local')
def sh(cmd, cwd):
    p = subprocess.run(cmd, shell=True, cwd=cwd, env=env, capture_output=True, text=True)
    return p.returncode, p.stdout + p.stderr
d = sys.argv[1]
RUNNER = os.environ.get('MAMBACHECK_BIN', './run.sh')
REPO = os.environ.get('EVAL_REPO', '/repo')
env['MAMBA_REPO'] = REPO
ALL = os.environ.get('MAMBACHECK_ALL', '')  # path of a checker binary: use its ALL mode
if ALL:
    env['VERIF_DIR'] = os.environ.get('SCRATCH_VERIF', '/tmp/ev-scratch')
    os.makedirs(env['VERIF_DIR'] + '/evidence/violations', exist_ok=True)
    env['MAMBACHECK_CTL'] = '/verif/checker/testdata/ctl'
    import shutil as _sh
    _sh.copy('/verif/known_findings.txt', env['VERIF_DIR'] + '/known_findings.txt')
props = [c['property_id'] for c in json.load(open('/verif/MANIFEST.json'))['checks']]
rc, st = sh('git status --short', REPO); assert st.strip() == '', REPO + ' dirty'
for diff in sorted(glob.glob(d + '/*.diff')):
    rc, out = sh(f'git apply --check {diff}', REPO)
    threeway = False
    if rc != 0:
        rc, out = sh(f'git apply --3way --check {diff}', REPO); threeway = rc == 0
    if rc != 0:
        print(os.path.basename(diff), 'DOES NOT APPLY'); continue
    sh(f'git apply {"--3way " if threeway else ""}{diff}', REPO)
    try:
        rcb, outb = sh('go build ./...', REPO)
        bad = []
        if ALL:
            # one process for all properties (development aid; evidence goes to a scratch directory)
            rc, out = sh(f'{ALL} ALL quick', '/verif')
            chunk = []
            for l in out.splitlines():
                if l.startswith('EXIT '):
                    _, p, code = l.split()
                    if code != '0':
                        lines = [x for x in chunk if x.startswith(('VIOLATION','BROKEN','ANALYSIS')) or '[' in x and ']' in x and ':' in x and not x.startswith(p+' ')]
                        bad.append((p, int(code), lines[:6]))
                    chunk = []
                else:
                    chunk.append(l)
            if 'EXIT ' not in out:
                bad.append(('ALL', rc, out.splitlines()[-6:]))
        else:
          for p in props:
            rc, out = sh(f'{RUNNER} {p} quick', '/verif')
            if rc != 0:
                lines = [l for l in out.splitlines() if l.startswith(('VIOLATION','BROKEN','ANALYSIS')) or '[' in l and ']' in l and ':' in l and not l.startswith(p+' ')]
                bad.append((p, rc, lines[:6]))
    finally:
        sh('git reset -q --hard HEAD && git clean -fdq', REPO)
    print(os.path.basename(diff), 'build_ok' if rcb == 0 else 'BUILD FAILS', 'ALL CHECKS PASS' if not bad else '')
    for p, rc, lines in bad:
        print('   ', p, 'exit', rc)
        for l in lines: print('       ', l[:260])
rc, st = sh('git status --short', REPO); assert st.strip() == '', st
