#!/bin/bash
# usage: keep_round2.sh PROP   -> evaluates /tmp/wt2-PROP/_seeded/{1,2} and stores them as PROP-3, PROP-4
P=$1; WT=/tmp/wt2-$P
for k in 1 2; do
  demo=$(ls $WT/_seeded/${k}_demo*_test.go 2>/dev/null | head -1)
  [ -z "$demo" ] && { echo "$P-$k: no demo test file"; continue; }
  pk=$(grep -m1 '^package ' $demo | awk '{print $2}' | sed 's/_test$//')
  case $pk in search) dir=graph/search;; *) dir=$pk;; esac
  summary=$(grep -v '^\s*$' $WT/_seeded/$k.md | grep -v '^#' | head -2 | tr '\n' ' ' | cut -c1-300)
  /verif/tools/keep_seeded.py $P $WT $k $dir "$summary" "see author_notes.md" $((k+2)) 2>&1 | tail -5
done
