#!/usr/bin/env python3
"""usage: keep_seeded.py PROP WORKTREE K PKGDIR 'summary' 'needs'
Confirms a seeded change in the scratch worktree (compiles, suite passes, demo fails with it and
passes without), runs ./run.sh PROP quick against /repo with the change applied (then reverts),
and stores patch, demo and meta.json under /verif/seeded/PROP-K/."""
import json, os, shutil, subprocess, sys, re, glob
prop, wt, k, pkg, summary, needs = sys.argv[1:7]
outk = sys.argv[7] if len(sys.argv) > 7 else k
env = dict(os.environ, GOFLAGS='-mod=mod', GOPROXY='off', GOSUMDB='off', GOTOOLCHAIN='local')
def sh(cmd, cwd):
    p = subprocess.run(cmd, shell=True, cwd=cwd, env=env, capture_output=True, text=True)
    return p.returncode, (p.stdout + p.stderr)
S = f'{wt}/_seeded'
demo = sorted(glob.glob(f'{S}/{k}_demo*_test.go'))[0]
sh('git checkout -q -- . && git clean -fdq -e _seeded', wt)
tname = '|'.join(sorted(set(re.findall(r'func (Test\w+)', open(demo).read()))))
dst = f'{wt}/{pkg}/zz_seeded_demo_test.go'
def rundemo():
    shutil.copy(demo, dst)
    rc, out = sh(f"go test -vet=off -count=1 -run '{tname}' ./{pkg}", wt)
    os.remove(dst)
    return rc, out
rc_head, out_head = rundemo()
rc, out = sh(f'git apply {S}/{k}.diff', wt)
assert rc == 0, out
rc_build, out_build = sh('go build ./... && go test -vet=off -count=1 ./...', wt)
rc_mut, out_mut = rundemo()
sh('git checkout -q -- . && git clean -fdq -e _seeded', wt)
# my check
REPO = os.environ.get('KEEP_REPO', '/repo')  # a scratch worktree at /repo's HEAD while /repo is busy
rc, out = sh(f'git apply {S}/{k}.diff', REPO)
assert rc == 0, out
if REPO == '/repo':
    rc_chk, out_chk = sh(f'./run.sh {prop} quick', '/verif')
else:
    os.makedirs('/tmp/ev-keep/evidence/violations', exist_ok=True)
    shutil.copy('/verif/known_findings.txt', '/tmp/ev-keep/known_findings.txt')
    rc_chk, out_chk = sh(f'VERIF_DIR=/tmp/ev-keep MAMBACHECK_CTL=/verif/checker/testdata/ctl MAMBA_REPO={REPO} /verif/checker/bin/mambacheck {prop} quick', '/verif')
sh('git checkout -q -- .', REPO)
rc, st = sh('git status --short', REPO); assert st.strip() == '', st
keys = re.findall(r'\[([A-Z-]+:[^\]]+)\]', out_chk)
d = f'/verif/seeded/{prop}-{outk}'
os.makedirs(d, exist_ok=True)
shutil.copy(f'{S}/{k}.diff', f'{d}/patch.diff')
shutil.copy(demo, f'{d}/demo_test.go')
if os.path.exists(f'{S}/{k}.md'): shutil.copy(f'{S}/{k}.md', f'{d}/author_notes.md')
detected = rc_chk == 1 and 'VIOLATION property=' + prop in out_chk
meta = {
 'property': prop, 'summary': summary, 'needs_to_manifest': needs,
 'demo': {'file': 'demo_test.go', 'place_in': pkg, 'run': f"go test -vet=off -count=1 -run '{tname}' ./{pkg}"},
 'confirmed': {
   'demo_passes_on_unchanged_tree': rc_head == 0,
   'compiles_and_suite_passes_with_change': rc_build == 0,
   'demo_fails_with_change': rc_mut != 0,
   'demo_failure_excerpt': [l for l in out_mut.splitlines() if 'zz_seeded' in l or 'panic' in l][:4],
 },
 'what_i_ran': ['git apply patch.diff in a scratch worktree', 'go build ./... && go test -vet=off -count=1 ./...', 'the demo with and without the change', f'git -C /repo apply patch.diff; ./run.sh {prop} quick; git -C /repo checkout -- .'],
 'check': {'command': f'./run.sh {prop} quick', 'exit_code': rc_chk, 'detected': detected, 'finding_keys': keys[:8]},
}
json.dump(meta, open(f'{d}/meta.json', 'w'), indent=1)
print(f"{prop}-{outk}: head_demo_ok={rc_head==0} suite_ok={rc_build==0} demo_fails={rc_mut!=0} check_exit={rc_chk} detected={detected}")
for kk in keys[:6]: print('    ', kk)
if not detected:
    print(out_chk[-600:])
