#!/usr/bin/env python3
"""Regenerates the table of DESIGN.md §10.5 from /verif/seeded/*/meta.json (after recheck_seeded.py)."""
import json, glob, re, os
rows = []
caught = 0
elsewhere = 0
dirs = sorted(glob.glob('/verif/seeded/*/'), key=lambda d: (d.split('/')[-2].split('-')[0], int(d.split('/')[-2].split('-')[1])))
for d in dirs:
    name = d.rstrip('/').split('/')[-1]
    m = json.load(open(d + 'meta.json'))
    summ = re.sub(r'\s+', ' ', m.get('summary', '')).replace('|', '/')[:150]
    chk = m.get('check', {})
    others = [o['property'] for o in m.get('also_reported_by_other_checks', [])]
    if chk.get('stale'):
        verdict = 'stale (patch no longer applies)'
    elif chk.get('detected'):
        caught += 1
        rules = sorted({k.split(':')[0] for k in chk.get('finding_keys', [])})
        verdict = 'caught by ' + ', '.join(rules)
    elif chk.get('exit_code') == 2:
        verdict = 'undecided (exit 2: shape not recognised)'
    else:
        verdict = 'missed (value-level)'
        if others:
            elsewhere += 1
    if others:
        verdict += '; also reported by ' + ', '.join(others)
    rows.append(f'| {name} | {summ} | {verdict} |')
table = '| id | change | verdict of `./run.sh <property> quick` |\n|---|---|---|\n' + '\n'.join(rows) + '\n'
p = '/verif/DESIGN.md'
s = open(p).read()
i = s.index('| id | change | verdict of `./run.sh <property> quick` |')
j = s.index('### 10.6')
s = s[:i] + table + '\n' + s[j:]
open(p, 'w').write(s)
print(f'{caught} of {len(rows)} caught by their own property, {elsewhere} more only by another property')
